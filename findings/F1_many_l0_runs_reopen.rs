use lsm_tree::{get_tmp_folder, AbstractTree, Config, SequenceNumberCounter};

#[test]
fn probe_many_l0_runs_reopen() -> lsm_tree::Result<()> {
    let folder = get_tmp_folder();
    let seqno = SequenceNumberCounter::default();
    {
        let tree = Config::new(&folder, seqno.clone(), SequenceNumberCounter::default()).open()?;
        for i in 0..300u32 {
            tree.insert("a", i.to_be_bytes(), seqno.next());
            tree.flush_active_memtable(0)?;
        }
        eprintln!("l0 runs = {}, tables = {}", tree.l0_run_count(), tree.table_count());
        assert_eq!(&299u32.to_be_bytes()[..], &*tree.get("a", u64::MAX)?.unwrap());
    }
    let tree = Config::new(&folder, seqno.clone(), SequenceNumberCounter::default()).open();
    match &tree {
        Ok(t) => { eprintln!("reopen ok: l0 runs = {}, tables = {}, a = {:?}", t.l0_run_count(), t.table_count(), t.get("a", u64::MAX)?); }
        Err(e) => eprintln!("reopen failed: {e:?}"),
    }
    let tree = tree?;
    assert_eq!(300, tree.table_count());
    assert_eq!(&299u32.to_be_bytes()[..], &*tree.get("a", u64::MAX)?.unwrap());
    Ok(())
}
