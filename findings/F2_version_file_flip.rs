use lsm_tree::{get_tmp_folder, AbstractTree, Config, SequenceNumberCounter};

#[test]
fn probe_version_file_flip() -> lsm_tree::Result<()> {
    let folder = get_tmp_folder();
    let seqno = SequenceNumberCounter::default();
    {
        let tree = Config::new(&folder, seqno.clone(), SequenceNumberCounter::default()).open()?;
        tree.insert("a", "v", seqno.next()); // seqno 0
        tree.flush_active_memtable(0)?;
        assert!(tree.get("a", 3)?.is_some());
        eprintln!("hi seqno before = {:?}", tree.get_highest_persisted_seqno());
    }
    let vfile = folder.path().join("v1");
    let mut bytes = std::fs::read(&vfile)?;
    eprintln!("v1 len = {}, bytes[0..60] = {:?}", bytes.len(), &bytes[..60.min(bytes.len())]);
    bytes[40] ^= 5;
    std::fs::write(&vfile, &bytes)?;
    let tree = Config::new(&folder, seqno.clone(), SequenceNumberCounter::default()).open();
    match tree {
        Err(e) => eprintln!("reopen failed (good): {e:?}"),
        Ok(t) => {
            eprintln!("reopen OK; get(a,3) = {:?}; hi seqno = {:?}", t.get("a", 3)?, t.get_highest_persisted_seqno());
            assert!(t.get("a", 3)?.is_some(), "silently different visibility");
        }
    }
    Ok(())
}
