use lsm_tree::{get_tmp_folder, AbstractTree, Config, SeqNo, SequenceNumberCounter};

// single-delete discipline respected: insert, weak delete, insert, weak delete
fn run(weak: bool) -> lsm_tree::Result<Option<lsm_tree::UserValue>> {
    let folder = get_tmp_folder();
    let tree = Config::new(folder.path(), SequenceNumberCounter::default(), SequenceNumberCounter::default()).open()?;
    tree.insert("a", "v0", 0);
    tree.flush_active_memtable(0)?;
    if weak { tree.remove_weak("a", 1); } else { tree.remove("a", 1); }
    tree.insert("a", "v2", 2);
    if weak { tree.remove_weak("a", 3); } else { tree.remove("a", 3); }
    tree.flush_active_memtable(100)?;
    tree.get("a", SeqNo::MAX)
}

#[test]
fn weak_delete_behaves_like_delete_p1() -> lsm_tree::Result<()> {
    assert!(run(false)?.is_none(), "strong delete");
    assert!(run(true)?.is_none(), "weak delete: key came back");
    Ok(())
}

fn run_p2(weak: bool) -> lsm_tree::Result<Option<lsm_tree::UserValue>> {
    use lsm_tree::compaction::{MoveDown, PullDown};
    use std::sync::Arc;
    let folder = get_tmp_folder();
    let tree = Config::new(folder.path(), SequenceNumberCounter::default(), SequenceNumberCounter::default()).open()?;
    tree.insert("a", "v2", 2);
    tree.flush_active_memtable(0)?;
    tree.compact(Arc::new(MoveDown(0, 6)), 0)?;
    if weak { tree.remove_weak("a", 3); } else { tree.remove("a", 3); }
    tree.insert("a", "v4", 4);
    tree.flush_active_memtable(100)?;
    if weak { tree.remove_weak("a", 5); } else { tree.remove("a", 5); }
    tree.flush_active_memtable(100)?;
    tree.compact(Arc::new(PullDown(0, 1)), 100)?;
    tree.get("a", SeqNo::MAX)
}

#[test]
fn weak_delete_behaves_like_delete_p2() -> lsm_tree::Result<()> {
    assert!(run_p2(false)?.is_none(), "strong delete");
    assert!(run_p2(true)?.is_none(), "weak delete: key came back");
    Ok(())
}
