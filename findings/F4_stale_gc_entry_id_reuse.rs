// NOT a seeded defect: this fails on the UNMODIFIED baseline (HEAD 59632e4).
// with_dropped() leaves the gc_stats entry of a blob file it removed (never pruned), and
// BlobTree::open() restarts the blob file id counter at max(existing)+1, so after a reopen a
// freshly flushed blob file can reuse the id, inherit the stale entry, be considered dead
// (same total bytes) and get dropped by the next compaction although it is referenced.
use lsm_tree::{get_tmp_folder, AbstractTree, Config, KvSeparationOptions, SeqNo, SequenceNumberCounter};

#[test]
fn side_stale_entry_id_reuse() -> lsm_tree::Result<()> {
    let folder = get_tmp_folder();
    let path = folder.path();
    let big = b"a".repeat(5_000);
    let big2 = b"b".repeat(5_000);
    {
        let tree = Config::new(path, SequenceNumberCounter::default(), SequenceNumberCounter::default())
            .with_kv_separation(Some(KvSeparationOptions::default().compression(lsm_tree::CompressionType::None)))
            .open()?;
        tree.insert("k", &big, 0);
        tree.flush_active_memtable(0)?;
        tree.drop_range::<&[u8], _>(..)?;
        assert_eq!(0, tree.blob_file_count());
    }
    {
        let tree = Config::new(path, SequenceNumberCounter::default(), SequenceNumberCounter::default())
            .with_kv_separation(Some(KvSeparationOptions::default().compression(lsm_tree::CompressionType::None)))
            .open()?;
        tree.insert("k2", &big2, 10);
        tree.flush_active_memtable(0)?;
        tree.major_compact(u64::MAX, 0)?;
        assert_eq!(1, tree.blob_file_count()); // fails on baseline: 0
        assert_eq!(&*tree.get("k2", SeqNo::MAX)?.unwrap(), &*big2);
    }
    Ok(())
}
