use lsm_tree::{get_tmp_folder, AbstractTree, Config, KvSeparationOptions, SeqNo, SequenceNumberCounter};

#[test]
fn stale_bytes_after_table_drop() -> lsm_tree::Result<()> {
    let folder = get_tmp_folder();
    let big = b"x".repeat(5_000);
    let tree = Config::new(folder.path(), SequenceNumberCounter::default(), SequenceNumberCounter::default())
        .with_kv_separation(Some(KvSeparationOptions::default().compression(lsm_tree::CompressionType::None)))
        .data_block_size_policy(lsm_tree::config::BlockSizePolicy::all(1))
        .open()?;
    tree.insert("a", &big, 0);
    tree.insert("m", &big, 1);
    tree.insert("z", &big, 2);
    tree.flush_active_memtable(0)?;
    assert_eq!(1, tree.blob_file_count());
    // overwrite "a": after compaction the old blob of "a" is garbage in blob file #0
    tree.insert("a", &big, 3);
    tree.flush_active_memtable(0)?;
    tree.major_compact(1, SeqNo::MAX)?; // tiny target size: one table per key
    eprintln!("tables = {}, blob files = {}, stale = {}", tree.table_count(), tree.blob_file_count(), tree.stale_blob_bytes());
    let one = tree.stale_blob_bytes();
    assert!(one >= 5_000);
    assert!(tree.table_count() >= 3);
    // drop exactly the table holding "m": its blob (same size as the old "a") becomes garbage too
    tree.drop_range("m"..="m")?;
    assert!(tree.get("m", SeqNo::MAX)?.is_none());
    assert!(tree.get("z", SeqNo::MAX)?.is_some());
    eprintln!("after drop: tables = {}, blob files = {}, stale = {}", tree.table_count(), tree.blob_file_count(), tree.stale_blob_bytes());
    assert_eq!(2 * one, tree.stale_blob_bytes(), "stale_blob_bytes must count both garbage blobs");
    Ok(())
}
