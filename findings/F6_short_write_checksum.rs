// F6: ChecksummedWriter::write fed the *whole* buffer to its hasher although the inner writer may accept only a
// prefix (std::io::Write::write is allowed to do so, and write_all retries with the rest): the reported checksum then
// no longer is the checksum of the bytes that were written, so a block header / table file / blob file / version file
// written through it fails its checksum on the next read although nothing is corrupted.
use lsm_tree::checksum::ChecksummedWriter;
use std::io::Write;

/// a legal io::Write that accepts at most 3 bytes per call
struct Short(Vec<u8>);
impl Write for Short {
    fn write(&mut self, buf: &[u8]) -> std::io::Result<usize> {
        let n = buf.len().min(3);
        self.0.extend_from_slice(&buf[..n]);
        Ok(n)
    }
    fn flush(&mut self) -> std::io::Result<()> {
        Ok(())
    }
}

#[test]
fn checksum_covers_exactly_the_bytes_written() -> std::io::Result<()> {
    let data = b"hello world, this is more than three bytes";

    let mut full = ChecksummedWriter::new(Vec::new());
    full.write_all(data)?;

    let mut short = ChecksummedWriter::new(Short(Vec::new()));
    short.write_all(data)?;

    // both sinks received the same bytes ...
    assert_eq!(&full.inner_mut()[..], &short.inner_mut().0[..]);
    // ... so both checksums must agree
    assert_eq!(full.checksum(), short.checksum(), "checksum must be that of the bytes written");
    Ok(())
}
