// F8: a blob file created by a flush is fsynced, but the `blobs` folder that holds its directory entry is not,
// before the version naming the blob file is published.  Run under strace (see findings/F8_blob_dir_not_synced.sh).
use lsm_tree::{AbstractTree, SeqNo, SequenceNumberCounter};

#[test]
fn f8_flush_blob_tree() -> lsm_tree::Result<()> {
    let dir = std::env::var("F8_DIR").expect("F8_DIR");
    let tree = lsm_tree::Config::new(&dir, SequenceNumberCounter::default(), SequenceNumberCounter::default())
        .with_kv_separation(Some(Default::default()))
        .open()?;
    tree.insert("big", b"neptune!".repeat(1_000), 0);
    eprintln!("F8-FLUSH-BEGIN");
    tree.flush_active_memtable(0)?;
    eprintln!("F8-FLUSH-END");
    assert_eq!(1, tree.blob_file_count());
    assert!(tree.get("big", SeqNo::MAX)?.is_some());
    Ok(())
}

/// phase 2: open the directory again (after the script has put it into a state a crash may leave)
#[test]
fn f8_reopen() {
    let dir = std::env::var("F8_DIR").expect("F8_DIR");
    let r = lsm_tree::Config::new(&dir, SequenceNumberCounter::default(), SequenceNumberCounter::default())
        .with_kv_separation(Some(Default::default()))
        .open();
    match r {
        Ok(tree) => {
            assert!(tree.get("big", SeqNo::MAX).expect("read").is_some(), "flushed value lost");
            eprintln!("F8-REOPEN-OK");
        }
        Err(e) => { eprintln!("F8-REOPEN-FAILED: {e:?}"); panic!("directory does not open after crash: {e:?}"); }
    }
}
