#!/bin/bash
# F8: BlobTree flush fsyncs the new blob file but not the `blobs` folder holding its directory entry before the version naming it
# is published.  Usage: run.sh <checkout of lsm-tree>   (a scratch copy; the test file is copied into its tests/ folder)
# 1. runs a flush of a key-value separated tree under strace and lists, per file created, whether its folder was fsynced
#    between the creation and the rename that publishes `current`;
# 2. puts the directory into a state a power loss may leave under POSIX (entries of files whose folder was not fsynced after
#    their creation are gone) and reopens it.
# exit 0: every created file's folder was synced before publish and the reopen succeeds; exit 1: defect shown.
set -u
src=${1:?checkout}; here=$(cd $(dirname $0) && pwd)
cp $here/f8_blob_dir_fsync.rs $src/tests/f8_blob_dir_fsync.rs
cd $src && CARGO_NET_OFFLINE=true cargo test --offline --test f8_blob_dir_fsync --no-run 2>&1 | tail -1
bin=$(ls -t target/debug/deps/f8_blob_dir_fsync-* | grep -v '\.d$' | head -1)
d=$(mktemp -d /var/tmp/f8data.XXXX); tr=$(mktemp /var/tmp/f8trace.XXXX)
F8_DIR=$d strace -f -y -e trace=openat,fsync,fdatasync,rename,renameat,renameat2,write -o $tr $bin f8_flush_blob_tree --exact --nocapture >/dev/null 2>&1
python3 - $tr $d <<'PY'
import re, sys, os
tr, d = sys.argv[1], sys.argv[2]
lines = open(tr).read().split("\n")
beg = next(i for i, l in enumerate(lines) if "F8-FLUSH-BEGIN" in l)
end = next(i for i, l in enumerate(lines) if "F8-FLUSH-END" in l)
created = {}   # path -> line index
synced_dirs = {}  # dir -> list of line indexes
publish = None
for i in range(beg, end):
    l = lines[i]
    m = re.search(r'openat\([^,]+, "([^"]+)", [^)]*O_CREAT', l)
    if m and m.group(1).startswith(d) and "/.tmp" not in m.group(1): created[m.group(1)] = i
    m = re.search(r'fsync\(\d+<([^>]+)>\)', l)
    if m and os.path.isdir(m.group(1)): synced_dirs.setdefault(m.group(1), []).append(i)
    if "renameat" in l and l.rstrip().endswith("= 0") and "/current" in l: publish = i
bad = []
for p, i in sorted(created.items(), key=lambda x: x[1]):
    folder = os.path.dirname(p)
    ok = any(i < j < publish for j in synced_dirs.get(folder, []))
    print(f"created {p} (trace line {i+1}); folder fsynced before `current` is replaced (line {publish+1}): {ok}")
    if not ok: bad.append(p)
open(tr + ".lost", "w").write("\n".join(bad))
PY
lost=$(cat $tr.lost)
rc=0
for f in $lost; do echo "crash state: directory entry of $f not durable -> removed"; rm -f $f; rc=1; done
F8_DIR=$d $bin f8_reopen --exact --nocapture 2>&1 | grep -E "F8-REOPEN|test result" || true
F8_DIR=$d $bin f8_reopen --exact >/dev/null 2>&1 || rc=1
rm -rf $d $tr $tr.lost $src/tests/f8_blob_dir_fsync.rs
exit $rc
