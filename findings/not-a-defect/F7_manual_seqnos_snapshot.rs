// NOT A DEFECT (kept as a record): this history hands the tree sequence numbers that were not drawn from the counter given
// to Config, so the version installed by the compaction carries a smaller seqno than the data and the read at 7 is served
// by the *new* version.  Under the usage protocol of C02 (see F7_protocol_conforming_snapshot.rs, which passes on the
// unmodified code) a snapshot is served by the super version current when it was taken.
// F7 candidate: CompactionStream::next drains every version of a key whose seqno is below the GC watermark as soon as
// *any* newer version exists - even when that newer version is itself invisible to a live snapshot.  Protocol of C02: the
// watermark is strictly below every snapshot in use.
use lsm_tree::{get_tmp_folder, AbstractTree, Config, SequenceNumberCounter};

#[test]
fn snapshot_keeps_its_version_across_compaction_with_lower_watermark() -> lsm_tree::Result<()> {
    let folder = get_tmp_folder();
    let tree = Config::new(folder.path(), SequenceNumberCounter::default(), SequenceNumberCounter::default()).open()?;

    tree.insert("a", "v1", 3);
    // a reader fixes snapshot S = 7: it sees v1 (seqno 3 < 7)
    let snapshot = 7;
    assert_eq!(&*tree.get("a", snapshot)?.unwrap(), b"v1");

    // a later write, invisible to the snapshot
    tree.insert("a", "v2", 10);
    assert_eq!(&*tree.get("a", snapshot)?.unwrap(), b"v1");

    tree.flush_active_memtable(0)?;
    assert_eq!(&*tree.get("a", snapshot)?.unwrap(), b"v1");

    // maintenance with a watermark strictly below the snapshot in use
    tree.major_compact(u64::MAX, 5)?;

    assert_eq!(&*tree.get("a", 11)?.unwrap(), b"v2");
    assert_eq!(
        tree.get("a", snapshot)?.as_deref(),
        Some(&b"v1"[..]),
        "snapshot 7 must still see v1 after a compaction with watermark 5"
    );
    Ok(())
}
