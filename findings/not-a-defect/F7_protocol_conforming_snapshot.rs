use lsm_tree::{get_tmp_folder, AbstractTree, Config, SequenceNumberCounter};

#[test]
fn protocol_snapshot_keeps_its_version() -> lsm_tree::Result<()> {
    let folder = get_tmp_folder();
    let seqno = SequenceNumberCounter::default();
    let visible = SequenceNumberCounter::default();
    let tree = Config::new(folder.path(), seqno.clone(), visible.clone()).open()?;

    let w = |k: &str, v: &str| { let s = seqno.next(); tree.insert(k, v, s); visible.fetch_max(s + 1); s };

    let s1 = w("a", "v1");
    // make the first version reach disk so that the snapshot's pinned version holds tables, not only memtables
    tree.flush_active_memtable(0)?;
    for i in 0..5 { w(&format!("pad{i}"), "x"); }
    // a reader fixes a snapshot
    let snapshot = visible.get();
    assert_eq!(&*tree.get("a", snapshot)?.unwrap(), b"v1");
    // watermark strictly below the snapshot, above v1
    let watermark = snapshot - 1;
    assert!(s1 < watermark);

    let s2 = w("a", "v2");
    assert!(s2 >= snapshot);
    assert_eq!(&*tree.get("a", snapshot)?.unwrap(), b"v1");

    tree.flush_active_memtable(watermark)?;
    assert_eq!(&*tree.get("a", snapshot)?.unwrap(), b"v1", "after flush");

    tree.major_compact(u64::MAX, watermark)?;
    assert_eq!(&*tree.get("a", visible.get())?.unwrap(), b"v2");
    assert_eq!(tree.get("a", snapshot)?.as_deref(), Some(&b"v1"[..]), "after compaction with watermark below the snapshot");

    // maintenance with the same watermark must not take the snapshot's view away either
    for i in 0..3 { w(&format!("more{i}"), "x"); tree.flush_active_memtable(watermark)?; tree.major_compact(u64::MAX, watermark)?; }
    assert_eq!(tree.get("a", snapshot)?.as_deref(), Some(&b"v1"[..]), "after further maintenance");
    Ok(())
}
