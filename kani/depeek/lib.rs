//! Kani unit `depeek`: /repo/src/double_ended_peekable.rs compiled verbatim.
//! Obligation C03.5: DoubleEndedPeekable behaves as a deque under every interleaving of
//! next / next_back / peek / peek_back / next_if  (validates the DEPeek prelude of the Verus units).
#![allow(dead_code, unused_imports, clippy::all)]

#[path = "@REPO@/double_ended_peekable.rs"]
pub mod double_ended_peekable;

#[cfg(kani)]
mod harness {
    use super::double_ended_peekable::*;

    const N: usize = 4;

    /// source iterator over a fixed array window
    struct Src { items: [u8; N], lo: usize, hi: usize }
    impl Iterator for Src {
        type Item = u8;
        fn next(&mut self) -> Option<u8> {
            if self.lo >= self.hi { return None; }
            let x = self.items[self.lo]; self.lo += 1; Some(x)
        }
    }
    impl DoubleEndedIterator for Src {
        fn next_back(&mut self) -> Option<u8> {
            if self.lo >= self.hi { return None; }
            self.hi -= 1; Some(self.items[self.hi])
        }
    }

    fn run(calls: usize) {
        let items: [u8; N] = kani::any();
        let len: usize = kani::any();
        kani::assume(len <= N);
        let mut it = Src { items, lo: 0, hi: len }.double_ended_peekable();
        // the model: a window [lo, hi) of the same array
        let mut lo = 0usize;
        let mut hi = len;
        let mut i = 0;
        while i < calls {
            let op: u8 = kani::any();
            kani::assume(op < 5);
            match op {
                0 => { let r = it.next(); if lo < hi { assert!(r == Some(items[lo])); lo += 1; } else { assert!(r.is_none()); } }
                1 => { let r = it.next_back(); if lo < hi { assert!(r == Some(items[hi - 1])); hi -= 1; } else { assert!(r.is_none()); } }
                2 => { let r = it.peek().copied(); if lo < hi { assert!(r == Some(items[lo])); } else { assert!(r.is_none()); } }
                3 => { let r = it.peek_back().copied(); if lo < hi { assert!(r == Some(items[hi - 1])); } else { assert!(r.is_none()); } }
                _ => {
                    let t: u8 = kani::any();
                    let r = it.next_if(|x| *x < t);
                    if lo < hi && items[lo] < t { assert!(r == Some(items[lo])); lo += 1; } else { assert!(r.is_none()); }
                }
            }
            i += 1;
        }
        kani::cover!(lo == hi && len >= 2, "window fully consumed");
        kani::cover!(lo > 0 && hi < len, "consumed from both ends");
    }

    /// bounded: <= 4 items, 5 calls
    #[kani::proof]
    #[kani::unwind(6)]
    fn c03_5_depeek_deque_5calls() { run(5); }

    /// bounded: <= 4 items, 3 calls (quick)
    #[kani::proof]
    #[kani::unwind(4)]
    fn c03_5_depeek_deque_3calls() { run(3); }
}
