//! Kani unit `gcstats`: blob garbage statistics.
//! /repo/src/blob_tree/gc.rs, /repo/src/version/blob_file_list.rs and /repo/src/coding.rs are compiled verbatim;
//! BlobFile::{is_dead,is_stale} and the gc / value-log statements of Version::{with_dropped, with_merge,
//! with_new_l0_run} are extracted item- / statement-level (rules R1, R2, R10).
//! Obligations C09.2, C09.3, C09.4, C04.3.
#![allow(dead_code, unused_imports, unused_variables, unused_mut, clippy::all)]

#[path = "@SHIMS@/amap.rs"] pub mod amap;
pub use amap::{HashMap, HashSet};
//@ OPTION keep_visibility

#[derive(Debug)]
pub enum Error { Io(std::io::Error) }
impl From<std::io::Error> for Error { fn from(e: std::io::Error) -> Self { Error::Io(e) } }
pub type Result<T> = std::result::Result<T, Error>;

#[path = "@REPO@/coding.rs"] pub mod coding;

#[derive(Copy, Clone, Debug, PartialEq, Eq)]
pub enum ValueType { Value, Tombstone, WeakTombstone, Indirection }
impl ValueType { pub fn is_indirection(self) -> bool { self == ValueType::Indirection } }
pub struct InternalKey { pub value_type: ValueType }
/// light InternalValue: the value of a pointer entry is its encoded BlobIndirection
pub struct InternalValue { pub key: InternalKey, pub value: Vec<u8> }

pub mod compaction { pub mod stream { pub trait DroppedKvCallback { fn on_dropped(&mut self, kv: &crate::InternalValue); } } }

pub mod vlog {
    pub type BlobFileId = u64;
    pub struct ValueHandle { pub blob_file_id: BlobFileId, pub offset: u64, pub on_disk_size: u32 }
    pub struct Metadata { pub total_uncompressed_bytes: u64, pub total_compressed_bytes: u64 }
    pub struct Inner { pub id: BlobFileId, pub meta: Metadata }
    /// light BlobFile (R8): id and byte totals
    #[derive(Clone)]
    pub struct BlobFile(pub std::sync::Arc<Inner>);
    use crate::blob_tree::FragmentationMap;
    impl BlobFile {
        pub fn id(&self) -> BlobFileId { self.0.id }
//@ FROM src/vlog/blob_file/mod.rs :: impl BlobFile :: fn is_stale
        pub(crate) fn is_stale(&self, frag_map: &FragmentationMap, threshold: f32) -> bool {
            frag_map.get(&self.id()).is_some_and(|x| {
                let stale_bytes = x.bytes as f32;
                let all_bytes = self.0.meta.total_uncompressed_bytes as f32;
                let ratio = stale_bytes / all_bytes;
                ratio >= threshold
            })
        }
//@ END
//@ FROM src/vlog/blob_file/mod.rs :: impl BlobFile :: fn is_dead
        pub(crate) fn is_dead(&self, frag_map: &FragmentationMap) -> bool {
            frag_map.get(&self.id()).is_some_and(|x| {
                let stale_bytes = x.bytes;
                let all_bytes = self.0.meta.total_uncompressed_bytes;
                stale_bytes == all_bytes
            })
        }
//@ END
    }
}
pub mod blob_tree {
    pub mod handle {
        use crate::vlog::ValueHandle;
        /// light BlobIndirection: fixed-width little-endian fields (its real varint codec is obligation C08.1)
        pub struct BlobIndirection { pub vhandle: ValueHandle, pub size: u32 }
        impl crate::coding::Decode for BlobIndirection {
            fn decode_from<R: std::io::Read>(reader: &mut R) -> std::result::Result<Self, crate::Error> {
                use byteorder::{ReadBytesExt, LE};
                let blob_file_id = reader.read_u64::<LE>()?;
                let on_disk_size = reader.read_u32::<LE>()?;
                let size = reader.read_u32::<LE>()?;
                Ok(BlobIndirection { vhandle: ValueHandle { blob_file_id, offset: 0, on_disk_size }, size })
            }
        }
    }
    #[path = "@REPO@/blob_tree/gc.rs"] pub mod gc;
    pub use gc::{FragmentationEntry, FragmentationMap};
}
pub mod version {
    #[path = "@REPO@/version/blob_file_list.rs"] pub mod blob_file_list;
    pub use blob_file_list::BlobFileList;
}
use blob_tree::{FragmentationEntry, FragmentationMap};
use version::BlobFileList;
use vlog::{BlobFile, BlobFileId};
use std::ops::Deref;
use std::sync::Arc;

/// what a table records about the blob files it points into (real struct: table::writer::LinkedFile)
#[derive(Copy, Clone)]
pub struct LinkedFile { pub blob_file_id: BlobFileId, pub bytes: u64, pub on_disk_bytes: u64, pub len: usize }
pub struct Table { pub links: Option<Vec<LinkedFile>> }
impl Table { pub fn list_blob_file_references(&self) -> crate::Result<Option<Vec<LinkedFile>>> { Ok(self.links.clone()) } }

/// light Version (R8): the two fields the statements below read
pub struct Version { pub gc_stats: Arc<FragmentationMap>, pub blob_files: Arc<BlobFileList> }

impl Version {
    /// wrapper around the gc / value-log statements of Version::with_dropped (R10)
    fn with_dropped_gc_part(&self, dropped_tables: Vec<Table>, dropped_blob_files: &mut Vec<BlobFile>) -> crate::Result<(Arc<FragmentationMap>, Arc<BlobFileList>)> {
//@ FROM src/version/mod.rs :: impl Version :: fn with_dropped :: STMTS `let gc_stats =` .. `let value_log =`
        let gc_stats = if dropped_tables.is_empty() {
            self.gc_stats.clone()
        } else {
            let mut copy = self.gc_stats.deref().clone();

            for table in &dropped_tables {
                let linked_blob_files = table.list_blob_file_references()?.unwrap_or_default();

                for blob_file in linked_blob_files {
                    copy.entry(blob_file.blob_file_id)
                        .and_modify(|counter| {
                            counter.bytes += blob_file.bytes;
                            counter.len += blob_file.len;
                        })
                        .or_insert_with(|| {
                            FragmentationEntry::new(
                                blob_file.len,
                                blob_file.bytes,
                                blob_file.on_disk_bytes,
                            )
                        });
                }
            }

            Arc::new(copy)
        };

        let value_log = if dropped_tables.is_empty() {
            self.blob_files.clone()
        } else {
            let mut copy = self.blob_files.deref().clone();
            dropped_blob_files.extend(copy.prune_dead(&gc_stats));
            Arc::new(copy)
        };
//@ END
        Ok((gc_stats, value_log))
    }

    /// wrapper around the value-log / gc statements of Version::with_merge (R10)
    fn with_merge_gc_part(&self, diff: Option<FragmentationMap>, new_blob_files: Vec<BlobFile>, blob_files_to_drop: &HashSet<BlobFileId>) -> (Arc<FragmentationMap>, Arc<BlobFileList>) {
//@ FROM src/version/mod.rs :: impl Version :: fn with_merge :: STMTS `let has_diff =` .. `let gc_stats =`
        let has_diff = diff.is_some();

        let value_log = if has_diff || !new_blob_files.is_empty() || !blob_files_to_drop.is_empty()
        {
            let mut copy = self.blob_files.deref().clone();

            for blob_file in new_blob_files {
                copy.insert(blob_file.id(), blob_file);
            }

            for &id in blob_files_to_drop {
                copy.remove(id);
            }

            Arc::new(copy)
        } else {
            self.blob_files.clone()
        };

        let gc_stats = if has_diff || !blob_files_to_drop.is_empty() {
            let mut copy = self.gc_stats.deref().clone();

            if let Some(diff) = diff {
                diff.merge_into(&mut copy);
            }

            copy.prune(&value_log);

            Arc::new(copy)
        } else {
            self.gc_stats.clone()
        };
//@ END
        (gc_stats, value_log)
    }
}

#[cfg(kani)]
mod harness {
    use super::*;
    use crate::coding::{Decode, Encode};
    use crate::compaction::stream::DroppedKvCallback;

    fn any_entry() -> FragmentationEntry {
        let len: u8 = kani::any(); let bytes: u16 = kani::any(); let on_disk: u16 = kani::any();
        FragmentationEntry::new(len as usize, bytes as u64, on_disk as u64)
    }
    fn any_id() -> u64 { let x: u8 = kani::any(); kani::assume(x < 3); x as u64 }
    /// a map with <= 2 entries over ids {0,1,2}
    fn any_map() -> FragmentationMap {
        let mut m = FragmentationMap::default();
        if kani::any() { m.insert(any_id(), any_entry()); }
        if kani::any() { m.insert(any_id(), any_entry()); }
        m
    }
    fn get(m: &FragmentationMap, id: u64) -> (usize, u64, u64) { match m.get(&id) { Some(e) => (e.len, e.bytes, e.on_disk_bytes), None => (0, 0, 0) } }
    fn blob_file(id: u64, total: u64) -> BlobFile { BlobFile(Arc::new(vlog::Inner { id, meta: vlog::Metadata { total_uncompressed_bytes: total, total_compressed_bytes: total } })) }
    fn pointer(id: u64, on_disk: u32, size: u32) -> InternalValue {
        let mut v = Vec::new();
        v.extend_from_slice(&id.to_le_bytes()); v.extend_from_slice(&on_disk.to_le_bytes()); v.extend_from_slice(&size.to_le_bytes());
        InternalValue { key: InternalKey { value_type: ValueType::Indirection }, value: v }
    }

    /// C09.2 (bounded: <= 2 entries): on_dropped adds (1, size, on_disk_size) to exactly the pointer's file; a non-pointer changes nothing
    #[kani::proof]
    #[kani::unwind(18)]
    fn c09_2_on_dropped() {
        let mut m = any_map();
        let id = any_id(); let other = any_id();
        kani::assume(other != id);
        let before = get(&m, id); let before_other = get(&m, other);
        let on_disk: u16 = kani::any(); let size: u16 = kani::any();
        if kani::any() {
            m.on_dropped(&pointer(id, on_disk as u32, size as u32));
            assert!(get(&m, id) == (before.0 + 1, before.1 + size as u64, before.2 + on_disk as u64));
        } else {
            m.on_dropped(&InternalValue { key: InternalKey { value_type: ValueType::Value }, value: vec![1, 2, 3] });
            assert!(get(&m, id) == before);
        }
        assert!(get(&m, other) == before_other);
        kani::cover!(before.0 > 0);
        kani::cover!(before.0 == 0);
    }

    /// C09.2 (bounded): merge_into is the pointwise sum; prune is the restriction to live files; stale_bytes is the sum of on_disk bytes
    #[kani::proof]
    #[kani::unwind(18)]
    fn c09_2_merge_prune_stale() {
        let a = any_map(); let mut b = any_map();
        let id = any_id();
        let (ga, gb) = (get(&a, id), get(&b, id));
        a.merge_into(&mut b);
        assert!(get(&b, id) == (ga.0 + gb.0, ga.1 + gb.1, ga.2 + gb.2));
        let s = b.stale_bytes();
        assert!(s == get(&b, 0).2 + get(&b, 1).2 + get(&b, 2).2);
        // prune against a value log holding only file 1
        let mut vl = BlobFileList::default();
        vl.insert(1, blob_file(1, 100));
        let g1 = get(&b, 1);
        b.prune(&vl);
        assert!(get(&b, 1) == g1 && !b.contains_key(&0) && !b.contains_key(&2));
        kani::cover!(ga.0 > 0 && gb.0 > 0);
    }

    /// C09.3: is_dead <=> an entry exists and its garbage bytes equal the file's total uncompressed bytes
    #[kani::proof]
    #[kani::unwind(18)]
    fn c09_3_is_dead() {
        let m = any_map();
        let total: u64 = kani::any();
        let bf = blob_file(1, total);
        let dead = bf.is_dead(&m);
        assert!(dead == (m.contains_key(&1) && get(&m, 1).1 == total));
        kani::cover!(dead);
        kani::cover!(!dead && m.contains_key(&1));
    }

    /// C09.4 (bounded: <= 2 stats entries, 2 blob files, 1 dropped table with <= 1 link): Version::with_dropped, gc part -
    /// every reference of a dropped table is added once (count, bytes and on-disk bytes); exactly the dead files leave the
    /// value log and are returned; the statistics are restricted to the resulting value log.
    #[kani::proof]
    #[kani::unwind(18)]
    fn c09_4_with_dropped_gc() {
        let gc = any_map();
        let mut vl = BlobFileList::default();
        let (t0, t1): (u16, u16) = (kani::any(), kani::any());
        vl.insert(0, blob_file(0, t0 as u64));
        vl.insert(1, blob_file(1, t1 as u64));
        let v = Version { gc_stats: Arc::new(gc.clone()), blob_files: Arc::new(vl) };
        let link = LinkedFile { blob_file_id: any_id(), bytes: kani::any::<u16>() as u64, on_disk_bytes: kani::any::<u16>() as u64, len: kani::any::<u8>() as usize };
        kani::assume(link.blob_file_id < 2);
        let mut dropped = Vec::new();
        let (stats, log) = v.with_dropped_gc_part(vec![Table { links: Some(vec![link]) }], &mut dropped).unwrap();
        let id = link.blob_file_id; let other = 1 - id;
        let before = get(&gc, id);
        let expect = (before.0 + link.len, before.1 + link.bytes, before.2 + link.on_disk_bytes);
        let total = if id == 0 { t0 as u64 } else { t1 as u64 };
        let total_other = if id == 0 { t1 as u64 } else { t0 as u64 };
        let dead = expect.1 == total;
        let other_dead = gc.contains_key(&other) && get(&gc, other).1 == total_other;
        // value log: exactly the dead files leave, and are handed back for deletion
        assert!(log.contains_key(id) == !dead);
        assert!(log.contains_key(other) == !other_dead);
        assert!(dropped.len() == (dead as usize) + (other_dead as usize));
        // statistics of a file that stays: old + the dropped table's reference, all three counters
        if !dead { assert!(get(&stats, id) == expect); }
        if !other_dead { assert!(get(&stats, other) == get(&gc, other)); }
        // statistics are kept only for files of the resulting value log
        assert!(dead == !stats.contains_key(&id) || !dead);
        if dead { assert!(!stats.contains_key(&id)); }
        if other_dead { assert!(!stats.contains_key(&other)); }
        kani::cover!(dead);
        kani::cover!(!dead && before.0 > 0);
        kani::cover!(!dead && before.0 == 0);
    }

    /// C09.4 (bounded): Version::with_merge, gc part - new blob files join, dropped ones leave, the diff is added, stats pruned
    #[kani::proof]
    #[kani::unwind(18)]
    fn c09_4_with_merge_gc() {
        let gc = any_map();
        let mut vl = BlobFileList::default();
        vl.insert(0, blob_file(0, 10));
        let v = Version { gc_stats: Arc::new(gc.clone()), blob_files: Arc::new(vl) };
        let diff = if kani::any() { Some(any_map()) } else { None };
        let d0 = match &diff { Some(d) => get(d, 0), None => (0, 0, 0) };
        let d2 = match &diff { Some(d) => get(d, 2), None => (0, 0, 0) };
        let add_new: bool = kani::any();
        let drop0: bool = kani::any();
        let new_files = if add_new { vec![blob_file(2, 20)] } else { vec![] };
        let mut to_drop = HashSet::default();
        if drop0 { to_drop.insert(0u64); }
        let (stats, log) = v.with_merge_gc_part(diff, new_files, &to_drop);
        assert!(log.contains_key(0) == !drop0);
        assert!(log.contains_key(2) == add_new);          // a blob file written by this compaction is always registered
        if !drop0 { let g = get(&gc, 0); assert!(get(&stats, 0) == (g.0 + d0.0, g.1 + d0.1, g.2 + d0.2)); }
        if drop0 { assert!(!stats.contains_key(&0)); }
        kani::cover!(add_new && !drop0 && d0.0 == 0);
        kani::cover!(drop0);
    }

    /// C04.3 / C09.5 (bounded: <= 2 entries): FragmentationMap survives encode / decode unchanged
    #[kani::proof]
    #[kani::unwind(40)]
    fn c04_3_frag_map_roundtrip() {
        let m = any_map();
        let bytes = m.encode_into_vec();
        let mut r = &bytes[..];
        let d = FragmentationMap::decode_from(&mut r).unwrap();
        assert!(d == m);
        kani::cover!(m.len() == 2);
    }
}
