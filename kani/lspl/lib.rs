//! Kani unit `lspl`: `longest_shared_prefix_length` (src/table/util.rs) extracted mechanically (an iterator chain
//! zip / take_while / count, outside Verus).  Obligation C12.21 (BOUNDED stand-in): for all byte strings of up to 5 bytes the result
//! is the length of the longest common prefix - it is a common prefix, and it is maximal.  The Verus unit entry_codec uses exactly
//! this as the trusted contract `lspl` of the function.
#![allow(dead_code, unused_imports, clippy::all)]

//@ FROM src/table/util.rs :: - :: fn longest_shared_prefix_length
pub fn longest_shared_prefix_length(s1: &[u8], s2: &[u8]) -> usize {
    s1.iter()
        .zip(s2.iter())
        .take_while(|(c1, c2)| c1 == c2)
        .count()
}
//@ END

#[cfg(kani)]
mod harness {
    use super::*;
    const N: usize = 5;

    /// bounded: both strings <= 5 bytes
    #[kani::proof]
    #[kani::unwind(7)]
    fn c12_21_lspl_is_longest_common_prefix() {
        let a: [u8; N] = kani::any();
        let b: [u8; N] = kani::any();
        let la: usize = kani::any();
        let lb: usize = kani::any();
        kani::assume(la <= N && lb <= N);
        let r = longest_shared_prefix_length(&a[..la], &b[..lb]);
        // within both strings
        assert!(r <= la && r <= lb);
        // a common prefix
        let mut i = 0;
        while i < N {
            if i < r { assert!(a[i] == b[i]); }
            i += 1;
        }
        // maximal
        if r < la && r < lb { assert!(a[r] != b[r]); }
        kani::cover!(r == 3 && la == 5 && lb == 4, "proper common prefix");
        kani::cover!(r == 0 && la > 0 && lb > 0, "no common prefix");
    }
}
