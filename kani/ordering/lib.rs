//! Kani unit `ordering`: write / sync / publish order of the functions that make a version durable.
//! /repo/src/file.rs, /repo/src/version/persist.rs and /repo/src/checksum.rs are compiled from the scratch
//! copy of /repo with rule R9 only (std::fs -> logging vfs shim).  Obligations C05.1, C05.2, C16.4.
#![allow(dead_code, unused_imports, unused_variables, static_mut_refs, clippy::all)]
//@ REWRITE file.rs AS file_r9.rs : use std::{fs::File, io::Write, path::Path}; => use std::{io::Write, path::Path}; use crate::vfs::File; ;; std::fs::File:: => crate::vfs::File::
//@ REWRITE version/persist.rs AS persist_r9.rs : std::fs::File:: => crate::vfs::File::
pub use ::vfs;

/// light stand-in for lsm_tree::Slice (only read_exact in file.rs touches it; not under check here)
pub struct Slice(Vec<u8>);
pub struct SliceBuilder(Vec<u8>);
impl Slice { pub unsafe fn builder_unzeroed(n: usize) -> SliceBuilder { SliceBuilder(vec![0; n]) } }
impl SliceBuilder { pub fn freeze(self) -> SliceBuilder { self } }
impl std::ops::Deref for SliceBuilder { type Target = [u8]; fn deref(&self) -> &[u8] { &self.0 } }
impl std::ops::DerefMut for SliceBuilder { fn deref_mut(&mut self) -> &mut [u8] { &mut self.0 } }
impl From<SliceBuilder> for Slice { fn from(b: SliceBuilder) -> Slice { Slice(b.0) } }

/// light stand-in for lsm_tree::Error
#[derive(Debug)]
pub enum Error { Io(std::io::Error), ChecksumMismatch { got: Checksum, expected: Checksum }, Unrecoverable }
pub type Result<T> = std::result::Result<T, Error>;
impl From<std::io::Error> for Error { fn from(e: std::io::Error) -> Self { Error::Io(e) } }
impl From<sfa::Error> for Error { fn from(e: sfa::Error) -> Self { match e { sfa::Error::Io(e) => Error::Io(e), _ => Error::Unrecoverable } } }

#[path = "@REPO@/checksum.rs"] pub mod checksum;
pub use checksum::Checksum;
#[path = "file_r9.rs"] pub mod file;

pub mod version {
    use std::io::Write;
    /// light Version: an id and a tiny manifest (the real encode_into is obligation C04.2)
    pub struct Version { pub id: u64 }
    impl Version {
        pub fn id(&self) -> u64 { self.id }
        pub(crate) fn encode_into(&self, writer: &mut sfa::Writer<impl std::io::Write + std::io::Seek>) -> std::result::Result<(), crate::Error> {
            writer.start("tables")?;
            writer.write_all(&[1u8, 2, 3])?;
            Ok(())
        }
    }
    #[path = "@CRATE@/persist_r9.rs"] pub mod persist;
    pub use persist::persist_version;
}

#[cfg(kani)]
mod harness {
    use super::*;
    use std::path::Path;
    use vfs::{count, idx, last_idx, Op, FAIL_AT};

    /// C05.2: rewrite_atomic - temp file created, written, flushed and synced before the rename; the file and
    /// its directory are synced after it; with one injected fault nothing after the fault happens and
    /// the rename is never reached unless every earlier step succeeded.
    #[kani::proof]
    #[kani::unwind(26)]
    fn c05_2_rewrite_atomic_order() { rewrite_atomic_order(kani::any()); }

    /// the same check without an injected fault (one path; quick tier)
    #[kani::proof]
    #[kani::unwind(26)]
    fn c05_2_rewrite_atomic_order_nofault() { rewrite_atomic_order(usize::MAX); }

    fn rewrite_atomic_order(f: usize) {
        kani::assume(f <= 16 || f == usize::MAX);
        unsafe { FAIL_AT = f; }
        let r = file::rewrite_atomic(Path::new("dir0/current"), b"abc");
        let n = count();
        if f >= n {
            assert!(r.is_ok());
            let (c, w, fl, s, rn) = (idx(Op::CreateTemp), idx(Op::WriteTemp), idx(Op::FlushTemp), idx(Op::SyncTemp), idx(Op::RenameTempOver));
            assert!(c < w && w < fl && fl < s && s < rn && rn != usize::MAX);
            assert!(rn < idx(Op::SyncFile) && idx(Op::SyncFile) < idx(Op::SyncDir) && idx(Op::SyncDir) != usize::MAX);
        } else {
            assert!(r.is_err());
            assert!(n == f + 1);
            let rn = idx(Op::RenameTempOver);
            if rn != usize::MAX && rn < f { assert!(idx(Op::SyncTemp) < rn); }
        }
        kani::cover!(r.is_ok());
        if f != usize::MAX { kani::cover!(r.is_err() && idx(Op::RenameTempOver) == usize::MAX); }
    }

    /// C05.1 / C16.4: persist_version - v<N> is created, written, flushed and synced, its directory synced, and only
    /// then `current` is replaced (temp create/write/sync, rename, sync, dir sync).  A failure at any
    /// step stops everything after it; in particular `current` is not replaced.
    #[kani::proof]
    #[kani::unwind(26)]
    fn c05_1_persist_version_order() { persist_version_order(kani::any()); }

    #[kani::proof]
    #[kani::unwind(26)]
    fn c05_1_persist_version_order_nofault() { persist_version_order(usize::MAX); }

    fn persist_version_order(f: usize) {
        kani::assume(f <= 22 || f == usize::MAX);
        unsafe { FAIL_AT = f; }
        let v = version::Version { id: 7 };
        let r = version::persist_version(Path::new("dir0"), &v);
        let n = count();
        let rn = idx(Op::RenameTempOver);
        if f >= n {
            assert!(r.is_ok());
            // version file durable before `current` is touched
            assert!(idx(Op::Create) == 0);
            assert!(idx(Op::Write) < idx(Op::SyncFile));
            assert!(idx(Op::SyncFile) < idx(Op::SyncDir) && idx(Op::SyncDir) < idx(Op::CreateTemp));
            assert!(idx(Op::CreateTemp) < idx(Op::WriteTemp) && idx(Op::WriteTemp) < idx(Op::SyncTemp) && idx(Op::SyncTemp) < rn);
            assert!(rn != usize::MAX && rn < last_idx(Op::SyncFile) && last_idx(Op::SyncFile) < last_idx(Op::SyncDir));
        } else {
            assert!(r.is_err());
            assert!(n == f + 1);
            // `current` is replaced only if every earlier step succeeded
            if rn != usize::MAX && rn < f { assert!(idx(Op::SyncDir) < rn && idx(Op::SyncTemp) < rn); }
            if f <= idx(Op::SyncTemp) { assert!(rn == usize::MAX || rn == f); }
        }
        kani::cover!(r.is_ok());
        if f != usize::MAX { kani::cover!(r.is_err() && rn == usize::MAX); }
    }
}
