//! Association-list stand-ins for `crate::HashMap` / `crate::HashSet` (std HashMap with FxBuildHasher).
//! TRUSTED contract: a finite map / set with the std API subset the verified files use; iteration order
//! is insertion order (the real one is unspecified - obligations must not depend on it).
#![allow(dead_code)]

#[derive(Clone, Debug)]
pub struct HashMap<K, V> { pub items: Vec<(K, V)> }
impl<K, V> Default for HashMap<K, V> { fn default() -> Self { HashMap { items: Vec::new() } } }

pub enum Entry<'a, K, V> { Occupied(&'a mut V), Vacant(&'a mut Vec<(K, V)>, K) }

impl<K: PartialEq + Copy, V> HashMap<K, V> {
    pub fn new() -> Self { HashMap { items: Vec::new() } }
    pub fn with_capacity_and_hasher<H>(_n: usize, _h: H) -> Self { HashMap { items: Vec::new() } }
    fn pos(&self, k: &K) -> Option<usize> { let mut i = 0; while i < self.items.len() { if self.items[i].0 == *k { return Some(i); } i += 1; } None }
    pub fn insert(&mut self, k: K, v: V) -> Option<V> {
        match self.pos(&k) { Some(i) => Some(std::mem::replace(&mut self.items[i].1, v)), None => { self.items.push((k, v)); None } }
    }
    pub fn remove(&mut self, k: &K) -> Option<V> { match self.pos(k) { Some(i) => Some(self.items.remove(i).1), None => None } }
    pub fn get(&self, k: &K) -> Option<&V> { match self.pos(k) { Some(i) => Some(&self.items[i].1), None => None } }
    pub fn contains_key(&self, k: &K) -> bool { self.pos(k).is_some() }
    pub fn len(&self) -> usize { self.items.len() }
    pub fn is_empty(&self) -> bool { self.items.is_empty() }
    pub fn entry(&mut self, k: K) -> Entry<'_, K, V> {
        match self.pos(&k) { Some(i) => Entry::Occupied(&mut self.items[i].1), None => Entry::Vacant(&mut self.items, k) }
    }
    pub fn retain<F: FnMut(&K, &mut V) -> bool>(&mut self, mut f: F) {
        let mut i = 0;
        while i < self.items.len() { let keep = { let (k, v) = &mut self.items[i]; f(k, v) }; if keep { i += 1; } else { self.items.remove(i); } }
    }
    pub fn extract_if<F: FnMut(&K, &mut V) -> bool>(&mut self, mut f: F) -> std::vec::IntoIter<(K, V)> {
        let mut out = Vec::new();
        let mut i = 0;
        while i < self.items.len() { let take = { let (k, v) = &mut self.items[i]; f(k, v) }; if take { out.push(self.items.remove(i)); } else { i += 1; } }
        out.into_iter()
    }
    pub fn values(&self) -> impl Iterator<Item = &V> { self.items.iter().map(|x| &x.1) }
    pub fn keys(&self) -> impl Iterator<Item = &K> { self.items.iter().map(|x| &x.0) }
    pub fn iter(&self) -> impl Iterator<Item = (&K, &V)> { self.items.iter().map(|x| (&x.0, &x.1)) }
    pub fn into_values(self) -> impl Iterator<Item = V> { self.items.into_iter().map(|x| x.1) }
    pub fn extend<I: IntoIterator<Item = (K, V)>>(&mut self, iter: I) { for (k, v) in iter { self.insert(k, v); } }
}
impl<K: PartialEq + Copy, V: PartialEq> PartialEq for HashMap<K, V> {
    fn eq(&self, o: &Self) -> bool {
        if self.items.len() != o.items.len() { return false; }
        let mut i = 0;
        while i < self.items.len() { match o.get(&self.items[i].0) { Some(v) if *v == self.items[i].1 => {}, _ => return false } i += 1; }
        true
    }
}
impl<K: PartialEq + Copy, V: PartialEq> Eq for HashMap<K, V> {}
impl<K, V> IntoIterator for HashMap<K, V> { type Item = (K, V); type IntoIter = std::vec::IntoIter<(K, V)>; fn into_iter(self) -> Self::IntoIter { self.items.into_iter() } }
impl<'a, K, V> Entry<'a, K, V> {
    pub fn and_modify<F: FnOnce(&mut V)>(self, f: F) -> Self { match self { Entry::Occupied(v) => { f(v); Entry::Occupied(v) } e => e } }
    pub fn or_insert(self, v: V) -> &'a mut V { match self { Entry::Occupied(x) => x, Entry::Vacant(items, k) => { items.push((k, v)); let n = items.len() - 1; &mut items[n].1 } } }
    pub fn or_insert_with<F: FnOnce() -> V>(self, f: F) -> &'a mut V { match self { Entry::Occupied(x) => x, Entry::Vacant(items, k) => { items.push((k, f())); let n = items.len() - 1; &mut items[n].1 } } }
}

#[derive(Clone, Debug)]
pub struct HashSet<K> { pub items: Vec<K> }
impl<K> Default for HashSet<K> { fn default() -> Self { HashSet { items: Vec::new() } } }
impl<K: PartialEq + Copy> HashSet<K> {
    pub fn contains(&self, k: &K) -> bool { let mut i = 0; while i < self.items.len() { if self.items[i] == *k { return true; } i += 1; } false }
    pub fn insert(&mut self, k: K) -> bool { if self.contains(&k) { false } else { self.items.push(k); true } }
    pub fn remove(&mut self, k: &K) -> bool { let mut i = 0; while i < self.items.len() { if self.items[i] == *k { self.items.remove(i); return true; } i += 1; } false }
    pub fn len(&self) -> usize { self.items.len() }
    pub fn is_empty(&self) -> bool { self.items.is_empty() }
    pub fn iter(&self) -> std::slice::Iter<'_, K> { self.items.iter() }
}
impl<K: PartialEq + Copy> FromIterator<K> for HashSet<K> { fn from_iter<I: IntoIterator<Item = K>>(it: I) -> Self { let mut s = HashSet::default(); for k in it { s.insert(k); } s } }
impl<'a, K> IntoIterator for &'a HashSet<K> { type Item = &'a K; type IntoIter = std::slice::Iter<'a, K>; fn into_iter(self) -> Self::IntoIter { self.items.iter() } }
