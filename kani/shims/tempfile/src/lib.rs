//! Light stand-in for `tempfile` (TRUSTED): NamedTempFile over the logging vfs.
use std::io::Write;
use std::path::Path;
use vfs::{log, File, Op};

pub struct NamedTempFile { file: File }
pub struct PersistError { pub error: std::io::Error, pub file: NamedTempFile }
pub struct TempDir;
impl TempDir { pub fn path(&self) -> &Path { Path::new("t") } }
pub fn tempdir() -> std::io::Result<TempDir> { Ok(TempDir) }
pub fn tempdir_in<P: AsRef<Path>>(_p: P) -> std::io::Result<TempDir> { Ok(TempDir) }

impl NamedTempFile {
    pub fn new_in<P: AsRef<Path>>(_dir: P) -> std::io::Result<Self> { log(Op::CreateTemp)?; Ok(Self { file: File::temp() }) }
    pub fn as_file_mut(&mut self) -> &mut File { &mut self.file }
    pub fn persist<P: AsRef<Path>>(self, _path: P) -> Result<File, PersistError> {
        match log(Op::RenameTempOver) { Ok(()) => Ok(self.file), Err(error) => Err(PersistError { error, file: self }) }
    }
}
impl Write for NamedTempFile {
    fn write(&mut self, b: &[u8]) -> std::io::Result<usize> { log(Op::WriteTemp)?; Ok(b.len()) }
    fn flush(&mut self) -> std::io::Result<()> { log(Op::FlushTemp) }
}
