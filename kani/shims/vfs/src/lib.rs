//! Logging file-system shim (TRUSTED contract of std::fs for the ordering obligations):
//! every call appends an Op to a global log and fails iff its position equals FAIL_AT.
//! No persistence semantics are modelled - only the order of calls and the propagation of failures.
#![allow(static_mut_refs)]
use std::path::Path;

#[derive(Clone, Copy, PartialEq, Eq, Debug)]
pub enum Op { None, Create, Open, Write, Flush, SyncFile, SyncTemp, SyncDir, CreateTemp, WriteTemp, FlushTemp, RenameTempOver, Remove, Seek }

pub const CAP: usize = 24;
pub static mut LOG: [Op; CAP] = [Op::None; CAP];
pub static mut N: usize = 0;
pub static mut FAIL_AT: usize = usize::MAX;

pub fn log(op: Op) -> std::io::Result<()> {
    unsafe {
        let i = N;
        if i < CAP { LOG[i] = op; }
        N = i + 1;
        if i == FAIL_AT { return Err(std::io::Error::from(std::io::ErrorKind::Other)); }
    }
    Ok(())
}
/// position of the first occurrence of `op` in the log (usize::MAX if absent)
pub fn idx(op: Op) -> usize { unsafe { let mut i = 0; while i < CAP { if i < N && LOG[i] == op { return i; } i += 1; } usize::MAX } }
/// position of the last occurrence
pub fn last_idx(op: Op) -> usize { unsafe { let mut r = usize::MAX; let mut i = 0; while i < CAP { if i < N && LOG[i] == op { r = i; } i += 1; } r } }
pub fn count() -> usize { unsafe { N } }

#[derive(Clone, Copy, PartialEq, Eq)]
pub enum Kind { Regular, Dir, Temp }
pub struct File { pub kind: Kind }
pub struct Metadata { dir: bool }
impl Metadata { pub fn is_dir(&self) -> bool { self.dir } pub fn len(&self) -> u64 { 0 } }

impl File {
    pub fn temp() -> Self { File { kind: Kind::Temp } }
    pub fn create<P: AsRef<Path>>(_p: P) -> std::io::Result<File> { log(Op::Create)?; Ok(File { kind: Kind::Regular }) }
    /// files opened by path are only ever synced afterwards in the code under check; a path is a
    /// directory iff the caller asks `metadata().is_dir()` and the shim was told so via OPEN_IS_DIR
    pub fn open<P: AsRef<Path>>(p: P) -> std::io::Result<File> {
        log(Op::Open)?;
        Ok(File { kind: if is_dir_path(p.as_ref()) { Kind::Dir } else { Kind::Regular } })
    }
    pub fn read_at(&self, _buf: &mut [u8], _off: u64) -> std::io::Result<usize> { Ok(0) }
    pub fn sync_all(&self) -> std::io::Result<()> { match self.kind { Kind::Temp => log(Op::SyncTemp), Kind::Dir => log(Op::SyncDir), Kind::Regular => log(Op::SyncFile) } }
    pub fn metadata(&self) -> std::io::Result<Metadata> { Ok(Metadata { dir: self.kind == Kind::Dir }) }
}
/// convention of the shim: harness paths are "dir0" (the directory) and "dir0/<name>" (files), so a path is a
/// directory iff it is at most 4 bytes long (no path parsing: keeps the symbolic execution small)
pub fn is_dir_path(p: &Path) -> bool { p.as_os_str().len() <= 4 }
impl std::io::Write for File {
    fn write(&mut self, b: &[u8]) -> std::io::Result<usize> { log(Op::Write)?; Ok(b.len()) }
    fn flush(&mut self) -> std::io::Result<()> { log(Op::Flush) }
}
impl std::io::Write for &File {
    fn write(&mut self, b: &[u8]) -> std::io::Result<usize> { log(Op::Write)?; Ok(b.len()) }
    fn flush(&mut self) -> std::io::Result<()> { log(Op::Flush) }
}
impl std::io::Seek for File { fn seek(&mut self, _p: std::io::SeekFrom) -> std::io::Result<u64> { Ok(0) } }
impl std::io::Seek for &File { fn seek(&mut self, _p: std::io::SeekFrom) -> std::io::Result<u64> { Ok(0) } }
pub fn remove_file<P: AsRef<Path>>(_p: P) -> std::io::Result<()> { log(Op::Remove) }
