//! Light stand-in for xxhash-rust (TRUSTED contract: a deterministic function of the byte stream;
//! here a position-weighted sum, so that any single-byte change of a short input changes the digest).
//! Collision-freeness of the real xxh3 is an assumption of C10, not something this shim provides.
pub mod xxh3 {
    #[derive(Clone, Default)]
    pub struct Xxh3 { acc: u128, n: u128 }
    pub type Xxh3Default = Xxh3;
    impl Xxh3 {
        pub fn new() -> Self { Xxh3 { acc: 0, n: 0 } }
        pub fn update(&mut self, b: &[u8]) {
            let mut i = 0;
            while i < b.len() { self.n += 1; self.acc = self.acc.wrapping_add((b[i] as u128 + 1).wrapping_mul(self.n.wrapping_mul(257))); i += 1; }
        }
        pub fn digest(&self) -> u64 { self.acc as u64 }
        pub fn digest128(&self) -> u128 { self.acc }
        pub fn reset(&mut self) { self.acc = 0; self.n = 0; }
    }
    pub fn xxh3_64(b: &[u8]) -> u64 { let mut h = Xxh3::new(); h.update(b); h.digest() }
    pub fn xxh3_128(b: &[u8]) -> u128 { let mut h = Xxh3::new(); h.update(b); h.digest128() }
    pub fn xxh3_64_with_seed(b: &[u8], s: u64) -> u64 { xxh3_64(b).wrapping_add(s) }
}
