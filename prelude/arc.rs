// prelude/arc.rs -- TRUSTED: explicit `Deref::deref` on Arc yields the shared value (vstd already specifies
// Arc::new and Arc::clone).  Needs `#![feature(allocator_api)]` at the top of the unit.
pub assume_specification<T: ?Sized, A: core::alloc::Allocator>[ <std::sync::Arc<T, A> as std::ops::Deref>::deref ](a: &std::sync::Arc<T, A>) -> (r: &T)
    ensures r == &**a;
