// ---------------------------------------------------------------------------------------
// prelude/content.rs -- ghost model of what a table stores (TRUSTED modelling of the on-disk layout):
// entries in storage order, cut into non-empty data blocks.  Needs prelude/key.rs and prelude/entry.rs.
// ---------------------------------------------------------------------------------------
/// the entries stored in the table (local seqnos), in storage order, cut into data blocks at `cuts`
struct Content { items: Seq<InternalValue>, cuts: Seq<int> }
spec fn before(a: InternalValue, b: InternalValue) -> bool {
    a.key.user_key.rank() < b.key.user_key.rank() || (a.key.user_key.rank() == b.key.user_key.rank() && a.key.seqno > b.key.seqno)
}
impl Content {
    /// storage order = user key ascending, seqno descending (strict: no duplicate versions); blocks are non-empty
    spec fn wf(&self) -> bool {
        (forall|i: int, j: int| 0 <= i < j < self.items.len() ==> before(#[trigger] self.items[i], #[trigger] self.items[j]))
        && self.cuts.len() >= 1 && self.cuts[0] == 0 && self.cuts.last() == self.items.len()
        && (forall|b: int| 0 <= b < self.cuts.len() - 1 ==> #[trigger] self.cuts[b] < self.cuts[b + 1])
    }
    spec fn nblocks(&self) -> int { self.cuts.len() - 1 }
    spec fn lo(&self, b: int) -> int { self.cuts[b] }
    spec fn hi(&self, b: int) -> int { self.cuts[b + 1] }
    /// last entry of block b (what the index entry of the block records: user key and seqno)
    spec fn end(&self, b: int) -> InternalValue { self.items[self.cuts[b + 1] - 1] }
    /// entry i is a version of key k visible at (local) snapshot s
    spec fn cand(&self, i: int, k: int, s: SeqNo) -> bool {
        0 <= i < self.items.len() && self.items[i].key.user_key.rank() == k && self.items[i].key.seqno < s
    }
    /// the index seek skips block b: its last entry lies before every candidate (src/table/index_block/iter.rs: seek)
    spec fn skipped(&self, b: int, k: int, s: SeqNo) -> bool {
        self.end(b).key.user_key.rank() < k || (self.end(b).key.user_key.rank() == k && self.end(b).key.seqno >= s)
    }
    spec fn has_key(&self, k: int) -> bool { exists|i: int| 0 <= i < self.items.len() && #[trigger] self.items[i].key.user_key.rank() == k }
}
/// the entry as the caller sees it: global seqno added
spec fn lifted(v: InternalValue, g: SeqNo) -> InternalValue {
    InternalValue { key: InternalKey { user_key: v.key.user_key, seqno: (v.key.seqno + g) as SeqNo, value_type: v.key.value_type }, value: v.value }
}

proof fn lemma_cuts_mono(c: Content, a: int, b: int)
    requires c.wf(), 0 <= a <= b < c.cuts.len()
    ensures c.cuts[a] <= c.cuts[b], 0 <= c.cuts[a], c.cuts[b] <= c.items.len()
    decreases b - a
{
    if a < b { lemma_cuts_mono(c, a, b - 1); assert(c.cuts[b - 1] < c.cuts[b - 1 + 1]); }
    if a > 0 { lemma_cuts_mono0(c, a); }
    lemma_cuts_top(c, b);
}
proof fn lemma_cuts_mono0(c: Content, a: int)
    requires c.wf(), 0 <= a < c.cuts.len()
    ensures 0 <= c.cuts[a]
    decreases a
{
    if a > 0 { lemma_cuts_mono0(c, a - 1); assert(c.cuts[a - 1] < c.cuts[a - 1 + 1]); }
}
proof fn lemma_cuts_top(c: Content, b: int)
    requires c.wf(), 0 <= b < c.cuts.len()
    ensures c.cuts[b] <= c.items.len()
    decreases c.cuts.len() - b
{
    if b < c.cuts.len() - 1 { lemma_cuts_top(c, b + 1); assert(c.cuts[b] < c.cuts[b + 1]); }
}
