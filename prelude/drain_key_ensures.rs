// prelude/drain_key_ensures.rs -- the postcondition of CompactionStream::drain_key, textually shared by unit `stream` (assumed there)
// and unit `drain_key` (proved there from the real body)
        ensures
            final(self).same_cfg(old(self)),
            ({
                let s = old(self).inner.rest();
                let n = same_key_prefix(s, key.rank(), keep_weak_tombstones, keep_tombstones) as int;
                if n < s.len() && s[n] is Err {
                    r is Err && r->Err_0 == s[n]->Err_0 && final(self).inner.rest() == s.skip(n + 1)
                } else {
                    r is Ok && final(self).inner.rest() == s.skip(n)
                    && (old(self).has_cb() ==> final(self).log() == old(self).log() + vals(s.take(n)))
                }
            }),
