// prelude/drain_specs.rs -- spec vocabulary of CompactionStream::drain_key's contract, shared by units `stream` (which assumes the
// contract) and `drain_key` (which proves it), so that the two cannot drift apart
/// length of the maximal prefix of Ok entries with key rank k
/// entries `drain_key(key, keep_weak_tombstones, keep_tombstones)` stops in front of
spec fn kept(v: InternalValue, kw: bool, kt: bool) -> bool { (kt && dead(v)) || (kw && v.key.value_type == ValueType::WeakTombstone) }
spec fn same_key_prefix(s: Seq<Item>, k: int, kw: bool, kt: bool) -> nat
    decreases s.len()
{
    if s.len() == 0 { 0 } else if s[0] is Ok && krank(s[0]) == k && !kept(s[0]->Ok_0, kw, kt) { 1 + same_key_prefix(s.skip(1), k, kw, kt) } else { 0 }
}
