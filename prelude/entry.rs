// ---------------------------------------------------------------------------------------
// prelude/entry.rs -- entry types.  ValueType / InternalKey / InternalValue and their
// is_tombstone methods are fetched from /repo; UserValue and Error are abstract (TRUSTED:
// opaque values that are only moved around).
// ---------------------------------------------------------------------------------------
pub type SeqNo = u64;

#[verifier::external_body]
pub struct UserValue { inner: Vec<u8> }

#[verifier::external_body]
pub struct Error { inner: u8 }

//@ FROM src/value_type.rs :: - :: enum ValueType
/*+*/#[derive(Copy, Clone, PartialEq, Eq, Structural)]/*-*/
enum ValueType {
    Value,
    Tombstone,
    WeakTombstone,
    Indirection = 4,
}
//@ END

impl ValueType {
//@ FROM src/value_type.rs :: impl ValueType :: fn is_tombstone :: OBL C13.1
    fn is_tombstone(self) -> /*+*/(r: /*-*/bool/*+*/)
        ensures r == (self == ValueType::Tombstone || self == ValueType::WeakTombstone)/*-*/
    {
        self == Self::Tombstone || self == Self::WeakTombstone
    }
//@ END
}

//@ FROM src/key.rs :: - :: struct InternalKey
struct InternalKey {
    user_key: UserKey,
    seqno: SeqNo,
    value_type: ValueType,
}
//@ END
impl InternalKey {
//@ FROM src/key.rs :: impl InternalKey :: fn is_tombstone :: OBL C13.1
    fn is_tombstone(&self) -> /*+*/(r: /*-*/bool/*+*/) ensures r == (self.value_type == ValueType::Tombstone || self.value_type == ValueType::WeakTombstone)/*-*/ {
        self.value_type.is_tombstone()
    }
//@ END
}
//@ FROM src/value.rs :: - :: struct InternalValue
struct InternalValue {
    key: InternalKey,
    value: UserValue,
}
//@ END
impl InternalValue {
//@ FROM src/value.rs :: impl InternalValue :: fn is_tombstone :: OBL C13.1
    fn is_tombstone(&self) -> /*+*/(r: /*-*/bool/*+*/) ensures r == (self.key.value_type == ValueType::Tombstone || self.key.value_type == ValueType::WeakTombstone)/*-*/ {
        self.key.is_tombstone()
    }
//@ END
}

spec fn dead(v: InternalValue) -> bool { v.key.value_type == ValueType::Tombstone || v.key.value_type == ValueType::WeakTombstone }

#[verifier::external]
impl std::fmt::Debug for InternalValue { fn fmt(&self, f: &mut std::fmt::Formatter<'_>) -> std::fmt::Result { Ok(()) } }
#[verifier::external]
impl std::fmt::Debug for Error { fn fmt(&self, f: &mut std::fmt::Formatter<'_>) -> std::fmt::Result { Ok(()) } }
