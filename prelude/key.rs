// ---------------------------------------------------------------------------------------
// prelude/key.rs -- TRUSTED environment contract (rule R3)
// `Key` stands for lsm_tree::Slice / UserKey; `KeyRef` for a borrowed byte string `&[u8]`
// used as a key.  Assumed contract: byte strings are totally ordered (byte-lexicographic),
// Eq is consistent with Ord, Clone/From preserve the value.  `rank()` is the position of
// the byte string in that total order.
// ---------------------------------------------------------------------------------------
#[verifier::external_body]
pub struct Key { inner: Vec<u8> }
impl Key { pub uninterp spec fn rank(&self) -> int; }
impl Clone for Key {
    #[verifier::external_body]
    fn clone(&self) -> (r: Self) ensures r.rank() == self.rank() { Key { inner: self.inner.clone() } }
}
impl PartialEq for Key {
    #[verifier::external_body]
    fn eq(&self, other: &Self) -> (r: bool) { self.inner == other.inner }
}
impl PartialEqSpecImpl for Key {
    open spec fn obeys_eq_spec() -> bool { true }
    open spec fn eq_spec(&self, other: &Self) -> bool { self.rank() == other.rank() }
}
impl PartialOrdSpecImpl for Key {
    open spec fn obeys_partial_cmp_spec() -> bool { true }
    open spec fn partial_cmp_spec(&self, other: &Self) -> Option<core::cmp::Ordering> {
        if self.rank() < other.rank() { Some(core::cmp::Ordering::Less) }
        else if self.rank() == other.rank() { Some(core::cmp::Ordering::Equal) }
        else { Some(core::cmp::Ordering::Greater) }
    }
}
impl PartialOrd for Key {
    #[verifier::external_body]
    fn partial_cmp(&self, other: &Self) -> (r: Option<core::cmp::Ordering>) { self.inner.partial_cmp(&other.inner) }
}
pub type UserKey = Key;

#[verifier::external_body]
#[derive(Clone, Copy)]
pub struct KeyRef { p: usize }
impl KeyRef { pub uninterp spec fn rank(&self) -> int; }
impl PartialEq for KeyRef {
    #[verifier::external_body]
    fn eq(&self, other: &Self) -> (r: bool) { true }
}
impl PartialEqSpecImpl for KeyRef {
    open spec fn obeys_eq_spec() -> bool { true }
    open spec fn eq_spec(&self, other: &Self) -> bool { self.rank() == other.rank() }
}
impl PartialOrd for KeyRef {
    #[verifier::external_body]
    fn partial_cmp(&self, other: &Self) -> (r: Option<core::cmp::Ordering>) { None }
}
impl PartialOrdSpecImpl for KeyRef {
    open spec fn obeys_partial_cmp_spec() -> bool { true }
    open spec fn partial_cmp_spec(&self, other: &Self) -> Option<core::cmp::Ordering> {
        if self.rank() < other.rank() { Some(core::cmp::Ordering::Less) }
        else if self.rank() == other.rank() { Some(core::cmp::Ordering::Equal) }
        else { Some(core::cmp::Ordering::Greater) }
    }
}
impl PartialEq<Key> for KeyRef {
    #[verifier::external_body]
    fn eq(&self, other: &Key) -> (r: bool) { true }
}
impl PartialEqSpecImpl<Key> for KeyRef {
    open spec fn obeys_eq_spec() -> bool { true }
    open spec fn eq_spec(&self, other: &Key) -> bool { self.rank() == other.rank() }
}
impl PartialOrd<Key> for KeyRef {
    #[verifier::external_body]
    fn partial_cmp(&self, other: &Key) -> (r: Option<core::cmp::Ordering>) { None }
}
impl PartialOrdSpecImpl<Key> for KeyRef {
    open spec fn obeys_partial_cmp_spec() -> bool { true }
    open spec fn partial_cmp_spec(&self, other: &Key) -> Option<core::cmp::Ordering> {
        if self.rank() < other.rank() { Some(core::cmp::Ordering::Less) }
        else if self.rank() == other.rank() { Some(core::cmp::Ordering::Equal) }
        else { Some(core::cmp::Ordering::Greater) }
    }
}
impl PartialOrd<KeyRef> for Key {
    #[verifier::external_body]
    fn partial_cmp(&self, other: &KeyRef) -> (r: Option<core::cmp::Ordering>) { None }
}
impl PartialEq<KeyRef> for Key {
    #[verifier::external_body]
    fn eq(&self, other: &KeyRef) -> (r: bool) { true }
}
impl PartialEqSpecImpl<KeyRef> for Key {
    open spec fn obeys_eq_spec() -> bool { true }
    open spec fn eq_spec(&self, other: &KeyRef) -> bool { self.rank() == other.rank() }
}
impl PartialOrdSpecImpl<KeyRef> for Key {
    open spec fn obeys_partial_cmp_spec() -> bool { true }
    open spec fn partial_cmp_spec(&self, other: &KeyRef) -> Option<core::cmp::Ordering> {
        if self.rank() < other.rank() { Some(core::cmp::Ordering::Less) }
        else if self.rank() == other.rank() { Some(core::cmp::Ordering::Equal) }
        else { Some(core::cmp::Ordering::Greater) }
    }
}
impl Key {
    /// stands for Slice::as_ref(): comparing the byte strings is comparing the keys
    pub fn as_ref(&self) -> (r: &Key) ensures r == self { self }
}
impl KeyRef { pub fn as_ref(&self) -> (r: &KeyRef) ensures r == self { self } }
impl From<&KeyRef> for Key {
    #[verifier::external_body]
    fn from(k: &KeyRef) -> (r: Key) ensures r.rank() == k.rank() { unimplemented!() }
}

/// stands for std::ops::Bound
pub enum Bound<T> { Included(T), Excluded(T), Unbounded }
impl PartialEq for Bound<KeyRef> {
    #[verifier::external_body]
    fn eq(&self, other: &Self) -> (r: bool) { true }
}
impl PartialEqSpecImpl for Bound<KeyRef> {
    open spec fn obeys_eq_spec() -> bool { true }
    open spec fn eq_spec(&self, other: &Self) -> bool {
        match (*self, *other) {
            (Bound::Included(a), Bound::Included(b)) => a.rank() == b.rank(),
            (Bound::Excluded(a), Bound::Excluded(b)) => a.rank() == b.rank(),
            (Bound::Unbounded, Bound::Unbounded) => true,
            _ => false,
        }
    }
}
pub open spec fn above(b: Bound<Key>, k: int) -> bool { match b { Bound::Included(x) => x.rank() <= k, Bound::Excluded(x) => x.rank() < k, Bound::Unbounded => true } }
pub open spec fn below(b: Bound<Key>, k: int) -> bool { match b { Bound::Included(x) => k <= x.rank(), Bound::Excluded(x) => k < x.rank(), Bound::Unbounded => true } }
pub open spec fn above_r(b: Bound<KeyRef>, k: int) -> bool { match b { Bound::Included(x) => x.rank() <= k, Bound::Excluded(x) => x.rank() < k, Bound::Unbounded => true } }
pub open spec fn below_r(b: Bound<KeyRef>, k: int) -> bool { match b { Bound::Included(x) => k <= x.rank(), Bound::Excluded(x) => k < x.rank(), Bound::Unbounded => true } }

/// stands for `R: RangeBounds<K>` with `K: AsRef<[u8]>` (rule R4)
pub struct RangeB { pub start: Bound<KeyRef>, pub end: Bound<KeyRef> }
impl RangeB {
    pub fn start_bound(&self) -> (r: Bound<&KeyRef>)
        ensures match (r, self.start) { (Bound::Included(a), Bound::Included(b)) => *a == b, (Bound::Excluded(a), Bound::Excluded(b)) => *a == b, (Bound::Unbounded, Bound::Unbounded) => true, _ => false }
    { match &self.start { Bound::Included(k) => Bound::Included(k), Bound::Excluded(k) => Bound::Excluded(k), Bound::Unbounded => Bound::Unbounded } }
    pub fn end_bound(&self) -> (r: Bound<&KeyRef>)
        ensures match (r, self.end) { (Bound::Included(a), Bound::Included(b)) => *a == b, (Bound::Excluded(a), Bound::Excluded(b)) => *a == b, (Bound::Unbounded, Bound::Unbounded) => true, _ => false }
    { match &self.end { Bound::Included(k) => Bound::Included(k), Bound::Excluded(k) => Bound::Excluded(k), Bound::Unbounded => Bound::Unbounded } }
    pub open spec fn has(&self, k: int) -> bool { above_r(self.start, k) && below_r(self.end, k) }
}
