// ---------------------------------------------------------------------------------------
// prelude/seqiter.rs -- TRUSTED: SeqIter<T> stands for any std iterator that yields the
// elements of a ghost sequence `rest()` in order (slice::Iter, vec_deque::Iter, Rev<..>,
// FlatMap<..> ... specified at each use).  Implements vstd's IteratorSpecImpl so that
// `for x in it: <expr>` loops are accepted.
// ---------------------------------------------------------------------------------------
#[verifier::external_body]
#[verifier::reject_recursive_types(T)]
pub struct SeqIter<T> { v: Vec<T> }
impl<T> SeqIter<T> { pub uninterp spec fn rest(&self) -> Seq<T>; }
impl<T> Iterator for SeqIter<T> {
    type Item = T;
    #[verifier::external_body]
    fn next(&mut self) -> (r: Option<T>) { unimplemented!() }
}
impl<T> IteratorSpecImpl for SeqIter<T> {
    open spec fn obeys_prophetic_iter_laws(&self) -> bool { true }
    open spec fn remaining(&self) -> Seq<T> { self.rest() }
    open spec fn will_return_none(&self) -> bool { true }
    open spec fn decrease(&self) -> Option<nat> { Some(self.rest().len()) }
    open spec fn peek(&self, i: int) -> Option<T> { if 0 <= i < self.rest().len() { Some(self.rest()[i]) } else { None } }
}
impl<T> SeqIter<T> {
    /// direct call of `next()` (inherent method shadows the trait method at call sites)
    #[verifier::external_body]
    pub fn next(&mut self) -> (r: Option<T>)
        ensures
            old(self).rest().len() == 0 ==> r is None && final(self).rest() == old(self).rest(),
            old(self).rest().len() > 0 ==> r == Some(old(self).rest()[0]) && final(self).rest() == old(self).rest().skip(1),
    { unimplemented!() }
}
impl<T> SeqIter<T> {
    /// std `Iterator::map` (element-wise; the closure's contract relates input and output)
    #[verifier::external_body]
    pub fn map<B, F: FnMut(T) -> B>(self, f: F) -> (r: SeqIter<B>)
        requires forall|i: int| 0 <= i < self.rest().len() ==> call_requires(f, (#[trigger] self.rest()[i],)),
        ensures r.rest().len() == self.rest().len(),
            forall|i: int| 0 <= i < self.rest().len() ==> call_ensures(f, (self.rest()[i],), #[trigger] r.rest()[i]),
            forall|i: int| 0 <= i < self.rest().len() ==> call_ensures(f, (#[trigger] self.rest()[i],), r.rest()[i]),
    { unimplemented!() }
}
impl SeqIter<u64> {
    /// std `Iterator::max` on integers
    #[verifier::external_body]
    pub fn max(self) -> (r: Option<u64>)
        ensures self.rest().len() == 0 ==> r is None,
            self.rest().len() > 0 ==> r is Some && (exists|i: int| 0 <= i < self.rest().len() && #[trigger] self.rest()[i] == r->0)
                && (forall|i: int| 0 <= i < self.rest().len() ==> #[trigger] self.rest()[i] <= r->0),
    { unimplemented!() }
}
pub open spec fn opt_le(a: Option<u64>, b: Option<u64>) -> bool { match (a, b) { (None, _) => true, (Some(_), None) => false, (Some(x), Some(y)) => x <= y } }
impl SeqIter<Option<u64>> {
    /// std `Iterator::max` on Option<u64> (None < Some(_))
    #[verifier::external_body]
    pub fn max(self) -> (r: Option<Option<u64>>)
        ensures self.rest().len() == 0 ==> r is None,
            self.rest().len() > 0 ==> r is Some && (exists|i: int| 0 <= i < self.rest().len() && #[trigger] self.rest()[i] == r->0)
                && (forall|i: int| 0 <= i < self.rest().len() ==> opt_le(#[trigger] self.rest()[i], r->0)),
    { unimplemented!() }
}
