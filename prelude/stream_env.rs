// prelude/stream_env.rs -- TRUSTED environment of CompactionStream, shared by units `stream` and `drain_key`: Peek stands for
// std::iter::Peekable over a ghost sequence, DropLog for &mut dyn DroppedKvCallback, the struct is retyped (R8) over them
type Item = Result<InternalValue, Error>;

enum StreamFilterVerdict { Keep, Replace((ValueType, UserValue)), Drop }

/// stands for std::iter::Peekable<I>
#[verifier::external_body]
struct Peek { v: Vec<Item> }
impl Peek {
    uninterp spec fn rest(&self) -> Seq<Item>;

    #[verifier::external_body]
    fn next(&mut self) -> (r: Option<Item>)
        ensures
            old(self).rest().len() == 0 ==> r is None && final(self).rest() == old(self).rest(),
            old(self).rest().len() > 0 ==> r == Some(old(self).rest()[0]) && final(self).rest() == old(self).rest().skip(1),
    { unimplemented!() }

    #[verifier::external_body]
    fn peek(&mut self) -> (r: Option<&Item>)
        ensures
            final(self).rest() == old(self).rest(),
            old(self).rest().len() == 0 ==> r is None,
            old(self).rest().len() > 0 ==> r is Some && *r->0 == old(self).rest()[0],
    { unimplemented!() }
}

struct DropLog { ghost log: Seq<InternalValue> }
impl DropLog {
    #[verifier::external_body]
    fn on_dropped(&mut self, kv: &InternalValue)
        ensures final(self).log == old(self).log.push(*kv)
    { }
}


trait StreamFilter {
    fn filter_item(&mut self, item: &InternalValue) -> (r: Result<StreamFilterVerdict, Error>)
        ensures r == Ok::<StreamFilterVerdict, Error>(StreamFilterVerdict::Keep);   // NoFilter instance (C17 generalises)
}

spec fn all_ok(s: Seq<Item>) -> bool { forall|i: int| 0 <= i < s.len() ==> (#[trigger] s[i]) is Ok }
spec fn vals(s: Seq<Item>) -> Seq<InternalValue> { Seq::new(s.len(), |i: int| s[i]->Ok_0) }
spec fn krank(it: Item) -> int { it->Ok_0.key.user_key.rank() }

//@ INCLUDE prelude/drain_specs.rs

struct CompactionStream<F: StreamFilter> {
    filter: F,
    inner: Peek,
    gc_seqno_threshold: SeqNo,
    dropped_callback: Option<DropLog>,
    evict_tombstones: bool,
    zero_seqnos: bool,
}

impl<F: StreamFilter> CompactionStream<F> {
    spec fn log(&self) -> Seq<InternalValue> { match self.dropped_callback { Some(l) => l.log, None => Seq::empty() } }
    spec fn has_cb(&self) -> bool { self.dropped_callback is Some }
    spec fn same_cfg(&self, o: &Self) -> bool {
        self.gc_seqno_threshold == o.gc_seqno_threshold && self.evict_tombstones == o.evict_tombstones
        && self.zero_seqnos == o.zero_seqnos && self.has_cb() == o.has_cb()
    }
}
