//! Light stand-in for the `byteview` crate: fixed-length (2 byte) immutable byte string.
use std::ops::{Deref, DerefMut, RangeBounds};
pub const CAP: usize = 2;
#[derive(Clone, Copy, Default)]
pub struct ByteView { buf: [u8; CAP] }
impl ByteView {
    pub fn new(b: &[u8]) -> Self { let mut buf = [0u8; CAP]; if b.len() > 0 { buf[CAP - 1] = b[b.len() - 1]; } if b.len() > 1 { buf[0] = b[0]; } Self { buf } }
    pub unsafe fn builder_unzeroed(_len: usize) -> Builder { Builder(Self::default()) }
    pub fn slice(&self, _range: impl RangeBounds<usize>) -> Self { *self }
    pub fn fused(l: &[u8], r: &[u8]) -> Self { let _ = (l, r); Self::default() }
    pub fn from_reader<R: std::io::Read>(reader: &mut R, _len: usize) -> std::io::Result<Self> { let mut buf = [0u8; CAP]; reader.read_exact(&mut buf)?; Ok(Self { buf }) }
}
impl Deref for ByteView { type Target = [u8]; fn deref(&self) -> &[u8] { &self.buf } }
impl AsRef<[u8]> for ByteView { fn as_ref(&self) -> &[u8] { &self.buf } }
impl From<&[u8]> for ByteView { fn from(b: &[u8]) -> Self { Self::new(b) } }
impl From<Vec<u8>> for ByteView { fn from(b: Vec<u8>) -> Self { Self::new(&b) } }
impl std::fmt::Debug for ByteView { fn fmt(&self, f: &mut std::fmt::Formatter<'_>) -> std::fmt::Result { f.write_str("ByteView") } }
impl PartialEq for ByteView { fn eq(&self, o: &Self) -> bool { u16::from_be_bytes(self.buf) == u16::from_be_bytes(o.buf) } }
impl Eq for ByteView {}
impl PartialOrd for ByteView { fn partial_cmp(&self, o: &Self) -> Option<std::cmp::Ordering> { Some(self.cmp(o)) } }
impl Ord for ByteView { fn cmp(&self, o: &Self) -> std::cmp::Ordering { u16::from_be_bytes(self.buf).cmp(&u16::from_be_bytes(o.buf)) } }
impl std::hash::Hash for ByteView { fn hash<H: std::hash::Hasher>(&self, s: &mut H) { self.buf.hash(s) } }
pub struct Builder(ByteView);
impl Builder { pub fn freeze(self) -> ByteView { self.0 } }
impl Deref for Builder { type Target = [u8]; fn deref(&self) -> &[u8] { &self.0.buf } }
impl DerefMut for Builder { fn deref_mut(&mut self) -> &mut [u8] { &mut self.0.buf } }
