#![allow(dead_code, unused_imports, unused_variables, clippy::all)]

macro_rules! fail_iter {
    ($e:expr) => {
        match $e {
            Ok(v) => v,
            Err(e) => return Some(Err(e.into())),
        }
    };
}
macro_rules! unwrap {
    ($x:expr) => {{
        $x.expect("should read")
    }};
}

pub type HashMap<K, V> = std::collections::HashMap<K, V, rustc_hash::FxBuildHasher>;
pub(crate) type HashSet<K> = std::collections::HashSet<K, rustc_hash::FxBuildHasher>;

// ---- verbatim real files -------------------------------------------------
#[path = "/repo/src/slice/mod.rs"] mod slice;
pub use slice::Slice;
#[path = "/repo/src/error.rs"] mod error;
pub use error::{Error, Result};
#[path = "/repo/src/checksum.rs"] pub mod checksum;
pub use checksum::Checksum;
#[path = "/repo/src/coding.rs"] pub mod coding;
#[path = "/repo/src/compression.rs"] mod compression;
pub use compression::CompressionType;
#[path = "/repo/src/format_version.rs"] mod format_version;
pub use format_version::FormatVersion;
#[path = "/repo/src/file.rs"] pub mod file;
#[path = "/repo/src/seqno.rs"] mod seqno;
pub use seqno::SequenceNumberCounter;
#[path = "/repo/src/value_type.rs"] mod value_type;
pub use value_type::ValueType;
#[path = "/repo/src/key.rs"] mod key;
#[path = "/repo/src/value.rs"] mod value;
pub use value::{InternalValue, SeqNo, UserKey, UserValue};
#[path = "/repo/src/key_range.rs"] mod key_range;
pub use key_range::KeyRange;
#[path = "/tmp/kx/core/vsrc/version/mod.rs"] pub mod version;

pub type KvPair = (UserKey, UserValue);
pub mod config { pub struct Config { pub level_count: u8 } }
pub mod time { pub fn unix_timestamp() -> std::time::Duration { std::time::Duration::from_secs(1_000_000) } }
pub mod compaction {
    #[path = "/repo/src/compaction/state/mod.rs"] pub mod state;
    #[path = "/tmp/kx/core/vsrc/fifo.rs"] pub mod fifo;
    use crate::{compaction::state::CompactionState, config::Config, version::Version, HashSet, KvPair, TableId};
    #[derive(Debug, Eq, PartialEq)]
    pub struct Input { pub table_ids: HashSet<TableId>, pub dest_level: u8, pub canonical_level: u8, pub target_size: u64 }
    #[derive(Debug, Eq, PartialEq)]
    pub enum Choice { DoNothing, Move(Input), Merge(Input), Drop(HashSet<TableId>) }
    pub trait CompactionStrategy {
        fn get_name(&self) -> &'static str;
        fn get_config(&self) -> Vec<KvPair> { vec![] }
        fn choose(&self, version: &Version, config: &Config, state: &CompactionState) -> Choice;
    }
    #[path = "/repo/src/compaction/stream.rs"] pub mod stream;
}
pub mod blob_tree {
    #[path = "/repo/src/blob_tree/gc.rs"] pub mod gc;
    #[path = "/repo/src/blob_tree/handle.rs"] pub mod handle;
    pub use gc::{FragmentationEntry, FragmentationMap};
}
pub use blob_tree::handle::BlobIndirection;
pub mod tree {
    pub mod inner { pub type TreeId = u64; pub type MemtableId = u64; }
    #[path = "/repo/src/tree/sealed.rs"] pub mod sealed;
}
pub use tree::inner::TreeId;

// ---- light shims (contracts of the environment) ---------------------------
#[derive(Copy, Clone, Debug, PartialEq, Eq)]
pub enum TreeType { Standard, Blob }
impl From<TreeType> for u8 { fn from(v: TreeType) -> u8 { match v { TreeType::Standard => 0, TreeType::Blob => 1 } } }
impl TryFrom<u8> for TreeType { type Error = (); fn try_from(v: u8) -> std::result::Result<Self, ()> { match v { 0 => Ok(Self::Standard), 1 => Ok(Self::Blob), _ => Err(()) } } }

pub type TableId = u64;
#[derive(Copy, Clone, Debug, PartialEq, Eq, PartialOrd, Ord, Hash)]
pub struct GlobalTableId(pub TreeId, pub TableId);

pub mod memtable {
    pub use crate::tree::inner::MemtableId;
    /// light Memtable: identity and size only
    pub struct Memtable { pub id: MemtableId, pub sz: u64 }
    impl Memtable {
        pub fn new(id: MemtableId) -> Self { Self { id, sz: 0 } }
        pub fn id(&self) -> MemtableId { self.id }
        pub fn size(&self) -> u64 { self.sz }
    }
}
pub use memtable::Memtable;

pub mod table {
    use crate::{Checksum, KeyRange, SeqNo, TableId};
    use std::sync::Arc;
    pub mod writer {
        #[derive(Copy, Clone, PartialEq, Eq, Debug, std::hash::Hash)]
        pub struct LinkedFile { pub blob_file_id: u64, pub bytes: u64, pub on_disk_bytes: u64, pub len: usize }
    }
    pub struct Meta { pub id: TableId, pub key_range: KeyRange, pub seqnos: (SeqNo, SeqNo), pub file_size: u64, pub created_at: u128 }
    pub struct Inner { pub metadata: Meta, pub checksum: Checksum, pub global_seqno: SeqNo, pub links: Option<Vec<writer::LinkedFile>> }
    #[derive(Clone)]
    pub struct Table(pub Arc<Inner>);
    impl std::ops::Deref for Table { type Target = Inner; fn deref(&self) -> &Inner { &self.0 } }
    impl Table {
        pub fn id(&self) -> TableId { self.metadata.id }
        pub fn checksum(&self) -> Checksum { self.0.checksum }
        pub fn global_seqno(&self) -> SeqNo { self.0.global_seqno }
        pub fn file_size(&self) -> u64 { self.metadata.file_size }
        pub fn referenced_blob_bytes(&self) -> crate::Result<u64> { Ok(0) }
        pub fn list_blob_file_references(&self) -> crate::Result<Option<Vec<writer::LinkedFile>>> { Ok(self.0.links.clone()) }
    }
}
pub use table::Table;

pub mod vlog {
    use crate::{blob_tree::FragmentationMap, Checksum};
    use std::sync::Arc;
    pub type BlobFileId = u64;
    #[path = "/repo/src/vlog/handle.rs"] pub mod handle;
    pub use handle::ValueHandle;
    pub struct Meta { pub total_compressed_bytes: u64, pub total_uncompressed_bytes: u64 }
    pub struct Inner { pub id: BlobFileId, pub checksum: Checksum, pub meta: Meta }
    #[derive(Clone)]
    pub struct BlobFile(pub Arc<Inner>);
    impl Eq for BlobFile {}
    impl PartialEq for BlobFile { fn eq(&self, o: &Self) -> bool { self.id() == o.id() } }
    impl std::hash::Hash for BlobFile { fn hash<H: std::hash::Hasher>(&self, s: &mut H) { self.id().hash(s) } }
    impl BlobFile {
        pub fn id(&self) -> BlobFileId { self.0.id }
        pub(crate) fn is_dead(&self, frag_map: &FragmentationMap) -> bool {
            frag_map.get(&self.id()).is_some_and(|x| x.bytes == self.0.meta.total_uncompressed_bytes)
        }
    }
}
pub use vlog::BlobFile;

