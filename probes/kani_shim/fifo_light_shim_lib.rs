#![allow(dead_code, unused_imports, unused_variables, clippy::all)]
#[path = "/repo/src/slice/mod.rs"] mod slice;
pub use slice::Slice;
pub type UserKey = Slice;
pub type UserValue = Slice;
pub type KvPair = (UserKey, UserValue);
pub type TableId = u64;

/// light set standing for FxHashSet (contract: a set)
#[derive(Clone, Debug, Default)]
pub struct HashSet<K> { items: Vec<K> }
impl<K: PartialEq> HashSet<K> {
    pub fn insert(&mut self, k: K) -> bool { if self.contains(&k) { false } else { self.items.push(k); true } }
    pub fn contains(&self, k: &K) -> bool { let mut i = 0; while i < self.items.len() { if &self.items[i] == k { return true; } i += 1; } false }
    pub fn is_empty(&self) -> bool { self.items.is_empty() }
    pub fn remove(&mut self, k: &K) -> bool { if let Some(p) = self.items.iter().position(|x| x == k) { self.items.swap_remove(p); true } else { false } }
    pub fn extend<I: IntoIterator<Item = K>>(&mut self, it: I) { for k in it { self.insert(k); } }
}
impl<K: PartialEq> PartialEq for HashSet<K> { fn eq(&self, o: &Self) -> bool { self.items.len() == o.items.len() && self.items.iter().all(|k| o.contains(k)) } }
impl<K: PartialEq> Eq for HashSet<K> {}

pub mod config { pub struct Config; }
pub mod time { pub fn unix_timestamp() -> std::time::Duration { std::time::Duration::from_secs(1_000_000) } }

pub mod version {
    use crate::compaction::state::hidden_set::HiddenSet;
    #[derive(Copy, Clone, PartialEq, Eq, PartialOrd, Ord, Debug)]
    pub struct Timestamp(pub u128);
    impl From<Timestamp> for u128 { fn from(t: Timestamp) -> u128 { t.0 } }
    pub struct Meta { pub created_at: Timestamp }
    pub struct Table { pub metadata: Meta, pub id: u64, pub size: u64 }
    impl Table {
        pub fn id(&self) -> u64 { self.id }
        pub fn file_size(&self) -> u64 { self.size }
        pub fn referenced_blob_bytes(&self) -> Result<u64, ()> { Ok(0) }
    }
    pub struct Run { pub tables: [Table; 3], pub len: usize }
    impl Run { pub fn iter(&self) -> std::slice::Iter<'_, Table> { self.tables[..self.len].iter() } }
    pub struct Level { pub runs: [Run; 1], pub len: usize }
    impl Level {
        pub fn is_empty(&self) -> bool { self.len == 0 }
        pub fn is_disjoint(&self) -> bool { self.len == 1 }
        pub fn iter(&self) -> std::slice::Iter<'_, Run> { self.runs[..self.len].iter() }
        pub fn size(&self) -> u64 { let mut s = 0; for r in self.iter() { for t in r.iter() { s += t.size; } } s }
    }
    pub struct BlobFiles;
    impl BlobFiles { pub fn on_disk_size(&self) -> u64 { 0 } }
    pub struct Version { pub levels: [Level; 1], pub blob_files: BlobFiles }
    impl Version {
        pub fn l0(&self) -> &Level { &self.levels[0] }
        pub fn level_is_busy(&self, _idx: usize, _h: &HiddenSet) -> bool { false }
    }
}

pub mod compaction {
    #[path = "/repo/src/compaction/state/mod.rs"] pub mod state;
    #[path = "/tmp/kx/fifo/fifo_copy.rs"] pub mod fifo;
    use crate::{compaction::state::CompactionState, config::Config, version::Version, HashSet, KvPair, TableId};
    #[derive(Debug, Eq, PartialEq)]
    pub struct Input { pub table_ids: HashSet<TableId>, pub dest_level: u8, pub canonical_level: u8, pub target_size: u64 }
    #[derive(Debug, Eq, PartialEq)]
    pub enum Choice { DoNothing, Move(Input), Merge(Input), Drop(HashSet<TableId>) }
    pub trait CompactionStrategy {
        fn get_name(&self) -> &'static str;
        fn get_config(&self) -> Vec<KvPair> { vec![] }
        fn choose(&self, version: &Version, config: &Config, state: &CompactionState) -> Choice;
    }
}
