#![allow(dead_code, unused_imports, unused_variables, static_mut_refs, clippy::all)]
pub use ::vfs;
#[path = "/repo/src/slice/mod.rs"] mod slice;
pub use slice::Slice;
#[path = "/tmp/kx/ord/file_r9.rs"] pub mod file;

#[cfg(kani)]
mod harness {
    use super::*;
    use vfs::{Op, FAIL_AT, LOG, N};
    use std::path::Path;

    fn idx(op: Op) -> usize { unsafe { let mut i = 0; while i < vfs::CAP { if i < N && LOG[i] == op { return i; } i += 1; } usize::MAX } }

    /// C05.2: rewrite_atomic — temp written and synced before the rename; file and directory synced after;
    /// with one injected fault nothing after the fault happens.
    #[kani::proof]
    #[kani::unwind(18)]
    fn c05_2_rewrite_atomic_order() {
        let f: usize = kani::any();
        unsafe { FAIL_AT = f; }
        let r = file::rewrite_atomic(Path::new("d/current"), b"abc");
        let n = unsafe { N };
        if f >= n {
            assert!(r.is_ok());
            let (c, w, s, rn) = (idx(Op::CreateTemp), idx(Op::WriteTemp), idx(Op::SyncTemp), idx(Op::RenameTempOver));
            assert!(c < w && w < s && s < rn);
            assert!(rn < idx(Op::SyncFile));
            assert!(n == rn + 5 || n == rn + 4 || n > rn);
        } else {
            assert!(r.is_err());
            assert!(n == f + 1);
            // rename happened only if everything before it succeeded
            let rn = idx(Op::RenameTempOver);
            if rn != usize::MAX && rn < f { assert!(idx(Op::SyncTemp) < rn); }
        }
        kani::cover!(r.is_ok());
        kani::cover!(r.is_err());
    }
}
