#![allow(dead_code, unused_imports, clippy::all)]

macro_rules! fail_iter {
    ($e:expr) => {
        match $e {
            Ok(v) => v,
            Err(e) => return Some(Err(e.into())),
        }
    };
}

/// Light stand-in for lsm_tree::Slice: a totally ordered, clonable byte-string token.
#[derive(Clone, PartialEq, Eq, PartialOrd, Ord, Debug, Hash)]
pub struct Slice(pub u8);
impl Slice {
    pub fn len(&self) -> usize { 1 }
    pub fn is_empty(&self) -> bool { false }
    pub fn empty() -> Self { Slice(0) }
}
impl From<Vec<u8>> for Slice { fn from(v: Vec<u8>) -> Self { Slice(v.first().copied().unwrap_or(0)) } }
impl From<u8> for Slice { fn from(v: u8) -> Self { Slice(v) } }
impl PartialEq<&Slice> for Slice { fn eq(&self, o: &&Slice) -> bool { self.0 == o.0 } }

pub type UserKey = Slice;
pub type UserValue = Slice;
pub type SeqNo = u64;

#[derive(Debug)]
pub struct Error;
pub type Result<T> = std::result::Result<T, Error>;

#[path = "/repo/src/value_type.rs"]
mod value_type;
pub use value_type::ValueType;

#[path = "/repo/src/key.rs"]
mod key;

#[path = "/repo/src/value.rs"]
mod value;
pub use value::InternalValue;

#[path = "/repo/src/compaction/stream.rs"]
pub mod stream;

#[cfg(kani)]
mod harness {
    use super::*;
    use crate::key::InternalKey;
    use crate::stream::*;

    fn any_vt() -> ValueType {
        let x: u8 = kani::any();
        kani::assume(x < 3);
        match x { 0 => ValueType::Value, 1 => ValueType::Tombstone, _ => ValueType::WeakTombstone }
    }

    const N: usize = 3;

    struct Src { items: [InternalValue; N], len: usize, pos: usize }
    impl Iterator for Src {
        type Item = crate::Result<InternalValue>;
        fn next(&mut self) -> Option<Self::Item> {
            if self.pos >= self.len { return None; }
            let it = self.items[self.pos].clone();
            self.pos += 1;
            Some(Ok(it))
        }
    }

    struct Log { n: usize }
    impl DroppedKvCallback for Log {
        fn on_dropped(&mut self, _kv: &InternalValue) {
            self.n += 1;
        }
    }

    fn mk(k: u8, s: SeqNo, t: ValueType) -> InternalValue {
        InternalValue { key: InternalKey { user_key: Slice(k), seqno: s, value_type: t }, value: Slice(0) }
    }

    /// conservation + newest-survives + order, N<=4 entries over keys {0,1}
    #[kani::proof]
    #[kani::unwind(5)]
    fn stream_contract() {
        let len: usize = kani::any();
        kani::assume(len <= N);
        let mut ks = [0u8; N]; let mut ss = [0u64; N]; let mut ts = [ValueType::Value; N];
        let mut i = 0;
        while i < N { ks[i] = kani::any(); kani::assume(ks[i] < 2); ss[i] = kani::any(); ts[i] = any_vt(); i += 1; }
        // strictly sorted by (key asc, seqno desc)
        let mut i = 1;
        while i < N { if i < len { kani::assume(ks[i-1] < ks[i] || (ks[i-1] == ks[i] && ss[i-1] > ss[i])); } i += 1; }
        let wm: SeqNo = kani::any();
        let evict: bool = kani::any();
        let src = Src { items: [mk(ks[0], ss[0], ts[0]), mk(ks[1], ss[1], ts[1]), mk(ks[2], ss[2], ts[2])], len, pos: 0 };
        let mut log = Log { n: 0 };
        let mut out = [(0u8, 0u64, ValueType::Value); N];
        let mut on = 0usize;
        {
            let mut cs = CompactionStream::new(src, wm).evict_tombstones(evict).with_drop_callback(&mut log);
            let mut n = 0;
            while n <= N {
                match cs.next() {
                    Some(Ok(it)) => { assert!(on < N); out[on] = (it.key.user_key.0, it.key.seqno, it.key.value_type); on += 1; }
                    Some(Err(_)) => { assert!(false); }
                    None => break,
                }
                n += 1;
            }
        }
        // order preserved, strictly sorted
        let mut i = 1;
        while i < N { if i < on { assert!(out[i-1].0 < out[i].0 || (out[i-1].0 == out[i].0 && out[i-1].1 > out[i].1)); } i += 1; }
        // every output is an input entry (same key, seqno, type)
        let mut i = 0;
        while i < N { if i < on { let mut f = false; let mut j = 0; while j < N { if j < len && ks[j] == out[i].0 && ss[j] == out[i].1 && ts[j] == out[i].2 { f = true; } j += 1; } assert!(f); } i += 1; }
        // newest version of each key survives unless it is a tombstone evicted at the last level
        // or a weak tombstone paired with a value below the watermark
        let mut j = 0;
        while j < N {
            if j < len && (j == 0 || ks[j-1] != ks[j]) {
                let newest_kept = { let mut f = false; let mut i = 0; while i < N { if i < on && out[i].0 == ks[j] && out[i].1 == ss[j] { f = true; } i += 1; } f };
                let has_next = j + 1 < len && ks[j+1] == ks[j];
                let may_drop = (ts[j] != ValueType::Value && evict)
                    || (ts[j] == ValueType::WeakTombstone && has_next && ts[j+1] == ValueType::Value && ss[j+1] < wm);
                if !may_drop { assert!(newest_kept); }
            }
            j += 1;
        }
        // conservation: |in| = |out| + |dropped|
        assert!(len == on + log.n);
        kani::cover!(on == 2 && log.n == 2);
    }
}
