#![allow(dead_code, unused_imports, unused_variables, static_mut_refs, clippy::all)]
extern crate alloc;
pub use ::vfs;
pub type SeqNo = u64;
#[derive(Copy, Clone, Debug, PartialEq, Eq)]
pub enum TreeType { Standard, Blob }
#[derive(Debug)]
pub struct Error;
impl From<std::io::Error> for Error { fn from(_: std::io::Error) -> Self { Error } }
pub type Result<T> = std::result::Result<T, Error>;
#[path = "/repo/src/seqno.rs"] mod seqno;
pub use seqno::SequenceNumberCounter;
pub mod file { pub fn retry_transient_io<T>(mut op: impl FnMut() -> std::io::Result<T>) -> std::io::Result<T> { op() } }
pub mod memtable {
    pub struct Memtable { pub id: u64 }
    impl Memtable { pub fn new(id: u64) -> Self { Self { id } } pub fn size(&self) -> u64 { 0 } }
}
pub use memtable::Memtable;
pub mod tree { pub mod sealed {
    use std::sync::Arc;
    #[derive(Clone, Default)]
    pub struct SealedMemtables(pub Vec<Arc<crate::Memtable>>);
    impl SealedMemtables { pub fn iter(&self) -> impl DoubleEndedIterator<Item = &Arc<crate::Memtable>> { self.0.iter() } }
} }
pub type HashMap<K, V> = std::collections::HashMap<K, V>;
pub mod version {
    /// light Version: identity only (super_version.rs uses id() and Clone)
    #[derive(Clone)]
    pub struct Version { id: u64 }
    impl Version { pub fn new(id: u64, _t: crate::TreeType) -> Self { Self { id } } pub fn id(&self) -> u64 { self.id } }
    /// contract of persist_version: may fail; logs the call
    pub fn persist_version(_folder: &std::path::Path, _v: &Version) -> crate::Result<()> { Ok(()) }
    #[path = "/tmp/kx/svu/sv_r9.rs"] pub mod super_version;
    pub use super_version::{SuperVersion, SuperVersions};
}
