//! Logging file-system shim: every call appends an Op to a global log and may fail at FAIL_AT.
//! No persistence semantics are modelled.
use std::path::Path;

#[derive(Clone, Copy, PartialEq, Eq, Debug)]
pub enum Op { None, Create, Open, OpenDir, Write, SyncFile, SyncTemp, SyncDir, CreateTemp, WriteTemp, FlushTemp, RenameTempOver, Remove }

pub const CAP: usize = 16;
pub static mut LOG: [Op; CAP] = [Op::None; CAP];
pub static mut N: usize = 0;
pub static mut FAIL_AT: usize = usize::MAX;

pub fn log(op: Op) -> std::io::Result<()> {
    unsafe {
        let i = N;
        if i < CAP { LOG[i] = op; }
        N = i + 1;
        if i == FAIL_AT { return Err(std::io::Error::from(std::io::ErrorKind::Other)); }
    }
    Ok(())
}

#[derive(Clone, Copy, PartialEq, Eq)]
enum Kind { Regular, Dir, Temp }
pub struct File { kind: Kind }
pub struct Metadata { dir: bool }
impl Metadata { pub fn is_dir(&self) -> bool { self.dir } pub fn len(&self) -> u64 { 0 } }

impl File {
    pub fn temp() -> Self { File { kind: Kind::Temp } }
    pub fn create<P: AsRef<Path>>(_p: P) -> std::io::Result<File> { log(Op::Create)?; Ok(File { kind: Kind::Regular }) }
    pub fn open<P: AsRef<Path>>(p: P) -> std::io::Result<File> {
        // convention of the shim: paths without a file name component that end in a directory are opened via OpenDir by callers that fsync them
        let _ = p; log(Op::Open)?; Ok(File { kind: Kind::Dir })
    }
    pub fn sync_all(&self) -> std::io::Result<()> { match self.kind { Kind::Temp => log(Op::SyncTemp), _ => log(Op::SyncFile) } }
    pub fn metadata(&self) -> std::io::Result<Metadata> { Ok(Metadata { dir: self.kind == Kind::Dir }) }
    pub fn read_at(&self, _buf: &mut [u8], _off: u64) -> std::io::Result<usize> { Ok(0) }
}
impl std::io::Write for File {
    fn write(&mut self, b: &[u8]) -> std::io::Result<usize> { log(Op::Write)?; Ok(b.len()) }
    fn flush(&mut self) -> std::io::Result<()> { Ok(()) }
}
impl std::io::Write for &File {
    fn write(&mut self, b: &[u8]) -> std::io::Result<usize> { log(Op::Write)?; Ok(b.len()) }
    fn flush(&mut self) -> std::io::Result<()> { Ok(()) }
}
pub fn remove_file<P: AsRef<Path>>(_p: P) -> std::io::Result<()> { log(Op::Remove) }
