use lsm_tree::{get_tmp_folder, AbstractTree, Config, SequenceNumberCounter};

#[test]
fn probe_gc_watermark_below_snapshot() -> lsm_tree::Result<()> {
    let folder = get_tmp_folder();
    let seqno = SequenceNumberCounter::default();
    let tree = Config::new(&folder, seqno.clone(), SequenceNumberCounter::default()).open()?;

    tree.insert("x", "x", seqno.next()); // 0
    tree.insert("a", "old", seqno.next()); // 1
    tree.insert("b", "b", seqno.next()); // 2
    let snapshot = seqno.get(); // 3
    assert_eq!(b"old", &*tree.get("a", snapshot)?.unwrap());
    tree.insert("a", "new", seqno.next()); // 3
    tree.flush_active_memtable(0)?;
    assert_eq!(b"old", &*tree.get("a", snapshot)?.unwrap());
    // watermark strictly below the live snapshot
    tree.major_compact(u64::MAX, snapshot - 1)?;
    eprintln!("after compaction: {:?}", tree.get("a", snapshot)?);
    assert_eq!(b"new", &*tree.get("a", u64::MAX)?.unwrap());
    assert_eq!(Some(&b"old"[..]), tree.get("a", snapshot)?.as_deref());
    Ok(())
}
