use vstd::prelude::*;
use vstd::std_specs::cmp::*;
verus! {

#[verifier::external_body]
pub struct Key { inner: Vec<u8> }
impl Key { pub uninterp spec fn rank(&self) -> int; }
impl PartialEq for Key {
    #[verifier::external_body]
    fn eq(&self, other: &Self) -> (r: bool) { self.inner == other.inner }
}
impl PartialEqSpecImpl for Key {
    open spec fn obeys_eq_spec() -> bool { true }
    open spec fn eq_spec(&self, other: &Self) -> bool { self.rank() == other.rank() }
}
impl PartialOrdSpecImpl for Key {
    open spec fn obeys_partial_cmp_spec() -> bool { true }
    open spec fn partial_cmp_spec(&self, other: &Self) -> Option<core::cmp::Ordering> {
        if self.rank() < other.rank() { Some(core::cmp::Ordering::Less) }
        else if self.rank() == other.rank() { Some(core::cmp::Ordering::Equal) }
        else { Some(core::cmp::Ordering::Greater) }
    }
}
impl PartialOrd for Key {
    #[verifier::external_body]
    fn partial_cmp(&self, other: &Self) -> (r: Option<core::cmp::Ordering>) { self.inner.partial_cmp(&other.inner) }
}

/// prelude: stands for a borrowed byte string `&[u8]` used as a key (rule R3)
#[verifier::external_body]
#[derive(Clone, Copy)]
pub struct KeyRef { p: usize }
impl KeyRef { pub uninterp spec fn rank(&self) -> int; }
impl PartialEq for KeyRef {
    #[verifier::external_body]
    fn eq(&self, other: &Self) -> (r: bool) { true }
}
impl PartialEqSpecImpl for KeyRef {
    open spec fn obeys_eq_spec() -> bool { true }
    open spec fn eq_spec(&self, other: &Self) -> bool { self.rank() == other.rank() }
}
impl PartialEq<Key> for KeyRef {
    #[verifier::external_body]
    fn eq(&self, other: &Key) -> (r: bool) { true }
}
impl PartialEqSpecImpl<Key> for KeyRef {
    open spec fn obeys_eq_spec() -> bool { true }
    open spec fn eq_spec(&self, other: &Key) -> bool { self.rank() == other.rank() }
}
impl PartialOrd<Key> for KeyRef {
    #[verifier::external_body]
    fn partial_cmp(&self, other: &Key) -> (r: Option<core::cmp::Ordering>) { None }
}
impl PartialOrdSpecImpl<Key> for KeyRef {
    open spec fn obeys_partial_cmp_spec() -> bool { true }
    open spec fn partial_cmp_spec(&self, other: &Key) -> Option<core::cmp::Ordering> {
        if self.rank() < other.rank() { Some(core::cmp::Ordering::Less) }
        else if self.rank() == other.rank() { Some(core::cmp::Ordering::Equal) }
        else { Some(core::cmp::Ordering::Greater) }
    }
}

pub struct KeyRange(pub Key, pub Key);
impl KeyRange {
    pub fn min(&self) -> (r: &Key) ensures r == &self.0 { &self.0 }
    pub fn max(&self) -> (r: &Key) ensures r == &self.1 { &self.1 }
    pub open spec fn lo(&self) -> int { self.0.rank() }
    pub open spec fn hi(&self) -> int { self.1.rank() }
    pub open spec fn has(&self, k: int) -> bool { self.lo() <= k <= self.hi() }
}

/// prelude: stands for std::ops::Bound (rule R3)
pub enum Bound<T> { Included(T), Excluded(T), Unbounded }
impl PartialEq for Bound<KeyRef> {
    #[verifier::external_body]
    fn eq(&self, other: &Self) -> (r: bool) { true }
}
impl PartialEqSpecImpl for Bound<KeyRef> {
    open spec fn obeys_eq_spec() -> bool { true }
    open spec fn eq_spec(&self, other: &Self) -> bool {
        match (*self, *other) {
            (Bound::Included(a), Bound::Included(b)) => a.rank() == b.rank(),
            (Bound::Excluded(a), Bound::Excluded(b)) => a.rank() == b.rank(),
            (Bound::Unbounded, Bound::Unbounded) => true,
            _ => false,
        }
    }
}

impl Key {
    /// stands for Slice::as_ref(): comparing the byte strings is comparing the keys
    pub fn as_ref(&self) -> (r: &Key) ensures r == self { self }
}

pub open spec fn above(b: Bound<Key>, k: int) -> bool { match b { Bound::Included(x) => x.rank() <= k, Bound::Excluded(x) => x.rank() < k, Bound::Unbounded => true } }
pub open spec fn below(b: Bound<Key>, k: int) -> bool { match b { Bound::Included(x) => k <= x.rank(), Bound::Excluded(x) => k < x.rank(), Bound::Unbounded => true } }

pub struct OwnedBounds { pub start: Bound<Key>, pub end: Bound<Key> }

impl OwnedBounds {
    pub open spec fn has(&self, k: int) -> bool { above(self.start, k) && below(self.end, k) }

    // ---- verbatim from /repo/src/compaction/drop_range.rs ----
    pub fn contains(&self, range: &KeyRange) -> (r: bool)
        requires range.lo() <= range.hi(),
        ensures r ==> forall|k: int| range.has(k) ==> self.has(k),      // C15.1: dropped only if every key of the table is in R
                r == (self.has(range.lo()) && self.has(range.hi())),
    {
        let lower_ok = match &self.start {
            Bound::Unbounded => true,
            Bound::Included(key) => key.as_ref() <= range.min().as_ref(),
            Bound::Excluded(key) => key.as_ref() < range.min().as_ref(),
        };

        if !lower_ok {
            return false;
        }

        match &self.end {
            Bound::Unbounded => true,
            Bound::Included(key) => key.as_ref() >= range.max().as_ref(),
            Bound::Excluded(key) => key.as_ref() > range.max().as_ref(),
        }
    }
}


impl KeyRange {
    fn as_tuple(&self) -> (r: (&Key, &Key)) ensures r.0 == &self.0, r.1 == &self.1 { (self.min(), self.max()) }

    // ---- verbatim from /repo/src/key_range.rs (Bound<&[u8]> -> Bound<&Key> by R3) ----
    pub fn overlaps_with_bounds(&self, bounds: &(Bound<KeyRef>, Bound<KeyRef>)) -> (r: bool)
        requires self.lo() <= self.hi(),
        ensures (exists|k: int| self.has(k) && above_r(bounds.0, k) && below_r(bounds.1, k)) ==> r,   // C03.2: never culls a table holding an in-range key
    {
        let (lo, hi) = bounds;
        let (my_lo, my_hi) = self.as_tuple();

        if *lo == Bound::Unbounded && *hi == Bound::Unbounded {
            return true;
        }

        if *hi == Bound::Unbounded {
            return match lo {
                Bound::Included(key) => key <= my_hi,
                Bound::Excluded(key) => key < my_hi,
                Bound::Unbounded => unreachable!(),
            };
        }

        if *lo == Bound::Unbounded {
            return match hi {
                Bound::Included(key) => key >= my_lo,
                Bound::Excluded(key) => key > my_lo,
                Bound::Unbounded => unreachable!(),
            };
        }

        let lo_included = match lo {
            Bound::Included(key) => key <= my_hi,
            Bound::Excluded(key) => key < my_hi,
            Bound::Unbounded => unreachable!(),
        };

        let hi_included = match hi {
            Bound::Included(key) => key >= my_lo,
            Bound::Excluded(key) => key > my_lo,
            Bound::Unbounded => unreachable!(),
        };

        lo_included && hi_included
    }
}

pub open spec fn above_r(b: Bound<KeyRef>, k: int) -> bool { match b { Bound::Included(x) => x.rank() <= k, Bound::Excluded(x) => x.rank() < k, Bound::Unbounded => true } }
pub open spec fn below_r(b: Bound<KeyRef>, k: int) -> bool { match b { Bound::Included(x) => k <= x.rank(), Bound::Excluded(x) => k < x.rank(), Bound::Unbounded => true } }

} // verus!
fn main() {}
