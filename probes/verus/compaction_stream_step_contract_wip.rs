use vstd::prelude::*;
use vstd::std_specs::cmp::*;

macro_rules! fail_iter {
    ($e:expr) => {
        match $e {
            Ok(v) => v,
            Err(e) => return Some(Err(e)),
        }
    };
}

verus! {

pub type SeqNo = u64;

#[verifier::external_body]
pub struct Key { inner: Vec<u8> }
impl Key { pub uninterp spec fn rank(&self) -> int; }
impl Clone for Key {
    #[verifier::external_body]
    fn clone(&self) -> (r: Self) ensures r.rank() == self.rank() { Key { inner: self.inner.clone() } }
}
impl PartialEq for Key {
    #[verifier::external_body]
    fn eq(&self, other: &Self) -> (r: bool) { self.inner == other.inner }
}
impl PartialEqSpecImpl for Key {
    open spec fn obeys_eq_spec() -> bool { true }
    open spec fn eq_spec(&self, other: &Self) -> bool { self.rank() == other.rank() }
}
impl PartialOrdSpecImpl for Key {
    open spec fn obeys_partial_cmp_spec() -> bool { true }
    open spec fn partial_cmp_spec(&self, other: &Self) -> Option<core::cmp::Ordering> {
        if self.rank() < other.rank() { Some(core::cmp::Ordering::Less) }
        else if self.rank() == other.rank() { Some(core::cmp::Ordering::Equal) }
        else { Some(core::cmp::Ordering::Greater) }
    }
}
impl PartialOrd for Key {
    #[verifier::external_body]
    fn partial_cmp(&self, other: &Self) -> (r: Option<core::cmp::Ordering>) { self.inner.partial_cmp(&other.inner) }
}
pub type UserKey = Key;

#[verifier::external_body]
pub struct UserValue { inner: Vec<u8> }

#[verifier::external_body]
pub struct Error { inner: u8 }

#[derive(Copy, Clone, PartialEq, Eq, Structural)]
pub enum ValueType { Value, Tombstone, WeakTombstone, Indirection }

impl ValueType {
    pub fn is_tombstone(self) -> (r: bool)
        ensures r == (self == ValueType::Tombstone || self == ValueType::WeakTombstone)
    {
        self == Self::Tombstone || self == Self::WeakTombstone
    }
}

pub struct InternalKey { pub user_key: UserKey, pub seqno: SeqNo, pub value_type: ValueType }
impl InternalKey {
    pub fn is_tombstone(&self) -> (r: bool) ensures r == (self.value_type == ValueType::Tombstone || self.value_type == ValueType::WeakTombstone) { self.value_type.is_tombstone() }
}
pub struct InternalValue { pub key: InternalKey, pub value: UserValue }
impl InternalValue {
    pub fn is_tombstone(&self) -> (r: bool) ensures r == (self.key.value_type == ValueType::Tombstone || self.key.value_type == ValueType::WeakTombstone) { self.key.is_tombstone() }
}

#[verifier::external]
impl std::fmt::Debug for InternalValue { fn fmt(&self, f: &mut std::fmt::Formatter<'_>) -> std::fmt::Result { Ok(()) } }
#[verifier::external]
impl std::fmt::Debug for Error { fn fmt(&self, f: &mut std::fmt::Formatter<'_>) -> std::fmt::Result { Ok(()) } }

pub assume_specification<T, E> [std::result::Result::<T, E>::expect_err] (r: std::result::Result<T, E>, msg: &str) -> (e: E)
    where T: std::fmt::Debug,
    requires r is Err,
    ensures e == r->Err_0;

pub type Item = Result<InternalValue, Error>;

pub enum StreamFilterVerdict { Keep, Replace((ValueType, UserValue)), Drop }

/// stands for std::iter::Peekable<I>
#[verifier::external_body]
pub struct Peek { v: Vec<Item> }
impl Peek {
    pub uninterp spec fn rest(&self) -> Seq<Item>;

    #[verifier::external_body]
    pub fn next(&mut self) -> (r: Option<Item>)
        ensures
            old(self).rest().len() == 0 ==> r is None && final(self).rest() == old(self).rest(),
            old(self).rest().len() > 0 ==> r == Some(old(self).rest()[0]) && final(self).rest() == old(self).rest().skip(1),
    { unimplemented!() }

    #[verifier::external_body]
    pub fn peek(&mut self) -> (r: Option<&Item>)
        ensures
            final(self).rest() == old(self).rest(),
            old(self).rest().len() == 0 ==> r is None,
            old(self).rest().len() > 0 ==> r is Some && *r->0 == old(self).rest()[0],
    { unimplemented!() }
}

pub struct DropLog { pub ghost log: Seq<InternalValue> }
impl DropLog {
    #[verifier::external_body]
    pub fn on_dropped(&mut self, kv: &InternalValue)
        ensures final(self).log == old(self).log.push(*kv)
    { }
}


pub trait StreamFilter {
    fn filter_item(&mut self, item: &InternalValue) -> (r: Result<StreamFilterVerdict, Error>)
        ensures r == Ok::<StreamFilterVerdict, Error>(StreamFilterVerdict::Keep);   // NoFilter instance (C17 generalises)
}

pub open spec fn all_ok(s: Seq<Item>) -> bool { forall|i: int| 0 <= i < s.len() ==> (#[trigger] s[i]) is Ok }
pub open spec fn vals(s: Seq<Item>) -> Seq<InternalValue> { Seq::new(s.len(), |i: int| s[i]->Ok_0) }
pub open spec fn krank(it: Item) -> int { it->Ok_0.key.user_key.rank() }

/// length of the maximal prefix of Ok entries with key rank k
pub open spec fn same_key_prefix(s: Seq<Item>, k: int) -> nat
    decreases s.len()
{
    if s.len() == 0 { 0 } else if s[0] is Ok && krank(s[0]) == k { 1 + same_key_prefix(s.skip(1), k) } else { 0 }
}

pub struct CompactionStream<F: StreamFilter> {
    pub filter: F,
    pub inner: Peek,
    pub gc_seqno_threshold: SeqNo,
    pub dropped_callback: Option<DropLog>,
    pub evict_tombstones: bool,
    pub zero_seqnos: bool,
}

impl<F: StreamFilter> CompactionStream<F> {
    pub open spec fn log(&self) -> Seq<InternalValue> { match self.dropped_callback { Some(l) => l.log, None => Seq::empty() } }
    pub open spec fn has_cb(&self) -> bool { self.dropped_callback is Some }
    pub open spec fn same_cfg(&self, o: &Self) -> bool {
        self.gc_seqno_threshold == o.gc_seqno_threshold && self.evict_tombstones == o.evict_tombstones
        && self.zero_seqnos == o.zero_seqnos && self.has_cb() == o.has_cb()
    }

    #[verifier::external_body]
    fn drain_key(&mut self, key: &UserKey) -> (r: Result<(), Error>)
        ensures
            final(self).same_cfg(old(self)),
            ({
                let s = old(self).inner.rest();
                let n = same_key_prefix(s, key.rank()) as int;
                if n < s.len() && s[n] is Err {
                    r is Err && r->Err_0 == s[n]->Err_0 && final(self).inner.rest() == s.skip(n + 1)
                } else {
                    r is Ok && final(self).inner.rest() == s.skip(n)
                    && (old(self).has_cb() ==> final(self).log() == old(self).log() + vals(s.take(n)))
                }
            }),
    { unimplemented!() }

    fn next(&mut self) -> (r: Option<Item>)
        requires old(self).has_cb(),
        ensures
            final(self).same_cfg(old(self)),
            exists|n: int| 0 <= n <= old(self).inner.rest().len() && final(self).inner.rest() == old(self).inner.rest().skip(n)
              && match r {
                None => n == old(self).inner.rest().len() && all_ok(old(self).inner.rest())
                        && final(self).log() == old(self).log() + vals(old(self).inner.rest()),
                Some(Err(e)) => n >= 1 && old(self).inner.rest()[n - 1] == Err::<InternalValue, Error>(e),
                Some(Ok(x)) => all_ok(old(self).inner.rest().take(n)) && exists|i: int| 0 <= i < n
                        && #[trigger] old(self).inner.rest()[i]->Ok_0.key.user_key.rank() == x.key.user_key.rank()
                        && old(self).inner.rest()[i]->Ok_0.key.value_type == x.key.value_type
                        && (!old(self).zero_seqnos ==> old(self).inner.rest()[i]->Ok_0.key.seqno == x.key.seqno)
                        && final(self).log() == old(self).log() + vals(old(self).inner.rest().take(n).remove(i)),
              },
    {
        let ghost r0 = self.inner.rest();
        let ghost l0 = self.log();
        loop
            invariant
                self.same_cfg(old(self)), self.has_cb(),
                exists|k: int| 0 <= k <= r0.len() && self.inner.rest() == r0.skip(k) && all_ok(r0.take(k)) && self.log() == l0 + vals(r0.take(k)),
            decreases self.inner.rest().len()
        {
            let ghost k0: int = choose|k: int| 0 <= k <= r0.len() && self.inner.rest() == r0.skip(k) && all_ok(r0.take(k)) && self.log() == l0 + vals(r0.take(k));
            let mut head = fail_iter!(self.inner.next()?);

            if !head.is_tombstone() {
                match fail_iter!(self.filter.filter_item(&head)) {
                    StreamFilterVerdict::Keep => { /* Do nothing */ }
                    StreamFilterVerdict::Replace((new_type, new_value)) => {
                        // If we are replacing this item's value, call the dropped callback for the previous item
                        if let Some(watcher) = &mut self.dropped_callback {
                            watcher.on_dropped(&head);
                        }
                        head.value = new_value;
                        head.key.value_type = new_type;
                    }
                    StreamFilterVerdict::Drop => {
                        if let Some(watcher) = &mut self.dropped_callback {
                            watcher.on_dropped(&head);
                        }

                        // Ignore
                        continue;
                    }
                }
            }

            if let Some(peeked) = self.inner.peek() {
                let Ok(peeked) = peeked else {
                    return Some(Err(self
                        .inner
                        .next()
                        .expect("value should exist")
                        .expect_err("should be error")));
                };

                if peeked.key.user_key > head.key.user_key {
                    if head.is_tombstone() && self.evict_tombstones {
                        continue;
                    }

                    // NOTE: Only item of this key and thus latest version, so return it no matter what
                    // ...
                } else if peeked.key.seqno < self.gc_seqno_threshold {
                    if head.key.value_type == ValueType::Tombstone && self.evict_tombstones {
                        fail_iter!(self.drain_key(&head.key.user_key));
                        continue;
                    }

                    // NOTE: If next item is an actual value, and current value is weak tombstone,
                    // drop the tombstone
                    let drop_weak_tombstone = peeked.key.value_type == ValueType::Value
                        && head.key.value_type == ValueType::WeakTombstone;

                    // NOTE: Next item is expired,
                    // so the tail of this user key is entirely expired, so drain it all
                    fail_iter!(self.drain_key(&head.key.user_key));

                    if drop_weak_tombstone {
                        continue;
                    }
                }
            } else if head.is_tombstone() && self.evict_tombstones {
                continue;
            }

            if self.zero_seqnos && head.key.seqno < self.gc_seqno_threshold {
                head.key.seqno = 0;
            }

            return Some(Ok(head));
        }
    }
}

} // verus!
fn main() {}
