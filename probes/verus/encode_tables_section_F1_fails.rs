use vstd::prelude::*;
use vstd::std_specs::iter::*;
verus! {

global size_of usize == 8;

#[verifier::external_body] pub struct Error { p: u8 }

// ---------------- prelude: iterators over ghost sequences ----------------
#[verifier::external_body]
#[verifier::reject_recursive_types(T)]
pub struct SeqIter<T> { v: Vec<T> }
impl<T> SeqIter<T> { pub uninterp spec fn rest(&self) -> Seq<T>; }
impl<T> Iterator for SeqIter<T> {
    type Item = T;
    #[verifier::external_body]
    fn next(&mut self) -> (r: Option<T>) { unimplemented!() }
}
impl<T> IteratorSpecImpl for SeqIter<T> {
    open spec fn obeys_prophetic_iter_laws(&self) -> bool { true }
    open spec fn remaining(&self) -> Seq<T> { self.rest() }
    open spec fn will_return_none(&self) -> bool { true }
    open spec fn decrease(&self) -> Option<nat> { Some(self.rest().len()) }
    open spec fn peek(&self, i: int) -> Option<T> { if 0 <= i < self.rest().len() { Some(self.rest()[i]) } else { None } }
}

// ---------------- prelude: version structure (light) ----------------
pub struct Checksum(pub u128);
impl Checksum { pub fn into_u128(self) -> (r: u128) ensures r == self.0 { self.0 } }
pub struct Table { pub id: u64, pub checksum: u128, pub global_seqno: u64 }
impl Table {
    pub fn id(&self) -> (r: u64) ensures r == self.id { self.id }
    pub fn checksum(&self) -> (r: Checksum) ensures r.0 == self.checksum { Checksum(self.checksum) }
    pub fn global_seqno(&self) -> (r: u64) ensures r == self.global_seqno { self.global_seqno }
}
pub struct Run { pub tables: Vec<Table> }
impl Run {
    pub fn len(&self) -> (r: usize) ensures r == self.tables@.len() { self.tables.len() }
    #[verifier::external_body]
    pub fn iter(&self) -> (r: SeqIter<&Table>)
        ensures r.rest().len() == self.tables@.len(), forall|i: int| 0 <= i < self.tables@.len() ==> *(#[trigger] r.rest()[i]) == self.tables@[i]
    { unimplemented!() }
}
pub struct Level { pub runs: Vec<Run> }
impl Level {
    pub fn len(&self) -> (r: usize) ensures r == self.runs@.len() { self.runs.len() }
    #[verifier::external_body]
    pub fn iter(&self) -> (r: SeqIter<&Run>)
        ensures r.rest().len() == self.runs@.len(), forall|i: int| 0 <= i < self.runs@.len() ==> *(#[trigger] r.rest()[i]) == self.runs@[i]
    { unimplemented!() }
}
pub struct Version { pub levels: Vec<Level> }
impl Version {
    pub fn level_count(&self) -> (r: usize) ensures r == self.levels@.len() { self.levels.len() }
    #[verifier::external_body]
    pub fn iter_levels(&self) -> (r: SeqIter<&Level>)
        ensures r.rest().len() == self.levels@.len(), forall|i: int| 0 <= i < self.levels@.len() ==> *(#[trigger] r.rest()[i]) == self.levels@[i]
    { unimplemented!() }
}

// ---------------- prelude: the section writer, a log of the fields written ----------------
pub enum Field { U8(u8), U32(u32), U64(u64), U128(u128) }
pub struct SfaWriter { pub ghost log: Seq<Field> }
impl SfaWriter {
    #[verifier::external_body] pub fn start(&mut self, name: &str) -> (r: Result<(), Error>) ensures final(self).log == old(self).log { Ok(()) }
    #[verifier::external_body] pub fn write_u8(&mut self, v: u8) -> (r: Result<(), Error>) ensures r is Ok ==> final(self).log == old(self).log.push(Field::U8(v)) { Ok(()) }
    #[verifier::external_body] pub fn write_u32_le(&mut self, v: u32) -> (r: Result<(), Error>) ensures r is Ok ==> final(self).log == old(self).log.push(Field::U32(v)) { Ok(()) }
    #[verifier::external_body] pub fn write_u64_le(&mut self, v: u64) -> (r: Result<(), Error>) ensures r is Ok ==> final(self).log == old(self).log.push(Field::U64(v)) { Ok(()) }
    #[verifier::external_body] pub fn write_u128_le(&mut self, v: u128) -> (r: Result<(), Error>) ensures r is Ok ==> final(self).log == old(self).log.push(Field::U128(v)) { Ok(()) }
}

// ---------------- what a decoder must be able to read back ----------------
pub open spec fn enc_table(t: Table) -> Seq<Field> { seq![Field::U64(t.id), Field::U8(0), Field::U128(t.checksum), Field::U64(t.global_seqno)] }
pub open spec fn enc_tables(ts: Seq<Table>) -> Seq<Field> decreases ts.len() { if ts.len() == 0 { Seq::empty() } else { enc_tables(ts.drop_last()) + enc_table(ts.last()) } }
pub open spec fn enc_run(r: Run) -> Seq<Field> { seq![Field::U32(r.tables@.len() as u32)] + enc_tables(r.tables@) }
pub open spec fn enc_runs(rs: Seq<Run>) -> Seq<Field> decreases rs.len() { if rs.len() == 0 { Seq::empty() } else { enc_runs(rs.drop_last()) + enc_run(rs.last()) } }

impl Version {
    // ---- the `tables` section of Version::encode_into, near-verbatim (`write_u32::<LittleEndian>` -> `write_u32_le` by R13) ----
    pub(crate) fn encode_tables_section(&self, writer: &mut SfaWriter) -> (r: Result<(), Error>)
        ensures
            // structure: the first two fields are the level count and the first level's run count, as written
            r is Ok && self.levels@.len() > 0 ==> ({
                let start = old(writer).log.len() as int;
                final(writer).log.len() >= start + 2
                && final(writer).log[start] == Field::U8(self.levels@.len() as u8)
                && final(writer).log[start + 1] == Field::U8(self.levels@[0].runs@.len() as u8)
            }),
            // C04.2 / C07.5 (losslessness): a successfully written manifest never carries a truncated run count
            r is Ok ==> forall|l: int| 0 <= l < self.levels@.len() ==> (#[trigger] self.levels@[l]).runs@.len() < 256,
    {
        let ghost start = writer.log.len() as int;
        writer.start("tables")?;

        // Level count
        writer.write_u8(self.level_count() as u8)?;

        for level in it: self.iter_levels()
            invariant
                it.seq().len() == self.levels@.len(), forall|i: int| 0 <= i < self.levels@.len() ==> *(#[trigger] it.seq()[i]) == self.levels@[i],
                start == old(writer).log.len(),
                writer.log.len() >= start + 1, writer.log[start] == Field::U8(self.levels@.len() as u8),
                it.index@ > 0 ==> writer.log.len() >= start + 2 && writer.log[start + 1] == Field::U8(self.levels@[0].runs@.len() as u8),
                it.index@ == 0 ==> writer.log.len() == start + 1,
                forall|l: int| 0 <= l < it.index@ ==> (#[trigger] self.levels@[l]).runs@.len() < 256,
        {
            // Run count
            writer.write_u8(level.len() as u8)?;
            let ghost n1 = writer.log.len() as int;
            let ghost f0 = writer.log[start];
            let ghost f1 = writer.log[start + 1];

            for run in level.iter()
                invariant writer.log.len() >= n1, n1 >= start + 2, writer.log[start] == f0, writer.log[start + 1] == f1,
            {
                // Table count
                writer.write_u32_le(run.len() as u32)?;

                // Tables
                for table in run.iter()
                    invariant writer.log.len() >= n1, n1 >= start + 2, writer.log[start] == f0, writer.log[start + 1] == f1,
                {
                    writer.write_u64_le(table.id())?;
                    writer.write_u8(0)?; // Checksum type, 0 = XXH3
                    writer.write_u128_le(table.checksum().into_u128())?;
                    writer.write_u64_le(table.global_seqno())?;
                }
            }
        }

        Ok(())
    }
}

} // verus!
fn main() {}
