use vstd::prelude::*;
use vstd::std_specs::iter::*;
verus! {

global size_of usize == 8;

pub type TableId = u64;
#[verifier::external_body] pub struct Error { p: u8 }

// ---------------- prelude: iterators ----------------
#[verifier::external_body]
#[verifier::reject_recursive_types(T)]
pub struct SeqIter<T> { v: Vec<T> }
impl<T> SeqIter<T> { pub uninterp spec fn rest(&self) -> Seq<T>; }
impl<T> Iterator for SeqIter<T> {
    type Item = T;
    #[verifier::external_body]
    fn next(&mut self) -> (r: Option<T>) { unimplemented!() }
}
impl<T> IteratorSpecImpl for SeqIter<T> {
    open spec fn obeys_prophetic_iter_laws(&self) -> bool { true }
    open spec fn remaining(&self) -> Seq<T> { self.rest() }
    open spec fn will_return_none(&self) -> bool { true }
    open spec fn decrease(&self) -> Option<nat> { Some(self.rest().len()) }
    open spec fn peek(&self, i: int) -> Option<T> { if 0 <= i < self.rest().len() { Some(self.rest()[i]) } else { None } }
}

// ---------------- prelude: tables, level, version ----------------
#[derive(Copy, Clone)]
pub struct Timestamp(pub u128);
impl From<Timestamp> for u128 { fn from(t: Timestamp) -> (r: u128) ensures r == t.0 { t.0 } }
pub struct Meta { pub created_at: Timestamp }
pub struct Table { pub metadata: Meta, pub id: u64, pub size: u64, pub blob_bytes: u64 }
impl Table {
    pub fn id(&self) -> (r: u64) ensures r == self.id { self.id }
    pub fn file_size(&self) -> (r: u64) ensures r == self.size { self.size }
    #[verifier::external_body]
    pub fn referenced_blob_bytes(&self) -> (r: Result<u64, Error>) ensures r is Ok ==> r->Ok_0 == self.blob_bytes { Ok(self.blob_bytes) }
}
pub assume_specification<T: Default, E>[ Result::<T, E>::unwrap_or_default ](r: Result<T, E>) -> (v: T)
    ensures r is Ok ==> v == r->Ok_0, r is Err ==> call_ensures(T::default, (), v);

pub struct Run { pub tables: Vec<Table> }
impl Run {
    #[verifier::external_body]
    pub fn iter(&self) -> (r: SeqIter<&Table>)
        ensures r.rest().len() == self.tables@.len(), forall|i: int| 0 <= i < self.tables@.len() ==> *(#[trigger] r.rest()[i]) == self.tables@[i]
    { unimplemented!() }
}
pub open spec fn all_tables(runs: Seq<Run>) -> Seq<Table>
    decreases runs.len()
{ if runs.len() == 0 { Seq::empty() } else { all_tables(runs.drop_last()) + runs.last().tables@ } }
pub open spec fn deref_tables(s: Seq<&Table>) -> Seq<Table> { Seq::new(s.len(), |i: int| *s[i]) }
pub open spec fn deref_runs(s: Seq<&Run>) -> Seq<Run> { Seq::new(s.len(), |i: int| *s[i]) }

pub struct Level { pub runs: Vec<Run> }
impl Level {
    pub open spec fn tables(&self) -> Seq<Table> { all_tables(self.runs@) }
    pub fn is_empty(&self) -> (r: bool) ensures r == (self.runs@.len() == 0) { self.runs.is_empty() }
    pub fn is_disjoint(&self) -> (r: bool) ensures r == (self.runs@.len() == 1) { self.runs.len() == 1 }
    #[verifier::external_body]
    pub fn size(&self) -> (r: u64) { 0 }
    #[verifier::external_body]
    pub fn iter(&self) -> (r: SeqIter<&Run>)
        ensures deref_runs(r.rest()) == self.runs@
    { unimplemented!() }
}
impl<'a> SeqIter<&'a Run> {
    /// std `flat_map` at this use: the closure must yield exactly the run's tables
    #[verifier::external_body]
    pub fn flat_map<F: FnMut(&'a Run) -> SeqIter<&'a Table>>(self, f: F) -> (r: SeqIter<&'a Table>)
        requires
            forall|x: &'a Run| call_requires(f, (x,)),
            forall|x: &'a Run, it: SeqIter<&'a Table>| call_ensures(f, (x,), it) ==> it.rest().len() == x.tables@.len() && forall|i: int| 0 <= i < x.tables@.len() ==> *(#[trigger] it.rest()[i]) == x.tables@[i],
        ensures deref_tables(r.rest()) == all_tables(deref_runs(self.rest())),
    { unimplemented!() }
}
pub struct BlobFiles;
impl BlobFiles { #[verifier::external_body] pub fn on_disk_size(&self) -> (r: u64) { 0 } }
pub struct HiddenSet;
pub struct CompactionState;
impl CompactionState { pub fn hidden_set(&self) -> &HiddenSet { &HiddenSet } }
pub struct Version { pub l0: Level, pub blob_files: BlobFiles }
impl Version {
    pub fn l0(&self) -> (r: &Level) ensures r == &self.l0 { &self.l0 }
    #[verifier::external_body]
    pub fn level_is_busy(&self, idx: usize, hs: &HiddenSet) -> (r: bool) { false }
}
pub struct Config;

/// prelude: stands for FxHashSet<TableId>
#[verifier::external_body]
pub struct HashSet { v: Vec<u64> }
impl HashSet {
    pub uninterp spec fn view(&self) -> Set<u64>;
    #[verifier::external_body] pub fn default() -> (r: HashSet) ensures r.view() == Set::<u64>::empty() { unimplemented!() }
    #[verifier::external_body] pub fn insert(&mut self, k: u64) -> (r: bool) ensures final(self).view() == old(self).view().insert(k) { unimplemented!() }
    #[verifier::external_body] pub fn is_empty(&self) -> (r: bool) ensures r == (self.view() =~= Set::<u64>::empty()) { unimplemented!() }
}
pub enum Choice { DoNothing, Drop(HashSet) }

/// prelude: clock
pub struct Duration { pub nanos: u128 }
impl Duration { pub fn as_nanos(&self) -> (r: u128) ensures r == self.nanos { self.nanos } }
#[verifier::external_body] pub fn unix_timestamp() -> (r: Duration) { Duration { nanos: 0 } }

pub assume_specification<T, F: FnOnce(T) -> bool>[ Option::<T>::is_some_and ](o: Option<T>, f: F) -> (r: bool)
    requires o is Some ==> call_requires(f, (o->0,)),
    ensures o is None ==> !r, o is Some ==> call_ensures(f, (o->0,), r);

pub struct Strategy { pub limit: u64, pub ttl_seconds: Option<u64> }

pub open spec fn total_bytes(ts: Seq<Table>) -> int
    decreases ts.len()
{ if ts.len() == 0 { 0 } else { total_bytes(ts.drop_last()) + ts.last().size + ts.last().blob_bytes } }

impl Strategy {
    // ---- near-verbatim from /repo/src/compaction/fifo.rs (first half: TTL pass) ----
    fn choose(&self, version: &Version, cfg: &Config, state: &CompactionState) -> (r: Choice)
        requires
            version.l0.runs@.len() <= 1,                      // FIFO's own assertion: L0 is one run
            total_bytes(version.l0.tables()) < 0x7fff_ffff_ffff_ffff,
    {
        let first_level = version.l0();

        // Early return avoids unnecessary work and keeps FIFO a no-op when there is nothing to do.
        if first_level.is_empty() {
            return Choice::DoNothing;
        }

        assert!(first_level.is_disjoint(), "L0 needs to be disjoint");

        let mut ids_to_drop = HashSet::default();

        // Compute TTL cutoff once and perform a single pass to mark expired tables and
        // accumulate their sizes. Also collect non-expired tables for possible size-based drops.
        let ttl_cutoff = match self.ttl_seconds {
            Some(s) if s > 0 => Some(
                unix_timestamp()
                    .as_nanos()
                    .saturating_sub(u128::from(s) * 1_000_000_000u128),
            ),
            _ => None,
        };

        let mut ttl_dropped_bytes = 0u64;
        let mut alive = Vec::new();

        for table in first_level.iter().flat_map(|run: &Run| -> (o: SeqIter<&Table>) ensures o.rest().len() == run.tables@.len() && forall|i: int| 0 <= i < run.tables@.len() ==> *(#[trigger] o.rest()[i]) == run.tables@[i] { run.iter() }) {
            let expired =
                ttl_cutoff.is_some_and(|cutoff: u128| -> (b: bool) ensures b == (table.metadata.created_at.0 <= cutoff) { u128::from(table.metadata.created_at) <= cutoff });

            if expired {
                ids_to_drop.insert(table.id());
                let linked_blob_file_bytes = table.referenced_blob_bytes().unwrap_or_default();
                ttl_dropped_bytes += table.file_size() + linked_blob_file_bytes;
            } else {
                alive.push(table);
            }
        }

        if ids_to_drop.is_empty() {
            Choice::DoNothing
        } else {
            Choice::Drop(ids_to_drop)
        }
    }
}

} // verus!
fn main() {}
