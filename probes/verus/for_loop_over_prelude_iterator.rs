use vstd::prelude::*;
use vstd::std_specs::iter::*;
verus! {
#[verifier::external_body]
#[verifier::reject_recursive_types(T)]
pub struct SeqIter<T> { v: Vec<T> }
impl<T> SeqIter<T> { pub uninterp spec fn rest(&self) -> Seq<T>; }
impl<T> Iterator for SeqIter<T> {
    type Item = T;
    #[verifier::external_body]
    fn next(&mut self) -> (r: Option<T>) { unimplemented!() }
}
impl<T> IteratorSpecImpl for SeqIter<T> {
    open spec fn obeys_prophetic_iter_laws(&self) -> bool { true }
    open spec fn remaining(&self) -> Seq<T> { self.rest() }
    open spec fn will_return_none(&self) -> bool { true }
    open spec fn decrease(&self) -> Option<nat> { Some(self.rest().len()) }
    open spec fn peek(&self, i: int) -> Option<T> { if 0 <= i < self.rest().len() { Some(self.rest()[i]) } else { None } }
}

pub struct Table { pub id: u64, pub size: u64 }
pub struct Level { pub tables: Vec<Table> }
impl Level {
    #[verifier::external_body]
    pub fn iter(&self) -> (r: SeqIter<&Table>)
        ensures r.rest().len() == self.tables@.len(), forall|i: int| 0 <= i < self.tables@.len() ==> *(#[trigger] r.rest()[i]) == self.tables@[i]
    { unimplemented!() }
}

fn total(level: &Level) -> (r: u64)
    requires forall|i: int| 0 <= i < level.tables@.len() ==> (#[trigger] level.tables@[i]).size < 1000, level.tables@.len() < 1000,
{
    let mut sum = 0u64;
    for table in it: level.iter()
        invariant sum <= it.index@ * 1000, it.seq().len() == level.tables@.len(), it.index@ <= it.seq().len(),
            forall|i: int| 0 <= i < it.seq().len() ==> (*(#[trigger] it.seq()[i])).size < 1000,
    {
        sum += table.size;
    }
    sum
}
}
fn main() {}
