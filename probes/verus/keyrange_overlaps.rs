use vstd::prelude::*;
use vstd::std_specs::cmp::*;
verus! {

// Abstract totally ordered key (stands for lsm_tree::Slice): view as int rank
#[verifier::external_body]
pub struct Key { inner: Vec<u8> }

impl Key {
    pub uninterp spec fn rank(&self) -> int;
}

impl PartialEq for Key {
    #[verifier::external_body]
    fn eq(&self, other: &Self) -> (r: bool)
        ensures r == (self.rank() == other.rank())
    { self.inner == other.inner }
}

impl PartialEqSpecImpl for Key {
    open spec fn obeys_eq_spec() -> bool { true }
    open spec fn eq_spec(&self, other: &Self) -> bool { self.rank() == other.rank() }
}

impl PartialOrdSpecImpl for Key {
    open spec fn obeys_partial_cmp_spec() -> bool { true }
    open spec fn partial_cmp_spec(&self, other: &Self) -> Option<core::cmp::Ordering> {
        if self.rank() < other.rank() { Some(core::cmp::Ordering::Less) }
        else if self.rank() == other.rank() { Some(core::cmp::Ordering::Equal) }
        else { Some(core::cmp::Ordering::Greater) }
    }
}

impl PartialOrd for Key {
    #[verifier::external_body]
    fn partial_cmp(&self, other: &Self) -> (r: Option<core::cmp::Ordering>)
    { self.inner.partial_cmp(&other.inner) }
}

pub struct KeyRange(pub Key, pub Key);

impl KeyRange {
    pub fn min(&self) -> (r: &Key) ensures r == &self.0 { &self.0 }
    pub fn max(&self) -> (r: &Key) ensures r == &self.1 { &self.1 }

    fn as_tuple(&self) -> (r: (&Key, &Key)) ensures r.0 == &self.0, r.1 == &self.1 {
        (self.min(), self.max())
    }

    pub open spec fn has(&self, k: int) -> bool { self.0.rank() <= k <= self.1.rank() }

    pub fn overlaps_with_key_range(&self, other: &Self) -> (r: bool)
        requires self.0.rank() <= self.1.rank(), other.0.rank() <= other.1.rank(),
        ensures r == (exists|k: int| self.has(k) && other.has(k))
    {
        let (start1, end1) = self.as_tuple();
        let (start2, end2) = other.as_tuple();
        let r = end1 >= start2 && start1 <= end2;
        proof {
            if r {
                let w = if self.0.rank() >= other.0.rank() { self.0.rank() } else { other.0.rank() };
                assert(self.has(w) && other.has(w));
            }
        }
        r
    }
}

} // verus!
fn main() {}
