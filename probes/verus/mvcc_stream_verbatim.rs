use vstd::prelude::*;
use vstd::std_specs::cmp::*;

macro_rules! fail_iter {
    ($e:expr) => {
        match $e {
            Ok(v) => v,
            Err(e) => return Some(Err(e)),
        }
    };
}

verus! {

pub type SeqNo = u64;

#[verifier::external_body]
pub struct Key { inner: Vec<u8> }
impl Key { pub uninterp spec fn rank(&self) -> int; }
impl Clone for Key {
    #[verifier::external_body]
    fn clone(&self) -> (r: Self) ensures r.rank() == self.rank() { Key { inner: self.inner.clone() } }
}
impl PartialEq for Key {
    #[verifier::external_body]
    fn eq(&self, other: &Self) -> (r: bool) { self.inner == other.inner }
}
impl PartialEqSpecImpl for Key {
    open spec fn obeys_eq_spec() -> bool { true }
    open spec fn eq_spec(&self, other: &Self) -> bool { self.rank() == other.rank() }
}
impl<'a> PartialEq<&'a Key> for Key {
    #[verifier::external_body]
    fn eq(&self, other: &&'a Key) -> (r: bool) { self.inner == other.inner }
}
impl<'a> PartialEqSpecImpl<&'a Key> for Key {
    open spec fn obeys_eq_spec() -> bool { true }
    open spec fn eq_spec(&self, other: &&'a Key) -> bool { self.rank() == other.rank() }
}
impl PartialOrdSpecImpl for Key {
    open spec fn obeys_partial_cmp_spec() -> bool { true }
    open spec fn partial_cmp_spec(&self, other: &Self) -> Option<core::cmp::Ordering> {
        if self.rank() < other.rank() { Some(core::cmp::Ordering::Less) }
        else if self.rank() == other.rank() { Some(core::cmp::Ordering::Equal) }
        else { Some(core::cmp::Ordering::Greater) }
    }
}
impl PartialOrd for Key {
    #[verifier::external_body]
    fn partial_cmp(&self, other: &Self) -> (r: Option<core::cmp::Ordering>) { self.inner.partial_cmp(&other.inner) }
}
pub type UserKey = Key;

#[verifier::external_body]
pub struct UserValue { inner: Vec<u8> }

#[verifier::external_body]
pub struct Error { inner: u8 }

#[derive(Copy, Clone, PartialEq, Eq, Structural)]
pub enum ValueType { Value, Tombstone, WeakTombstone, Indirection }

impl ValueType {
    pub fn is_tombstone(self) -> (r: bool)
        ensures r == (self == ValueType::Tombstone || self == ValueType::WeakTombstone)
    {
        self == Self::Tombstone || self == Self::WeakTombstone
    }
}

pub struct InternalKey { pub user_key: UserKey, pub seqno: SeqNo, pub value_type: ValueType }
impl InternalKey {
    pub fn is_tombstone(&self) -> (r: bool) ensures r == (self.value_type == ValueType::Tombstone || self.value_type == ValueType::WeakTombstone) { self.value_type.is_tombstone() }
}
pub struct InternalValue { pub key: InternalKey, pub value: UserValue }
impl InternalValue {
    pub fn is_tombstone(&self) -> (r: bool) ensures r == (self.key.value_type == ValueType::Tombstone || self.key.value_type == ValueType::WeakTombstone) { self.key.is_tombstone() }
}

#[verifier::external]
impl std::fmt::Debug for InternalValue { fn fmt(&self, f: &mut std::fmt::Formatter<'_>) -> std::fmt::Result { Ok(()) } }
#[verifier::external]
impl std::fmt::Debug for Error { fn fmt(&self, f: &mut std::fmt::Formatter<'_>) -> std::fmt::Result { Ok(()) } }

pub assume_specification<T, E> [std::result::Result::<T, E>::expect_err] (r: std::result::Result<T, E>, msg: &str) -> (e: E)
    where T: std::fmt::Debug,
    requires r is Err,
    ensures e == r->Err_0;

pub type Item = Result<InternalValue, Error>;


/// stands for crate::double_ended_peekable::DoubleEndedPeekable<Item, I>
#[verifier::external_body]
pub struct DEPeek { v: Vec<Item> }
impl DEPeek {
    pub uninterp spec fn rest(&self) -> Seq<Item>;

    #[verifier::external_body]
    pub fn next(&mut self) -> (r: Option<Item>)
        ensures
            old(self).rest().len() == 0 ==> r is None && final(self).rest() == old(self).rest(),
            old(self).rest().len() > 0 ==> r == Some(old(self).rest()[0]) && final(self).rest() == old(self).rest().skip(1),
    { unimplemented!() }

    #[verifier::external_body]
    pub fn next_back(&mut self) -> (r: Option<Item>)
        ensures
            old(self).rest().len() == 0 ==> r is None && final(self).rest() == old(self).rest(),
            old(self).rest().len() > 0 ==> r == Some(old(self).rest().last()) && final(self).rest() == old(self).rest().drop_last(),
    { unimplemented!() }

    #[verifier::external_body]
    pub fn peek_back(&mut self) -> (r: Option<&Item>)
        ensures
            final(self).rest() == old(self).rest(),
            old(self).rest().len() == 0 ==> r is None,
            old(self).rest().len() > 0 ==> r is Some && *r->0 == old(self).rest().last(),
    { unimplemented!() }

    #[verifier::external_body]
    pub fn next_if<F: FnOnce(&Item) -> bool>(&mut self, func: F) -> (r: Option<Item>)
        requires old(self).rest().len() > 0 ==> call_requires(func, (&old(self).rest()[0],)),
        ensures
            old(self).rest().len() == 0 ==> r is None && final(self).rest() == old(self).rest(),
            old(self).rest().len() > 0 && call_ensures(func, (&old(self).rest()[0],), true) ==> r == Some(old(self).rest()[0]) && final(self).rest() == old(self).rest().skip(1),
            old(self).rest().len() > 0 && call_ensures(func, (&old(self).rest()[0],), false) ==> r is None && final(self).rest() == old(self).rest(),
    { unimplemented!() }
}

pub struct MvccStream { inner: DEPeek }

impl MvccStream {
    // Drains all entries for the given user key from the front of the iterator.
    fn drain_key_min(&mut self, key: &UserKey) -> (r: Result<(), Error>)
        ensures final(self).inner.rest().len() <= old(self).inner.rest().len()
    {
        loop
            invariant self.inner.rest().len() <= old(self).inner.rest().len()
            decreases self.inner.rest().len()
        {
            let Some(next) = self.inner.next_if(|kv: &Item| -> (b: bool) ensures b == (match kv { Ok(kv) => kv.key.user_key.rank() == key.rank(), Err(_) => true }) {
                if let Ok(kv) = kv {
                    kv.key.user_key == key
                } else {
                    true
                }
            }) else {
                return Ok(());
            };

            next?;
        }
    }

    fn next(&mut self) -> (r: Option<Item>) {
        let head = fail_iter!(self.inner.next()?);

        // As long as items are the same key, ignore them
        fail_iter!(self.drain_key_min(&head.key.user_key));

        Some(Ok(head))
    }

    fn next_back(&mut self) -> (r: Option<Item>) {
        loop
            decreases self.inner.rest().len()
        {
            let tail = fail_iter!(self.inner.next_back()?);

            let prev = match self.inner.peek_back() {
                Some(Ok(prev)) => prev,
                Some(Err(_)) => {
                    return Some(Err(self
                        .inner
                        .next_back()
                        .expect("should exist")
                        .expect_err("should be error")));
                }
                None => {
                    return Some(Ok(tail));
                }
            };

            if prev.key.user_key < tail.key.user_key {
                return Some(Ok(tail));
            }
        }
    }
}

} // verus!
fn main() {}
