use vstd::prelude::*;
use vstd::std_specs::cmp::*;
verus! {

#[verifier::external_body]
pub struct Key { inner: Vec<u8> }
impl Key { pub uninterp spec fn rank(&self) -> int; }
impl PartialEq for Key {
    #[verifier::external_body]
    fn eq(&self, other: &Self) -> (r: bool) { self.inner == other.inner }
}
impl PartialEqSpecImpl for Key {
    open spec fn obeys_eq_spec() -> bool { true }
    open spec fn eq_spec(&self, other: &Self) -> bool { self.rank() == other.rank() }
}
impl PartialOrdSpecImpl for Key {
    open spec fn obeys_partial_cmp_spec() -> bool { true }
    open spec fn partial_cmp_spec(&self, other: &Self) -> Option<core::cmp::Ordering> {
        if self.rank() < other.rank() { Some(core::cmp::Ordering::Less) }
        else if self.rank() == other.rank() { Some(core::cmp::Ordering::Equal) }
        else { Some(core::cmp::Ordering::Greater) }
    }
}
impl PartialOrd for Key {
    #[verifier::external_body]
    fn partial_cmp(&self, other: &Self) -> (r: Option<core::cmp::Ordering>) { self.inner.partial_cmp(&other.inner) }
}

/// prelude: stands for a borrowed byte string `&[u8]` used as a key (rule R3)
#[verifier::external_body]
#[derive(Clone, Copy)]
pub struct KeyRef { p: usize }
impl KeyRef { pub uninterp spec fn rank(&self) -> int; }
impl PartialEq for KeyRef {
    #[verifier::external_body]
    fn eq(&self, other: &Self) -> (r: bool) { true }
}
impl PartialEqSpecImpl for KeyRef {
    open spec fn obeys_eq_spec() -> bool { true }
    open spec fn eq_spec(&self, other: &Self) -> bool { self.rank() == other.rank() }
}
impl PartialEq<Key> for KeyRef {
    #[verifier::external_body]
    fn eq(&self, other: &Key) -> (r: bool) { true }
}
impl PartialEqSpecImpl<Key> for KeyRef {
    open spec fn obeys_eq_spec() -> bool { true }
    open spec fn eq_spec(&self, other: &Key) -> bool { self.rank() == other.rank() }
}
impl PartialOrd<Key> for KeyRef {
    #[verifier::external_body]
    fn partial_cmp(&self, other: &Key) -> (r: Option<core::cmp::Ordering>) { None }
}
impl PartialOrdSpecImpl<Key> for KeyRef {
    open spec fn obeys_partial_cmp_spec() -> bool { true }
    open spec fn partial_cmp_spec(&self, other: &Key) -> Option<core::cmp::Ordering> {
        if self.rank() < other.rank() { Some(core::cmp::Ordering::Less) }
        else if self.rank() == other.rank() { Some(core::cmp::Ordering::Equal) }
        else { Some(core::cmp::Ordering::Greater) }
    }
}

pub struct KeyRange(pub Key, pub Key);
impl KeyRange {
    pub fn min(&self) -> (r: &Key) ensures r == &self.0 { &self.0 }
    pub fn max(&self) -> (r: &Key) ensures r == &self.1 { &self.1 }
    pub open spec fn lo(&self) -> int { self.0.rank() }
    pub open spec fn hi(&self) -> int { self.1.rank() }
    pub open spec fn has(&self, k: int) -> bool { self.lo() <= k <= self.hi() }
}

/// prelude: stands for std::ops::Bound (rule R3)
pub enum Bound<T> { Included(T), Excluded(T), Unbounded }
impl PartialEq for Bound<KeyRef> {
    #[verifier::external_body]
    fn eq(&self, other: &Self) -> (r: bool) { true }
}
impl PartialEqSpecImpl for Bound<KeyRef> {
    open spec fn obeys_eq_spec() -> bool { true }
    open spec fn eq_spec(&self, other: &Self) -> bool {
        match (*self, *other) {
            (Bound::Included(a), Bound::Included(b)) => a.rank() == b.rank(),
            (Bound::Excluded(a), Bound::Excluded(b)) => a.rank() == b.rank(),
            (Bound::Unbounded, Bound::Unbounded) => true,
            _ => false,
        }
    }
}

impl Key {
    /// stands for Slice::as_ref(): comparing the byte strings is comparing the keys
    pub fn as_ref(&self) -> (r: &Key) ensures r == self { self }
}

pub open spec fn above(b: Bound<Key>, k: int) -> bool { match b { Bound::Included(x) => x.rank() <= k, Bound::Excluded(x) => x.rank() < k, Bound::Unbounded => true } }
pub open spec fn below(b: Bound<Key>, k: int) -> bool { match b { Bound::Included(x) => k <= x.rank(), Bound::Excluded(x) => k < x.rank(), Bound::Unbounded => true } }

impl PartialOrd<KeyRef> for Key {
    #[verifier::external_body]
    fn partial_cmp(&self, other: &KeyRef) -> (r: Option<core::cmp::Ordering>) { None }
}
impl PartialEq<KeyRef> for Key {
    #[verifier::external_body]
    fn eq(&self, other: &KeyRef) -> (r: bool) { true }
}
impl PartialEqSpecImpl<KeyRef> for Key {
    open spec fn obeys_eq_spec() -> bool { true }
    open spec fn eq_spec(&self, other: &KeyRef) -> bool { self.rank() == other.rank() }
}
impl PartialOrdSpecImpl<KeyRef> for Key {
    open spec fn obeys_partial_cmp_spec() -> bool { true }
    open spec fn partial_cmp_spec(&self, other: &KeyRef) -> Option<core::cmp::Ordering> {
        if self.rank() < other.rank() { Some(core::cmp::Ordering::Less) }
        else if self.rank() == other.rank() { Some(core::cmp::Ordering::Equal) }
        else { Some(core::cmp::Ordering::Greater) }
    }
}

/// prelude: stands for `R: RangeBounds<K>` with `K: AsRef<[u8]>` (rule R4)
pub struct RangeB { pub start: Bound<KeyRef>, pub end: Bound<KeyRef> }
impl RangeB {
    pub fn start_bound(&self) -> (r: Bound<&KeyRef>)
        ensures match (r, self.start) { (Bound::Included(a), Bound::Included(b)) => *a == b, (Bound::Excluded(a), Bound::Excluded(b)) => *a == b, (Bound::Unbounded, Bound::Unbounded) => true, _ => false }
    { match &self.start { Bound::Included(k) => Bound::Included(k), Bound::Excluded(k) => Bound::Excluded(k), Bound::Unbounded => Bound::Unbounded } }
    pub fn end_bound(&self) -> (r: Bound<&KeyRef>)
        ensures match (r, self.end) { (Bound::Included(a), Bound::Included(b)) => *a == b, (Bound::Excluded(a), Bound::Excluded(b)) => *a == b, (Bound::Unbounded, Bound::Unbounded) => true, _ => false }
    { match &self.end { Bound::Included(k) => Bound::Included(k), Bound::Excluded(k) => Bound::Excluded(k), Bound::Unbounded => Bound::Unbounded } }
    pub open spec fn has(&self, k: int) -> bool { above_r(self.start, k) && below_r(self.end, k) }
}
pub open spec fn above_r(b: Bound<KeyRef>, k: int) -> bool { match b { Bound::Included(x) => x.rank() <= k, Bound::Excluded(x) => x.rank() < k, Bound::Unbounded => true } }
pub open spec fn below_r(b: Bound<KeyRef>, k: int) -> bool { match b { Bound::Included(x) => k <= x.rank(), Bound::Excluded(x) => k < x.rank(), Bound::Unbounded => true } }

impl From<&KeyRef> for Key {
    #[verifier::external_body]
    fn from(k: &KeyRef) -> (r: Key) ensures r.rank() == k.rank() { unimplemented!() }
}
impl KeyRef { pub fn as_ref(&self) -> (r: &KeyRef) ensures r == self { self } }

pub struct OwnedBounds { pub start: Bound<Key>, pub end: Bound<Key> }

use Bound::{Excluded, Included, Unbounded};

// ---- near-verbatim from /repo/src/tree/mod.rs (R3: Slice -> Key, R4: R -> RangeB) ----
fn range_bounds_to_owned_bounds(range: &RangeB) -> (r: (OwnedBounds, bool))
    ensures
        // bounds are copied unchanged
        forall|k: int| (above(r.0.start, k) && below(r.0.end, k)) == #[trigger] range.has(k),
{
    let start = match range.start_bound() {
        Included(key) => Included(Key::from(key.as_ref())),
        Excluded(key) => Excluded(Key::from(key.as_ref())),
        Unbounded => Unbounded,
    };

    let end = match range.end_bound() {
        Included(key) => Included(Key::from(key.as_ref())),
        Excluded(key) => Excluded(Key::from(key.as_ref())),
        Unbounded => Unbounded,
    };

    let is_empty =
        if let (Included(lo) | Excluded(lo), Included(hi) | Excluded(hi)) = (&start, &end) {
            lo.as_ref() > hi.as_ref()
        } else {
            false
        };

    (OwnedBounds { start, end }, is_empty)
}

} // verus!
fn main() {}
