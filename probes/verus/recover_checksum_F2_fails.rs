use vstd::prelude::*;
verus! {

global size_of usize == 8;

pub type VersionId = u64;
pub type TableId = u64;
pub type BlobFileId = u64;
pub type SeqNo = u64;

// ---------------- prelude: errors, paths, file contents ----------------
pub enum Error { Io, Unrecoverable, InvalidTag(u8), InvalidHeader, ChecksumMismatch }
#[verifier::external_body] pub struct Path { p: u8 }
#[verifier::external_body] pub struct PathBuf { p: u8 }
pub struct VersionFileName { pub id: u64 }
pub fn version_file_name(id: u64) -> (r: VersionFileName) ensures r.id == id { VersionFileName { id } }

/// ghost view of the directory: what `current` records and what the version files contain
pub uninterp spec fn current_id(folder: &Path) -> u64;
pub uninterp spec fn current_checksum(folder: &Path) -> u128;
pub uninterp spec fn file_content(folder: &Path, id: u64) -> Seq<u8>;
pub uninterp spec fn hash128(b: Seq<u8>) -> u128;

impl Path {
    #[verifier::external_body]
    pub fn join(&self, name: VersionFileName) -> (r: PathBuf) ensures r.names(self, name.id) { unimplemented!() }
}
impl PathBuf { pub uninterp spec fn names(&self, folder: &Path, id: u64) -> bool; }

#[derive(Copy, Clone, PartialEq, Eq, Structural)]
pub struct Checksum(pub u128);
impl Checksum {
    pub fn from_raw(v: u128) -> (r: Checksum) ensures r.0 == v { Checksum(v) }
    // ---- verbatim from /repo/src/checksum.rs ----
    pub(crate) fn check(&self, expected: Self) -> (r: Result<(), Error>)
        ensures r is Ok ==> self.0 == expected.0
    {
        if self.0 == expected.0 {
            Ok(())
        } else {
            Err(Error::ChecksumMismatch)
        }
    }
}

// ---------------- prelude: sfa reader (external crate), sections are opaque byte sources ----------------
#[verifier::external_body] pub struct SfaReader { p: u8 }
#[verifier::external_body] pub struct Toc { p: u8 }
#[verifier::external_body] pub struct TocEntry { p: u8 }
#[verifier::external_body] pub struct SectionReader { p: u8 }
pub enum SectionName { Tables, BlobFiles, BlobGcStats, TreeType }
impl SfaReader {
    #[verifier::external_body] pub fn new(path: &PathBuf) -> (r: Result<SfaReader, Error>) { unimplemented!() }
    #[verifier::external_body] pub fn toc(&self) -> (r: &Toc) { unimplemented!() }
}
impl Toc { #[verifier::external_body] pub fn section(&self, name: SectionName) -> (r: Option<&TocEntry>) { unimplemented!() } }
impl TocEntry { #[verifier::external_body] pub fn buf_reader(&self, path: &PathBuf) -> (r: Result<SectionReader, Error>) { unimplemented!() } }
impl SectionReader {
    #[verifier::external_body] pub fn read_u8(&mut self) -> (r: Result<u8, Error>) { unimplemented!() }
    #[verifier::external_body] pub fn read_u32_le(&mut self) -> (r: Result<u32, Error>) { unimplemented!() }
    #[verifier::external_body] pub fn read_u64_le(&mut self) -> (r: Result<u64, Error>) { unimplemented!() }
    #[verifier::external_body] pub fn read_u128_le(&mut self) -> (r: Result<u128, Error>) { unimplemented!() }
}

pub struct RecoveredTable { pub id: TableId, pub checksum: Checksum, pub global_seqno: SeqNo }
pub struct Recovery { pub curr_version_id: VersionId, pub table_ids: Vec<Vec<Vec<RecoveredTable>>> }

/// contract of the (current) `get_current_version`: returns the id recorded in `current`, nothing else is read
#[verifier::external_body]
pub fn get_current_version(folder: &Path) -> (r: Result<VersionId, Error>)
    ensures r is Ok ==> r->Ok_0 == current_id(folder)
{ unimplemented!() }

// ---- near-verbatim from /repo/src/version/recovery.rs: the `tables` part of `recover` (R2, R12, R13; byte-string section names -> enum) ----
pub fn recover(folder: &Path) -> (r: Result<Recovery, Error>)
    ensures
        // C10.5: a version file is only ever accepted after its bytes were compared with the checksum recorded in `current`
        r is Ok ==> hash128(file_content(folder, current_id(folder))) == current_checksum(folder),
{
    let curr_version_id = get_current_version(folder)?;
    let version_file_path = folder.join(version_file_name(curr_version_id));

    // TODO: maybe validate current version using the checksum in "current"

    let reader = SfaReader::new(&version_file_path)?;
    let toc = reader.toc();

    // // TODO: vvv move into Version::decode vvv
    let mut levels = vec![];

    {
        let mut reader = toc
            .section(SectionName::Tables)
            .ok_or(Error::Unrecoverable)?
            .buf_reader(&version_file_path)?;

        let level_count = reader.read_u8()?;

        for _ in 0..level_count {
            let mut level = vec![];
            let run_count = reader.read_u8()?;

            for _ in 0..run_count {
                let mut run = vec![];
                let table_count = reader.read_u32_le()?;

                for _ in 0..table_count {
                    let id = reader.read_u64_le()?;
                    let checksum_type = reader.read_u8()?;

                    if checksum_type != 0 {
                        return Err(Error::InvalidTag(checksum_type));
                    }

                    let checksum = reader.read_u128_le()?;
                    let checksum = Checksum::from_raw(checksum);

                    let global_seqno = reader.read_u64_le()?;

                    run.push(RecoveredTable {
                        id,
                        checksum,
                        global_seqno,
                    });
                }

                level.push(run);
            }

            levels.push(level);
        }
    }

    Ok(Recovery {
        curr_version_id,
        table_ids: levels,
    })
}

} // verus!
fn main() {}
