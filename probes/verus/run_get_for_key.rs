use vstd::prelude::*;
use vstd::std_specs::cmp::*;
verus! {

#[verifier::external_body]
pub struct Key { inner: Vec<u8> }
impl Key { pub uninterp spec fn rank(&self) -> int; }
impl PartialEq for Key {
    #[verifier::external_body]
    fn eq(&self, other: &Self) -> (r: bool) { self.inner == other.inner }
}
impl PartialEqSpecImpl for Key {
    open spec fn obeys_eq_spec() -> bool { true }
    open spec fn eq_spec(&self, other: &Self) -> bool { self.rank() == other.rank() }
}
impl PartialOrdSpecImpl for Key {
    open spec fn obeys_partial_cmp_spec() -> bool { true }
    open spec fn partial_cmp_spec(&self, other: &Self) -> Option<core::cmp::Ordering> {
        if self.rank() < other.rank() { Some(core::cmp::Ordering::Less) }
        else if self.rank() == other.rank() { Some(core::cmp::Ordering::Equal) }
        else { Some(core::cmp::Ordering::Greater) }
    }
}
impl PartialOrd for Key {
    #[verifier::external_body]
    fn partial_cmp(&self, other: &Self) -> (r: Option<core::cmp::Ordering>) { self.inner.partial_cmp(&other.inner) }
}

pub struct KeyRange(pub Key, pub Key);
impl KeyRange {
    pub fn min(&self) -> (r: &Key) ensures r == &self.0 { &self.0 }
    pub fn max(&self) -> (r: &Key) ensures r == &self.1 { &self.1 }
    pub open spec fn lo(&self) -> int { self.0.rank() }
    pub open spec fn hi(&self) -> int { self.1.rank() }
}

pub trait Ranged {
    spec fn kr(&self) -> KeyRange;
    fn key_range(&self) -> (r: &KeyRange) ensures *r == self.kr();
}

pub struct Run<T: Ranged>(pub Vec<T>);

pub assume_specification<T, P: FnMut(&T) -> bool>[ <[T]>::partition_point::<P> ](s: &[T], pred: P) -> (r: usize)
    requires
        forall|i: int| 0 <= i < s@.len() ==> call_requires(pred, (&#[trigger] s@[i],)),
    ensures r <= s@.len(),
        r > 0 ==> call_ensures(pred, (&s@[r as int - 1],), true),
        r < s@.len() ==> call_ensures(pred, (&s@[r as int],), false),
;

pub assume_specification<T, P: FnOnce(&T) -> bool>[ Option::<T>::filter::<P> ](o: Option<T>, pred: P) -> (r: Option<T>)
    requires o is Some ==> call_requires(pred, (&o->0,)),
    ensures
        o is None ==> r is None,
        o is Some ==> ((r is Some ==> r == o && call_ensures(pred, (&o->0,), true)) && (r is None ==> call_ensures(pred, (&o->0,), false))),
;

impl<T: Ranged> Run<T> {
    pub open spec fn wf(&self) -> bool {
        &&& forall|i: int| 0 <= i < self.0@.len() ==> (#[trigger] self.0@[i]).kr().lo() <= self.0@[i].kr().hi()
        &&& forall|i: int, j: int| 0 <= i < j < self.0@.len() ==> (#[trigger] self.0@[i]).kr().hi() < (#[trigger] self.0@[j]).kr().lo()
    }

    pub fn get_for_key(&self, key: &Key) -> (r: Option<&T>)
        requires self.wf()
        ensures
            match r {
                Some(t) => exists|i: int| 0 <= i < self.0@.len() && self.0@[i] == *t && t.kr().lo() <= key.rank() <= t.kr().hi(),
                None => forall|i: int| 0 <= i < self.0@.len() ==> !((#[trigger] self.0@[i]).kr().lo() <= key.rank() <= self.0@[i].kr().hi()),
            }
    {
        let idx = self.0.as_slice().partition_point(|x: &T| -> (b: bool) ensures b == (x.kr().hi() < key.rank()) { x.key_range().max() < &key });
        self.0.get(idx).filter(|x: &&T| -> (b: bool) ensures b == (x.kr().lo() <= key.rank()) { x.key_range().min() <= &key })
    }
}

} // verus!
fn main() {}
