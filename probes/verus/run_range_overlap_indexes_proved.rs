use vstd::prelude::*;
use vstd::std_specs::cmp::*;
verus! {

#[verifier::external_body]
pub struct Key { inner: Vec<u8> }
impl Key { pub uninterp spec fn rank(&self) -> int; }
impl PartialEq for Key {
    #[verifier::external_body]
    fn eq(&self, other: &Self) -> (r: bool) { self.inner == other.inner }
}
impl PartialEqSpecImpl for Key {
    open spec fn obeys_eq_spec() -> bool { true }
    open spec fn eq_spec(&self, other: &Self) -> bool { self.rank() == other.rank() }
}
impl PartialOrdSpecImpl for Key {
    open spec fn obeys_partial_cmp_spec() -> bool { true }
    open spec fn partial_cmp_spec(&self, other: &Self) -> Option<core::cmp::Ordering> {
        if self.rank() < other.rank() { Some(core::cmp::Ordering::Less) }
        else if self.rank() == other.rank() { Some(core::cmp::Ordering::Equal) }
        else { Some(core::cmp::Ordering::Greater) }
    }
}
impl PartialOrd for Key {
    #[verifier::external_body]
    fn partial_cmp(&self, other: &Self) -> (r: Option<core::cmp::Ordering>) { self.inner.partial_cmp(&other.inner) }
}

/// prelude: stands for a borrowed byte string `&[u8]` used as a key (rule R3)
#[verifier::external_body]
#[derive(Clone, Copy)]
pub struct KeyRef { p: usize }
impl KeyRef { pub uninterp spec fn rank(&self) -> int; }
impl PartialEq for KeyRef {
    #[verifier::external_body]
    fn eq(&self, other: &Self) -> (r: bool) { true }
}
impl PartialEqSpecImpl for KeyRef {
    open spec fn obeys_eq_spec() -> bool { true }
    open spec fn eq_spec(&self, other: &Self) -> bool { self.rank() == other.rank() }
}
impl PartialEq<Key> for KeyRef {
    #[verifier::external_body]
    fn eq(&self, other: &Key) -> (r: bool) { true }
}
impl PartialEqSpecImpl<Key> for KeyRef {
    open spec fn obeys_eq_spec() -> bool { true }
    open spec fn eq_spec(&self, other: &Key) -> bool { self.rank() == other.rank() }
}
impl PartialOrd<Key> for KeyRef {
    #[verifier::external_body]
    fn partial_cmp(&self, other: &Key) -> (r: Option<core::cmp::Ordering>) { None }
}
impl PartialOrdSpecImpl<Key> for KeyRef {
    open spec fn obeys_partial_cmp_spec() -> bool { true }
    open spec fn partial_cmp_spec(&self, other: &Key) -> Option<core::cmp::Ordering> {
        if self.rank() < other.rank() { Some(core::cmp::Ordering::Less) }
        else if self.rank() == other.rank() { Some(core::cmp::Ordering::Equal) }
        else { Some(core::cmp::Ordering::Greater) }
    }
}

pub struct KeyRange(pub Key, pub Key);
impl KeyRange {
    pub fn min(&self) -> (r: &Key) ensures r == &self.0 { &self.0 }
    pub fn max(&self) -> (r: &Key) ensures r == &self.1 { &self.1 }
    pub open spec fn lo(&self) -> int { self.0.rank() }
    pub open spec fn hi(&self) -> int { self.1.rank() }
    pub open spec fn has(&self, k: int) -> bool { self.lo() <= k <= self.hi() }
}

/// prelude: stands for std::ops::Bound (rule R3)
pub enum Bound<T> { Included(T), Excluded(T), Unbounded }
impl PartialEq for Bound<KeyRef> {
    #[verifier::external_body]
    fn eq(&self, other: &Self) -> (r: bool) { true }
}
impl PartialEqSpecImpl for Bound<KeyRef> {
    open spec fn obeys_eq_spec() -> bool { true }
    open spec fn eq_spec(&self, other: &Self) -> bool {
        match (*self, *other) {
            (Bound::Included(a), Bound::Included(b)) => a.rank() == b.rank(),
            (Bound::Excluded(a), Bound::Excluded(b)) => a.rank() == b.rank(),
            (Bound::Unbounded, Bound::Unbounded) => true,
            _ => false,
        }
    }
}

impl Key {
    /// stands for Slice::as_ref(): comparing the byte strings is comparing the keys
    pub fn as_ref(&self) -> (r: &Key) ensures r == self { self }
}

pub open spec fn above(b: Bound<Key>, k: int) -> bool { match b { Bound::Included(x) => x.rank() <= k, Bound::Excluded(x) => x.rank() < k, Bound::Unbounded => true } }
pub open spec fn below(b: Bound<Key>, k: int) -> bool { match b { Bound::Included(x) => k <= x.rank(), Bound::Excluded(x) => k < x.rank(), Bound::Unbounded => true } }

impl PartialOrd<KeyRef> for Key {
    #[verifier::external_body]
    fn partial_cmp(&self, other: &KeyRef) -> (r: Option<core::cmp::Ordering>) { None }
}
impl PartialEq<KeyRef> for Key {
    #[verifier::external_body]
    fn eq(&self, other: &KeyRef) -> (r: bool) { true }
}
impl PartialEqSpecImpl<KeyRef> for Key {
    open spec fn obeys_eq_spec() -> bool { true }
    open spec fn eq_spec(&self, other: &KeyRef) -> bool { self.rank() == other.rank() }
}
impl PartialOrdSpecImpl<KeyRef> for Key {
    open spec fn obeys_partial_cmp_spec() -> bool { true }
    open spec fn partial_cmp_spec(&self, other: &KeyRef) -> Option<core::cmp::Ordering> {
        if self.rank() < other.rank() { Some(core::cmp::Ordering::Less) }
        else if self.rank() == other.rank() { Some(core::cmp::Ordering::Equal) }
        else { Some(core::cmp::Ordering::Greater) }
    }
}

/// prelude: stands for `R: RangeBounds<K>` with `K: AsRef<[u8]>` (rule R4)
pub struct RangeB { pub start: Bound<KeyRef>, pub end: Bound<KeyRef> }
impl RangeB {
    pub fn start_bound(&self) -> (r: Bound<&KeyRef>)
        ensures match (r, self.start) { (Bound::Included(a), Bound::Included(b)) => *a == b, (Bound::Excluded(a), Bound::Excluded(b)) => *a == b, (Bound::Unbounded, Bound::Unbounded) => true, _ => false }
    { match &self.start { Bound::Included(k) => Bound::Included(k), Bound::Excluded(k) => Bound::Excluded(k), Bound::Unbounded => Bound::Unbounded } }
    pub fn end_bound(&self) -> (r: Bound<&KeyRef>)
        ensures match (r, self.end) { (Bound::Included(a), Bound::Included(b)) => *a == b, (Bound::Excluded(a), Bound::Excluded(b)) => *a == b, (Bound::Unbounded, Bound::Unbounded) => true, _ => false }
    { match &self.end { Bound::Included(k) => Bound::Included(k), Bound::Excluded(k) => Bound::Excluded(k), Bound::Unbounded => Bound::Unbounded } }
    pub open spec fn has(&self, k: int) -> bool { above_r(self.start, k) && below_r(self.end, k) }
}
pub open spec fn above_r(b: Bound<KeyRef>, k: int) -> bool { match b { Bound::Included(x) => x.rank() <= k, Bound::Excluded(x) => x.rank() < k, Bound::Unbounded => true } }
pub open spec fn below_r(b: Bound<KeyRef>, k: int) -> bool { match b { Bound::Included(x) => k <= x.rank(), Bound::Excluded(x) => k < x.rank(), Bound::Unbounded => true } }

pub trait Ranged {
    spec fn kr(&self) -> KeyRange;
    fn key_range(&self) -> (r: &KeyRange) ensures *r == self.kr();
}

pub struct Run<T: Ranged>(pub Vec<T>);

pub assume_specification<T, P: FnMut(&T) -> bool>[ <[T]>::partition_point::<P> ](s: &[T], pred: P) -> (r: usize)
    requires forall|i: int| 0 <= i < s@.len() ==> call_requires(pred, (&#[trigger] s@[i],)),
    ensures r <= s@.len(),
        r > 0 ==> call_ensures(pred, (&s@[r as int - 1],), true),
        r < s@.len() ==> call_ensures(pred, (&s@[r as int],), false),
;

impl<T: Ranged> Run<T> {
    pub open spec fn wf(&self) -> bool {
        &&& forall|i: int| 0 <= i < self.0@.len() ==> (#[trigger] self.0@[i]).kr().lo() <= self.0@[i].kr().hi()
        &&& forall|i: int, j: int| 0 <= i < j < self.0@.len() ==> (#[trigger] self.0@[i]).kr().hi() < (#[trigger] self.0@[j]).kr().lo()
    }

    // ---- near-verbatim from /repo/src/version/run.rs ----
    pub fn range_overlap_indexes(&self, key_range: &RangeB) -> (r: Option<(usize, usize)>)
        requires self.wf(),
        ensures
            match r {
                None => forall|i: int, k: int| 0 <= i < self.0@.len() && (#[trigger] self.0@[i]).kr().has(k) ==> !#[trigger] key_range.has(k),
                Some((lo, hi)) => lo <= hi < self.0@.len()
                    && forall|i: int, k: int| 0 <= i < self.0@.len() && (#[trigger] self.0@[i]).kr().has(k) && #[trigger] key_range.has(k) ==> lo <= i <= hi,
            }
    {
        let level = &self.0;

        let lo = match key_range.start_bound() {
            Bound::Unbounded => 0,
            Bound::Included(start_key) => {
                level.as_slice().partition_point(|x: &T| -> (b: bool) ensures b == (x.kr().hi() < start_key.rank()) { x.key_range().max() < start_key })
            }
            Bound::Excluded(start_key) => {
                level.as_slice().partition_point(|x: &T| -> (b: bool) ensures b == (x.kr().hi() <= start_key.rank()) { x.key_range().max() <= start_key })
            }
        };

        if lo >= level.len() {
            return None;
        }

        // NOTE: We check for level length above
        let truncated_level = vstd::slice::slice_subrange(level.as_slice(), lo, level.len());

        let hi = match key_range.end_bound() {
            Bound::Unbounded => level.len() - 1,
            Bound::Included(end_key) => {
                // IMPORTANT: We need to add back `lo` because we sliced it off
                let idx = lo + truncated_level.partition_point(|x: &T| -> (b: bool) ensures b == (x.kr().lo() <= end_key.rank()) { x.key_range().min() <= end_key });

                if idx == 0 {
                    return None;
                }

                idx.saturating_sub(1) // To avoid underflow
            }
            Bound::Excluded(end_key) => {
                // IMPORTANT: We need to add back `lo` because we sliced it off
                let idx = lo + truncated_level.partition_point(|x: &T| -> (b: bool) ensures b == (x.kr().lo() < end_key.rank()) { x.key_range().min() < end_key });

                if idx == 0 {
                    return None;
                }

                idx.saturating_sub(1) // To avoid underflow
            }
        };

        if lo > hi {
            return None;
        }

        Some((lo, hi))
    }
}

} // verus!
fn main() {}
