use vstd::prelude::*;
verus! {

pub type SeqNo = u64;

/// light SuperVersion: only what super_version.rs reads
pub struct SuperVersion { pub seqno: SeqNo, pub vid: u64 }
impl Clone for SuperVersion {
    #[verifier::external_body]
    fn clone(&self) -> (r: Self) ensures r == *self { SuperVersion { seqno: self.seqno, vid: self.vid } }
}

/// prelude: iterator over a ghost sequence of references (stands for vec_deque::Iter and Rev<..>)
#[verifier::external_body]
#[verifier::reject_recursive_types(T)]
pub struct RefIter<'a, T> { v: Vec<&'a T> }
impl<'a, T> RefIter<'a, T> {
    pub uninterp spec fn rest(&self) -> Seq<T>;

    #[verifier::external_body]
    pub fn rev(self) -> (r: RefIter<'a, T>)
        ensures r.rest() == self.rest().reverse()
    { unimplemented!() }

    #[verifier::external_body]
    pub fn find<P: FnMut(&&'a T) -> bool>(&mut self, pred: P) -> (r: Option<&'a T>)
        requires forall|x: &'a T| call_requires(pred, (&x,)),
        ensures
            match r {
                Some(x) => exists|i: int| 0 <= i < old(self).rest().len() && old(self).rest()[i] == *x
                    && call_ensures(pred, (&x,), true)
                    && (forall|j: int, y: &'a T| 0 <= j < i && *y == old(self).rest()[j] ==> call_ensures(pred, (&y,), false)),
                None => forall|j: int, y: &'a T| 0 <= j < old(self).rest().len() && *y == old(self).rest()[j] ==> call_ensures(pred, (&y,), false),
            }
    { unimplemented!() }
}

/// prelude: stands for std::collections::VecDeque
#[verifier::external_body]
#[verifier::reject_recursive_types(T)]
pub struct Deque<T> { v: Vec<T> }
impl<T> Deque<T> {
    pub uninterp spec fn view(&self) -> Seq<T>;

    #[verifier::external_body]
    pub fn front(&self) -> (r: Option<&T>)
        ensures self.view().len() == 0 ==> r is None, self.view().len() > 0 ==> r is Some && *r->0 == self.view()[0]
    { unimplemented!() }

    #[verifier::external_body]
    pub fn iter(&self) -> (r: RefIter<'_, T>)
        ensures r.rest() == self.view()
    { unimplemented!() }
}

pub struct SuperVersions(pub Deque<SuperVersion>);

pub open spec fn resolve(h: Seq<SuperVersion>, s: SeqNo) -> int
    decreases h.len()
{
    if h.len() == 0 { -1 } else if h.last().seqno < s { h.len() - 1 } else { resolve(h.drop_last(), s) }
}

impl SuperVersions {
    pub fn get_version_for_snapshot(&self, seqno: SeqNo) -> (r: SuperVersion)
        requires self.0.view().len() > 0, seqno > 0 ==> exists|i: int| 0 <= i < self.0.view().len() && (#[trigger] self.0.view()[i]).seqno < seqno,
        ensures
            seqno == 0 ==> r == self.0.view()[0],
            seqno > 0 ==> r.seqno < seqno,
    {
        if seqno == 0 {
            return self
                .0
                .front()
                .cloned()
                .expect("should always find a SuperVersion");
        }

        let version = self
            .0
            .iter()
            .rev()
            .find(|version: &&SuperVersion| -> (b: bool) ensures b == (version.seqno < seqno) { version.seqno < seqno })
            .cloned();

        version.expect("should always find a SuperVersion")
    }
}

} // verus!
fn main() {}
