#!/bin/sh
# offline sanity check of the tool chain; nothing is compiled ahead of time because every
# check regenerates its units from /repo
set -e
cd "$(dirname "$0")"
command -v verus >/dev/null || { echo "verus missing"; exit 1; }
command -v python3 >/dev/null || { echo "python3 missing"; exit 1; }
cargo kani --version >/dev/null 2>&1 || echo "warning: cargo kani not available (thorough tier only)"
python3 tools/gen_manifest.py >/dev/null
mkdir -p evidence replays
echo setup ok
