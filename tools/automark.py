#!/usr/bin/env python3
"""automark.py <draft template> [repo]  -> prints the template with /*+*/../*-*/ markers inserted
in every FROM block that has no marker yet.  Authoring aid only (never used at check time):
tokens of the annotated text that do not occur in the rewritten /repo item are wrapped as
additions.  Any real token missing from the annotated text is reported on stderr (the block
then needs a SUBST rule or a correction)."""
import difflib, sys, os
sys.path.insert(0, os.path.dirname(os.path.abspath(__file__)))
import vpx
from rtok import tokenize

def mark_block(blk, real_ct):
    text = "\n".join(blk.lines)
    if "/*+*/" in text:
        return text, 0
    toks = tokenize(text)
    code_idx = [i for i, t in enumerate(toks) if t.kind not in ("ws", "lcomment", "bcomment")]
    a = [toks[i].text for i in code_idx]
    b = [t.text for t in real_ct]
    # 1. pre-mark syntactic ghost statements: proof {..}  |  let ghost ..;  |  assert .. ;
    extra = [False] * len(a)
    from rtok import OPEN, CLOSE
    def close_of(i):
        d = 0
        for j in range(i, len(a)):
            if a[j] in OPEN: d += 1
            elif a[j] in CLOSE:
                d -= 1
                if d == 0: return j
        return len(a) - 1
    def stmt_end(i):
        d = 0
        for j in range(i, len(a)):
            if a[j] in OPEN: d += 1
            elif a[j] in CLOSE: d -= 1
            elif a[j] == ";" and d == 0: return j
        return len(a) - 1
    i = 0
    while i < len(a):
        prev = a[i - 1] if i else "{"
        at_stmt = prev in ("{", "}", ";")
        if at_stmt and a[i] == "proof" and i + 1 < len(a) and a[i + 1] == "{":
            e = close_of(i + 1)
        elif at_stmt and a[i] == "let" and i + 1 < len(a) and a[i + 1] == "ghost":
            e = stmt_end(i)
        elif at_stmt and a[i] in ("assert", "assume", "reveal", "broadcast"):
            e = stmt_end(i)
            # `assert forall .. by { .. }` has no ';' necessarily
            if a[i] == "assert" and i + 1 < len(a) and a[i + 1] == "forall":
                k2 = i
                while a[k2] != "by": k2 += 1
                e = close_of(k2 + 1)
                if e + 1 < len(a) and a[e + 1] == ";": e += 1
        else:
            i += 1
            continue
        for q in range(i, e + 1): extra[q] = True
        i = e + 1
    # 2. embedding of the real tokens as a subsequence of the remaining annotated tokens that
    #    maximises adjacency (tokens adjacent in /repo stay adjacent); ties -> right-most
    matched = [False] * len(a)
    missing = 0
    cand = [q for q in range(len(a)) if not extra[q]]
    NEG = -10**9
    n, m = len(b), len(a)
    # f[j] : dict q -> (score, prev_q)
    f = []
    for j in range(n):
        cur = {}
        if j == 0:
            for q in cand:
                if a[q] == b[0]:
                    cur[q] = (0, -1)
        else:
            prev = f[j - 1]
            best = (NEG, -1)  # best over q' < q
            pq = sorted(prev.keys())
            pi = 0
            for q in cand:
                while pi < len(pq) and pq[pi] < q:
                    sc = prev[pq[pi]][0]
                    if sc >= best[0]:
                        best = (sc, pq[pi])
                    pi += 1
                if a[q] != b[j]:
                    continue
                opt = best
                # adjacency bonus: previous real token matched at the previous non-extra position
                if (q - 1) in prev:
                    sc = prev[q - 1][0] + 1
                    if sc >= opt[0]:
                        opt = (sc, q - 1)
                if opt[0] > NEG:
                    cur[q] = opt
        if not cur:
            sys.stderr.write(f"  [{blk.name}] real token #{j} {b[j]!r} (context {' '.join(b[max(0,j-6):j+4])!r}) cannot be embedded\n")
            missing = n
            break
        f.append(cur)
    if missing == 0 and n:
        # pick best end (ties -> right-most)
        last = f[-1]
        q = max(last.keys(), key=lambda x: (last[x][0], x))
        for j in range(n - 1, -1, -1):
            matched[q] = True
            q = f[j][q][1]
    for q in range(len(a)):
        if not matched[q]: extra[q] = True
    out = []
    k = 0
    inside = False
    n = len(toks)
    pending_ws = []
    for i, t in enumerate(toks):
        if t.kind in ("ws", "lcomment", "bcomment"):
            pending_ws.append(t.text)
            continue
        is_extra = extra[k]; k += 1
        if is_extra and not inside:
            out.extend(pending_ws); pending_ws = []
            out.append("/*+*/"); inside = True
        elif not is_extra and inside:
            out.append("/*-*/"); inside = False
            out.extend(pending_ws); pending_ws = []
        else:
            out.extend(pending_ws); pending_ws = []
        out.append(t.text)
    if inside:
        out.append("/*-*/")
    out.extend(pending_ws)
    return "".join(out), missing

def main():
    path = sys.argv[1]
    repo = sys.argv[2] if len(sys.argv) > 2 else "/repo"
    raw = open(path).read()
    text = vpx.expand_includes(raw, "/verif")
    unit, usub, parts = vpx.parse_template(raw)
    # re-emit the original file (not include-expanded): process line by line
    lines = raw.split("\n")
    blocks = [p for p in parts if not isinstance(p, str)]
    out = []
    bi = 0
    i = 0
    while i < len(lines):
        s = lines[i].strip()
        out.append(lines[i])
        if s.startswith("//@ FROM"):
            blk = blocks[bi]; bi += 1
            # copy directive lines (SUBST) following FROM
            i += 1
            body = []
            while not lines[i].strip().startswith("//@ END"):
                if lines[i].strip().startswith("//@"):
                    out.append(lines[i])
                else:
                    body.append(lines[i])
                i += 1
            real_ct, log, sha = vpx.fetch_real(repo, blk, usub)
            blk.lines = body
            marked, missing = mark_block(blk, real_ct)
            out.append(marked)
            out.append(lines[i])  # END
        i += 1
    sys.stdout.write("\n".join(out))

main()
