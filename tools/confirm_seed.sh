#!/bin/bash
# confirm_seed.sh <seed dir (/tmp/seed-Cxx)> <N> : confirm change N in a scratch worktree ($WT, default /tmp/wt-confirm)
# writes <seeddir>/confirmN.json
sd="$1"; n="$2"; wt=${WT:-/tmp/wt-confirm}; lg=/tmp/confirm-$(basename $wt)
export CARGO_NET_OFFLINE=true
[ -d $wt ] || git -C /repo worktree add -q --detach $wt HEAD
cd $wt && git checkout -q -- . && git clean -fdq tests src
res="{}"
demo=zz_seed_demo
# demo without change
cp "$sd/demo$n.rs" tests/$demo.rs
cargo test --offline --test $demo > $lg.wo.log 2>&1; wo=$?
git apply "$sd/change$n.diff" || { echo "{\"apply\": false}" > "$sd/confirm$n.json"; exit 1; }
cargo build --offline > $lg.build.log 2>&1; b=$?
cargo test --offline --test $demo > $lg.w.log 2>&1; w=$?
rm tests/$demo.rs
cargo nextest run --workspace --no-fail-fast --offline --test-threads 6 > $lg.suite.log 2>&1; s=$?
summary=$(grep -E "^\s+Summary" $lg.suite.log | tail -1 | sed 's/"/ /g')
failed=$(grep -E "^\s+(FAIL|TIMEOUT)" $lg.suite.log | awk '{print $NF}' | sort -u | tr '\n' ' ')
# rerun failed/timeouts alone (load-induced timeouts)
rerun_ok=true
if [ $s -ne 0 ]; then
  for t in $failed; do cargo nextest run --offline --no-fail-fast -E "test($t)" > $lg.rerun.log 2>&1 || rerun_ok=false; done
fi
git checkout -q -- . ; git clean -fdq tests src
echo "{\"apply\": true, \"build_rc\": $b, \"demo_without_change_rc\": $wo, \"demo_with_change_rc\": $w, \"suite_rc\": $s, \"suite_summary\": \"$summary\", \"suite_failed_first_pass\": \"$failed\", \"failed_tests_pass_alone\": $rerun_ok}" > "$sd/confirm$n.json"
cat "$sd/confirm$n.json"
