#!/usr/bin/env python3
"""DESIGN.md = DESIGN.tmpl.md with @@TABLES@@ (from registry.json) and @@SEEDS@@ (from seeded/*/meta.json 'detected_by') filled in"""
import json, os, subprocess, glob
HERE = os.path.dirname(os.path.dirname(os.path.abspath(__file__)))
t = open(f"{HERE}/DESIGN.tmpl.md").read()
tables = subprocess.run(["python3", f"{HERE}/tools/gen_design_tables.py"], capture_output=True, text=True).stdout
rows = ["| seed | file(s) changed | needs | own property's check | other checks that fire |", "|---|---|---|---|---|"]
det = und = miss = 0
for d in sorted(glob.glob(f"{HERE}/seeded/*/meta.json")):
    m = json.load(open(d))
    r = m.get("detected_by") or {}
    own = r.get("own", "not run")
    if own.startswith("VIOLATION"): det += 1
    elif own.startswith("undecided"): und += 1
    else: miss += 1
    files = ", ".join(m.get("files_changed") or [])[:70]
    needs = (m.get("needs_to_manifest") or "")[:110].replace("|", "/").replace("\n", " ")
    rows.append(f"| {m['seed']} | {files} | {needs} | {own} | {', '.join(r.get('others', []))} |")
summary = f"Own-property check: **{det} detected** (exit 1 with a named obligation), {und} undecided (exit 2), {miss} missed (exit 0), of {det+und+miss}.\n\n"
t = t.replace("@@TABLES@@", tables).replace("@@SEEDS@@", summary + "\n".join(rows))
open(f"{HERE}/DESIGN.md", "w").write(t)
print(summary)
