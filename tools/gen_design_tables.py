#!/usr/bin/env python3
"""prints the per-property obligation tables of DESIGN.md section 5 from registry.json"""
import json
r = json.load(open('/verif/registry.json'))
for pid in sorted(r['properties']):
    p = r['properties'][pid]
    print(f"### {pid} — level `{p.get('level')}`\n")
    print(p['claim'] + "\n")
    print("| obligation | unit (engine) | tier | statement |")
    print("|---|---|---|---|")
    for oid, o in p['obligations'].items():
        units = ", ".join(f"`{u}` ({r['units'][u]['engine']})" for u in o['units'])
        b = f" **bounded: {o['bounded']}**" if o.get('bounded') else ""
        print(f"| {oid} | {units} | {o.get('tier','quick')} | {o['statement']}{b} |")
    if p.get('not_under_contract'):
        print(f"\nNot under contract: {p['not_under_contract']}\n")
    print()
