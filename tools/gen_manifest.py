#!/usr/bin/env python3
"""regenerates MANIFEST.json from registry.json (claimed properties) + manifest_static.json"""
import json, os
HERE = os.path.dirname(os.path.dirname(os.path.abspath(__file__)))
reg = json.load(open(f"{HERE}/registry.json"))
st = json.load(open(f"{HERE}/manifest_static.json"))
props = [json.loads(l)["id"] for l in open(f"{HERE}/properties.jsonl")]
checks = []
na = []
for pid in props:
    p = reg["properties"].get(pid)
    if p and p.get("claimed", True):
        engines = sorted({reg["units"][u]["engine"] for o in p["obligations"].values() for u in o["units"]})
        checks.append({
            "property_id": pid,
            "quick_cmd": f"./check {pid} --tier quick",
            "thorough_cmd": f"./check {pid} --tier thorough",
            "evidence_file": f"/verif/evidence/{pid}.json",
            "replay_cmd_template": f"./check {pid} --replay {{path}}",
            "engine": "+".join(engines),
            "level_claimed": {"category": p.get("level", "proof"), "text": p["claim"], "design_ref": p.get("design_ref", f"DESIGN.md section 5 / {pid}")},
            "level_note": p.get("level_note", ""),
            "technique": p.get("technique", "contract-based deductive verification (Verus) of functions extracted mechanically from /repo on every run"),
        })
    else:
        na.append({"property_id": pid, "reason": st["not_applicable"].get(pid, "obligations not built yet; not claimed")})
m = {
    "version": 1,
    "setup_cmd": st["setup_cmd"],
    "hooks": st["hooks"],
    "engines": st["engines"],
    "checks": checks,
    "notes": st["notes"],
    "not_applicable": na,
}
json.dump(m, open(f"{HERE}/MANIFEST.json", "w"), indent=1)
print(f"{len(checks)} checks, {len(na)} not applicable")
