"""Kani shim-crate units: /repo files are compiled *verbatim* (module-level `#[path]` inclusion of a
scratch copy of the repo's src tree) against light shims that carry the contracts of the
environment.  See DESIGN.md 2.1 / 2.3.

Unit directory layout (under /verif/kani/<unit>/):
  Cargo.toml, lib.rs (+ further .rs files); the string @REPO@ is replaced by the scratch copy of
  <repo>/src; @SHIMS@ by /verif/kani/shims.  Lines of the form
      //@ REWRITE <relative path in repo src> AS <new file name> : <from> => <to> [; <from> => <to>]*
  produce a token-level rewritten copy (rule R9: `std::fs::` => `crate::vfs::`) next to lib.rs.
"""
import json
import os
import sys
sys.path.insert(0, os.path.dirname(os.path.abspath(__file__)))
import re
import shutil
import subprocess
import time


def sh(cmd, cwd, timeout, env=None):
    t0 = time.time()
    try:
        p = subprocess.run(cmd, cwd=cwd, capture_output=True, text=True, timeout=timeout, env=env)
        return p.returncode, p.stdout + p.stderr, time.time() - t0
    except subprocess.TimeoutExpired as e:
        out = (e.stdout or b"")
        if isinstance(out, bytes):
            out = out.decode(errors="replace")
        return 124, out + "\nTIMEOUT", time.time() - t0


def prepare(uname, ucfg, repo, scratch, here):
    src = os.path.join(here, ucfg["dir"])
    dst = os.path.join(scratch, uname)
    shutil.copytree(src, dst)
    reposrc = os.path.join(scratch, "reposrc")
    if not os.path.isdir(reposrc):
        shutil.copytree(os.path.join(repo, "src"), reposrc)
    rewrites = []
    extracted = []
    for root, _, files in os.walk(dst):
        for f in files:
            if not (f.endswith(".rs") or f.endswith(".toml")):
                continue
            p = os.path.join(root, f)
            s = open(p).read()
            for m in re.finditer(r"^//@ REWRITE (\S+) AS (\S+) : (.*)$", s, flags=re.M):
                rel, new, rules = m.group(1), m.group(2), m.group(3)
                text = open(os.path.join(reposrc, rel)).read()
                applied = []
                for rule in rules.split(" ;; "):
                    a, b = [x.strip() for x in rule.split("=>")]
                    applied.append((a, b, text.count(a)))
                    text = text.replace(a, b)
                open(os.path.join(root, new), "w").write(text)
                rewrites.append({"file": rel, "as": new, "rules": applied})
            if "//@ FROM" in s:
                import vpx
                u = vpx.build_unit(s, os.path.dirname(reposrc.rstrip("/")) if False else repo, here)
                s = u["text"]
                extracted.extend(u["blocks"])
            s = s.replace("@REPO@", reposrc).replace("@SHIMS@", os.path.join(here, "kani", "shims")).replace("@CRATE@", dst)
            open(p, "w").write(s)
    lock = os.path.join(repo, "Cargo.lock")
    if not os.path.exists(lock):
        lock = "/repo/Cargo.lock"
    if os.path.exists(lock) and not os.path.exists(os.path.join(dst, "Cargo.lock")) and not ucfg.get("no_lock"):
        shutil.copy(lock, os.path.join(dst, "Cargo.lock"))
    return dst, rewrites, extracted


def parse(out):
    r = {}
    m = re.search(r"\*\* (\d+) of (\d+) failed", out)
    if m:
        r["failed_checks"], r["checks"] = int(m.group(1)), int(m.group(2))
    m = re.search(r"\*\* (\d+) of (\d+) cover properties satisfied", out)
    if m:
        r["covers_sat"], r["covers"] = int(m.group(1)), int(m.group(2))
    m = re.search(r"VERIFICATION:- (\w+)", out)
    r["verdict"] = m.group(1) if m else None
    m = re.search(r"Verification Time: ([0-9.]+)s", out)
    if m:
        r["solver_s"] = float(m.group(1))
    r["failed_list"] = re.findall(r"Failed Checks: (.*)", out)[:8]
    r["unwinding_failure"] = bool(re.search(r"unwinding assertion", out))
    return r


def run_kani_unit(uname, ucfg, repo, scratch, here, tier, only=None):
    res = {"unit": uname, "engine": "kani", "status": "ok", "harnesses": [], "errors": [], "wall_s": 0.0,
           "checker_cmd": "cargo kani -Z function-contracts -Z stubbing --harness <h> --output-format=terse (Kani 0.68 / CBMC 6.11)",
           "functions": [{"file": f, "item": "(whole file, verbatim)", "impl": "-", "text_identical_to_repo": True, "changed_tokens": 0, "sha256": ""} for f in ucfg.get("files", [])]}
    t0 = time.time()
    try:
        crate, rewrites, extracted = prepare(uname, ucfg, repo, scratch, here)
        res["functions"] += [{"file": b["file"], "item": b["item"], "impl": b["impl"], "text_identical_to_repo": b["identical"],
                              "changed_tokens": b["stats"]["changed_tokens"], "sha256": b["sha256_repo_item"]} for b in extracted]
    except Exception as e:
        res["status"] = "undecided"
        res["errors"].append({"kind": "extract", "message": f"{type(e).__name__}: {e}"})
        return res
    res["rewrites"] = rewrites
    env = dict(os.environ)
    env["CARGO_NET_OFFLINE"] = "true"
    env["CARGO_TARGET_DIR"] = os.path.join(crate, "target")
    for h in ucfg["harnesses"]:
        if only and not (set(h["obligations"]) & set(only)):
            continue
        if h.get("tier", "quick") == "thorough" and tier != "thorough" and not only:
            continue
        cmd = ["cargo", "kani", "-Z", "function-contracts", "-Z", "stubbing", "--harness", h["name"], "--output-format=terse"] + h.get("args", [])
        to = h.get("timeout", 600 if tier == "quick" else 2400)
        rc, out, wall = sh(cmd, crate, to, env)
        p = parse(out)
        hr = {"name": h["name"], "obligations": h["obligations"], "bounded": h.get("bounded"), "wall_s": round(wall, 1),
              "solver_s": p.get("solver_s"), "checks": p.get("checks"), "covers": p.get("covers"), "covers_sat": p.get("covers_sat"),
              "program_steps": p.get("checks", 0), "vccs": p.get("checks", 0)}
        if rc == 124:
            hr["status"] = "undecided"; hr["message"] = f"timeout after {to}s"
        elif p["verdict"] == "SUCCESSFUL":
            if p.get("covers") and p.get("covers_sat") != p.get("covers"):
                hr["status"] = "undecided"; hr["message"] = f"vacuity guard: only {p.get('covers_sat')} of {p.get('covers')} cover properties satisfied"
            else:
                hr["status"] = "ok"
        elif p["verdict"] == "FAILED" and (re.search(r"bad_alloc|[Oo]ut of memory|memory exhausted|SIGKILL|signal 9|CBMC (crashed|timed out)", out) or not p["failed_list"]):
            # the back end died (memory) or reported failure without naming a failed check: a tool limit, never an alarm
            hr["status"] = "undecided"; hr["message"] = "CBMC did not complete (resource limit) - no failed check was named"
            hr["output"] = out[-2000:]
        elif p["verdict"] == "FAILED":
            if p["unwinding_failure"] and all("unwinding" in x for x in p["failed_list"]):
                hr["status"] = "undecided"; hr["message"] = "unwinding assertion failed (bound too small)"
            else:
                hr["status"] = "failed"
                hr["message"] = "; ".join(p["failed_list"]) or "verification failed"
                hr["output"] = out[-3000:]
                # ask for concrete values
                rc2, out2, _ = sh(cmd + ["-Z", "concrete-playback", "--concrete-playback=print"], crate, to, env)
                m = re.search(r"Concrete playback unit test for .*?```\n(.*?)```", out2, flags=re.S)
                if m:
                    hr["counterexample"] = m.group(1)[:6000]
        else:
            hr["status"] = "undecided"
            hr["message"] = "kani did not produce a verdict (compile error or unsupported construct)"
            hr["output"] = out[-3000:]
        res["harnesses"].append(hr)
    res["wall_s"] = round(time.time() - t0, 1)
    if any(h["status"] == "failed" for h in res["harnesses"]):
        res["status"] = "failed"
    elif any(h["status"] != "ok" for h in res["harnesses"]):
        res["status"] = "undecided"
    try:
        v = subprocess.run(["cargo", "kani", "--version"], capture_output=True, text=True, timeout=60).stdout.strip()
        res["kani_version"] = v
    except Exception:
        pass
    return res
