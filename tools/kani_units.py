"""Kani shim-crate units (module-verbatim inclusion of /repo files); see DESIGN 2.1."""


def run_kani_unit(uname, ucfg, repo, scratch, here, tier):
    return {"unit": uname, "engine": "kani", "status": "undecided", "harnesses": [], "errors": [{"kind": "error", "message": "kani units not built yet"}], "wall_s": 0.0}
