#!/bin/sh
# muttest.sh <props,comma> <file relative to repo> <python-regex> <replacement>  : run checks on a mutated scratch copy
set -e
props="$1"; file="$2"; pat="$3"; rep="$4"
d=$(mktemp -d /var/tmp/mut.XXXX)
rsync -a /repo/src "$d/"
python3 - "$d/$file" "$pat" "$rep" <<'PY'
import sys,re
p,pat,rep=sys.argv[1:4]
s=open(p).read()
n=len(re.findall(pat,s))
if n!=1: print(f"pattern matched {n} times", file=sys.stderr); sys.exit(3)
open(p,'w').write(re.sub(pat,rep,s,count=1))
PY
for p in $(echo $props | tr , ' '); do /verif/check $p --repo "$d" | grep -v "^  " || true; done
rm -rf "$d"
