#!/usr/bin/env python3
"""authoring aid: wrap functions of a hand-assembled Verus file into //@ FROM blocks.
usage (python): from probe2draft import wrap;  wrap(text, [(marker_regex, from_directive, [subst lines])...])"""
import re, sys, os
sys.path.insert(0, os.path.dirname(os.path.abspath(__file__)))
from rtok import tokenize

def item_span(text, start):
    """start: offset of the first char of the item (line start). returns end offset (after closing brace or ';')"""
    toks = tokenize(text[start:])
    depth = 0
    pd = 0
    seen_fn_brace = False
    for t in toks:
        if t.kind in ("ws", "lcomment", "bcomment", "str", "char"): continue
        if t.text in "([": pd += 1
        elif t.text in ")]": pd -= 1
        elif t.text == "{":
            depth += 1
        elif t.text == "}":
            depth -= 1
            if depth == 0 and pd == 0 and is_body_close(text, start, start + t.pos):
                return start + t.pos + 1
        elif t.text == ";" and depth == 0 and pd == 0:
            return start + t.pos + 1
    raise ValueError("no end")

def is_body_close(text, start, pos):
    # heuristic: the item ends at the first depth-0 '}' that is followed by a newline and whose
    # next non-blank line is not a continuation of a contract (contracts use `({ .. })` or match{} inside ensures,
    # those are inside parentheses or followed by ',' / '&&')
    rest = text[pos + 1:pos + 200]
    m = re.match(r"\s*([^\s])", rest)
    nxt = m.group(1) if m else ""
    return nxt not in (",", "&", "|", ")", "=", ".")

def wrap(text, specs):
    for marker, directive, substs in specs:
        m = re.search(marker, text)
        if not m:
            raise ValueError("marker not found: " + marker)
        start = text.rfind("\n", 0, m.start()) + 1
        end = item_span(text, start)
        item = text[start:end]
        item = re.sub(r"\bpub(\([a-z]+\))?\s+", "", item)
        block = "//@ FROM " + directive + "\n" + "".join("//@ SUBST " + s + "\n" for s in substs) + item + "\n//@ END"
        text = text[:start] + block + text[end:]
    return text

def strip_pub(text):
    text = text.replace('pub open spec fn','spec fn').replace('pub closed spec fn','spec fn').replace('pub proof fn','proof fn').replace('pub struct','struct').replace('pub enum','enum').replace('pub trait','trait').replace('pub type','type').replace('pub fn','fn').replace('pub uninterp','uninterp').replace('pub(crate) fn', 'fn').replace('pub mod', 'mod').replace('pub broadcast', 'broadcast')
    text = re.sub(r'\bpub (ghost |tracked )?(\w+):', r'\1\2:', text)
    return text
