#!/usr/bin/env python3
"""rebase_unit.py <unit template> [repo]: authoring aid.  Rewrites every FROM block whose text no longer matches
/repo with the woven text (real tokens + re-attached additions, markers kept), so that the template can be
edited against the new code.  Prints the new template on stdout."""
import sys, os
sys.path.insert(0, os.path.dirname(os.path.abspath(__file__)))
import vpx
vpx.KEEP_MARKERS = True
path = sys.argv[1]
repo = sys.argv[2] if len(sys.argv) > 2 else "/repo"
raw = open(path).read()
unit, usub, parts = vpx.parse_template(raw)
blocks = [p for p in parts if not isinstance(p, str)]
lines = raw.split("\n")
out = []
bi = 0
i = 0
while i < len(lines):
    s = lines[i].strip()
    out.append(lines[i])
    if s.startswith("//@ FROM"):
        blk = blocks[bi]; bi += 1
        i += 1
        body = []
        while not lines[i].strip().startswith("//@ END"):
            if lines[i].strip().startswith("//@"):
                out.append(lines[i])
            else:
                body.append(lines[i])
            i += 1
        vpx.KEEP_VISIBILITY = "//@ OPTION keep_visibility" in raw
        real_ct, log, sha = vpx.fetch_real(repo, blk, usub)
        blk.lines = body
        text, identical, stats = vpx.weave(blk, real_ct)
        if not identical:
            sys.stderr.write(f"rebased {blk.name}: {stats}\n")
        out.append(text if not identical else "\n".join(body))
        out.append(lines[i])
    i += 1
sys.stdout.write("\n".join(out))
