"""Minimal Rust-aware tokenizer used by the extractor / merger.

Token kinds: 'ws', 'lcomment', 'bcomment', 'str', 'char', 'lifetime', 'num', 'ident', 'punct'.
Block comments nest; raw strings / byte strings / raw identifiers are recognised.
Every token keeps its start offset so text can be sliced back out of the source.
"""
import re

PUNCTS = [
    "<==>", "=~~=", "==>", "<==", "=~=", "!==", "===", "&&&", "|||",   # Verus operators
    "<<=", "...", "..=",
    "::", "->", "=>", "==", "!=", "<=", ">=", "&&", "||", "+=", "-=", "*=", "/=", "%=", "^=",
    "&=", "|=", "<<", "..",
]
# NB: '>>' / '>>=' are never produced: '>' is always a single token (generic closers such as
# Vec<Vec<u8>> must be splittable).  Tok.glued records that no whitespace preceded the token,
# so the renderer can print a shift operator `>>` back without a space.

_ident_re = re.compile(r"[A-Za-z_][A-Za-z0-9_]*")
_num_re = re.compile(r"[0-9][0-9A-Za-z_]*(\.[0-9][0-9A-Za-z_]*)?")


class Tok:
    __slots__ = ("kind", "text", "pos", "glued")

    def __init__(self, kind, text, pos, glued=False):
        self.kind, self.text, self.pos, self.glued = kind, text, pos, glued

    def __repr__(self):
        return f"{self.kind}:{self.text!r}"


def tokenize(src):
    toks = []
    i, n = 0, len(src)
    while i < n:
        c = src[i]
        # whitespace
        if c.isspace():
            j = i
            while j < n and src[j].isspace():
                j += 1
            toks.append(Tok("ws", src[i:j], i)); i = j; continue
        # comments
        if src.startswith("//", i):
            j = src.find("\n", i)
            if j < 0:
                j = n
            toks.append(Tok("lcomment", src[i:j], i)); i = j; continue
        if src.startswith("/*", i):
            depth, j = 1, i + 2
            while j < n and depth:
                if src.startswith("/*", j):
                    depth += 1; j += 2
                elif src.startswith("*/", j):
                    depth -= 1; j += 2
                else:
                    j += 1
            toks.append(Tok("bcomment", src[i:j], i)); i = j; continue
        # raw strings  r"..", r#".."#, br#".."#
        m = re.match(r"(b|c)?r(#*)\"", src[i:i + 40])
        if m:
            hashes = m.group(2)
            end = src.find('"' + hashes, i + len(m.group(0)))
            if end < 0:
                raise ValueError("unterminated raw string")
            j = end + 1 + len(hashes)
            toks.append(Tok("str", src[i:j], i)); i = j; continue
        # strings / byte strings
        if c == '"' or (c in "bc" and i + 1 < n and src[i + 1] == '"'):
            j = i + (1 if c == '"' else 2)
            while j < n and src[j] != '"':
                j += 2 if src[j] == "\\" else 1
            j += 1
            toks.append(Tok("str", src[i:j], i)); i = j; continue
        # char literal vs lifetime
        if c == "'" or (c == "b" and i + 1 < n and src[i + 1] == "'"):
            k = i + (1 if c == "'" else 2)
            if k < n and src[k] == "\\":
                j = k + 2
                while j < n and src[j] != "'":
                    j += 1
                j += 1
                toks.append(Tok("char", src[i:j], i)); i = j; continue
            if k + 1 < n and src[k + 1] == "'":
                j = k + 2
                toks.append(Tok("char", src[i:j], i)); i = j; continue
            if c == "'":
                m = _ident_re.match(src, k)
                if m:
                    toks.append(Tok("lifetime", src[i:m.end()], i)); i = m.end(); continue
            # fallthrough: treat as punct
        # raw identifier
        if src.startswith("r#", i):
            m = _ident_re.match(src, i + 2)
            if m:
                toks.append(Tok("ident", src[i:m.end()], i)); i = m.end(); continue
        m = _ident_re.match(src, i)
        if m:
            toks.append(Tok("ident", m.group(0), i)); i = m.end(); continue
        m = _num_re.match(src, i)
        if m:
            # do not swallow a range operator:  0..n
            t = m.group(0)
            if "." in t and src.startswith("..", i + t.index(".")):
                t = t[: t.index(".")]
            # `1.max(2)`-style method call on integer literal: keep '.' separate
            if "." in t and re.match(r"[A-Za-z_]", t[t.index(".") + 1:]):
                t = t[: t.index(".")]
            toks.append(Tok("num", t, i)); i += len(t); continue
        for p in PUNCTS:
            if src.startswith(p, i):
                toks.append(Tok("punct", p, i)); i += len(p); break
        else:
            toks.append(Tok("punct", c, i)); i += 1
    return toks


def code_tokens(toks):
    """tokens without whitespace and comments; sets .glued"""
    out = []
    prev_code = False
    for t in toks:
        if t.kind in ("ws", "lcomment", "bcomment"):
            prev_code = False
            continue
        t.glued = prev_code
        prev_code = True
        out.append(t)
    return out


OPEN = {"(": ")", "[": "]", "{": "}"}
CLOSE = {v: k for k, v in OPEN.items()}


def match_close(ct, i):
    """ct: code tokens; i: index of an opening bracket; returns index of its closer"""
    assert ct[i].text in OPEN, ct[i]
    depth = 0
    for j in range(i, len(ct)):
        t = ct[j]
        if t.kind != "punct":
            continue
        if t.text in OPEN:
            depth += 1
        elif t.text in CLOSE:
            depth -= 1
            if depth == 0:
                return j
    raise ValueError("unbalanced brackets")


def split_gg(ct):
    """split '>>' style tokens? not needed: comparisons are always between streams
    produced by this tokenizer."""
    return ct
