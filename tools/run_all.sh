#!/bin/sh
# run every claimed check (quick tier) against /repo; print one line each
cd /verif
for p in $(python3 -c "import json;print(' '.join(c['property_id'] for c in json.load(open('MANIFEST.json'))['checks']))"); do
  ./check $p --tier ${1:-quick} | tail -1
done
