#!/bin/bash
# seed_matrix.sh [seed ids...]: run each seed's own property check against a scratch copy with the patch applied
cd /verif
ids="$@"; [ -z "$ids" ] && ids=$(ls seeded)
for s in $ids; do
  p=${s%-*}
  d=$(mktemp -d /var/tmp/seedm.XXXX); rsync -a /repo/src $d/
  if (cd $d && patch -p1 -s --no-backup-if-mismatch < /verif/seeded/$s/patch.diff >/dev/null 2>&1); then
     if grep -q "\"$p\"" MANIFEST.json && python3 -c "import json,sys; sys.exit(0 if any(c['property_id']=='$p' for c in json.load(open('/verif/MANIFEST.json'))['checks']) else 1)"; then
        out=$(./check $p --repo $d 2>&1 | tail -1); rc=$(./check $p --repo $d >/dev/null 2>&1; echo $?)
        echo "$s rc=$rc $out"
     else echo "$s property-not-claimed"; fi
  else echo "$s patch-does-not-apply"; fi
  rm -rf $d
done
