#!/bin/bash
# seed_matrix.sh [seed ids...]: for every seed run its own property's check (plus the properties given after ':' in
# seeded/<id>/also.txt) against a scratch copy of /repo/src with the patch applied
cd /verif
ids="$@"; [ -z "$ids" ] && ids=$(ls seeded)
for s in $ids; do
  p=${s%-*}
  patch=/verif/seeded/$s/patch.diff
  # a patch re-applied by hand after a fix: commit moved its lines takes precedence (newest first)
  reb=$(ls -t /verif/seeded/$s/patch_rebased_*.diff 2>/dev/null | head -1); [ -n "$reb" ] && patch=$reb
  d=$(mktemp -d /var/tmp/seedm.XXXX); rsync -a /repo/src $d/
  if ! (cd $d && patch -p1 -s --no-backup-if-mismatch < $patch >/dev/null 2>&1); then
     rm -rf $d; d=$(mktemp -d /var/tmp/seedm.XXXX); rsync -a /repo/src $d/
     alt=$(ls /verif/seeded/$s/patch_rebased_*.diff 2>/dev/null | head -1)
     if [ -z "$alt" ] || ! (cd $d && patch -p1 -s --no-backup-if-mismatch < $alt >/dev/null 2>&1); then echo "$s patch-does-not-apply"; rm -rf $d; continue; fi
  fi
  props="$p $(cat /verif/seeded/$s/also.txt 2>/dev/null)"
  for q in $props; do
     out=$(./check $q --repo $d 2>&1); rc=$?
     echo "$s check=$q rc=$rc $(echo "$out" | tail -1)"
  done
  rm -rf $d
done
