#!/usr/bin/env python3
"""seed_results.py <matrix log>: record detection results into seeded/*/meta.json"""
import json, re, sys, collections
res = collections.defaultdict(dict)
for line in open(sys.argv[1]):
    m = re.match(r"(\S+) check=(\S+) rc=(\d) (.*)", line)
    if m:
        res[m.group(1)][m.group(2)] = (int(m.group(3)), m.group(4))
    else:
        m = re.match(r"(\S+) (patch-does-not-apply|property-not-claimed)", line)
        if m: res[m.group(1)]["_"] = (9, m.group(2))
for s, r in res.items():
    p = s.rsplit("-", 1)[0]
    mp = f"/verif/seeded/{s}/meta.json"
    m = json.load(open(mp))
    def word(rc): return {0: "missed (exit 0)", 1: "VIOLATION (exit 1)", 2: "undecided (exit 2)", 9: "n/a"}[rc]
    own = r.get(p) or r.get("_")
    m["detected_by"] = {"own": word(own[0]) if own else "not run", "others": [f"{q}: {word(v[0])}" for q, v in r.items() if q not in (p, "_") and v[0] == 1],
                        "ran_against": "scratch copy of /repo/src at the time of the last tools/seed_matrix.sh run"}
    json.dump(m, open(mp, "w"), indent=1)
print(len(res), "seeds recorded")
