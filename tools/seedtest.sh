#!/bin/sh
# seedtest.sh <diff> <props,comma>: run checks against a scratch copy of /repo/src with the diff applied
d=$(mktemp -d /var/tmp/seed.XXXX)
rsync -a /repo/src "$d/"
(cd "$d" && patch -p1 -s < "$1") || { echo "patch failed"; rm -rf "$d"; exit 3; }
for p in $(echo $2 | tr , ' '); do /verif/check $p --repo "$d" | grep -v "^  "; done
rm -rf "$d"
