#!/bin/bash
# stability sweep: every Verus unit at HALF its configured rlimit
cd /verif
mkdir -p /var/tmp/stab
python3 - <<'PY' > /var/tmp/stab/units.txt
import json
r=json.load(open('/verif/registry.json'))
for u,c in r['units'].items():
    if c['engine']=='verus': print(u, c['template'], c.get('rlimit',10))
PY
while read u t rl; do
  half=$(python3 -c "print(max(1,int($rl)//2))")
  python3 tools/vpx.py $t /repo /var/tmp/stab/$u.rs > /var/tmp/stab/$u.vpx.log 2>&1 || { echo "$u BUILD-FAIL"; continue; }
  out=$(timeout 900 verus /var/tmp/stab/$u.rs --rlimit $half 2>&1 | grep "verification results\|rlimit" | head -2 | tr '\n' ' ')
  echo "$u rlimit=$half: $out"
done < /var/tmp/stab/units.txt
