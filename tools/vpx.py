"""vpx: fetch real items from /repo, apply the mechanical rewrite rules, and weave the
out-of-tree annotations (contracts, invariants, proof blocks) of a unit template around
them.

Template syntax (a Verus source file with `//@` directives):

  //@ UNIT <name>
  //@ SUBST `<rust tokens>` ==> `<rust tokens>`            unit-wide token substitution
  //@ FROM <file> :: <impl header pattern | -> :: fn <name>  [:: OBL <ids,comma separated>]
  //@ SUBST `...` ==> `...`                                  block-local substitution
  <annotated text of the item; everything that is NOT in /repo is wrapped in /*+*/ ... /*-*/>
  //@ END

For every FROM block:
  R  := tokens of the item in /repo after rules R1 (attributes, comments), R2 (log macros),
        cfg-gated statements of disabled features, and the SUBST rules
  EA := tokens of the block with the /*+*/../*-*/ regions and comments erased
If EA == R the block is emitted unchanged ("text identical": the annotated text *is* the
code in /repo plus marked additions).  Otherwise /repo has changed: the additions are
re-attached to R by token alignment and R's tokens are emitted ("merged").
"""
import difflib
import hashlib
import re
from rtok import tokenize, code_tokens, match_close, Tok, OPEN, CLOSE


class ExtractError(Exception):
    pass


# ----------------------------------------------------------------------------- items

def _header_start(ct, i):
    """index of the first token of the item whose body/semicolon region contains ct[i]:
    walk back to just after the previous ';', '{' or '}' at the same depth."""
    depth = 0
    j = i - 1
    while j >= 0:
        t = ct[j]
        if t.kind == "punct":
            if t.text == "}" and depth == 0:
                return j + 1
            if t.text in CLOSE:
                depth += 1
            elif t.text in OPEN:
                if depth == 0:
                    return j + 1
                depth -= 1
            elif t.text == ";" and depth == 0:
                return j + 1
        j -= 1
    return 0


def _enclosing_blocks(ct, idx):
    """yield (open_idx, header_tokens) of each '{' block enclosing ct[idx], innermost first"""
    depth = 0
    j = idx - 1
    while j >= 0:
        t = ct[j]
        if t.kind == "punct":
            if t.text == "}":
                depth += 1
            elif t.text == "{":
                if depth == 0:
                    hs = _header_start(ct, j)
                    yield j, ct[hs:j]
                else:
                    depth -= 1
            elif t.text in (")", "]"):
                # skip bracket groups quickly
                d2 = 1
                j -= 1
                while j >= 0 and d2:
                    if ct[j].kind == "punct":
                        if ct[j].text in (")", "]"):
                            d2 += 1
                        elif ct[j].text in ("(", "["):
                            d2 -= 1
                    j -= 1
                continue
        j -= 1


def _norm(tokens):
    return " ".join(t.text for t in tokens)


def find_item(src, impl_pat, kind, name):
    """Locate `kind name` (kind in fn/struct/enum/macro_rules/impl-less 'fn') in src.
    impl_pat: '-' for a free item, else a token pattern that must occur in the header of an
    enclosing `impl`/`trait`/`mod` block.  Returns (start_offset, end_offset, code_tokens)."""
    toks = tokenize(src)
    ct = code_tokens(toks)
    pat = _norm(code_tokens(tokenize(impl_pat))) if impl_pat != "-" else None
    hits = []
    for i in range(len(ct) - 1):
        if ct[i].kind == "ident" and ct[i].text == kind and ct[i + 1].text == name:
            if kind == "macro_rules":
                continue
            encl = list(_enclosing_blocks(ct, i))
            if pat is None:
                # free item: no enclosing impl/trait block (mod blocks allowed)
                if any(h and any(x.text in ("impl", "trait", "fn") for x in h) for _, h in encl):
                    continue
            else:
                ok = False
                for _, h in encl:
                    hn = _norm(h)
                    if any(x.text in ("impl", "trait") for x in h) and _tok_sub(pat, hn):
                        ok = True
                        break
                if not ok:
                    continue
            hits.append(i)
    if kind == "macro_rules":
        for i in range(len(ct) - 2):
            if ct[i].text == "macro_rules" and ct[i + 1].text == "!" and ct[i + 2].text == name:
                hits.append(i)
    if len(hits) > 1:
        # platform variants: keep the one that is compiled on Linux
        def off(i):
            hs = _header_start(ct, i)
            h = _norm(ct[hs:i])
            return 'cfg ( windows )' in h or 'cfg ( target_os = "windows" )' in h or 'cfg ( test )' in h
        live = [i for i in hits if not off(i)]
        if live:
            hits = live
    if not hits:
        raise ExtractError(f"item not found: {impl_pat} :: {kind} {name}")
    if len(hits) > 1:
        raise ExtractError(f"ambiguous item ({len(hits)} matches): {impl_pat} :: {kind} {name}")
    i = hits[0]
    start = _header_start(ct, i)
    # find the body '{' (first '{' at depth 0 after the signature) or ';'
    j = i
    depth = 0
    while j < len(ct):
        t = ct[j]
        if t.kind == "punct":
            if t.text in ("(", "["):
                depth += 1
            elif t.text in (")", "]"):
                depth -= 1
            elif t.text == "{" and depth == 0:
                end = match_close(ct, j)
                return ct[start:end + 1]
            elif t.text == ";" and depth == 0:
                return ct[start:j + 1]
        j += 1
    raise ExtractError(f"no body for {kind} {name}")


def slice_closure(ct, ordinal, pat, name):
    """R10c: the `ordinal`-th (1-based) closure expression of the item whose tokens start with `pat`
    (e.g. `move | item | match item`): parameters plus body expression."""
    hits = [i for i in range(len(ct)) if [x.text for x in ct[i:i + len(pat)]] == pat]
    if len(hits) < ordinal:
        raise ExtractError(f"CLOSURE anchor {' '.join(pat)!r}: only {len(hits)} occurrences in {name}, wanted #{ordinal}")
    i = hits[ordinal - 1]
    # skip `move`, then the parameter list |...|
    j = i
    if ct[j].text == "move":
        j += 1
    if ct[j].text == "||":
        j += 1
    elif ct[j].text == "|":
        j += 1
        while ct[j].text != "|":
            j += 1
        j += 1
    else:
        raise ExtractError(f"CLOSURE anchor does not start a closure in {name}")
    # body
    if ct[j].text in ("match", "if", "loop", "unsafe", "{", "while", "for"):
        # up to the end of the block chain
        k = j
        while True:
            while ct[k].text != "{":
                k += 1
            k = match_close(ct, k)
            if k + 1 < len(ct) and ct[k + 1].text == "else":
                k += 1
                continue
            break
        return ct[i:k + 1]
    depth = 0
    k = j
    while k < len(ct):
        t = ct[k].text
        if t in OPEN:
            depth += 1
        elif t in CLOSE:
            if depth == 0:
                break
            depth -= 1
        elif t in (",", ";") and depth == 0:
            break
        k += 1
    return ct[i:k]


def slice_inner_block(ct, ordinal, pat, name):
    """R10b: narrow to an inner brace block of the item: the `ordinal`-th (1-based) occurrence of the token pattern `pat`, whose
    last token must be `{` (e.g. `} else {`, `if x {`); the result is that `{ .. }` block, which a following STMTS clause treats as
    the body."""
    if not pat or pat[-1] != "{":
        raise ExtractError(f"BLOCK anchor must end with '{{' in {name}")
    hits = [i for i in range(len(ct)) if [x.text for x in ct[i:i + len(pat)]] == pat]
    if len(hits) < ordinal:
        raise ExtractError(f"BLOCK anchor {' '.join(pat)!r}: only {len(hits)} occurrences in {name}, wanted #{ordinal}")
    o = hits[ordinal - 1] + len(pat) - 1
    return ct[o:match_close(ct, o) + 1]


def slice_statements(ct, pat_a, pat_b, name):
    """R10: the statements of a fn body from the one starting with tokens pat_a through the end of the
    one starting with pat_b (both at the top level of the body)."""
    # body = first '{' at paren depth 0 after 'fn'
    depth = 0
    body_open = None
    for i, t in enumerate(ct):
        if t.kind == "punct":
            if t.text in ("(", "["):
                depth += 1
            elif t.text in (")", "]"):
                depth -= 1
            elif t.text == "{" and depth == 0:
                body_open = i
                break
    if body_open is None:
        raise ExtractError(f"STMTS: no body in {name}")
    body_close = match_close(ct, body_open)
    # statement starts at depth 1
    starts = []
    d = 0
    at_start = True
    for i in range(body_open + 1, body_close):
        t = ct[i]
        if d == 0 and at_start:
            starts.append(i)
            at_start = False
        if t.kind == "punct":
            if t.text in OPEN:
                d += 1
            elif t.text in CLOSE:
                d -= 1
                if d == 0 and t.text == "}":
                    # block-like statement may end here (if / for / match without ';')
                    nxt = ct[i + 1].text if i + 1 < body_close else ""
                    if nxt not in (";", ".", "?", "else", ")", ","):
                        at_start = True
            elif t.text == ";" and d == 0:
                at_start = True
    def find(pat):
        after = before = False
        if pat and pat[0] == ">":      # `>pattern`: the statement that follows the one starting with pattern
            after, pat = True, pat[1:]
        elif pat and pat[0] == "<":    # `<pattern`: the statement that precedes the one starting with pattern
            before, pat = True, pat[1:]
        hits = [s0 for s0 in starts if [x.text for x in ct[s0:s0 + len(pat)]] == pat]
        if len(hits) != 1:
            raise ExtractError(f"STMTS anchor {' '.join(pat)!r} matched {len(hits)} statements in {name}")
        if before:
            earlier = [s0 for s0 in starts if s0 < hits[0]]
            if not earlier:
                raise ExtractError(f"STMTS anchor {' '.join(pat)!r}: no preceding statement in {name}")
            return earlier[-1]
        if after:
            later = [s0 for s0 in starts if s0 > hits[0]]
            if not later:
                raise ExtractError(f"STMTS anchor {' '.join(pat)!r}: no following statement in {name}")
            return later[0]
        return hits[0]
    a = find(pat_a)
    b = find(pat_b)
    if b < a:
        raise ExtractError("STMTS anchors out of order")
    later = [s0 for s0 in starts if s0 > b]
    end = later[0] if later else body_close
    return ct[a:end]


def _tok_sub(pat, text):
    """pat, text: space-joined token strings; whole-token substring test"""
    return (" " + pat + " ") in (" " + text + " ")


# ----------------------------------------------------------------------------- rules

LOG_MACROS = {"trace", "debug", "info", "warn", "error"}
DISABLED_FEATURES = {"metrics", "lz4", "bytes_1"}


def rule_R1_attrs(ct, log):
    """drop outer attributes `#[...]`/`#![...]` (comments are already gone).
    An attribute `#[cfg(feature = "<disabled>")]` additionally drops the statement / item /
    field-initialiser that follows it (default features are what the baseline tests build)."""
    out = []
    i = 0
    n = len(ct)
    while i < n:
        t = ct[i]
        if t.text == "#" and i + 1 < n and (ct[i + 1].text == "[" or (ct[i + 1].text == "!" and i + 2 < n and ct[i + 2].text == "[")):
            k = i + 1 if ct[i + 1].text == "[" else i + 2
            e = match_close(ct, k)
            body = _norm(ct[k + 1:e])
            m = re.match(r'cfg \( feature = "([a-z0-9_]+)" \)$', body)
            if not m and body in ('cfg ( windows )', 'cfg ( target_os = "windows" )', 'cfg ( not ( any ( unix , windows ) ) )'):
                m = re.match(r'(cfg) ', body)   # platform-gated code that is not compiled on Linux
            if m and (m.group(1) in DISABLED_FEATURES or m.group(1) == "cfg"):
                # drop following statement: up to ';' or ',' at depth 0, or a complete {...} block
                j = e + 1
                depth = 0
                while j < n:
                    x = ct[j]
                    if x.kind == "punct":
                        if x.text in OPEN:
                            depth += 1
                        elif x.text in CLOSE:
                            if depth == 0:
                                break  # end of enclosing block: statement without terminator
                            depth -= 1
                            if depth == 0 and x.text == "}":
                                # block-like statement ends here unless followed by ';' / ','
                                if j + 1 < n and ct[j + 1].text in (";", ","):
                                    j += 1
                                j += 1
                                break
                        elif x.text in (";", ",") and depth == 0:
                            j += 1
                            break
                    j += 1
                log.append(("R1-cfg-off", m.group(1), _norm(ct[e + 1:j])[:80]))
                i = j
                continue
            m2 = re.match(r'cfg \( not \( feature = "([a-z0-9_]+)" \) \)$', body)
            log.append(("R1", body.split(" ")[0], ""))
            i = e + 1
            continue
        out.append(t)
        i += 1
    return out


def rule_R2_logs(ct, log):
    """drop `log::<level>!( ... );` statements"""
    out = []
    i = 0
    n = len(ct)
    while i < n:
        if (ct[i].text == "log" and i + 4 < n and ct[i + 1].text == "::" and ct[i + 2].text in LOG_MACROS
                and ct[i + 3].text == "!" and ct[i + 4].text in OPEN):
            e = match_close(ct, i + 4)
            j = e + 1
            if j < n and ct[j].text == ";":
                j += 1
            log.append(("R2", ct[i + 2].text, ""))
            i = j
            continue
        out.append(ct[i])
        i += 1
    return out


def rule_R14_visibility(ct, log):
    """drop visibility qualifiers `pub`, `pub(crate)`, `pub(super)`, `pub(in ..)`: all units are
    single-module crates, so visibility has no meaning (and Verus treats structs with private
    fields as opaque in public contracts)"""
    out = []
    i = 0
    n = len(ct)
    cnt = 0
    while i < n:
        if ct[i].kind == "ident" and ct[i].text == "pub":
            cnt += 1
            if i + 1 < n and ct[i + 1].text == "(" and i + 2 < n and ct[i + 2].text in ("crate", "super", "self", "in"):
                i = match_close(ct, i + 1) + 1
            else:
                i += 1
            continue
        out.append(ct[i])
        i += 1
    if cnt:
        log.append(("R14", "pub", cnt))
    return out


class Pat(list):
    """pattern token list; .forbid = tokens that must not occur in what a wildcard swallows"""
    forbid = ()


def parse_subst(line):
    m = re.match(r"\s*`(.*)`\s*==>\s*`(.*?)`\s*(?:::\s*FORBID\s+(.*))?$", line)
    if not m:
        raise ExtractError(f"bad SUBST directive: {line}")
    a = code_tokens(tokenize(m.group(1)))
    b = code_tokens(tokenize(m.group(2)))
    if not a:
        raise ExtractError("empty SUBST pattern")
    pat = Pat(t.text for t in a)
    if m.group(3):
        # an abstraction rule: the swallowed text must not touch the state the contract is about
        pat.forbid = tuple(m.group(3).split())
    return (pat, b, line.strip())


def _match_at(ct, i, pat):
    """try to match pattern tokens `pat` at ct[i]; `$N` (tokens '$','N') is a wildcard matching a
    non-empty balanced token sequence up to the next pattern token at bracket depth 0.
    returns (end_index, {N: [tokens]}) or None"""
    binds = {}
    p = 0
    n = len(ct)
    while p < len(pat):
        if pat[p] == "$" and p + 1 < len(pat) and pat[p + 1].isdigit():
            var = pat[p + 1]
            nxt = pat[p + 2] if p + 2 < len(pat) else None
            depth = 0
            j = i
            while j < n:
                t = ct[j].text
                if depth == 0 and nxt is not None and t == nxt and j > i:
                    break
                if t in OPEN:
                    depth += 1
                elif t in CLOSE:
                    if depth == 0:
                        break
                    depth -= 1
                j += 1
            if j == i or (nxt is not None and (j >= n or ct[j].text != nxt)):
                return None
            binds[var] = ct[i:j]
            i = j
            p += 2
        else:
            if i >= n or ct[i].text != pat[p]:
                return None
            i += 1
            p += 1
    return i, binds


def apply_subst(ct, subst, log):
    pat, rep, desc = subst
    out = []
    i = 0
    n = len(ct)
    cnt = 0
    has_wild = "$" in pat
    k = len(pat)
    while i < n:
        if not has_wild:
            if ct[i].text == pat[0] and i + k <= n and all(ct[i + d].text == pat[d] for d in range(k)):
                out.extend(Tok(r.kind, r.text, -1, r.glued) for r in rep)
                i += k
                cnt += 1
                continue
        elif ct[i].text == pat[0] or pat[0] == "$":
            m = _match_at(ct, i, pat)
            if m:
                end, binds = m
                for toks_ in binds.values():
                    bad = [t.text for t in toks_ if t.text in getattr(pat, "forbid", ())]
                    if bad:
                        raise ExtractError(f"SUBST `{desc}`: the abstracted text contains forbidden token(s) {sorted(set(bad))}")
                q = 0
                while q < len(rep):
                    r = rep[q]
                    if r.text == "$" and q + 1 < len(rep) and rep[q + 1].text in binds:
                        out.extend(binds[rep[q + 1].text])
                        q += 2
                    else:
                        out.append(Tok(r.kind, r.text, -1, r.glued))
                        q += 1
                i = end
                cnt += 1
                continue
        out.append(ct[i])
        i += 1
    log.append(("SUBST", desc, cnt))
    return out


# ----------------------------------------------------------------------------- template

ADD_OPEN = "/*+*/"
ADD_CLOSE = "/*-*/"


class Block:
    def __init__(self):
        self.file = self.impl_pat = self.kind = self.name = None
        self.obls = []
        self.stmts = None   # (start pattern tokens, end pattern tokens) for statement-level extraction (rule R10)
        self.closure = None # (ordinal, start pattern tokens): expression-level extraction of a closure (rule R10c)
        self.inner = None   # (ordinal, pattern tokens ending in '{'): narrow to an inner block (rule R10b)
        self.substs = []
        self.lines = []  # annotated text lines
        self.start_line = 0


def expand_includes(text, base):
    out = []
    for line in text.split("\n"):
        s = line.strip()
        if s.startswith("//@ INCLUDE"):
            path = s[len("//@ INCLUDE"):].strip()
            inc = open(f"{base}/{path}").read()
            out.append(f"// >>> include {path}")
            out.append(expand_includes(inc, base))
            out.append(f"// <<< include {path}")
        else:
            out.append(line)
    return "\n".join(out)


def parse_template(text):
    """returns (unit_name, unit_substs, parts) where parts is a list of str | Block"""
    unit = None
    usub = []
    parts = []
    cur = None
    buf = []
    for ln, line in enumerate(text.split("\n"), 1):
        s = line.strip()
        if s.startswith("//@"):
            d = s[3:].strip()
            if d.startswith("UNIT"):
                unit = d[4:].strip()
            elif d.startswith("SUBST"):
                sb = parse_subst(d[5:])
                (cur.substs if cur else usub).append(sb)
            elif d.startswith("FROM"):
                if cur:
                    raise ExtractError(f"line {ln}: nested FROM")
                parts.append("\n".join(buf)); buf = []
                f = [x.strip() for x in d[4:].split(" :: ")]
                cur = Block()
                cur.file, cur.impl_pat = f[0], f[1]
                kn = f[2].split()
                cur.kind, cur.name = kn[0], kn[1]
                for extra in f[3:]:
                    if extra.startswith("OBL"):
                        cur.obls = [x.strip() for x in extra[3:].split(",") if x.strip()]
                    elif extra.startswith("CLOSURE"):
                        m = re.match(r"CLOSURE\s+(\d+)\s+`(.*?)`\s*$", extra)
                        if not m:
                            raise ExtractError(f"line {ln}: bad CLOSURE clause")
                        cur.closure = (int(m.group(1)), [t.text for t in code_tokens(tokenize(m.group(2)))])
                        cur.order = getattr(cur, "order", []) + ["closure"]
                    elif extra.startswith("BLOCK"):
                        m = re.match(r"BLOCK\s+(\d+)\s+`(.*?)`\s*$", extra)
                        if not m:
                            raise ExtractError(f"line {ln}: bad BLOCK clause")
                        cur.inner = (int(m.group(1)), [t.text for t in code_tokens(tokenize(m.group(2)))])
                        cur.order = getattr(cur, "order", []) + ["inner"]
                    elif extra.startswith("STMTS"):
                        m = re.match(r"STMTS\s+`(.*?)`\s*\.\.\s*`(.*?)`\s*$", extra)
                        if not m:
                            raise ExtractError(f"line {ln}: bad STMTS clause")
                        cur.stmts = ([t.text for t in code_tokens(tokenize(m.group(1)))], [t.text for t in code_tokens(tokenize(m.group(2)))])
                        cur.order = getattr(cur, "order", []) + ["stmts"]
                cur.start_line = ln
            elif d.startswith("END"):
                if not cur:
                    raise ExtractError(f"line {ln}: END without FROM")
                cur.lines = buf; buf = []
                parts.append(cur); cur = None
            else:
                pass  # free-form remark
            # keep line numbering stable: directives become blank comment lines
            if not (d.startswith("FROM") or d.startswith("END")):
                buf.append("//" + s[3:])
            continue
        buf.append(line)
    if cur:
        raise ExtractError("unterminated FROM block")
    parts.append("\n".join(buf))
    return unit, usub, parts


def split_additions(text):
    """tokenise annotated text -> (ea_tokens, additions) where additions is a list of
    (index_into_ea, addition_text).  Comments other than the markers are dropped from EA but
    kept verbatim in the emitted text when the block is identical."""
    toks = tokenize(text)
    ea = []
    adds = []
    inside = False
    cur = []
    for t in toks:
        if t.kind == "bcomment" and t.text == ADD_OPEN:
            if inside:
                raise ExtractError("nested /*+*/")
            inside = True; cur = []
            continue
        if t.kind == "bcomment" and t.text == ADD_CLOSE:
            if not inside:
                raise ExtractError("/*-*/ without /*+*/")
            inside = False
            adds.append((len(ea), "".join(x.text for x in cur)))
            continue
        if inside:
            cur.append(t)
        elif t.kind not in ("ws", "lcomment", "bcomment"):
            ea.append(t)
    if inside:
        raise ExtractError("unterminated /*+*/")
    return ea, adds


STMT_ADD = re.compile(r"\s*(proof\b|let\s+ghost\b|assert\b|assume\b|broadcast\b|reveal\b)")
LOOPSPEC_ADD = re.compile(r"\s*(invariant\b|invariant_except_break\b|decreases\b)")


KEEP_VISIBILITY = False


def fetch_real(repo, blk, unit_substs):
    log = []
    path = f"{repo}/{blk.file}"
    try:
        src = open(path).read()
    except OSError as e:
        raise ExtractError(f"cannot read {path}: {e}")
    ct = find_item(src, blk.impl_pat, blk.kind, blk.name)
    if blk.stmts or blk.closure or getattr(blk, "inner", None):
        # statement / closure anchors are matched on the text without attributes and log statements
        ct = rule_R1_attrs(ct, log)
        ct = rule_R2_logs(ct, log)
    # statement-level and closure-level slicing compose in the order the FROM line gives them
    # (`CLOSURE .. :: STMTS ..` = statements of the closure's body)
    for what in (getattr(blk, "order", None) or ["stmts", "closure"]):
        if what == "stmts" and blk.stmts:
            ct = slice_statements(ct, blk.stmts[0], blk.stmts[1], blk.name)
        if what == "closure" and blk.closure:
            ct = slice_closure(ct, blk.closure[0], blk.closure[1], blk.name)
        if what == "inner" and getattr(blk, "inner", None):
            ct = slice_inner_block(ct, blk.inner[0], blk.inner[1], blk.name)
    raw_text = " ".join(t.text for t in ct)
    ct = rule_R1_attrs(ct, log)
    ct = rule_R2_logs(ct, log)
    if not KEEP_VISIBILITY:
        ct = rule_R14_visibility(ct, log)
    for sb in unit_substs + blk.substs:
        ct = apply_subst(ct, sb, log)
    return ct, log, hashlib.sha256(raw_text.encode()).hexdigest()


KEEP_MARKERS = False   # rebase mode (tools/rebase_unit.py): emit additions wrapped in their markers


def weave(blk, real_ct):
    """returns (text, identical: bool, stats)"""
    text = "\n".join(blk.lines)
    ea, adds = split_additions(text)
    a = [t.text for t in ea]
    b = [t.text for t in real_ct]
    if a == b:
        return text, True, {"tokens": len(b), "additions": len(adds), "changed_tokens": 0, "dropped_additions": 0}
    sm = difflib.SequenceMatcher(None, a, b, autojunk=False)
    ops = sm.get_opcodes()
    # map each addition position i (0..len(a)) to a position j in b
    pos_map = {}
    dropped = 0
    changed = 0
    for tag, i1, i2, j1, j2 in ops:
        if tag == "equal":
            for d in range(i2 - i1 + 1):
                pos_map.setdefault(i1 + d, ("at", j1 + d))
        else:
            changed += max(i2 - i1, j2 - j1)
            pos_map.setdefault(i1, ("at", j1))
            for i in range(i1 + 1, i2):
                pos_map[i] = ("inside", j2)
            pos_map[i2] = ("at", j2)
    by_j = {}
    BOUND = (";", "{", "}")

    def snap(j):
        """nearest statement boundary in b (a position whose previous token ends a statement or
        opens/closes a block); ties go backward"""
        if j <= 0 or j >= len(b) or b[j - 1] in BOUND:
            return j
        back = j
        while back > 0 and b[back - 1] not in BOUND:
            back -= 1
        fwd = j
        while fwd < len(b) and b[fwd - 1] not in BOUND:
            fwd += 1
        return back if (j - back) <= (fwd - j) else fwd

    for i, atext in adds:
        how, j = pos_map.get(i, ("at", len(b)))
        if STMT_ADD.match(atext):
            j = snap(j)
            stmt_block = bool(getattr(blk, "stmts", None))
            if j >= len(b) and stmt_block:
                j = len(b)              # statement-level block: there is no closing brace, the end is a statement position
            elif j >= len(b):
                j = len(b) - 1          # never after the item's closing brace
            if not stmt_block and j == len(b) - 1 and j > 0 and b[j - 1] not in BOUND:
                # it would sit between a tail expression and the closing brace: there is no statement position left for it
                dropped += 1
                continue
        elif how == "inside":
            dropped += 1
            continue
        elif LOOPSPEC_ADD.match(atext):
            # a loop specification is only meaningful in front of the body of a loop: when the real
            # code no longer has a loop header here (e.g. `for x in xs {` became `if let Some(x) = o {`)
            # the clause is dropped and the enclosing contract has to hold without it
            k = j
            while k > 0 and b[k - 1] not in BOUND:
                k -= 1
            hdr = b[k:j]
            if hdr and hdr[0].startswith("'") and len(hdr) > 2:
                hdr = hdr[2:]
            if not (j < len(b) and b[j] == "{" and hdr and hdr[0] in ("while", "for", "loop")):
                dropped += 1
                continue
        by_j.setdefault(j, []).append(atext)
    stream = []
    for j in range(len(b) + 1):
        for atext in by_j.get(j, []):
            stream.append(("add", atext))
        if j < len(b):
            stream.append(("glued" if (real_ct[j].glued and b[j] == ">" and j > 0 and b[j - 1] == ">") else "tok", b[j]))
    return render_inline(stream), False, {"tokens": len(b), "additions": len(adds), "changed_tokens": changed, "dropped_additions": dropped}


def render_inline(stream):
    """render merged stream: tokens separated by spaces, newline after ; { } ; additions
    inserted verbatim (they carry their own whitespace)"""
    out = []
    for kind, text in stream:
        if kind == "add":
            out.append(" " + ADD_OPEN + text + ADD_CLOSE + " ")
        else:
            if kind == "glued" and out and out[-1] == " ":
                out.pop()
            out.append(text)
            if text in (";", "{", "}"):
                out.append("\n")
            else:
                out.append(" ")
    s = "".join(out)
    # cosmetic: no space before these
    s = re.sub(r" +([;,.?)\]])", r"\1", s)
    s = re.sub(r"([(\[.!]) +", r"\1", s)
    s = re.sub(r" :: ", "::", s)
    s = re.sub(r"& +", "&", s)
    s = re.sub(r"&mut(?=[A-Za-z_])", "&mut ", s)
    return s


def build_unit(template_text, repo, base="/verif"):
    """returns dict(text=..., blocks=[{...}], name=...)"""
    global KEEP_VISIBILITY
    template_text = expand_includes(template_text, base)
    KEEP_VISIBILITY = "//@ OPTION keep_visibility" in template_text
    unit, usub, parts = parse_template(template_text)
    out = []
    blocks = []
    line_no = 1
    for p in parts:
        if isinstance(p, str):
            out.append(p)
            line_no += p.count("\n") + 1
            continue
        real_ct, log, sha = fetch_real(repo, p, usub)
        text, identical, stats = weave(p, real_ct)
        start = line_no
        out.append(text)
        line_no += text.count("\n") + 1
        blocks.append({
            "file": p.file, "impl": p.impl_pat, "item": f"{p.kind} {p.name}", "obligations": p.obls,
            "identical": identical, "stats": stats, "rules": log, "sha256_repo_item": sha,
            "line_start": start, "line_end": line_no - 1,
        })
    text = "\n".join(out)
    # wrapper regions (generated fns around statement-level blocks): `//@ WRAPPER_BEGIN` .. `//@ WRAPPER_END`
    begin = None
    for ln, line in enumerate(text.split("\n"), 1):
        t = line.strip()
        if t.startswith("// WRAPPER_BEGIN"):
            begin = ln
        elif t.startswith("// WRAPPER_END") and begin is not None:
            for b in blocks:
                if begin <= b["line_start"] and b["line_end"] <= ln:
                    b["wrap_start"], b["wrap_end"] = begin, ln
            begin = None
    return {"name": unit, "text": text, "blocks": blocks}


if __name__ == "__main__":
    import sys, json
    tpl = open(sys.argv[1]).read()
    repo = sys.argv[2] if len(sys.argv) > 2 else "/repo"
    u = build_unit(tpl, repo)
    if len(sys.argv) > 3:
        open(sys.argv[3], "w").write(u["text"])
    for b in u["blocks"]:
        print(json.dumps({k: b[k] for k in ("file", "item", "identical", "stats", "line_start", "line_end")}))
