//@ UNIT binary_index
// Block binary index (src/table/block/binary_index): `Builder::write` stores the restart-head offsets in insertion order, as u16 when
// the last (largest) offset fits and as u32 otherwise, and reports the step size and the number of pointers; `Reader::len` /
// `Reader::get(i)` over these bytes return that number and exactly the i-th inserted offset.  Obligations C12.22, C01.28
use vstd::prelude::*;

//@ FROM src/lib.rs :: - :: macro_rules unwrap
macro_rules! unwrap {
    ($x:expr) => {{
        $x.expect("should read")
    }};
}
//@ END

verus! {
global size_of usize == 8;

// ---------------- prelude (TRUSTED) ----------------
#[derive(Debug)] struct Error { p: u8 }
/// fixed-width little-endian coding (byteorder): invertible
pub uninterp spec fn le16(x: u16) -> Seq<u8>;
pub uninterp spec fn le32(x: u32) -> Seq<u8>;
pub uninterp spec fn un_le16(b: Seq<u8>) -> u16;
pub uninterp spec fn un_le32(b: Seq<u8>) -> u32;
#[verifier::external_body]
pub broadcast proof fn axiom_le()
    ensures
        forall|x: u16| #![trigger le16(x)] le16(x).len() == 2 && un_le16(le16(x)) == x,
        forall|x: u32| #![trigger le32(x)] le32(x).len() == 4 && un_le32(le32(x)) == x,
{}
/// W: io::Write with byteorder: the bytes accepted so far
trait IoWrite: Sized {
    spec fn written(&self) -> Seq<u8>;
    fn write_u16_le(&mut self, x: u16) -> (r: Result<(), Error>) ensures r is Ok ==> (*final(self)).written() == (*old(self)).written() + le16(x);
    fn write_u32_le(&mut self, x: u32) -> (r: Result<(), Error>) ensures r is Ok ==> (*final(self)).written() == (*old(self)).written() + le32(x);
}
/// `let mut bytes = &self.bytes[offset..];` + byteorder reads on it (in-memory: succeed exactly when the bytes are there)
#[verifier::external_body]
fn read_u16_le_at(bytes: &[u8], offset: usize) -> (r: Result<u16, Error>)
    ensures offset + 2 <= bytes@.len() ==> r is Ok && r->Ok_0 == un_le16(bytes@.subrange(offset as int, offset + 2))
{ unimplemented!() }
#[verifier::external_body]
fn read_u32_le_at(bytes: &[u8], offset: usize) -> (r: Result<u32, Error>)
    ensures offset + 4 <= bytes@.len() ==> r is Ok && r->Ok_0 == un_le32(bytes@.subrange(offset as int, offset + 4))
{ unimplemented!() }
#[verifier::external_body]
fn sub<'a>(s: &'a [u8], lo: usize, hi: usize) -> (r: &'a [u8]) requires lo <= hi <= s@.len() ensures r@ == s@.subrange(lo as int, hi as int) { unimplemented!() }

/// the pointers as the builder writes them
spec fn ptr_bytes(p: Seq<u32>, step: int, k: int) -> Seq<u8> decreases k
{ if k <= 0 { Seq::empty() } else { ptr_bytes(p, step, k - 1) + (if step == 2 { le16(p[k - 1] as u16) } else { le32(p[k - 1]) }) } }
proof fn lemma_ptr_len(p: Seq<u32>, step: int, k: int)
    requires 0 <= k <= p.len(), step == 2 || step == 4
    ensures ptr_bytes(p, step, k).len() == k * step
    decreases k
{ broadcast use axiom_le; if k > 0 { lemma_ptr_len(p, step, k - 1); assert(k * step == (k - 1) * step + step) by (nonlinear_arith); } }
/// pointer i sits at byte i * step
proof fn lemma_ptr_at(p: Seq<u32>, step: int, n: int, i: int)
    requires 0 <= i < n <= p.len(), step == 2 || step == 4
    ensures i * step + step <= ptr_bytes(p, step, n).len(),
        ptr_bytes(p, step, n).subrange(i * step, i * step + step) == (if step == 2 { le16(p[i] as u16) } else { le32(p[i]) })
    decreases n
{
    broadcast use axiom_le;
    lemma_ptr_len(p, step, n); lemma_ptr_len(p, step, n - 1);
    let last = if step == 2 { le16(p[n - 1] as u16) } else { le32(p[n - 1]) };
    assert(n * step == (n - 1) * step + step) by (nonlinear_arith);
    assert(i * step + step <= n * step) by (nonlinear_arith) requires i < n, step > 0;
    if i == n - 1 {
        assert(ptr_bytes(p, step, n).subrange(i * step, i * step + step) =~= last);
    } else {
        lemma_ptr_at(p, step, n - 1, i);
        assert(i * step + step <= (n - 1) * step) by (nonlinear_arith) requires i < n - 1, step > 0;
        assert(ptr_bytes(p, step, n).subrange(i * step, i * step + step) =~= ptr_bytes(p, step, n - 1).subrange(i * step, i * step + step));
    }
}

//@ FROM src/table/block/binary_index/builder.rs :: - :: struct Builder
struct Builder(Vec<u32>);
//@ END
//@ SUBST `crate :: Result < ( u8 , usize ) >` ==> `Result<(u8, usize), Error>`
//@ SUBST `< W : std :: io :: Write >` ==> `<W: IoWrite>`
//@ SUBST `write_u16 :: < LittleEndian >` ==> `write_u16_le`
//@ SUBST `write_u32 :: < LittleEndian >` ==> `write_u32_le`
impl Builder {
//@ FROM src/table/block/binary_index/builder.rs :: impl Builder :: fn insert :: OBL C12.22, C01.28
    fn insert(&mut self, pos: u32/*+*/)
        ensures final(self).0@ == old(self).0@.push(pos/*-*/)
    {
        self.0.push(pos);
    }
//@ END

//@ FROM src/table/block/binary_index/builder.rs :: impl Builder :: fn write :: OBL C12.22, C01.28
//@ SUBST `u16 :: try_from ( * self . 0 . last ( ) . expect ( "should not be empty" ) ) . is_ok ( )` ==> `fits_u16(*self.0.last().expect("should not be empty"))`
//@ SUBST `for & offset in & self . 0 {` ==> `for offset__ in it__: self.0.iter() { let offset = *offset__;`
    fn write<W: IoWrite>(&self, writer: &mut W) -> /*+*/(r:/*-*/ Result<(u8, usize), Error>/*+*/)
        requires self.0@.len() > 0,
            // offsets ascend (restart heads are written one after the other), so the last one is the largest
            forall|i: int| 0 <= i < self.0@.len() ==> (#[trigger] self.0@[i]) <= self.0@.last(),
        ensures r is Ok ==> ({
            let step = r->Ok_0.0 as int;
            (step == 2 || step == 4) && r->Ok_0.1 == self.0@.len()
            && (*final(writer)).written() == (*old(writer)).written() + ptr_bytes(self.0@, step, self.0@.len() as int)
            // u16 only when every pointer fits
            && (step == 2 ==> forall|i: int| 0 <= i < self.0@.len() ==> (#[trigger] self.0@[i]) <= u16::MAX) }),/*-*/
    {
        /*+*/let ghost w0 = writer.written(); let ghost p = self.0@;/*-*/
        // NOTE: We check if the pointers may fit in 16-bits
        // If so, we halve the index size by storing u16 instead of u32
        let step_size = {
            if fits_u16(*self.0.last().expect("should not be empty")) {
                2
            } else {
                4
            }
        };

        let len = self.0.len();

        if step_size == 2 {
            // Write u16 index
            for offset__ in it__: self.0.iter()
                /*+*/invariant it__.seq().len() == p.len(), forall|k: int| 0 <= k < p.len() ==> *(#[trigger] it__.seq()[k]) == p[k], p == self.0@,
                    writer.written() == w0 + ptr_bytes(p, 2, it__.index@ as int),/*-*/
            { let offset = *offset__;
                /*+*/proof { assert(offset == p[it__.index@ as int]); }/*-*/
                let offset = offset as u16;
                writer.write_u16_le(offset)?;
                /*+*/proof { assert(w0 + ptr_bytes(p, 2, it__.index@ + 1) =~= (w0 + ptr_bytes(p, 2, it__.index@ as int)) + le16(p[it__.index@ as int] as u16)); }/*-*/
            }
        } else {
            // Write u32 index
            for offset__ in it__: self.0.iter()
                /*+*/invariant it__.seq().len() == p.len(), forall|k: int| 0 <= k < p.len() ==> *(#[trigger] it__.seq()[k]) == p[k], p == self.0@,
                    writer.written() == w0 + ptr_bytes(p, 4, it__.index@ as int),/*-*/
            { let offset = *offset__;
                /*+*/proof { assert(offset == p[it__.index@ as int]); }/*-*/
                writer.write_u32_le(offset)?;
                /*+*/proof { assert(w0 + ptr_bytes(p, 4, it__.index@ + 1) =~= (w0 + ptr_bytes(p, 4, it__.index@ as int)) + le32(p[it__.index@ as int])); }/*-*/
            }
        }

        Ok((step_size, len))
    }
//@ END
}
/// `u16::try_from(x).is_ok()`
fn fits_u16(x: u32) -> (r: bool) ensures r == (x <= u16::MAX) { x <= 65535 }

//@ FROM src/table/block/binary_index/reader.rs :: - :: struct Reader
struct Reader<'a> {
    bytes: &'a [u8],
    step_size: usize,
}
//@ END
//@ SUBST `read_u16 :: < LittleEndian >` ==> `read_u16_le`
//@ SUBST `read_u32 :: < LittleEndian >` ==> `read_u32_le`
impl<'a> Reader<'a> {
//@ FROM src/table/block/binary_index/reader.rs :: impl < 'a > Reader < 'a > :: fn new :: OBL C12.22, C01.28
//@ SUBST `& bytes [ offset .. end ]` ==> `sub(bytes, offset, end)`
    fn new(bytes: &'a [u8], offset: u32, len: u32, step_size: u8) -> /*+*/(r:/*-*/ Self/*+*/)
        requires offset + len * step_size <= bytes@.len(), bytes@.len() <= u32::MAX
        ensures r.bytes@ == bytes@.subrange(offset as int, offset + len * step_size), r.step_size == step_size/*-*/
    {
        let offset = offset as usize;
        let len = len as usize;
        let step_size = step_size as usize;
        /*+*/assert(len * step_size <= bytes@.len()) by (nonlinear_arith) requires offset + len * step_size <= bytes@.len(), offset >= 0;/*-*/
        let size = len * step_size;
        let end = offset + size;

        Self {
            bytes: sub(bytes, offset, end),
            step_size,
        }
    }
//@ END

//@ FROM src/table/block/binary_index/reader.rs :: impl < 'a > Reader < 'a > :: fn len :: OBL C12.22, C01.28
    fn len(&self) -> /*+*/(r:/*-*/ usize/*+*/)
        requires self.step_size > 0
        ensures r == self.bytes@.len() as int / (self.step_size as int)/*-*/
    {
        self.bytes.len() / self.step_size
    }
//@ END

//@ FROM src/table/block/binary_index/reader.rs :: impl < 'a > Reader < 'a > :: fn get :: OBL C12.22, C01.28
//@ SUBST `let mut bytes = & self . bytes [ offset .. ] ;` ==> ``
//@ SUBST `bytes . read_u16_le ( )` ==> `read_u16_le_at(self.bytes, offset)`
//@ SUBST `bytes . read_u32_le ( )` ==> `read_u32_le_at(self.bytes, offset)`
    fn get(&self, idx: usize/*+*/, Ghost(p): Ghost<Seq<u32>>/*-*/) -> /*+*/(r: usize)
        requires (self.step_size == 2 || self.step_size == 4), self.bytes@ == ptr_bytes(p, self.step_size as int, p.len() as int), idx < p.len(), p.len() * 4 <=/*-*/ usize/*+*/::MAX,
            self.step_size == 2 ==> forall|i: int| 0 <= i < p.len() ==> (#[trigger] p[i]) <= u16::MAX,
        // exactly the idx-th pointer that was inserted
        ensures r == p[idx as int]/*-*/
    {
        /*+*/proof { broadcast use axiom_le; lemma_ptr_at(p, self.step_size as int, p.len() as int, idx as int); lemma_ptr_len(p, self.step_size as int, p.len() as int);
            assert(idx * self.step_size <= p.len() * 4) by (nonlinear_arith) requires idx < p.len(), self.step_size <= 4; }/*-*/
        let offset = idx * self.step_size;

        

        if self.step_size == 2 {
            unwrap!(read_u16_le_at(self.bytes, offset)).into()
        } else {
            unwrap!(read_u32_le_at(self.bytes, offset)) as usize
        }
    }
//@ END
}
}
fn main() {}
