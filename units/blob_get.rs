//@ UNIT blob_get
// Point reads resolve everything against ONE super version: the one the snapshot seqno resolves to.  Tree::get_internal_entry
// and BlobTree::get (the value pointer is dereferenced in the *pinned* version's blob files, not the latest).
// Obligations C02.10, C08.6
use vstd::prelude::*;
verus! {

pub type SeqNo = u64;
pub type TreeId = u64;
#[verifier::external_body] pub struct KeyBytes { p: u8 }
#[verifier::external_body] pub struct UserValue { p: u8 }
#[verifier::external_body] pub struct UserKey { p: u8 }
#[verifier::external_body] pub struct InternalValue { p: u8 }
#[verifier::external_body] pub struct Error { p: u8 }
#[verifier::external_body] pub struct Cache { p: u8 }
#[verifier::external_body] pub struct Path { p: u8 }
#[verifier::external_body] pub struct PathBuf { p: u8 }
impl PathBuf { #[verifier::external_body] pub fn as_path(&self) -> (r: &Path) { unimplemented!() } }

pub struct Version { pub id: u64 }
pub struct SuperVersion { pub version: Version, pub seqno: SeqNo }
/// the version history behind its RwLock (R8); `resolve` is what get_version_for_snapshot returns (obligation C02.2)
pub struct History { pub h: Seq<SuperVersion> }
pub uninterp spec fn resolve(h: Seq<SuperVersion>, seqno: SeqNo) -> SuperVersion;
pub struct Guard<'a> { pub g: &'a History }
impl History {
    pub fn read(&self) -> (r: Guard<'_>) ensures r.g == self { Guard { g: self } }
    #[verifier::external_body]
    pub fn get_version_for_snapshot(&self, seqno: SeqNo) -> (r: SuperVersion) ensures r == resolve(self.h, seqno) { unimplemented!() }
    #[verifier::external_body]
    pub fn latest_version(&self) -> (r: SuperVersion) requires self.h.len() > 0 ensures r == self.h.last() { unimplemented!() }
}
impl<'a> Guard<'a> { pub fn expect(self, msg: &str) -> (r: &'a History) ensures r == self.g { self.g } }

/// what the read path answers in a given super version (obligation C01.2) and what a pointer resolves to in a given version
pub uninterp spec fn answer(sv: SuperVersion, key: &KeyBytes, seqno: SeqNo) -> Result<Option<InternalValue>, Error>;
pub uninterp spec fn deref_in(v: Version, item: InternalValue) -> Result<(UserKey, UserValue), Error>;

pub struct Config { pub cache: Cache }
pub struct Tree { pub version_history: History, pub config: Config, pub id: TreeId }
impl Tree {
    #[verifier::external_body]
    pub fn get_internal_entry_from_version(super_version: &SuperVersion, key: &KeyBytes, seqno: SeqNo) -> (r: Result<Option<InternalValue>, Error>)
        ensures r == answer(*super_version, key, seqno)
    { unimplemented!() }

//@ FROM src/tree/mod.rs :: AbstractTree for Tree :: fn get_internal_entry :: OBL C02.10
//@ SUBST `& [ u8 ]` ==> `&KeyBytes`
//@ SUBST `crate :: Result < Option < InternalValue > >` ==> `Result<Option<InternalValue>, Error>`
    fn get_internal_entry(&self, key: &KeyBytes, seqno: SeqNo) -> /*+*/(r: /*-*/Result<Option<InternalValue>, Error>/*+*/)
        ensures r == answer(resolve(self.version_history.h, seqno), key, seqno)/*-*/
    {
        let super_version = self
            .version_history
            .read()
            .expect("lock is poisoned")
            .get_version_for_snapshot(seqno);

        Self::get_internal_entry_from_version(&super_version, key, seqno)
    }
//@ END

    #[verifier::external_body]
    pub fn current_version(&self) -> (r: Version) requires self.version_history.h.len() > 0 ensures r == self.version_history.h.last().version { unimplemented!() }
}
/// blob_tree::resolve_value_handle: dereferences a pointer entry in the given version's blob files (inline values pass through)
#[verifier::external_body]
pub fn resolve_value_handle(tree_id: TreeId, blobs_folder: &Path, cache: &Cache, version: &Version, item: InternalValue) -> (r: Result<(UserKey, UserValue), Error>)
    ensures r == deref_in(*version, item)
{ unimplemented!() }

pub struct BlobTree { pub index: Tree, pub blobs_folder: PathBuf }
impl BlobTree {
    pub fn id(&self) -> (r: TreeId) ensures r == self.index.id { self.index.id }
    #[verifier::external_body]
    pub fn current_version(&self) -> (r: Version) requires self.index.version_history.h.len() > 0 ensures r == self.index.version_history.h.last().version { unimplemented!() }

//@ FROM src/blob_tree/mod.rs :: AbstractTree for BlobTree :: fn get :: OBL C02.10, C08.6
//@ SUBST `< K : AsRef < [ u8 ] > >` ==> ``
//@ SUBST `key : K` ==> `key: &KeyBytes`
//@ SUBST `let key = key . as_ref ( ) ;` ==> ``
//@ SUBST `key . as_ref ( )` ==> `key`
//@ SUBST `crate :: Result < Option < crate :: UserValue > >` ==> `Result<Option<UserValue>, Error>`
//@ SUBST `crate :: Tree ::` ==> `Tree::`
//@ SUBST `let ( _ , v ) =` ==> `let (_k, v) =`
    fn get(&self, key: &KeyBytes, seqno: SeqNo) -> /*+*/(r: /*-*/Result<Option<UserValue>, Error>/*+*/)
        requires self.index.version_history.h.len() > 0,
        ensures
            // C02.10 / C08.6: the entry is looked up AND its value pointer dereferenced in the super version the snapshot resolves to
            ({ let sv = resolve(self.index.version_history.h, seqno);
               match answer(sv, key, seqno) {
                   Err(e) => r == Err::<Option<UserValue>, Error>(e),
                   Ok(None) => r == Ok::<Option<UserValue>, Error>(None),
                   Ok(Some(item)) => match deref_in(sv.version, item) { Ok((k, v)) => r == Ok::<Option<UserValue>, Error>(Some(v)), Err(e) => r == Err::<Option<UserValue>, Error>(e) },
               } })/*-*/
    {
        let super_version = self
            .index
            .version_history
            .read()
            .expect("lock is poisoned")
            .get_version_for_snapshot(seqno);

        let Some(item) = Tree::get_internal_entry_from_version(&super_version, key, seqno)?
        else {
            return Ok(None);
        };

        let (_k, v) = resolve_value_handle(
            self.id(),
            self.blobs_folder.as_path(),
            &self.index.config.cache,
            &super_version.version,
            item,
        )?;

        Ok(Some(v))
    }
//@ END
}

} // verus!
fn main() {}
