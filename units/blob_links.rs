//@ UNIT blob_links
// The blob link of a pointer entry is registered with the table that holds the pointer (table rotation happens inside
// MultiWriter::write, so the order write -> register_blob matters): Ingestion::write_indirection, StandardCompaction::write.
// Obligations C09.7, C08.7
use vstd::prelude::*;
use vstd::std_specs::cmp::*;
verus! {

//@ INCLUDE prelude/key.rs
pub type SeqNo = u64;
#[verifier::external_body] pub struct Error { p: u8 }
#[derive(Clone, Copy, PartialEq, Eq, Structural)]
pub enum ValueType { Value, Tombstone, WeakTombstone, Indirection }
impl ValueType { pub fn is_indirection(self) -> (r: bool) ensures r == (self == ValueType::Indirection) { self == ValueType::Indirection } }
#[derive(Clone, Copy)]
pub struct BlobIndirection { pub id: u64 }
impl BlobIndirection {
    #[verifier::external_body] pub fn encode_into_vec(&self) -> (r: Vec<u8>) { unimplemented!() }
    /// Decode::decode_from on the bytes of a pointer entry
    #[verifier::external_body] pub fn decode_value(v: &Vec<u8>) -> (r: Result<BlobIndirection, Error>) { unimplemented!() }
}
pub struct InternalKey { pub user_key: Key, pub seqno: SeqNo, pub value_type: ValueType }
pub struct InternalValue { pub key: InternalKey, pub value: Vec<u8> }
impl InternalValue {
    #[verifier::external_body]
    pub fn from_components(key: Key, value: Vec<u8>, seqno: SeqNo, value_type: ValueType) -> (r: InternalValue)
        ensures r.key.user_key.rank() == key.rank(), r.key.seqno == seqno, r.key.value_type == value_type
    { unimplemented!() }
}
/// table::MultiWriter (R8): which output table is current, which table each written item went to, which table each link was attached to
pub struct MultiWriter { pub ghost cur: int, pub ghost item_tables: Seq<int>, pub ghost link_tables: Seq<int> }
impl MultiWriter {
    /// write may first rotate to a fresh table (then links registered so far stay with the finished one)
    #[verifier::external_body]
    pub fn write(&mut self, item: InternalValue) -> (r: Result<(), Error>)
        ensures r is Ok ==> final(self).cur >= old(self).cur && final(self).item_tables == old(self).item_tables.push(final(self).cur) && final(self).link_tables == old(self).link_tables,
    { unimplemented!() }
    #[verifier::external_body]
    pub fn register_blob(&mut self, indirection: BlobIndirection)
        ensures final(self).cur == old(self).cur, final(self).item_tables == old(self).item_tables, final(self).link_tables == old(self).link_tables.push(old(self).cur),
    { unimplemented!() }
}
/// the last link registered belongs to the table the last item was written into
pub open spec fn linked_with_item(w: MultiWriter) -> bool { w.item_tables.len() > 0 && w.link_tables.len() > 0 && w.item_tables.last() == w.link_tables.last() }

//@ SUBST `crate :: Result < ( ) >` ==> `Result<(), Error>`
//@ SUBST `crate :: InternalValue ::` ==> `InternalValue::`
//@ SUBST `crate :: ValueType ::` ==> `ValueType::`
//@ SUBST `UserKey` ==> `Key`

pub struct Ingestion { pub writer: MultiWriter, pub seqno: SeqNo, pub last_key: Option<Key> }
impl Ingestion {
//@ FROM src/tree/ingest.rs :: impl < 'a > Ingestion < 'a > :: fn write_indirection :: OBL C09.7, C08.7
//@ SUBST `use crate :: coding :: Encode ;` ==> ``
    fn write_indirection(
        &mut self,
        key: Key,
        indirection: BlobIndirection,
    ) -> /*+*/(r: /*-*/Result<(), Error>/*+*/)
        requires old(self).last_key is Some ==> key.rank() > old(self).last_key->0.rank(),
        ensures
            // C09.7: one more item and one more link, and the link went to the table that holds the item
            r is Ok ==> final(self).writer.item_tables.len() == old(self).writer.item_tables.len() + 1
                && final(self).writer.link_tables.len() == old(self).writer.link_tables.len() + 1
                && linked_with_item(final(self).writer),/*-*/
    {
        if let Some(prev) = &self.last_key {
            assert!(
                key > *prev,
                "next key in ingestion must be greater than last key"
            );
        }

        let cloned_key = key.clone();
        self.writer.write(InternalValue::from_components(
            key,
            indirection.encode_into_vec(),
            self.seqno,
            ValueType::Indirection,
        ))?;

        self.writer.register_blob(indirection);

        self.last_key = Some(cloned_key);

        Ok(())
    }
//@ END
}

pub struct StandardCompaction { pub table_writer: MultiWriter }
impl StandardCompaction {
//@ FROM src/compaction/flavour.rs :: CompactionFlavour for StandardCompaction :: fn write :: OBL C09.7, C08.7
//@ SUBST `{ let mut reader = & item . value [ .. ] ; BlobIndirection :: decode_from ( & mut reader ) ? }` ==> `BlobIndirection::decode_value(&item.value)?`
    fn write(&mut self, item: InternalValue) -> /*+*/(r: /*-*/Result<(), Error>/*+*/)
        ensures
            r is Ok ==> final(self).table_writer.item_tables.len() == old(self).table_writer.item_tables.len() + 1,
            // C09.7: a pointer entry gets exactly one link, attached to the table the entry was written into; other entries get none
            r is Ok && item.key.value_type == ValueType::Indirection ==> final(self).table_writer.link_tables.len() == old(self).table_writer.link_tables.len() + 1 && linked_with_item(final(self).table_writer),
            r is Ok && item.key.value_type != ValueType::Indirection ==> final(self).table_writer.link_tables == old(self).table_writer.link_tables,/*-*/
    {
        let indirection = if item.key.value_type.is_indirection() {
            Some(BlobIndirection::decode_value(&item.value)?)
        } else {
            None
        };

        self.table_writer.write(item)?;

        if let Some(indirection) = indirection {
            self.table_writer.register_blob(indirection);
        }

        Ok(())
    }
//@ END
}

} // verus!
fn main() {}
