//@ UNIT blob_merge_scanner
// `MergeScanner` (src/vlog/blob_file/merge.rs): the k-way merge over the scanners of the blob files being rewritten hands out, one per
// call, exactly the entries of the scanners - each scanner's entries in that scanner's order, none lost, none twice, none invented - and
// always the least pending one in the order (key ascending, seqno descending; `Ord for IteratorValue`, C08.8), together with the id of
// the blob file it came from; `None` only when every scanner is exhausted; a scanner's error is passed on.  This is the stream
// `RelocatingCompaction::write` (C08.17) matches the pointers against.  Obligations C08.22, C12.33
use vstd::prelude::*;

//@ FROM src/lib.rs :: - :: macro_rules fail_iter
//@ SUBST `e . into ( )` ==> `e`
macro_rules! fail_iter {
    ($e:expr) => {
        match $e {
            Ok(v) => v,
            Err(e) => return Some(Err(e)),
        }
    };
}
//@ END

verus! {
global size_of usize == 8;
type SeqNo = u64; type BlobFileId = u64; type IteratorIndex = usize;
#[derive(Copy, Clone, PartialEq, Eq, Structural)] struct Error { e: u8 }
/// one blob as the scanner yields it: key = rank of the key bytes in the byte-string order; `what` stands for value / offset / length
#[derive(Copy, Clone, PartialEq, Eq, Structural)] struct ScanEntry { key: int, seqno: SeqNo, what: int }
type Item = Result<ScanEntry, Error>;
/// the order of IteratorValue (unit orderings, C08.8): key ascending, then seqno descending
spec fn le(a: ScanEntry, b: ScanEntry) -> bool { a.key < b.key || (a.key == b.key && a.seqno >= b.seqno) }

// ---------------- prelude (TRUSTED) ----------------
/// blob_file::scanner::Scanner (its `next`: unit block_io, C10.13): `rest` = what it will still deliver; None for ever once exhausted
struct BlobFileScanner { blob_file_id: BlobFileId, ghost rest: Seq<Item> }
impl BlobFileScanner {
    #[verifier::external_body]
    fn next(&mut self) -> (r: Option<Item>)
        ensures final(self).blob_file_id == old(self).blob_file_id,
            old(self).rest.len() == 0 ==> r is None && final(self).rest == old(self).rest,
            old(self).rest.len() > 0 ==> r == Some(old(self).rest[0]) && final(self).rest == old(self).rest.skip(1),
    { unimplemented!() }
}
//@ FROM src/vlog/blob_file/merge.rs :: - :: struct IteratorValue
struct IteratorValue {
    index: IteratorIndex,
    scan_entry: ScanEntry,
    blob_file_id: BlobFileId,
}
//@ END
/// interval_heap::IntervalHeap<IteratorValue>: a bag with pop_min under IteratorValue's order
struct Heap { ghost s: Seq<IteratorValue> }
impl Heap {
    #[verifier::external_body] fn with_capacity(n: usize) -> (r: Self) ensures r.s.len() == 0 { unimplemented!() }
    #[verifier::external_body] fn push(&mut self, x: IteratorValue) ensures final(self).s == old(self).s.push(x) { unimplemented!() }
    #[verifier::external_body] fn is_empty(&self) -> (r: bool) ensures r == (self.s.len() == 0) { unimplemented!() }
    #[verifier::external_body]
    fn pop_min(&mut self) -> (r: Option<IteratorValue>)
        ensures old(self).s.len() == 0 ==> r is None && final(self).s == old(self).s,
            old(self).s.len() > 0 ==> r is Some && exists|k: int| 0 <= k < old(self).s.len() && #[trigger] old(self).s[k] == r->Some_0 && final(self).s == old(self).s.remove(k)
                && forall|j: int| 0 <= j < old(self).s.len() ==> le(r->Some_0.scan_entry, (#[trigger] old(self).s[j]).scan_entry),
    { unimplemented!() }
}

//@ SUBST `IntervalHeap < IteratorValue >` ==> `Heap`
//@ SUBST `IntervalHeap :: with_capacity` ==> `Heap::with_capacity`
//@ SUBST `crate :: Result < ( ) >` ==> `Result<(), Error>`
//@ FROM src/vlog/blob_file/merge.rs :: - :: struct MergeScanner
struct MergeScanner {
    readers: Vec<BlobFileScanner>,
    heap: Heap,
}
//@ END

/// every scanner delivers Ok entries in ascending order (a blob file is written in key order, newest version first)
spec fn sorted_ok(s: Seq<Item>) -> bool { (forall|a: int| 0 <= a < s.len() ==> (#[trigger] s[a]) is Ok) && forall|a: int, b: int| 0 <= a < b < s.len() ==> le((#[trigger] s[a])->Ok_0, (#[trigger] s[b])->Ok_0) }
impl MergeScanner {
    /// how many entries scanner i has delivered so far
    spec fn pos(&self, orig: Seq<Seq<Item>>, i: int) -> int { orig[i].len() - self.readers@[i].rest.len() }
    /// `orig[i]` is what scanner i holds in total, `em[i]` how many of its entries have been handed out: an entry delivered but not yet
    /// handed out sits in the heap, tagged with its scanner's index and blob file id
    spec fn inv(&self, orig: Seq<Seq<Item>>, em: Seq<int>) -> bool {
        &&& self.inv_w(orig, em)
        // once the merge has started, a scanner with nothing in the heap is exhausted
        &&& (self.heap.s.len() > 0 ==> self.settled(orig, em))
    }
    /// every scanner either has its next entry in the heap or is exhausted
    spec fn settled(&self, orig: Seq<Seq<Item>>, em: Seq<int>) -> bool {
        forall|i: int| 0 <= i < orig.len() ==> #[trigger] self.pos(orig, i) == em[i] + 1 || self.pos(orig, i) == orig[i].len()
    }
    spec fn inv_w(&self, orig: Seq<Seq<Item>>, em: Seq<int>) -> bool {
        &&& orig.len() == self.readers@.len() && em.len() == orig.len()
        &&& forall|i: int| 0 <= i < orig.len() ==> sorted_ok(#[trigger] orig[i]) && 0 <= em[i] <= self.pos(orig, i) <= em[i] + 1 && self.pos(orig, i) <= orig[i].len()
                && self.readers@[i].rest == orig[i].skip(self.pos(orig, i))
        &&& forall|k: int| 0 <= k < self.heap.s.len() ==> ({ let h = #[trigger] self.heap.s[k]; 0 <= h.index < orig.len() && self.pos(orig, h.index as int) == em[h.index as int] + 1
                && orig[h.index as int][em[h.index as int]] == Ok::<ScanEntry, Error>(h.scan_entry) && h.blob_file_id == self.readers@[h.index as int].blob_file_id })
        &&& forall|k: int, l: int| 0 <= k < l < self.heap.s.len() ==> (#[trigger] self.heap.s[k]).index != (#[trigger] self.heap.s[l]).index
        &&& forall|i: int| 0 <= i < orig.len() && self.pos(orig, i) == em[i] + 1 ==> exists|k: int| 0 <= k < self.heap.s.len() && (#[trigger] self.heap.s[k]).index == i
    }
}
proof fn lemma_le_trans(a: ScanEntry, b: ScanEntry, c: ScanEntry) requires le(a, b), le(b, c) ensures le(a, c) {}

impl MergeScanner {
//@ FROM src/vlog/blob_file/merge.rs :: impl MergeScanner :: fn advance_reader :: OBL C08.22, C12.33
    fn advance_reader(&mut self, idx: usize/*+*/, Ghost(orig): Ghost<Seq<Seq<Item>>>, Ghost(em): Ghost<Seq<int>>/*-*/) -> /*+*/(r:/*-*/ Result<(), Error>/*+*/)
        requires old(self).inv_w(orig, em), idx < old(self).readers@.len(), old(self).pos(orig, idx as int) == em[idx as int],
        ensures r is Ok, final(self).inv_w(orig, em),
            // scanner idx delivered its next entry into the heap, or is exhausted; the others are untouched
            final(self).pos(orig, idx as int) == em[idx as int] + 1 || final(self).pos(orig, idx as int) == orig[idx as int].len(),
            forall|j: int| 0 <= j < orig.len() && j != idx ==> final(self).pos(orig, j) == old(self).pos(orig, j),
            final(self).heap.s.len() >= old(self).heap.s.len(),
            forall|j: int| 0 <= j < orig.len() ==> (#[trigger] final(self).readers@[j]).blob_file_id == old(self).readers@[j].blob_file_id,
            forall|k: int| 0 <= k < old(self).heap.s.len() ==> final(self).heap.s[k] == old(self).heap.s[k],/*-*/
    {
        /*+*/let ghost p = em[idx as int]; let ghost r0 = self.readers@[idx as int].rest;
        proof { assert(r0 == orig[idx as int].skip(p)); assert(sorted_ok(orig[idx as int])); }/*-*/
        let reader = &mut self.readers[idx];

        if let Some(value) = reader.next() {
            /*+*/proof { assert(r0.len() > 0); assert(value == orig[idx as int][p]); assert(value is Ok); }/*-*/
            let scan_entry = value?;
            let blob_file_id = reader.blob_file_id;

            self.heap.push(IteratorValue {
                index: idx,
                blob_file_id,
                scan_entry,
            });
            /*+*/proof {
                assert(self.readers@[idx as int].rest =~= orig[idx as int].skip(p + 1));
                assert(self.pos(orig, idx as int) == p + 1);
                assert forall|j: int| 0 <= j < orig.len() && j != idx implies self.readers@[j] == old(self).readers@[j] by {}
                assert forall|k: int, l: int| 0 <= k < l < self.heap.s.len() implies (#[trigger] self.heap.s[k]).index != (#[trigger] self.heap.s[l]).index by {
                    if l == self.heap.s.len() - 1 { assert(self.heap.s[k] == old(self).heap.s[k]); assert(old(self).pos(orig, old(self).heap.s[k].index as int) == em[old(self).heap.s[k].index as int] + 1); }
                    else { assert(self.heap.s[k] == old(self).heap.s[k] && self.heap.s[l] == old(self).heap.s[l]); }
                }
                assert forall|i: int| 0 <= i < orig.len() && self.pos(orig, i) == em[i] + 1 implies exists|k: int| 0 <= k < self.heap.s.len() && (#[trigger] self.heap.s[k]).index == i by {
                    if i == idx { assert(self.heap.s[self.heap.s.len() - 1].index == i); }
                    else { let k = choose|k: int| 0 <= k < old(self).heap.s.len() && (#[trigger] old(self).heap.s[k]).index == i; assert(self.heap.s[k].index == i); }
                }
                assert forall|k: int| 0 <= k < self.heap.s.len() implies ({ let h = #[trigger] self.heap.s[k]; 0 <= h.index < orig.len() && self.pos(orig, h.index as int) == em[h.index as int] + 1
                    && orig[h.index as int][em[h.index as int]] == Ok::<ScanEntry, Error>(h.scan_entry) && h.blob_file_id == self.readers@[h.index as int].blob_file_id }) by {
                    if k < old(self).heap.s.len() { assert(self.heap.s[k] == old(self).heap.s[k]); let hi = old(self).heap.s[k].index as int; assert(hi != idx); }
                }
                assert(self.inv_w(orig, em));
            }/*-*/
        } /*+*/else {
            proof {
                assert(self.readers@[idx as int].rest == r0);
                assert forall|j: int| 0 <= j < orig.len() && j != idx implies self.readers@[j] == old(self).readers@[j] by {}
                assert(self.inv_w(orig, em));
            }
        }/*-*/

        Ok(())
    }
//@ END
}


impl MergeScanner {
//@ FROM src/vlog/blob_file/merge.rs :: impl MergeScanner :: fn push_next :: OBL C08.22, C12.33
//@ SUBST `for idx in 0 .. self . readers . len ( ) {` ==> `for idx in it: 0..self.readers.len() {`
    fn push_next(&mut self/*+*/, Ghost(orig): Ghost<Seq<Seq<Item>>>, Ghost(em): Ghost<Seq<int>>/*-*/) -> /*+*/(r:/*-*/ Result<(), Error>/*+*/)
        requires old(self).inv_w(orig, em), forall|i: int| 0 <= i < orig.len() ==> #[trigger] old(self).pos(orig, i) == em[i],
        ensures r is Ok, final(self).inv_w(orig, em), final(self).settled(orig, em),
            forall|j: int| 0 <= j < orig.len() ==> (#[trigger] final(self).readers@[j]).blob_file_id == old(self).readers@[j].blob_file_id,/*-*/
    {
        for idx in it: 0..self.readers.len()
            /*+*/invariant self.inv_w(orig, em), it.snapshot.end == orig.len(),
                forall|j: int| 0 <= j < orig.len() ==> (#[trigger] self.readers@[j]).blob_file_id == old(self).readers@[j].blob_file_id,
                forall|i: int| 0 <= i < idx ==> #[trigger] self.pos(orig, i) == em[i] + 1 || self.pos(orig, i) == orig[i].len(),
                forall|i: int| idx <= i < orig.len() ==> #[trigger] self.pos(orig, i) == em[i],/*-*/
        {
            self.advance_reader(idx/*+*/, Ghost(orig), Ghost(em)/*-*/)?;
        }

        Ok(())
    }
//@ END

//@ FROM src/vlog/blob_file/merge.rs :: impl Iterator for MergeScanner :: fn next :: OBL C08.22, C12.33
//@ SUBST `Self :: Item` ==> `Result<(ScanEntry, BlobFileId), Error>`
    fn next(&mut self/*+*/, Ghost(orig): Ghost<Seq<Seq<Item>>>, Ghost(em): Ghost<Seq<int>>/*-*/) -> /*+*/(r:/*-*/ Option<Result<(ScanEntry, BlobFileId), Error>>/*+*/)
        requires old(self).inv(orig, em),
        ensures
            // None only when every entry of every scanner has been handed out
            r is None ==> final(self).inv(orig, em) && forall|i: int| 0 <= i < orig.len() ==> #[trigger] em[i] == orig[i].len(),
            // scanners that deliver only Ok entries never make the merge fail
            !(r is Some && r->Some_0 is Err),
            // otherwise: the next not-yet-handed-out entry of some scanner i, with that scanner's blob file id, and it is the least pending one
            r is Some && r->Some_0 is Ok ==> handed_some(*old(self), *final(self), orig, em, r->Some_0->Ok_0),/*-*/
    {
        /*+*/let gorig: Ghost<Seq<Seq<Item>>> = Ghost(orig); let gem: Ghost<Seq<int>> = Ghost(em);/*-*/
        if self.heap.is_empty() {
            fail_iter!(self.push_next(/*+*/gorig, gem/*-*/));
        }
        /*+*/proof { assert(self.settled(orig, em)); }
        let ghost mid = *self;/*-*/

        if let Some(head) = self.heap.pop_min() {
            /*+*/let ghost i = head.index as int; let ghost em2 = em.update(i, em[i] + 1);
            let ghost k0 = choose|k: int| 0 <= k < mid.heap.s.len() && #[trigger] mid.heap.s[k] == head && self.heap.s == mid.heap.s.remove(k);
            let ghost popped = *self;
            proof { lemma_after_pop(mid, popped, orig, em, k0); }
            let gem2: Ghost<Seq<int>> = Ghost(em2);/*-*/
            fail_iter!(self.advance_reader(head.index/*+*/, gorig, gem2/*-*/));
            /*+*/proof {
                lemma_least(mid, orig, em, k0);
                assert forall|j: int| 0 <= j < orig.len() implies #[trigger] self.pos(orig, j) == em2[j] + 1 || self.pos(orig, j) == orig[j].len() by {
                    if j != i { assert(mid.pos(orig, j) == em[j] + 1 || mid.pos(orig, j) == orig[j].len()); assert(popped.pos(orig, j) == mid.pos(orig, j)); }
                }
                assert(self.inv(orig, em2));
                assert(old(self).readers@[i].blob_file_id == mid.readers@[i].blob_file_id);
                assert(handed(*old(self), *self, orig, em, i, (head.scan_entry, head.blob_file_id)));
                assert(handed_some(*old(self), *self, orig, em, (head.scan_entry, head.blob_file_id)));
            }/*-*/
            return Some(Ok((head.scan_entry, head.blob_file_id)));
        }
        /*+*/proof {
            assert forall|i: int| 0 <= i < orig.len() implies #[trigger] em[i] == orig[i].len() by {
                assert(self.pos(orig, i) == em[i] + 1 || self.pos(orig, i) == orig[i].len());
            }
        }/*-*/

        None
    }
//@ END
}
/// scanner i's next entry was handed out (with i's blob file id); it is <= every entry still pending anywhere; the bookkeeping advances by exactly this entry
spec fn handed(o: MergeScanner, f: MergeScanner, orig: Seq<Seq<Item>>, em: Seq<int>, i: int, x: (ScanEntry, BlobFileId)) -> bool {
    &&& 0 <= i < orig.len() && em[i] < orig[i].len() && orig[i][em[i]] == Ok::<ScanEntry, Error>(x.0) && x.1 == o.readers@[i].blob_file_id
    &&& f.inv(orig, em.update(i, em[i] + 1))
    &&& forall|j: int, k: int| 0 <= j < orig.len() && em.update(i, em[i] + 1)[j] <= k < orig[j].len() ==> le(x.0, (#[trigger] orig[j][k])->Ok_0)
}

spec fn handed_some(o: MergeScanner, f: MergeScanner, orig: Seq<Seq<Item>>, em: Seq<int>, x: (ScanEntry, BlobFileId)) -> bool { exists|i: int| #[trigger] handed(o, f, orig, em, i, x) }
/// taking the head out of the heap: its scanner now counts one more entry handed out, and has nothing in the heap
proof fn lemma_after_pop(mid: MergeScanner, post: MergeScanner, orig: Seq<Seq<Item>>, em: Seq<int>, k0: int)
    requires mid.inv_w(orig, em), 0 <= k0 < mid.heap.s.len(), post.readers == mid.readers, post.heap.s == mid.heap.s.remove(k0)
    ensures ({ let i = mid.heap.s[k0].index as int; post.inv_w(orig, em.update(i, em[i] + 1)) && post.pos(orig, i) == em[i] + 1 && em[i] < orig[i].len() })
{
    let head = mid.heap.s[k0]; let i = head.index as int; let em2 = em.update(i, em[i] + 1);
    assert forall|k: int| 0 <= k < post.heap.s.len() implies (#[trigger] post.heap.s[k]).index != head.index by {
        if k < k0 { assert(post.heap.s[k] == mid.heap.s[k]); } else { assert(post.heap.s[k] == mid.heap.s[k + 1]); }
    }
    assert forall|k: int| 0 <= k < post.heap.s.len() implies ({ let h = #[trigger] post.heap.s[k]; 0 <= h.index < orig.len() && post.pos(orig, h.index as int) == em2[h.index as int] + 1
        && orig[h.index as int][em2[h.index as int]] == Ok::<ScanEntry, Error>(h.scan_entry) && h.blob_file_id == post.readers@[h.index as int].blob_file_id }) by {
        if k < k0 { assert(post.heap.s[k] == mid.heap.s[k]); } else { assert(post.heap.s[k] == mid.heap.s[k + 1]); }
    }
    assert forall|k: int, l: int| 0 <= k < l < post.heap.s.len() implies (#[trigger] post.heap.s[k]).index != (#[trigger] post.heap.s[l]).index by {
        let k1 = if k < k0 { k } else { k + 1 }; let l1 = if l < k0 { l } else { l + 1 };
        assert(post.heap.s[k] == mid.heap.s[k1] && post.heap.s[l] == mid.heap.s[l1]);
    }
    assert forall|j: int| 0 <= j < orig.len() && post.pos(orig, j) == em2[j] + 1 implies exists|k: int| 0 <= k < post.heap.s.len() && (#[trigger] post.heap.s[k]).index == j by {
        assert(j != i);
        let k = choose|k: int| 0 <= k < mid.heap.s.len() && (#[trigger] mid.heap.s[k]).index == j;
        assert(k != k0);
        if k < k0 { assert(post.heap.s[k] == mid.heap.s[k]); } else { assert(post.heap.s[k - 1] == mid.heap.s[k]); }
    }
}
/// the head of the heap is <= everything still pending anywhere, once every scanner is settled
proof fn lemma_least(mid: MergeScanner, orig: Seq<Seq<Item>>, em: Seq<int>, k0: int)
    requires mid.inv_w(orig, em), mid.settled(orig, em), 0 <= k0 < mid.heap.s.len(),
        forall|j: int| 0 <= j < mid.heap.s.len() ==> le(mid.heap.s[k0].scan_entry, (#[trigger] mid.heap.s[j]).scan_entry),
    ensures ({ let i = mid.heap.s[k0].index as int; let em2 = em.update(i, em[i] + 1);
        forall|j: int, k: int| 0 <= j < orig.len() && em2[j] <= k < orig[j].len() ==> le(mid.heap.s[k0].scan_entry, (#[trigger] orig[j][k])->Ok_0) })
{
    let head = mid.heap.s[k0]; let i = head.index as int; let em2 = em.update(i, em[i] + 1);
    assert forall|j: int, k: int| 0 <= j < orig.len() && em2[j] <= k < orig[j].len() implies le(head.scan_entry, (#[trigger] orig[j][k])->Ok_0) by {
        assert(sorted_ok(orig[j]));
        if j == i { assert(le(orig[i][em[i]]->Ok_0, orig[i][k]->Ok_0)); }
        else {
            assert(mid.pos(orig, j) == em[j] + 1 || mid.pos(orig, j) == orig[j].len());
            let kk = choose|kk: int| 0 <= kk < mid.heap.s.len() && (#[trigger] mid.heap.s[kk]).index == j;
            assert(le(head.scan_entry, mid.heap.s[kk].scan_entry));
            if k > em[j] { assert(le(orig[j][em[j]]->Ok_0, orig[j][k]->Ok_0)); lemma_le_trans(head.scan_entry, orig[j][em[j]]->Ok_0, orig[j][k]->Ok_0); }
        }
    }
}
}
fn main() {}
