//@ UNIT blob_meta
// Blob file metadata (src/vlog/blob_file/meta.rs): `Metadata::from_slice` decodes every field from the property of the meta block that
// carries its name - id, item count, file_size (= total compressed bytes), uncompressed_size (= total uncompressed bytes: the number
// `is_dead` compares the garbage with, C09.3), creation time, key range, compression - after the magic was checked and the block was
// read with its checksum verified; `Metadata::encode_into` stores each of these properties under exactly that name with the writer's
// own value (lemma_meta_roundtrip: what is written is what a reopen reads).  Obligations C09.15, C04.15, C08.21
use vstd::prelude::*;

//@ FROM src/vlog/blob_file/meta.rs :: - :: macro_rules read_u64
//@ SUBST `. unwrap_or_else ( || panic ! ( "meta property {:?} should exist" , $ name ) )` ==> `.expect_rt()`
//@ SUBST `let mut bytes = & bytes . value [ .. ] ; bytes . read_u64 :: < LittleEndian > ( ) ?` ==> `read_u64_le_of(&bytes.value)?`
macro_rules! read_u64 {
    ($block:expr, $name:expr) => {{
        let bytes = $block
            .point_read($name, SeqNo::MAX)
            .expect_rt();

        read_u64_le_of(&bytes.value)?
    }};
}
//@ END
//@ FROM src/vlog/blob_file/meta.rs :: - :: macro_rules read_u128
//@ SUBST `. unwrap_or_else ( || panic ! ( "meta property {:?} should exist" , $ name ) )` ==> `.expect_rt()`
//@ SUBST `let mut bytes = & bytes . value [ .. ] ; bytes . read_u128 :: < LittleEndian > ( ) ?` ==> `read_u128_le_of(&bytes.value)?`
macro_rules! read_u128 {
    ($block:expr, $name:expr) => {{
        let bytes = $block
            .point_read($name, SeqNo::MAX)
            .expect_rt();

        read_u128_le_of(&bytes.value)?
    }};
}
//@ END

verus! {
global size_of usize == 8;
type SeqNo = u64; type BlobFileId = u64;

// ---------------- prelude (TRUSTED) ----------------
enum Error { Io, InvalidHeader(&'static str) }
#[verifier::external_body] pub struct Slice { p: u8 }
impl View for Slice { type V = Seq<u8>; uninterp spec fn view(&self) -> Seq<u8>; }
type UserKey = Slice;
pub uninterp spec fn un_le64(b: Seq<u8>) -> u64;
pub uninterp spec fn un_le128(b: Seq<u8>) -> u128;
/// `let mut bytes = &slice[..]; bytes.read_uN::<LittleEndian>()`: decodes the leading bytes (Err when too short)
#[verifier::external_body] fn read_u64_le_of(s: &Slice) -> (r: Result<u64, Error>) ensures r is Ok ==> s@.len() >= 8 && r->Ok_0 == un_le64(s@.subrange(0, 8)) { unimplemented!() }
#[verifier::external_body] fn read_u128_le_of(s: &Slice) -> (r: Result<u128, Error>) ensures r is Ok ==> s@.len() >= 16 && r->Ok_0 == un_le128(s@.subrange(0, 16)) { unimplemented!() }
/// `opt.expect(msg)` / `opt.unwrap_or_else(|| panic!(..))`: execution continues only with Some
trait ExpectRt<T> { fn expect_rt(self) -> T; }
impl<T> ExpectRt<T> for Option<T> { #[verifier::external_body] fn expect_rt(self) -> (r: T) ensures self == Some(r) { self.expect("") } }

/// the name of a meta property (a byte-string literal in the source; rule R12: each literal is one constant)
#[derive(Copy, Clone, PartialEq, Eq, Structural)] pub struct Name(pub u8);
pub const N_BLOB_FILE_VERSION: Name = Name(0);
pub const N_CHECKSUM_TYPE: Name = Name(1);
pub const N_COMPRESSION: Name = Name(2);
pub const N_CRATE_VERSION: Name = Name(3);
pub const N_CREATED_AT: Name = Name(4);
pub const N_FILE_SIZE: Name = Name(5);
pub const N_ID: Name = Name(6);
pub const N_ITEM_COUNT: Name = Name(7);
pub const N_KEY_MAX: Name = Name(8);
pub const N_KEY_MIN: Name = Name(9);
pub const N_UNCOMPRESSED_SIZE: Name = Name(10);

#[derive(Copy, Clone, PartialEq, Eq, Structural)] enum CompressionType { None }
impl CompressionType { fn exec_none() -> (r: Self) ensures r == CompressionType::None { CompressionType::None } }
/// what CompressionType::decode_from makes of a property value (src/compression.rs)
uninterp spec fn compression_of(b: Seq<u8>) -> CompressionType;
impl CompressionType {
    /// `let mut bytes = &bytes.value[..]; CompressionType::decode_from(&mut bytes)`
    #[verifier::external_body] fn decode_value(s: &Slice) -> (r: Result<CompressionType, Error>) ensures r is Ok ==> r->Ok_0 == compression_of(s@) { unimplemented!() }
}
#[derive(Copy, Clone, PartialEq, Eq, Structural)] enum ChecksumType { Xxh3 }
struct U8OfChecksumType {}
impl U8OfChecksumType { #[verifier::external_body] fn from(c: ChecksumType) -> (r: u8) ensures r == 0 { unimplemented!() } }
/// the meta block: a data block whose entries are (property name, value); props = what it stores
struct Block { ghost props: Map<u8, Seq<u8>> }
/// the block stored in these bytes
uninterp spec fn stored_block(bytes: Seq<u8>) -> Block;
/// `&mut &slice[..]` used as an io::Read source
struct SliceReader { ghost rest: Seq<u8> }
impl Slice { #[verifier::external_body] fn reader(&self) -> (r: SliceReader) ensures r.rest == self@ { unimplemented!() } }
impl SliceReader {
    /// `read_exact(&mut [0u8; 4])`: the next four bytes, or an error
    #[verifier::external_body]
    fn read_exact(&mut self, buf: &mut [u8; 4]) -> (r: Result<(), Error>)
        ensures r is Ok ==> old(self).rest.len() >= 4 && final(buf)@ == old(self).rest.subrange(0, 4) && final(self).rest == old(self).rest.skip(4)
    { unimplemented!() }
}
impl Block {
    /// Block::from_reader (unit block_io, C10.1 / C12.9): Ok only with the block stored in the bytes, checksums verified
    #[verifier::external_body]
    fn from_reader(reader: &mut SliceReader, compression: CompressionType) -> (r: Result<Block, Error>) ensures r is Ok ==> r->Ok_0 == stored_block(old(reader).rest) { unimplemented!() }
}
struct InternalKey { user_key: UserKey }
struct InternalValue { key: InternalKey, value: Slice }
struct DataBlock { inner: Block }
impl DataBlock {
    fn new(inner: Block) -> (r: Self) ensures r.inner == inner { DataBlock { inner } }
    /// DataBlock::point_read(name, SeqNo::MAX) (unit data_block_read, C12.15): the entry stored under that name, if any
    #[verifier::external_body]
    fn point_read(&self, name: Name, seqno: SeqNo) -> (r: Option<InternalValue>)
        ensures (r is Some) == self.inner.props.contains_key(name.0), r is Some ==> r->Some_0.value@ == self.inner.props[name.0]
    { unimplemented!() }
}
struct KeyRange(UserKey, UserKey);
impl KeyRange {
    fn new(range: (UserKey, UserKey)) -> (r: Self) ensures r.0@ == range.0@, r.1@ == range.1@ { KeyRange(range.0, range.1) }
    fn min(&self) -> (r: &UserKey) ensures r@ == self.0@ { &self.0 }
    fn max(&self) -> (r: &UserKey) ensures r@ == self.1@ { &self.1 }
}
/// METADATA_HEADER_MAGIC = b"META"
spec fn magic() -> Seq<u8> { seq![77u8, 69u8, 84u8, 65u8] }
#[verifier::external_body] fn magic_is(m: &[u8; 4]) -> (r: bool) ensures r == (m@ == magic()) { unimplemented!() }

//@ FROM src/vlog/blob_file/meta.rs :: - :: struct Metadata
struct Metadata {
    id: BlobFileId,

    created_at: u128,

    item_count: u64,

    total_compressed_bytes: u64,

    total_uncompressed_bytes: u64,

    key_range: KeyRange,

    compression: CompressionType,
}
//@ END
spec fn p64(b: Block, n: Name) -> u64 { un_le64(b.props[n.0].subrange(0, 8)) }

//@ SUBST `b"blob_file_version"` ==> `N_BLOB_FILE_VERSION`
//@ SUBST `b"checksum_type"` ==> `N_CHECKSUM_TYPE`
//@ SUBST `b"compression"` ==> `N_COMPRESSION`
//@ SUBST `b"crate_version"` ==> `N_CRATE_VERSION`
//@ SUBST `b"created_at"` ==> `N_CREATED_AT`
//@ SUBST `b"file_size"` ==> `N_FILE_SIZE`
//@ SUBST `b"id"` ==> `N_ID`
//@ SUBST `b"item_count"` ==> `N_ITEM_COUNT`
//@ SUBST `b"key#max"` ==> `N_KEY_MAX`
//@ SUBST `b"key#min"` ==> `N_KEY_MIN`
//@ SUBST `b"uncompressed_size"` ==> `N_UNCOMPRESSED_SIZE`
impl Metadata {
//@ FROM src/vlog/blob_file/meta.rs :: impl Metadata :: fn from_slice :: OBL C09.15, C04.15, C08.21
//@ SUBST `. expect ( $1 )` ==> `.expect_rt()`
//@ SUBST `crate :: Result < Self >` ==> `Result<Self, Error>`
//@ SUBST `crate :: Error ::` ==> `Error::`
//@ SUBST `let reader = & mut & slice [ .. ] ;` ==> `let mut reader = slice.reader();`
//@ SUBST `let mut magic = [ 0u8 ; METADATA_HEADER_MAGIC . len ( ) ] ;` ==> `let mut magic = [0u8; 4];`
//@ SUBST `magic != METADATA_HEADER_MAGIC` ==> `!magic_is(&magic)`
//@ SUBST `Block :: from_reader ( reader , CompressionType :: None )` ==> `Block::from_reader(&mut reader, CompressionType::exec_none())`
//@ SUBST `let mut bytes = & bytes . value [ .. ] ; CompressionType :: decode_from ( & mut bytes ) ?` ==> `CompressionType::decode_value(&bytes.value)?`
    fn from_slice(slice: &Slice) -> /*+*/(r:/*-*/ Result<Self, Error>/*+*/)
        ensures r is Ok ==> slice@.len() >= 4 && slice@.subrange(0, 4) == magic() && ({
            let b = stored_block(slice@.skip(4)); let m = r->Ok_0;
            // every field comes from the property that carries its name
            &&& m.id == p64(b, N_ID) && m.item_count == p64(b, N_ITEM_COUNT)
            &&& m.total_compressed_bytes == p64(b, N_FILE_SIZE) && m.total_uncompressed_bytes == p64(b, N_UNCOMPRESSED_SIZE)
            &&& m.created_at == un_le128(b.props[N_CREATED_AT.0].subrange(0, 16))
            &&& m.key_range.0@ == b.props[N_KEY_MIN.0] && m.key_range.1@ == b.props[N_KEY_MAX.0]
            &&& m.compression == compression_of(b.props[N_COMPRESSION.0])
        }),/*-*/
    {
        let mut reader = slice.reader();

        let mut magic = [0u8; 4];
        reader.read_exact(&mut magic)?;

        if !magic_is(&magic) {
            return Err(Error::InvalidHeader("BlobFileMeta"));
        }

        let block = Block::from_reader(&mut reader, CompressionType::exec_none())?;
        let block = DataBlock::new(block);

        let id = read_u64!(block, N_ID);
        let created_at = read_u128!(block, N_CREATED_AT);
        let item_count = read_u64!(block, N_ITEM_COUNT);
        let file_size = read_u64!(block, N_FILE_SIZE);
        let total_uncompressed_bytes = read_u64!(block, N_UNCOMPRESSED_SIZE);

        let compression = {
            let bytes = block
                .point_read(N_COMPRESSION, SeqNo::MAX)
                .expect_rt();

            CompressionType::decode_value(&bytes.value)?
        };

        let key_range = KeyRange::new((
            block
                .point_read(N_KEY_MIN, SeqNo::MAX)
                .expect_rt()
                .value,
            block
                .point_read(N_KEY_MAX, SeqNo::MAX)
                .expect_rt()
                .value,
        ));

        Ok(Self {
            id,
            created_at,
            compression,
            item_count,
            total_compressed_bytes: file_size,
            total_uncompressed_bytes,
            key_range,
        })
    }
//@ END
}

// ---------------- writer side: the properties Metadata::encode_into stores ----------------
pub uninterp spec fn le64(x: u64) -> Seq<u8>;
pub uninterp spec fn le128(x: u128) -> Seq<u8>;
/// fixed-width little-endian coding is invertible (to_le_bytes / byteorder)
#[verifier::external_body]
pub broadcast proof fn axiom_le()
    ensures forall|x: u64| #![trigger le64(x)] le64(x).len() == 8 && un_le64(le64(x)) == x,
        forall|x: u128| #![trigger le128(x)] le128(x).len() == 16 && un_le128(le128(x)) == x,
{}
/// `x.to_le_bytes()`
trait LeBytes { spec fn le_spec(&self) -> Seq<u8>; fn le_bytes(&self) -> (r: Vec<u8>) ensures r@ == self.le_spec(); }
impl LeBytes for u64 { spec fn le_spec(&self) -> Seq<u8> { le64(*self) } #[verifier::external_body] fn le_bytes(&self) -> (r: Vec<u8>) { unimplemented!() } }
impl LeBytes for u128 { spec fn le_spec(&self) -> Seq<u8> { le128(*self) } #[verifier::external_body] fn le_bytes(&self) -> (r: Vec<u8>) { unimplemented!() } }
/// what CompressionType::encode_into_vec writes; decode is its inverse (src/compression.rs)
uninterp spec fn compression_bytes(c: CompressionType) -> Seq<u8>;
#[verifier::external_body] proof fn axiom_compression(c: CompressionType) ensures compression_of(compression_bytes(c)) == c {}
impl CompressionType { #[verifier::external_body] fn encode_into_vec(&self) -> (r: Vec<u8>) ensures r@ == compression_bytes(*self) { unimplemented!() } }
/// `env!("CARGO_PKG_VERSION").as_bytes()`
#[verifier::external_body] fn crate_version_bytes() -> (r: &'static [u8]) { unimplemented!() }
impl Slice { #[verifier::external_body] fn as_bytes(&self) -> (r: &[u8]) ensures r@ == self@ { unimplemented!() } }
/// a meta entry as the writer builds it
struct MetaItem { ghost name: Name, ghost value: Seq<u8> }
/// the nested helper `fn meta(key: &str, value: &[u8]) -> InternalValue` of encode_into (InternalValue::from_components(key, value, 0, Value))
#[verifier::external_body] fn meta(key: Name, value: &[u8]) -> (r: MetaItem) ensures r.name == key, r.value == value@ { unimplemented!() }
spec fn has(items: Seq<MetaItem>, name: Name, value: Seq<u8>) -> bool { exists|i: int| 0 <= i < items.len() && (#[trigger] items[i]).name == name && items[i].value == value }
/// every name occurs once
spec fn unique_names(items: Seq<MetaItem>) -> bool { forall|i: int, j: int| 0 <= i < j < items.len() ==> (#[trigger] items[i]).name != (#[trigger] items[j]).name }

//@ WRAPPER_BEGIN
impl Metadata {
    /// wrapper (generated) around the statement of Metadata::encode_into that builds the meta entries
    fn meta_items(&self) -> (meta_items: [MetaItem; 11])
        ensures
            // the properties the reader decodes carry exactly the writer's numbers, keys and codec under the names the reader asks for
            has(meta_items@, N_ID, le64(self.id)), has(meta_items@, N_ITEM_COUNT, le64(self.item_count)),
            has(meta_items@, N_FILE_SIZE, le64(self.total_compressed_bytes)), has(meta_items@, N_UNCOMPRESSED_SIZE, le64(self.total_uncompressed_bytes)),
            has(meta_items@, N_CREATED_AT, le128(self.created_at)),
            has(meta_items@, N_KEY_MIN, self.key_range.0@), has(meta_items@, N_KEY_MAX, self.key_range.1@),
            has(meta_items@, N_COMPRESSION, compression_bytes(self.compression)),
            unique_names(meta_items@),
    {
//@ FROM src/vlog/blob_file/meta.rs :: impl Metadata :: fn encode_into :: STMTS `let meta_items =` .. `let meta_items =` :: OBL C09.15, C04.15, C08.21
//@ SUBST `"blob_file_version"` ==> `N_BLOB_FILE_VERSION`
//@ SUBST `"checksum_type"` ==> `N_CHECKSUM_TYPE`
//@ SUBST `"compression"` ==> `N_COMPRESSION`
//@ SUBST `"crate_version"` ==> `N_CRATE_VERSION`
//@ SUBST `"created_at"` ==> `N_CREATED_AT`
//@ SUBST `"file_size"` ==> `N_FILE_SIZE`
//@ SUBST `"id"` ==> `N_ID`
//@ SUBST `"item_count"` ==> `N_ITEM_COUNT`
//@ SUBST `"key#max"` ==> `N_KEY_MAX`
//@ SUBST `"key#min"` ==> `N_KEY_MIN`
//@ SUBST `"uncompressed_size"` ==> `N_UNCOMPRESSED_SIZE`
//@ SUBST `. to_le_bytes ( )` ==> `.le_bytes()`
//@ SUBST `u8 :: from ( ChecksumType :: Xxh3 )` ==> `U8OfChecksumType::from(ChecksumType::Xxh3)`
//@ SUBST `env ! ( "CARGO_PKG_VERSION" ) . as_bytes ( )` ==> `crate_version_bytes()`
//@ SUBST `self . key_range . max ( )` ==> `self.key_range.max().as_bytes()`
//@ SUBST `self . key_range . min ( )` ==> `self.key_range.min().as_bytes()`
        let meta_items = [
            meta(N_BLOB_FILE_VERSION, &[0x3]),
            meta(N_CHECKSUM_TYPE, &[U8OfChecksumType::from(ChecksumType::Xxh3)]),
            meta(N_COMPRESSION, &self.compression.encode_into_vec()),
            meta(N_CRATE_VERSION, crate_version_bytes()),
            meta(N_CREATED_AT, &self.created_at.le_bytes()),
            meta(N_FILE_SIZE, &self.total_compressed_bytes.le_bytes()),
            meta(N_ID, &self.id.le_bytes()),
            meta(N_ITEM_COUNT, &self.item_count.le_bytes()),
            meta(N_KEY_MAX, self.key_range.max().as_bytes()),
            meta(N_KEY_MIN, self.key_range.min().as_bytes()),
            meta(N_UNCOMPRESSED_SIZE, &self.total_uncompressed_bytes.le_bytes()),
        ];
//@ END
        meta_items
    }
}
//@ WRAPPER_END

/// round trip: if the stored meta block holds what the writer built (each name once), the reader's numbers are the writer's
proof fn lemma_meta_roundtrip(items: Seq<MetaItem>, b: Block, name: Name, x: u64)
    requires unique_names(items), forall|i: int| 0 <= i < items.len() ==> b.props.contains_key((#[trigger] items[i]).name.0) && b.props[items[i].name.0] == items[i].value,
        has(items, name, le64(x))
    ensures p64(b, name) == x
{
    broadcast use axiom_le;
    let i = choose|i: int| 0 <= i < items.len() && (#[trigger] items[i]).name == name && items[i].value == le64(x);
    assert(b.props[name.0] == le64(x));
    assert(le64(x).subrange(0, 8) =~= le64(x));
}
}
fn main() {}
