//@ UNIT blob_multi_writer
// Blob multi-writer (src/vlog/blob_file/multi_writer.rs): the value handle `write` / `write_raw` return names exactly the blob file
// that received the value and the offset at which its frame starts - also when the write fills the file and the writer rotates to a
// fresh file afterwards; a rotated / finished writer that wrote something becomes a blob file of the result list (with the id it
// wrote under), an empty one does not; every new file gets a fresh id from the generator.  Obligations C08.16, C05.9
use vstd::prelude::*;
verus! {
global size_of usize == 8;
type SeqNo = u64; type BlobFileId = u64; type TreeId = u64;

// ---------------- prelude (TRUSTED) ----------------
#[verifier::external_body] struct Error { p: u8 }
#[verifier::external_body] struct PathBuf { p: u8 }
/// `folder.join(id.to_string())` (R12): the path of blob file `id`
struct Path { ghost id: BlobFileId }
impl PathBuf { #[verifier::external_body] fn join_id(&self, id: BlobFileId) -> (r: Path) ensures r.id == id { unimplemented!() } }
#[derive(Copy, Clone)] struct BlobCompression { p: u8 }
struct OptDt { p: u8 }
impl OptDt { #[verifier::external_body] fn clone(&self) -> (r: Self) { unimplemented!() } }
/// id generator (SequenceNumberCounter): `drawn(g, id)` - id was drawn from generator g by this very step
#[verifier::external_body] struct SequenceNumberCounter { p: u8 }
uninterp spec fn drawn(g: int, id: u64) -> bool;
impl SequenceNumberCounter {
    uninterp spec fn gid(&self) -> int;
    #[verifier::external_body] fn next(&self) -> (r: u64) ensures drawn(self.gid(), r) { unimplemented!() }
}
/// one record of a blob file: where its frame starts, and what it holds
pub ghost struct Rec { pub offset: u64, pub key: Seq<u8>, pub seqno: SeqNo, pub value: Seq<u8>, pub ulen: u32 }
/// blob_file::Writer: a single blob file being written (frames: unit block_io, C12.12)
struct Writer { blob_file_id: BlobFileId, ghost off: u64, ghost recs: Seq<Rec>, blob_compression: BlobCompression, tree_id: TreeId }
impl Writer {
    #[verifier::external_body]
    fn new(path: Path, blob_file_id: BlobFileId, tree_id: TreeId) -> (r: Result<Self, Error>)
        ensures r is Ok ==> r->Ok_0.blob_file_id == blob_file_id && r->Ok_0.recs.len() == 0 && r->Ok_0.tree_id == tree_id
    { unimplemented!() }
    #[verifier::external_body]
    fn use_compression(self, c: BlobCompression) -> (r: Self) ensures r.blob_file_id == self.blob_file_id, r.recs == self.recs, r.off == self.off, r.tree_id == self.tree_id { unimplemented!() }
    #[verifier::external_body] fn offset(&self) -> (r: u64) ensures r == self.off { unimplemented!() }
    #[verifier::external_body] fn blob_file_id(&self) -> (r: BlobFileId) ensures r == self.blob_file_id { unimplemented!() }
    #[verifier::external_body]
    fn write(&mut self, key: &[u8], seqno: SeqNo, value: &[u8]) -> (r: Result<u32, Error>)
        ensures final(self).blob_file_id == old(self).blob_file_id, final(self).tree_id == old(self).tree_id,
            r is Ok ==> final(self).recs == old(self).recs.push(Rec { offset: old(self).off, key: key@, seqno, value: value@, ulen: value@.len() as u32 }) && final(self).off > old(self).off,
            r is Err ==> final(self).recs == old(self).recs
    { unimplemented!() }
    #[verifier::external_body]
    fn write_raw(&mut self, key: &[u8], seqno: SeqNo, value: &[u8], uncompressed_len: u32) -> (r: Result<u32, Error>)
        ensures final(self).blob_file_id == old(self).blob_file_id, final(self).tree_id == old(self).tree_id,
            r is Ok ==> final(self).recs == old(self).recs.push(Rec { offset: old(self).off, key: key@, seqno, value: value@, ulen: uncompressed_len }) && final(self).off > old(self).off,
            r is Err ==> final(self).recs == old(self).recs
    { unimplemented!() }
}
/// a finished blob file: its id and records
struct BlobFile { ghost id: BlobFileId, ghost recs: Seq<Rec> }
/// `results.extend(option)`
#[verifier::external_body]
fn extend_opt(v: &mut Vec<BlobFile>, o: Option<BlobFile>) ensures final(v)@ == (if o is Some { old(v)@.push(o->Some_0) } else { old(v)@ }) { unimplemented!() }

//@ FROM src/vlog/blob_file/multi_writer.rs :: - :: struct MultiWriter
//@ SUBST `Option < Arc < DescriptorTable > >` ==> `OptDt`
struct MultiWriter {
    folder: PathBuf,
    target_size: u64,

    active_writer: Writer,

    results: Vec<BlobFile>,

    id_generator: SequenceNumberCounter,

    blob_compression: BlobCompression,

    tree_id: TreeId,
    descriptor_table: OptDt,
}
//@ END
//@ SUBST `crate :: Result < $1 >` ==> `Result<$1, Error>`
//@ SUBST `. join ( new_blob_file_id . to_string ( ) )` ==> `.join_id(new_blob_file_id)`
//@ SUBST `self . results . extend ( blob_file ) ;` ==> `extend_opt(&mut self.results, blob_file);`
//@ SUBST `std :: mem :: replace` ==> `core::mem::replace`
pub assume_specification<T> [core::mem::replace] (dest: &mut T, src: T) -> (r: T)
    ensures r == *old(dest), *final(dest) == src;
impl MultiWriter {
    /// consume_writer: finishes the file; it becomes a blob file iff it holds at least one record (an empty file is deleted)
    #[verifier::external_body]
    fn consume_writer(writer: Writer, descriptor_table: OptDt) -> (r: Result<Option<BlobFile>, Error>)
        ensures r is Ok ==> (writer.recs.len() > 0) == (r->Ok_0 is Some), r is Ok && r->Ok_0 is Some ==> r->Ok_0->Some_0.id == writer.blob_file_id && r->Ok_0->Some_0.recs == writer.recs
    { unimplemented!() }

//@ FROM src/vlog/blob_file/multi_writer.rs :: impl MultiWriter :: fn rotate :: OBL C08.16, C05.9
    fn rotate(&mut self) -> /*+*/(r:/*-*/ Result<(), Error>/*+*/)
        ensures final(self).id_generator == old(self).id_generator, final(self).target_size == old(self).target_size,
            r is Ok ==> ({
                // the file written so far joins the results (if it holds anything) under its own id; writing continues in a fresh, empty file
                &&& final(self).results@ == (if old(self).active_writer.recs.len() > 0 { old(self).results@.push(BlobFile { id: old(self).active_writer.blob_file_id, recs: old(self).active_writer.recs }) } else { old(self).results@ })
                &&& final(self).active_writer.recs.len() == 0 && drawn(old(self).id_generator.gid(), final(self).active_writer.blob_file_id)
            }),/*-*/
    {

        let new_blob_file_id = self.id_generator.next();
        let blob_file_path = self.folder.join_id(new_blob_file_id);

        let new_writer = Writer::new(blob_file_path, new_blob_file_id, self.tree_id)?
            .use_compression(self.blob_compression);

        let old_writer = core::mem::replace(&mut self.active_writer, new_writer);
        let blob_file = Self::consume_writer(old_writer, self.descriptor_table.clone())?;
        extend_opt(&mut self.results, blob_file);

        Ok(())
    }
//@ END

//@ FROM src/vlog/blob_file/multi_writer.rs :: impl MultiWriter :: fn write :: OBL C08.16
    fn write(&mut self, key: &[u8], seqno: SeqNo, value: &[u8]) -> /*+*/(r:/*-*/ Result<ValueHandle, Error>/*+*/)
        ensures r is Ok ==> ({
            let h = r->Ok_0; let w = old(self).active_writer;
            let rec = Rec { offset: w.off, key: key@, seqno, value: value@, ulen: value@.len() as u32 };
            // the handle names the file that received the value and the offset where its frame starts
            &&& h.blob_file_id == w.blob_file_id && h.offset == w.off
            // and that file, with the record appended, is still being written or has joined the results
            &&& (final(self).active_writer.blob_file_id == w.blob_file_id && final(self).active_writer.recs == w.recs.push(rec) && final(self).results@ == old(self).results@)
                || (final(self).results@ == old(self).results@.push(BlobFile { id: w.blob_file_id, recs: w.recs.push(rec) }) && final(self).active_writer.recs.len() == 0)
        }),/*-*/
    {
        let target_size = self.target_size;

        let writer = &mut self.active_writer;

        let offset = writer.offset();
        let on_disk_value_len = writer.write(key, seqno, value)?;

        let handle = ValueHandle {
            blob_file_id: writer.blob_file_id(),
            offset,
            on_disk_size: on_disk_value_len,
        };

        if writer.offset() >= target_size {
            self.rotate()?;
        }

        Ok(handle)
    }
//@ END

//@ FROM src/vlog/blob_file/multi_writer.rs :: impl MultiWriter :: fn write_raw :: OBL C08.16
    fn write_raw(
        &mut self,
        key: &[u8],
        seqno: SeqNo,
        value: &[u8],
        uncompressed_len: u32,
    ) -> /*+*/(r:/*-*/ Result<ValueHandle, Error>/*+*/)
        ensures r is Ok ==> ({
            let h = r->Ok_0; let w = old(self).active_writer;
            let rec = Rec { offset: w.off, key: key@, seqno, value: value@, ulen: uncompressed_len };
            &&& h.blob_file_id == w.blob_file_id && h.offset == w.off
            &&& (final(self).active_writer.blob_file_id == w.blob_file_id && final(self).active_writer.recs == w.recs.push(rec) && final(self).results@ == old(self).results@)
                || (final(self).results@ == old(self).results@.push(BlobFile { id: w.blob_file_id, recs: w.recs.push(rec) }) && final(self).active_writer.recs.len() == 0)
        }),/*-*/
    {
        let target_size = self.target_size;

        let writer = &mut self.active_writer;

        let offset = writer.offset();
        let on_disk_value_len = writer.write_raw(key, seqno, value, uncompressed_len)?;

        let handle = ValueHandle {
            blob_file_id: writer.blob_file_id(),
            offset,
            on_disk_size: on_disk_value_len,
        };

        if writer.offset() >= target_size {
            self.rotate()?;
        }

        Ok(handle)
    }
//@ END

//@ FROM src/vlog/blob_file/multi_writer.rs :: impl MultiWriter :: fn finish :: OBL C08.16, C05.9
//@ SUBST `( mut self )` ==> `(self)`
//@ SUBST `extend_opt ( & mut self . results , blob_file ) ;` ==> `extend_opt(&mut results__, blob_file);`
//@ SUBST `Ok ( self . results )` ==> `Ok(results__)`
    fn finish(self) -> /*+*/(r:/*-*/ Result<Vec<BlobFile/*+*/>/*-*/, Error>/*+*/)
        ensures r is Ok ==> r->Ok_0@ == (if self.active_writer.recs.len()/*-*/ > /*+*/0 { self.results@.push(BlobFile { id: self.active_writer.blob_file_id, recs: self.active_writer.recs }) } else { self.results@ }),/*-*/
    {
        /*+*/let mut results__ = self.results;/*-*/
        let blob_file = Self::consume_writer(self.active_writer, self.descriptor_table.clone())?;
        extend_opt(&mut results__, blob_file);
        Ok(results__)
    }
//@ END
}
//@ FROM src/vlog/handle.rs :: - :: struct ValueHandle
struct ValueHandle {
    blob_file_id: BlobFileId,

    offset: u64,

    on_disk_size: u32,
}
//@ END
}
fn main() {}
