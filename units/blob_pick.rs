//@ UNIT blob_pick
// compaction::worker::pick_blob_files_to_rewrite, final loop (statement-level extraction): a blob file that any table
// outside the compaction still points into is never chosen for rewriting (its blobs would be moved away under that table).
// Obligation C08.2
use vstd::prelude::*;
use vstd::std_specs::iter::*;
verus! {

pub type TableId = u64;
pub type BlobFileId = u64;
#[verifier::external_body] pub struct Error { p: u8 }
//@ INCLUDE prelude/seqiter.rs

#[derive(Clone, Copy)]
pub struct LinkedFile { pub blob_file_id: BlobFileId }
pub struct BlobFile { pub id: u64 }
impl BlobFile { pub fn id(&self) -> (r: u64) ensures r == self.id { self.id } }
pub struct Table { pub id: u64, pub links: Option<Vec<LinkedFile>> }
impl Table {
    pub fn id(&self) -> (r: u64) ensures r == self.id { self.id }
    #[verifier::external_body]
    pub fn list_blob_file_references(&self) -> (r: Result<Option<Vec<LinkedFile>>, Error>) ensures r is Ok ==> r->Ok_0 == self.links { unimplemented!() }
    pub open spec fn refs(&self) -> Seq<LinkedFile> { match self.links { Some(v) => v@, None => Seq::empty() } }
}
pub struct Version { pub tables: Vec<Table> }
impl Version {
    #[verifier::external_body]
    pub fn iter_tables(&self) -> (r: SeqIter<&Table>) ensures r.rest().len() == self.tables@.len(), forall|i: int| 0 <= i < self.tables@.len() ==> *(#[trigger] r.rest()[i]) == self.tables@[i] { unimplemented!() }
}
#[verifier::external_body] pub struct IdSet { p: u8 }
impl IdSet {
    pub uninterp spec fn view(&self) -> Set<u64>;
    #[verifier::external_body] pub fn contains(&self, k: &u64) -> (r: bool) ensures r == self.view().contains(*k) { unimplemented!() }
}
pub open spec fn in_cands(v: Seq<&BlobFile>, x: &BlobFile) -> bool { exists|i: int| 0 <= i < v.len() && #[trigger] v[i] == x }
pub open spec fn subseq_of(a: Seq<&BlobFile>, b: Seq<&BlobFile>) -> bool { forall|k: int| 0 <= k < a.len() ==> in_cands(b, #[trigger] a[k]) }
pub open spec fn in_refs(v: Seq<LinkedFile>, x: LinkedFile) -> bool { exists|i: int| 0 <= i < v.len() && #[trigger] v[i] == x }
pub open spec fn has_id(v: Seq<&BlobFile>, id: u64) -> bool { exists|i: int| 0 <= i < v.len() && (#[trigger] v[i]).id == id }
/// stands for `v.iter().any(pred)` on the candidate list
#[verifier::external_body]
pub fn any_candidate<P: FnMut(&&BlobFile) -> bool>(v: &Vec<&BlobFile>, pred: P) -> (r: bool)
    requires forall|i: int| 0 <= i < v@.len() ==> call_requires(pred, (&#[trigger] v@[i],)),
    ensures r ==> exists|i: int| 0 <= i < v@.len() && call_ensures(pred, (&#[trigger] v@[i],), true),
        !r ==> forall|i: int| 0 <= i < v@.len() ==> call_ensures(pred, (&#[trigger] v@[i],), false),
{ unimplemented!() }
/// stands for `refs.into_iter().filter(pred).collect::<Vec<_>>()`
#[verifier::external_body]
pub fn filter_refs<P: FnMut(&LinkedFile) -> bool>(refs: Vec<LinkedFile>, pred: P) -> (r: Vec<LinkedFile>)
    requires forall|i: int| 0 <= i < refs@.len() ==> call_requires(pred, (&#[trigger] refs@[i],)),
    ensures forall|i: int| 0 <= i < refs@.len() ==> in_refs(r@, #[trigger] refs@[i]) || call_ensures(pred, (&refs@[i],), false),
        forall|k: int| 0 <= k < r@.len() ==> in_refs(refs@, #[trigger] r@[k]),
{ unimplemented!() }
/// stands for `refs.into_iter().find(pred)`
#[verifier::external_body]
pub fn find_ref<P: FnMut(&LinkedFile) -> bool>(refs: Vec<LinkedFile>, pred: P) -> (r: Option<LinkedFile>)
    requires forall|i: int| 0 <= i < refs@.len() ==> call_requires(pred, (&#[trigger] refs@[i],)),
    ensures r is Some ==> exists|i: int| 0 <= i < refs@.len() && refs@[i] == r->0 && call_ensures(pred, (&#[trigger] refs@[i],), true),
        r is None ==> forall|i: int| 0 <= i < refs@.len() ==> call_ensures(pred, (&#[trigger] refs@[i],), false),
{ unimplemented!() }
/// stands for Vec::retain on the candidate list
#[verifier::external_body]
pub fn retain_candidates<'a, P: FnMut(&&'a BlobFile) -> bool>(v: &mut Vec<&'a BlobFile>, pred: P)
    requires forall|i: int| 0 <= i < old(v)@.len() ==> call_requires(pred, (&#[trigger] old(v)@[i],)),
    ensures subseq_of(final(v)@, old(v)@), forall|k: int| 0 <= k < final(v)@.len() ==> call_ensures(pred, (&#[trigger] final(v)@[k],), true),
{ unimplemented!() }

/// candidate `c` is referenced by a table that is not part of the compaction
pub open spec fn referenced_outside(tables: Seq<Table>, picked: Set<u64>, id: u64) -> bool {
    exists|t: int, j: int| 0 <= t < tables.len() && !picked.contains(tables[t].id) && 0 <= j < tables[t].refs().len() && (#[trigger] tables[t].refs()[j]).blob_file_id == id
}

//@ WRAPPER_BEGIN
/// wrapper (generated) around the final `for table in current_version.iter_tables() { .. }` loop of pick_blob_files_to_rewrite
fn drop_candidates_referenced_elsewhere<'a>(picked_tables: &IdSet, current_version: &Version, linked_blob_files: &mut Vec<&'a BlobFile>) -> (r: Result<(), Error>)
    ensures
        // C08.2: on success no remaining candidate is pointed into by a table outside the compaction
        r is Ok ==> forall|k: int| 0 <= k < final(linked_blob_files)@.len() ==> !referenced_outside(current_version.tables@, picked_tables.view(), (#[trigger] final(linked_blob_files)@[k]).id),
{
//@ FROM src/compaction/worker.rs :: - :: fn pick_blob_files_to_rewrite :: STMTS `for table in current_version . iter_tables ( )` .. `for table in current_version . iter_tables ( )` :: OBL C08.2, C09.16
//@ SUBST `for table in $1 {` ==> `let mut iter__ = $1; loop { let Some(table) = iter__.next() else { break; };`
//@ SUBST `. unwrap_or_default ( ) . into_iter ( ) . filter ( $1 ) . collect :: < Vec < _ > > ( )` ==> `.unwrap_or_default(); let other_refs = filter_refs(other_refs, $1)`
//@ SUBST `. unwrap_or_default ( ) . into_iter ( ) . find ( $1 )` ==> `.unwrap_or_default(); let other_ref = find_ref(other_ref, $1)`
//@ SUBST `linked_blob_files . iter ( ) . any ( $1 )` ==> `any_candidate(linked_blob_files, $1)`
//@ SUBST `linked_blob_files . retain ( $1 )` ==> `retain_candidates(linked_blob_files, $1)`
    /*+*/let ghost ts = current_version.tables@;
    let ghost picked = picked_tables.view();
    let ghost mut c: int = 0;
    proof { assert(ts.skip(0) =~= ts); }/*-*/
    let mut iter__ = current_version.iter_tables(); loop
        /*+*/invariant
            ts == current_version.tables@, picked == picked_tables.view(), 0 <= c <= ts.len(),
            iter__.rest().len() == ts.len() - c, forall|i: int| 0 <= i < ts.len() - c ==> *(#[trigger] iter__.rest()[i]) == ts[c + i],
            // candidates are never added, and none of them is referenced by a non-picked table among the first c tables
            forall|k: int| 0 <= k < linked_blob_files@.len() ==> forall|t: int, j: int| 0 <= t < c && !picked.contains(ts[t].id) && 0 <= j < ts[t].refs().len() ==> (#[trigger] ts[t].refs()[j]).blob_file_id != (#[trigger] linked_blob_files@[k]).id,
        ensures c == ts.len(),
        decreases iter__.rest().len(),/*-*/
    { let Some(table) = iter__.next() else { break; };
        /*+*/proof { assert(*table == ts[c]); }/*-*/
        if picked_tables.contains(&table.id()) {
            /*+*/proof { c = c + 1; }/*-*/
            continue;
        }

        /*+*/let ghost refs = ts[c].refs();/*-*/
        let other_refs = table
            .list_blob_file_references()?
            .unwrap_or_default(); /*+*/let ghost raw = other_refs@; proof { assert(raw =~= refs); }/*-*/ let other_refs = filter_refs(other_refs, |x/*+*/: &LinkedFile/*-*/| /*+*/-> (b: bool) ensures b == has_id(linked_blob_files@, x.blob_file_id) {/*-*/ any_candidate(linked_blob_files, |bf/*+*/: &&BlobFile/*-*/| /*+*/-> (d: bool) ensures d == (bf.id == x.blob_file_id) {/*-*/ bf.id() == x.blob_file_id /*+*/}/*-*/) /*+*/}/*-*/);

        /*+*/let ghost before = linked_blob_files@;/*-*/
        for additional_ref in /*+*/it2: /*-*/other_refs
            /*+*/invariant
                it2.seq() == other_refs@,
                subseq_of(linked_blob_files@, before),
                forall|k: int, q: int| 0 <= k < linked_blob_files@.len() && 0 <= q < it2.index@ ==> (#[trigger] other_refs@[q]).blob_file_id != (#[trigger] linked_blob_files@[k]).id,/*-*/
        {
            /*+*/let ghost mid = linked_blob_files@;/*-*/
            retain_candidates(linked_blob_files, |x/*+*/: &&BlobFile/*-*/| /*+*/-> (b: bool) ensures b == (x.id != additional_ref.blob_file_id) {/*-*/ x.id() != additional_ref.blob_file_id /*+*/}/*-*/);
            /*+*/proof {
                assert forall|k: int| 0 <= k < linked_blob_files@.len() implies in_cands(before, #[trigger] linked_blob_files@[k]) by {
                    assert(in_cands(mid, linked_blob_files@[k]));
                    let m = choose|m: int| 0 <= m < mid.len() && #[trigger] mid[m] == linked_blob_files@[k];
                    assert(in_cands(before, mid[m]));
                }
                assert forall|k: int, q: int| 0 <= k < linked_blob_files@.len() && 0 <= q < it2.index@ + 1 implies (#[trigger] other_refs@[q]).blob_file_id != (#[trigger] linked_blob_files@[k]).id by {
                    let m = choose|m: int| 0 <= m < mid.len() && #[trigger] mid[m] == linked_blob_files@[k];
                    if q < it2.index@ { assert(other_refs@[q].blob_file_id != mid[m].id); }
                }
            }/*-*/
        }
        /*+*/proof {
            // every reference of this table that hit a candidate was in other_refs, so that candidate is gone now
            assert forall|k: int, j: int| 0 <= k < linked_blob_files@.len() && 0 <= j < refs.len() implies (#[trigger] refs[j]).blob_file_id != (#[trigger] linked_blob_files@[k]).id by {
                if refs[j].blob_file_id == linked_blob_files@[k].id {
                    assert(in_cands(before, linked_blob_files@[k]));
                    let i0 = choose|i: int| 0 <= i < before.len() && #[trigger] before[i] == linked_blob_files@[k];
                    assert(before[i0].id == refs[j].blob_file_id);
                    assert(has_id(before, refs[j].blob_file_id));
                    assert(raw[j] == refs[j]);
                    assert(in_refs(other_refs@, raw[j]));
                    let q = choose|q: int| 0 <= q < other_refs@.len() && #[trigger] other_refs@[q] == refs[j];
                    assert(other_refs@[q].blob_file_id != linked_blob_files@[k].id);
                }
            }
            c = c + 1;
        }/*-*/
    }
//@ END
    /*+*/proof {
        assert forall|k: int| 0 <= k < linked_blob_files@.len() implies !referenced_outside(ts, picked, (#[trigger] linked_blob_files@[k]).id) by { }
    }/*-*/
    Ok(())
}
//@ WRAPPER_END

} // verus!
fn main() {}
