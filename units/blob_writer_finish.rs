//@ UNIT blob_writer_finish
// vlog::blob_file::Writer::finish, tail (src/vlog/blob_file/writer.rs): a blob file is reported as written (its metadata and checksum
// handed back, to be registered in a version) only after the archive was finalised and flushed, the file fsynced, and the folder that
// holds its directory entry fsynced - in this order (the same discipline as table::Writer::finish, C05.8: without the folder sync a
// crash after the version is published can lose the blob file's directory entry, and the tree no longer opens - finding F8); the
// checksum handed back is the one of the bytes written.  Obligations C05.10, C08.20
use vstd::prelude::*;
verus! {

global size_of usize == 8;
#[verifier::external_body] struct Error { p: u8 }
#[derive(Copy, Clone, PartialEq, Eq, Structural)] struct Checksum(u128);
#[derive(Copy, Clone, PartialEq, Eq, Structural)] enum Ev { Finalised, FileSynced, FolderSynced }
/// effect token (R15): durability steps performed on the table file so far
struct Fx { ghost log: Seq<Ev> }
/// std::fs::File inside BufWriter inside ChecksummedWriter inside sfa::Writer
struct File { p: u8 }
impl File { #[verifier::external_body] fn sync_all(&self, Tracked(fx): Tracked<&mut Fx>) -> (r: Result<(), Error>) ensures r is Ok ==> final(fx).log == old(fx).log.push(Ev::FileSynced), r is Err ==> final(fx).log == old(fx).log { unimplemented!() } }
struct BufWriter { f: File }
impl BufWriter { fn get_mut(&mut self) -> (r: &mut File) ensures *r == old(self).f, *final(r) == final(self).f { &mut self.f } }
/// checksum::ChecksummedWriter (unit block_io, C12.9): checksum() is the hash of the bytes written through it
struct ChecksummedWriter { inner: BufWriter, ghost sum: u128 }
impl ChecksummedWriter {
    fn inner_mut(&mut self) -> (r: &mut BufWriter) ensures *r == old(self).inner, *final(r) == final(self).inner, final(self).sum == old(self).sum { &mut self.inner }
    #[verifier::external_body] fn checksum(&self) -> (r: Checksum) ensures r.0 == self.sum { unimplemented!() }
}
/// sfa::Writer: into_inner appends ToC and trailer, flushes, and returns the inner writer (sfa 1.0.0 src/writer.rs)
struct SfaWriter { ghost sum_after_finish: u128 }
impl SfaWriter {
    #[verifier::external_body]
    fn into_inner(self, Tracked(fx): Tracked<&mut Fx>) -> (r: Result<ChecksummedWriter, Error>)
        ensures r is Ok ==> final(fx).log == old(fx).log.push(Ev::Finalised) && r->Ok_0.sum == self.sum_after_finish, r is Err ==> final(fx).log == old(fx).log
    { unimplemented!() }
}
#[verifier::external_body] struct Path { p: u8 }
#[verifier::external_body] struct PathBuf { p: u8 }
impl PathBuf { #[verifier::external_body] fn parent(&self) -> (r: Option<&Path>) ensures self.parent_exists() ==> r is Some { unimplemented!() } }
/// file::fsync_directory (unit durability, C05.2)
#[verifier::external_body] fn fsync_directory(p: &Path, Tracked(fx): Tracked<&mut Fx>) -> (r: Result<(), Error>)
    ensures r is Ok ==> final(fx).log == old(fx).log.push(Ev::FolderSynced), r is Err ==> final(fx).log == old(fx).log { unimplemented!() }
/// Metadata of the blob file (written into the section "meta" just before)
#[derive(Copy, Clone, PartialEq, Eq, Structural)] struct Metadata { p: u64 }
struct Writer { writer: SfaWriter, path: PathBuf }

//@ WRAPPER_BEGIN
impl Writer {
    /// wrapper (generated) around the last statements of blob_file::Writer::finish (after the metadata section has been written)
    fn finish_tail(self, metadata: Metadata, Tracked(fx): Tracked<&mut Fx>) -> (r: Result<(Metadata, Checksum), Error>)
        requires old(fx).log.len() == 0, self.path.parent_exists()
        ensures r is Ok ==> final(fx).log == seq![Ev::Finalised, Ev::FileSynced, Ev::FolderSynced]
            && r->Ok_0 == (metadata, Checksum(self.writer.sum_after_finish)),
    {
//@ FROM src/vlog/blob_file/writer.rs :: impl Writer :: fn finish :: STMTS `let mut checksum = self . writer . into_inner ( ) ? ;` .. `Ok ( ( metadata , checksum ) )` :: OBL C05.10, C08.20
//@ SUBST `. into_inner ( )` ==> `.into_inner(Tracked(fx))`
//@ SUBST `. sync_all ( )` ==> `.sync_all(Tracked(fx))`
//@ SUBST `fsync_directory ( $1 )` ==> `fsync_directory($1, Tracked(fx))`
        let mut checksum = self.writer.into_inner(Tracked(fx))?;
        checksum.inner_mut().get_mut().sync_all(Tracked(fx))?;
        let checksum = checksum.checksum();

        // IMPORTANT: fsync folder on Unix

        fsync_directory(self.path.parent().expect("should have folder"), Tracked(fx))?;

        Ok((metadata, checksum))
//@ END
    }
}
//@ WRAPPER_END
impl PathBuf { uninterp spec fn parent_exists(&self) -> bool; }

}
fn main() {}
