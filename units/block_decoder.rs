//@ UNIT block_decoder
// Block decoder seeks (src/table/block/decoder.rs): `partition_point` / `partition_point_2` are exact binary searches over the
// restart heads of a block for a predicate that holds on a prefix of the heads; `seek` / `seek_upper` position the scanners at the
// restart head they select.
use vstd::prelude::*;
verus! {
global size_of usize == 8;
type SeqNo = u64;

// ---------------- prelude (TRUSTED) ----------------
/// key and seqno of restart head `h` of the block with these bytes, and the byte offset the binary index records for it
uninterp spec fn head_key(bytes: Seq<u8>, h: int) -> Seq<u8>;
uninterp spec fn head_seqno(bytes: Seq<u8>, h: int) -> SeqNo;
uninterp spec fn head_offset(bytes: Seq<u8>, h: int) -> usize;
/// number of restart heads (= binary index length)
uninterp spec fn head_len(bytes: Seq<u8>) -> usize;

pub assume_specification[ usize::midpoint ](a: usize, b: usize) -> (r: usize)
    ensures r == (a + b) / 2;

/// binary_index::Reader over the block's binary index section
struct BinaryIndexReader { ghost bytes: Seq<u8> }
impl BinaryIndexReader {
    #[verifier::external_body]
    fn len(&self) -> (r: usize) ensures r == head_len(self.bytes) { unimplemented!() }
    /// panics (slice index / unwrap) when out of range: the precondition is proved at each call
    #[verifier::external_body]
    fn get(&self, idx: usize) -> (r: usize) requires idx < head_len(self.bytes) ensures r == head_offset(self.bytes, idx as int) { unimplemented!() }
}
#[verifier::external_body]
struct Block { p: u8 }
impl Block {
    uninterp spec fn bytes(&self) -> Seq<u8>;
    /// `self.block.data.len()`
    #[verifier::external_body]
    fn data_len(&self) -> (r: usize) ensures r == self.bytes().len() { unimplemented!() }
}

//@ FROM src/table/block/decoder.rs :: - :: struct LoScanner
struct LoScanner {
    offset: usize,
    remaining_in_interval: usize,
    base_key_offset: Option<usize>,
}
//@ END
//@ FROM src/table/block/decoder.rs :: - :: struct HiScanner
struct HiScanner {
    offset: usize,
    ptr_idx: usize,
    stack: Vec<usize>, // TODO: SmallVec?
    base_key_offset: Option<usize>,
}
//@ END
//@ FROM src/table/block/decoder.rs :: - :: struct Decoder
//@ SUBST `< 'a , Item : Decodable < Parsed > , Parsed : ParsedItem < Item > >` ==> `<'a>`
//@ SUBST `phantom : PhantomData < ( Item , Parsed ) > ,` ==> ``
struct Decoder<'a> {
    block: &'a Block,

    lo_scanner: LoScanner,
    hi_scanner: HiScanner,

    // Cached metadata
    restart_interval: u8,
    binary_index_step_size: u8,
    binary_index_offset: u32,
    binary_index_len: u32,
}
//@ END

/// the predicate holds on exactly the first `c` restart heads
spec fn head_count(bytes: Seq<u8>, p: spec_fn(Seq<u8>, SeqNo) -> bool, c: int) -> bool {
    0 <= c <= head_len(bytes)
    && (forall|i: int| 0 <= i < c ==> p(#[trigger] head_key(bytes, i), head_seqno(bytes, i)))
    && (forall|i: int| c <= i < head_len(bytes) ==> !p(#[trigger] head_key(bytes, i), head_seqno(bytes, i)))
}
spec fn pred_is<F: Fn(&[u8], SeqNo) -> bool>(pred: F, p: spec_fn(Seq<u8>, SeqNo) -> bool) -> bool {
    (forall|k: &[u8], s: SeqNo| #[trigger] pred.requires((k, s)))
    && (forall|k: &[u8], s: SeqNo, b: bool| #[trigger] pred.ensures((k, s), b) ==> b == p(k@, s))
}

//@ SUBST `debug_assert ! ( $1 ) ;` ==> ``
impl<'a> Decoder<'a> {
    spec fn bytes(&self) -> Seq<u8> { self.block.bytes() }
    /// get_binary_index_reader: a view of the binary index section named by the cached trailer fields
    #[verifier::external_body]
    fn get_binary_index_reader(&self) -> (r: BinaryIndexReader) ensures r.bytes == self.bytes() { unimplemented!() }
    /// get_key_at: parses the restart head stored at `pos` (Item::parse_restart_key on `data[pos..]`, an unchecked slice)
    #[verifier::external_body]
    fn get_key_at(&self, pos: usize) -> (r: (&[u8], SeqNo))
        requires exists|h: int| 0 <= h < head_len(self.bytes()) && head_offset(self.bytes(), h) == pos
        ensures forall|h: int| 0 <= h < head_len(self.bytes()) && head_offset(self.bytes(), h) == pos ==> r.0@ == head_key(self.bytes(), h) && r.1 == head_seqno(self.bytes(), h)
    { unimplemented!() }
    /// fill_stack: parses the restart interval `hi_scanner.ptr_idx` onto the back scanner's stack (not in this unit)
    #[verifier::external_body]
    fn fill_stack(&mut self)
        ensures final(self).block == old(self).block, final(self).lo_scanner == old(self).lo_scanner, final(self).hi_scanner.ptr_idx == old(self).hi_scanner.ptr_idx,
            final(self).restart_interval == old(self).restart_interval
    { unimplemented!() }

//@ FROM src/table/block/decoder.rs :: impl < 'a , Item : Decodable < Parsed > , Parsed : ParsedItem < Item > > Decoder < 'a , Item , Parsed > :: fn partition_point :: OBL C12.16, C03.13
    fn partition_point<F>(&self, pred: F/*+*/, Ghost(p): Ghost<spec_fn(Seq<u8>, SeqNo) -> bool>/*-*/) -> /*+*/(r:/*-*/ Option<(/* offset */ usize, /* idx */ usize)>/*+*/)/*-*/
    where
        F: Fn(&[u8], SeqNo) -> bool/*+*/,
        requires pred_is(pred, p), distinct_offsets(self.bytes()),
        ensures head_len(self.bytes()) == 0 ==> r is None,
            head_len(self.bytes()) > 0 ==> r is Some && forall|c: int| head_count(self.bytes(), p, c) ==> ({
                let idx = if c > 0 { c - 1 } else { 0 };
                r->Some_0.1 == idx && r->Some_0.0 == (if c > 0 { head_offset(self.bytes(), idx) } else { 0 }) }),
            r is Some ==> r->Some_0.1 < head_len(self.bytes()) && (r->Some_0.0 == head_offset(self.bytes(), r->Some_0.1 as int) || (r->Some_0.0 == 0 && r->Some_0.1 == 0))/*-*/,
    {
        let binary_index = self.get_binary_index_reader();

        let mut left: usize = 0;
        let mut right = binary_index.len();

        if right == 0 {
            return None;
        }

        while left < right
            /*+*/invariant 0 <= left <= right <= head_len(self.bytes()), binary_index.bytes == self.bytes(), pred_is(pred, p), distinct_offsets(self.bytes()),
                forall|c: int| head_count(self.bytes(), p, c) ==> left <= c <= right,
            decreases right - left/*-*/
        {
            let mid = usize::midpoint(left, right);

            let offset = binary_index.get(mid);

            let (head_key, head_seqno) = self.get_key_at(offset);

            if pred(head_key, head_seqno) {
                left = mid + 1;
            } else {
                right = mid;
            }
        }

        if left == 0 {
            return Some((0, 0));
        }

        if left == binary_index.len() {
            let idx = binary_index.len() - 1;
            let offset = binary_index.get(idx);
            return Some((offset, idx));
        }

        let offset = binary_index.get(left - 1);

        Some((offset, left - 1))
    }
//@ END

//@ FROM src/table/block/decoder.rs :: impl < 'a , Item : Decodable < Parsed > , Parsed : ParsedItem < Item > > Decoder < 'a , Item , Parsed > :: fn partition_point_2 :: OBL C12.16, C03.13
    fn partition_point_2<F>(&self, pred: F/*+*/, Ghost(p): Ghost<spec_fn(Seq<u8>, SeqNo) -> bool>/*-*/) -> /*+*/(r:/*-*/ Option<(/* offset */ usize, /* idx */ usize)>/*+*/)/*-*/
    where
        F: Fn(&[u8], SeqNo) -> bool/*+*/,
        requires pred_is(pred, p), distinct_offsets(self.bytes()),
        ensures head_len(self.bytes()) == 0 ==> r is None,
            head_len(self.bytes()) > 0 ==> r is Some && forall|c: int| head_count(self.bytes(), p, c) ==> ({
                let idx = if c < head_len(self.bytes()) { c } else { head_len(self.bytes()) - 1 };
                r->Some_0.1 == idx && r->Some_0.0 == head_offset(self.bytes(), idx) }),
            r is Some ==> r->Some_0.1 < head_len(self.bytes()) && r->Some_0.0 == head_offset(self.bytes(), r->Some_0.1 as int)/*-*/,
    {
        let binary_index = self.get_binary_index_reader();

        let mut left: usize = 0;
        let mut right = binary_index.len();

        if right == 0 {
            return None;
        }

        while left < right
            /*+*/invariant 0 <= left <= right <= head_len(self.bytes()), binary_index.bytes == self.bytes(), pred_is(pred, p), distinct_offsets(self.bytes()),
                forall|c: int| head_count(self.bytes(), p, c) ==> left <= c <= right,
            decreases right - left/*-*/
        {
            let mid = usize::midpoint(left, right);

            let offset = binary_index.get(mid);

            let (head_key, head_seqno) = self.get_key_at(offset);

            if pred(head_key, head_seqno) {
                left = mid + 1;
            } else {
                right = mid;
            }
        }

        if left == binary_index.len() {
            let idx = binary_index.len() - 1;
            let offset = binary_index.get(idx);
            return Some((offset, idx));
        }

        let offset = binary_index.get(left);

        Some((offset, left))
    }
//@ END

//@ FROM src/table/block/decoder.rs :: impl < 'a , Item : Decodable < Parsed > , Parsed : ParsedItem < Item > > Decoder < 'a , Item , Parsed > :: fn set_lo_offset
    fn set_lo_offset(&mut self, offset: usize)
        /*+*/ensures final(self).lo_scanner.offset == offset, final(self).block == old(self).block, final(self).hi_scanner == old(self).hi_scanner,
            final(self).lo_scanner.remaining_in_interval == old(self).lo_scanner.remaining_in_interval, final(self).lo_scanner.base_key_offset == old(self).lo_scanner.base_key_offset/*-*/
    {
        self.lo_scanner.offset = offset;
    }
//@ END

//@ FROM src/table/block/decoder.rs :: impl < 'a , Item : Decodable < Parsed > , Parsed : ParsedItem < Item > > Decoder < 'a , Item , Parsed > :: fn seek :: OBL C12.16, C03.13
//@ SUBST `pred : impl Fn ( & [ u8 ] , SeqNo ) -> bool` ==> `pred: F`
//@ SUBST `self . block . data . len ( )` ==> `self.block.data_len()`
    fn seek/*+*/<F: Fn(&[u8], SeqNo) -> bool>/*-*/(&mut self, pred: F, second_partition: bool/*+*/, Ghost(p): Ghost<spec_fn(Seq<u8>, SeqNo/*-*/) -> bool/*+*/>) -> (r: bool)
        requires pred_is(pred, p), distinct_offsets(old(self).bytes()), head_len(old(self).bytes()) > 0 ==> head_offset(old(self).bytes(), 0) == 0
        ensures final(self).block == old(self).block,
            head_len(old(self).bytes()) == 0 ==> !r && final(self).lo_scanner == old(self).lo_scanner && final(self).hi_scanner == old(self).hi_scanner,
            // first partition (data blocks): the front scanner restarts at the last head satisfying the predicate (the first head if none), the back scanner is untouched
            !second_partition && head_len(old(self).bytes()) > 0 ==> r && final(self).hi_scanner == old(self).hi_scanner
                && final(self).lo_scanner.remaining_in_interval == old(self).lo_scanner.remaining_in_interval && final(self).lo_scanner.base_key_offset == old(self).lo_scanner.base_key_offset
                && forall|c: int| head_count(old(self).bytes(), p, c) ==> final(self).lo_scanner.offset == head_offset(old(self).bytes(), if c > 0 { c - 1 } else { 0 }),
            // second partition (index blocks): the first head NOT satisfying the predicate (the last head if all do); when every entry is its own
            // head and even that head satisfies the predicate, both scanners are exhausted and the result is false
            second_partition && head_len(old(self).bytes()) > 0 ==> forall|c: int| head_count(old(self).bytes(), p, c) ==> ({
                let n = head_len(old(self).bytes()) as int;
                if old(self).restart_interval == 1 && c == n {
                    !r && final(self).lo_scanner.offset == old(self).bytes().len() && final(self).hi_scanner.offset == old(self).bytes().len()
                } else {
                    r && final(self).hi_scanner == old(self).hi_scanner && final(self).lo_scanner.offset == head_offset(old(self).bytes(), if c < n { c } else { n - 1 })
                } }),/*-*/
    {
        // TODO: make this nicer, maybe predicate that can affect the resulting index...?
        let result = if second_partition {
            self.partition_point_2(&pred/*+*/, Ghost(p)/*-*/)
        } else {
            self.partition_point(&pred/*+*/, Ghost(p)/*-*/)
        };

        // Binary index lookup
        let Some((offset, _)) = result else {
            return false;
        };

        if second_partition && self.restart_interval == 1 && {
            let (key, seqno) = self.get_key_at(offset);
            pred(key, seqno)
        } {
            // `second_partition == true` means we ran the "look one restart ahead" search used by
            // index blocks. When the predicate is still true at the chosen restart head it means
            // the caller asked us to seek strictly beyond the last entry. In that case we skip any
            // costly parsing and flip both scanners into an "exhausted" state so the outer iterator
            // immediately reports EOF.
            let end = self.block.data_len();

            self.lo_scanner.offset = end;
            self.lo_scanner.remaining_in_interval = 0;
            self.lo_scanner.base_key_offset = None;

            self.hi_scanner.offset = end;
            self.hi_scanner.ptr_idx = usize::MAX;
            self.hi_scanner.stack.clear();
            self.hi_scanner.base_key_offset = Some(0);

            return false;
        }

        self.lo_scanner.offset = offset;

        true
    }
//@ END

//@ FROM src/table/block/decoder.rs :: impl < 'a , Item : Decodable < Parsed > , Parsed : ParsedItem < Item > > Decoder < 'a , Item , Parsed > :: fn seek_upper :: OBL C12.16, C03.13
//@ SUBST `pred : impl Fn ( & [ u8 ] , SeqNo ) -> bool` ==> `pred: F`
    fn seek_upper/*+*/<F: Fn(&[u8], SeqNo) -> bool>/*-*/(
        &mut self,
        pred: F,
        second_partition: bool, /*+*/Ghost(p): Ghost<spec_fn(Seq<u8>, SeqNo/*-*/) -> bool/*+*/>
    ) -> (r: bool)
        requires pred_is(pred, p), distinct_offsets(old(self).bytes()), head_len(old(self).bytes()) > 0 ==> head_offset(old(self).bytes(), 0) == 0
        ensures final(self).block == old(self).block, final(self).lo_scanner == old(self).lo_scanner,
            r == (head_len(old(self).bytes()) > 0),
            !r ==> final(self).hi_scanner == old(self).hi_scanner,
            // the back scanner is filled from the restart interval the partition point selects
            r ==> forall|c: int| head_count(old(self).bytes(), p, c) ==> final(self).hi_scanner.ptr_idx == (if second_partition { if c < head_len(old(self).bytes()) { c } else { head_len(old(self).bytes()) - 1 } } else { if c > 0 { c - 1 } else { 0 } }),/*-*/
    {
        let result = if second_partition {
            self.partition_point_2(&pred/*+*/, Ghost(p)/*-*/)
        } else {
            self.partition_point(&pred/*+*/, Ghost(p)/*-*/)
        };

        // Binary index lookup
        let Some((offset, idx)) = result else {
            return false;
        };

        self.hi_scanner.offset = offset;
        self.hi_scanner.ptr_idx = idx;
        self.hi_scanner.stack.clear();
        self.hi_scanner.base_key_offset = None;

        self.fill_stack();

        true
    }
//@ END
}
spec fn distinct_offsets(bytes: Seq<u8>) -> bool {
    forall|i: int, j: int| 0 <= i < head_len(bytes) && 0 <= j < head_len(bytes) && head_offset(bytes, i) == head_offset(bytes, j) ==> i == j
}
}
fn main() {}
