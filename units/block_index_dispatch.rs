//@ UNIT block_index_dispatch
// `BlockIndexImpl` / `BlockIndexIterImpl` (src/table/block_index/mod.rs): the three block-index variants (full, volatile full, two-level)
// are used through one enum; every operation of the enum is exactly the same operation of the variant it holds (no cross-wiring of
// seek_lower / seek_upper / next / next_back), `iter()` wraps the variant's own iterator, and `forward_reader(needle, seqno)` is the
// variant's iterator after `seek_lower(needle, seqno)` - None exactly when that seek reports that nothing can match.  What the variants'
// operations do is proved elsewhere (index_seek C01.25, two_level_index C11.10).  Obligations C12.32, C11.13
use vstd::prelude::*;
verus! {
type SeqNo = u64;
#[verifier::external_body] struct Error { p: u8 }
#[verifier::external_body] struct KeyedBlockHandle { p: u8 }
type Item = Result<KeyedBlockHandle, Error>;
/// a needle: its rank in the byte-string order
#[verifier::external_body] struct Bytes { p: u8 }
impl Bytes { uninterp spec fn rank(&self) -> int; }

// ---------------- prelude (TRUSTED): the three iterators as state machines with uninterpreted transition functions ----------------
/// which variant
#[derive(PartialEq, Eq, Structural, Clone, Copy)] enum Kind { Full, Volatile, TwoLevel }
uninterp spec fn seek_lower_st(k: Kind, st: int, key: int, seqno: SeqNo) -> (bool, int);
uninterp spec fn seek_upper_st(k: Kind, st: int, key: int, seqno: SeqNo) -> (bool, int);
uninterp spec fn next_st(k: Kind, st: int) -> (Option<Item>, int);
uninterp spec fn next_back_st(k: Kind, st: int) -> (Option<Item>, int);
/// the state of a fresh iterator over index number `ix`
uninterp spec fn fresh(k: Kind, ix: int) -> int;
macro_rules! iter_variant {
    ($name:ident, $kind:expr) => {
        verus! {
        struct $name { ghost st: int }
        impl $name {
            #[verifier::external_body] fn seek_lower(&mut self, key: &Bytes, seqno: SeqNo) -> (r: bool) ensures (r, final(self).st) == seek_lower_st($kind, old(self).st, key.rank(), seqno) { unimplemented!() }
            #[verifier::external_body] fn seek_upper(&mut self, key: &Bytes, seqno: SeqNo) -> (r: bool) ensures (r, final(self).st) == seek_upper_st($kind, old(self).st, key.rank(), seqno) { unimplemented!() }
            #[verifier::external_body] fn next(&mut self) -> (r: Option<Item>) ensures (r, final(self).st) == next_st($kind, old(self).st) { unimplemented!() }
            #[verifier::external_body] fn next_back(&mut self) -> (r: Option<Item>) ensures (r, final(self).st) == next_back_st($kind, old(self).st) { unimplemented!() }
        }
        }
    };
}
iter_variant!(FullIter, Kind::Full);
iter_variant!(VolatileIter, Kind::Volatile);
iter_variant!(TwoLevelIter, Kind::TwoLevel);
struct FullBlockIndex { ghost ix: int }
struct VolatileBlockIndex { ghost ix: int }
struct TwoLevelBlockIndex { ghost ix: int }
impl FullBlockIndex {
    #[verifier::external_body] fn iter(&self) -> (r: FullIter) ensures r.st == fresh(Kind::Full, self.ix) { unimplemented!() }
    /// FullBlockIndex::forward_reader (src/table/block_index/full.rs): its own iterator after seek_lower, None if the seek fails
    #[verifier::external_body] fn forward_reader(&self, needle: &Bytes, seqno: SeqNo) -> (r: Option<FullIter>)
        ensures ({ let s = seek_lower_st(Kind::Full, fresh(Kind::Full, self.ix), needle.rank(), seqno); (r is Some) == s.0 && (r is Some ==> r->0.st == s.1) }) { unimplemented!() }
}
impl VolatileBlockIndex { #[verifier::external_body] fn iter(&self) -> (r: VolatileIter) ensures r.st == fresh(Kind::Volatile, self.ix) { unimplemented!() } }
impl TwoLevelBlockIndex { #[verifier::external_body] fn iter(&self) -> (r: TwoLevelIter) ensures r.st == fresh(Kind::TwoLevel, self.ix) { unimplemented!() } }

//@ FROM src/table/block_index/mod.rs :: - :: enum BlockIndexIterImpl
//@ SUBST `self :: full :: Iter` ==> `FullIter`
//@ SUBST `self :: volatile :: Iter` ==> `VolatileIter`
//@ SUBST `self :: two_level :: Iter` ==> `TwoLevelIter`
enum BlockIndexIterImpl {
    Full(FullIter),
    Volatile(VolatileIter),
    TwoLevel(TwoLevelIter),
}
//@ END
impl BlockIndexIterImpl {
    spec fn kind(&self) -> Kind { match self { Self::Full(_) => Kind::Full, Self::Volatile(_) => Kind::Volatile, Self::TwoLevel(_) => Kind::TwoLevel } }
    spec fn st(&self) -> int { match self { Self::Full(i) => i.st, Self::Volatile(i) => i.st, Self::TwoLevel(i) => i.st } }
}
//@ SUBST `& [ u8 ]` ==> `&Bytes`
//@ SUBST `Self :: Item` ==> `Item`
//@ SUBST `Option << Self as Iterator > :: Item >` ==> `Option<Item>`
impl BlockIndexIterImpl {
//@ FROM src/table/block_index/mod.rs :: impl BlockIndexIter for BlockIndexIterImpl :: fn seek_lower :: OBL C12.32, C11.13
    fn seek_lower(&mut self, key: &Bytes, seqno: SeqNo) -> /*+*/(r:/*-*/ bool/*+*/)
        ensures final(self).kind() == old(self).kind(), (r, final(self).st()) == seek_lower_st(old(self).kind(), old(self).st(), key.rank(), seqno)/*-*/ {
        match self {
            Self::Full(i) => i.seek_lower(key, seqno),
            Self::Volatile(i) => i.seek_lower(key, seqno),
            Self::TwoLevel(i) => i.seek_lower(key, seqno),
        }
    }
//@ END
//@ FROM src/table/block_index/mod.rs :: impl BlockIndexIter for BlockIndexIterImpl :: fn seek_upper :: OBL C12.32, C11.13
    fn seek_upper(&mut self, key: &Bytes, seqno: SeqNo) -> /*+*/(r:/*-*/ bool/*+*/)
        ensures final(self).kind() == old(self).kind(), (r, final(self).st()) == seek_upper_st(old(self).kind(), old(self).st(), key.rank(), seqno)/*-*/ {
        match self {
            Self::Full(i) => i.seek_upper(key, seqno),
            Self::Volatile(i) => i.seek_upper(key, seqno),
            Self::TwoLevel(i) => i.seek_upper(key, seqno),
        }
    }
//@ END
//@ FROM src/table/block_index/mod.rs :: impl Iterator for BlockIndexIterImpl :: fn next :: OBL C12.32, C11.13
    fn next(&mut self) -> /*+*/(r:/*-*/ Option<Item>/*+*/)
        ensures final(self).kind() == old(self).kind(), (r, final(self).st()) == next_st(old(self).kind(), old(self).st())/*-*/ {
        match self {
            Self::Full(i) => i.next(),
            Self::Volatile(i) => i.next(),
            Self::TwoLevel(i) => i.next(),
        }
    }
//@ END
//@ FROM src/table/block_index/mod.rs :: impl DoubleEndedIterator for BlockIndexIterImpl :: fn next_back :: OBL C12.32, C11.13
    fn next_back(&mut self) -> /*+*/(r:/*-*/ Option<Item>/*+*/)
        ensures final(self).kind() == old(self).kind(), (r, final(self).st()) == next_back_st(old(self).kind(), old(self).st())/*-*/ {
        match self {
            Self::Full(i) => i.next_back(),
            Self::Volatile(i) => i.next_back(),
            Self::TwoLevel(i) => i.next_back(),
        }
    }
//@ END
}

//@ FROM src/table/block_index/mod.rs :: - :: enum BlockIndexImpl
enum BlockIndexImpl {
    Full(FullBlockIndex),
    VolatileFull(VolatileBlockIndex),
    TwoLevel(TwoLevelBlockIndex),
}
//@ END
impl BlockIndexImpl {
    spec fn kind(&self) -> Kind { match self { Self::Full(_) => Kind::Full, Self::VolatileFull(_) => Kind::Volatile, Self::TwoLevel(_) => Kind::TwoLevel } }
    spec fn ix(&self) -> int { match self { Self::Full(i) => i.ix, Self::VolatileFull(i) => i.ix, Self::TwoLevel(i) => i.ix } }
//@ FROM src/table/block_index/mod.rs :: impl BlockIndex for BlockIndexImpl :: fn forward_reader :: OBL C12.32, C11.13
//@ SUBST `. map ( BlockIndexIterImpl :: Full )` ==> `.map(|i__: FullIter| -> (o: BlockIndexIterImpl) ensures o == BlockIndexIterImpl::Full(i__) { BlockIndexIterImpl::Full(i__) })`
// `.map(BlockIndexIterImpl::Full)` (R21: a constructor passed as a function)
    fn forward_reader(&self, needle: &Bytes, seqno: SeqNo) -> /*+*/(r:/*-*/ Option<BlockIndexIterImpl>/*+*/)
        // whichever variant: its own fresh iterator, positioned by seek_lower(needle, seqno); None exactly when that seek fails
        ensures ({ let s = seek_lower_st(self.kind(), fresh(self.kind(), self.ix()), needle.rank(), seqno);
            (r is Some) == s.0 && (r is Some ==> r->0.kind() == self.kind() && r->0.st() == s.1) })/*-*/ {
        match self {
            Self::Full(index) => index
                .forward_reader(needle, seqno)
                .map(|i__: FullIter| -> (o: BlockIndexIterImpl) ensures o == BlockIndexIterImpl::Full(i__) { BlockIndexIterImpl::Full(i__) }),
            Self::VolatileFull(index) => {
                let mut it = index.iter();

                if it.seek_lower(needle, seqno) {
                    Some(BlockIndexIterImpl::Volatile(it))
                } else {
                    None
                }
            }
            Self::TwoLevel(index) => {
                let mut it = index.iter();

                if it.seek_lower(needle, seqno) {
                    Some(BlockIndexIterImpl::TwoLevel(it))
                } else {
                    None
                }
            }
        }
    }
//@ END
//@ FROM src/table/block_index/mod.rs :: impl BlockIndex for BlockIndexImpl :: fn iter :: OBL C12.32, C11.13
    fn iter(&self) -> /*+*/(r:/*-*/ BlockIndexIterImpl/*+*/) ensures r.kind() == self.kind(), r.st() == fresh(self.kind(), self.ix())/*-*/ {
        match self {
            Self::Full(index) => BlockIndexIterImpl::Full(index.iter()),
            Self::VolatileFull(index) => BlockIndexIterImpl::Volatile(index.iter()),
            Self::TwoLevel(index) => BlockIndexIterImpl::TwoLevel(index.iter()),
        }
    }
//@ END
}
}
fn main() {}
