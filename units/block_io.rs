//@ UNIT block_io
// Block / header I/O: table::block::{Header::encode_into, Header::decode_from, Block::write_into,
// Block::from_reader, Block::from_file}, checksum::{Checksum, ChecksummedWriter}, header::ChecksummedReader.
// Obligations: C10.1 (header verification), C10.2 (payload verification on every load), C12.9 (write/read round trip)
use vstd::prelude::*;
use std::sync::Arc;
verus! {

global size_of usize == 8;
global size_of BlockType == 1;
global size_of Checksum == 16;

// ---------------- prelude (TRUSTED): errors, hashing, little-endian coding ----------------
pub enum Error { Io, Unrecoverable, InvalidTag((&'static str, u8)), InvalidHeader(&'static str), ChecksumMismatch { got: Checksum, expected: Checksum } }

/// xxh3-128 as a mathematical function of the bytes (collision-freeness is NOT assumed)
pub uninterp spec fn hash128(b: Seq<u8>) -> u128;
pub uninterp spec fn le16(x: u16) -> Seq<u8>;
pub uninterp spec fn le32(x: u32) -> Seq<u8>;
pub uninterp spec fn le64(x: u64) -> Seq<u8>;
pub uninterp spec fn le128(x: u128) -> Seq<u8>;
/// LEB128 varint coding (varint_rs): a prefix-free code, which is what the decoding contracts of read_uN_varint state
pub uninterp spec fn var64(x: u64) -> Seq<u8>;
pub uninterp spec fn var32(x: u32) -> Seq<u8>;
pub uninterp spec fn un_le16(b: Seq<u8>) -> u16;
pub uninterp spec fn un_le32(b: Seq<u8>) -> u32;
pub uninterp spec fn un_le64(b: Seq<u8>) -> u64;
pub uninterp spec fn un_le128(b: Seq<u8>) -> u128;
/// little-endian coding has fixed width and is invertible (byteorder / to_le_bytes)
#[verifier::external_body]
pub broadcast proof fn axiom_le()
    ensures
        forall|x: u16| #![trigger le16(x)] le16(x).len() == 2 && un_le16(le16(x)) == x,
        forall|x: u32| #![trigger le32(x)] le32(x).len() == 4 && un_le32(le32(x)) == x,
        forall|x: u64| #![trigger le64(x)] le64(x).len() == 8 && un_le64(le64(x)) == x,
        forall|x: u128| #![trigger le128(x)] le128(x).len() == 16 && un_le128(le128(x)) == x,
{}

/// xxhash_rust::xxh3::Xxh3Default: streaming hasher, digest = hash of everything fed so far
#[verifier::external_body]
pub struct Xxh3Default { p: u8 }
impl Xxh3Default {
    pub uninterp spec fn fed(&self) -> Seq<u8>;
    #[verifier::external_body] pub fn new() -> (r: Self) ensures r.fed() == Seq::<u8>::empty() { unimplemented!() }
    #[verifier::external_body] pub fn update(&mut self, b: &[u8]) ensures final(self).fed() == old(self).fed() + b@ { unimplemented!() }
    #[verifier::external_body] pub fn digest128(&self) -> (r: u128) ensures r == hash128(self.fed()) { unimplemented!() }
}
/// crate::hash::hash128 (one-shot xxh3-128)
#[verifier::external_body]
pub fn hash128_exec(b: &[u8]) -> (r: u128) ensures r == hash128(b@) { unimplemented!() }

/// std::io::Read + byteorder::ReadBytesExt.  `rest()` = the bytes the source will still deliver, `seen()` = the bytes
/// this reader has taken so far as its own side state records them (for ChecksummedReader: what the hasher was fed).
/// `read` is the required method; the provided methods are specified as "`read` until the buffer is full" (TRUSTED).
trait Read: Sized {
    spec fn rest(&self) -> Seq<u8>;
    spec fn seen(&self) -> Seq<u8>;
    /// identity of the source: the lenders of every `&mut` on the way to it (a read never re-targets a reader)
    type Id;
    #[verifier::prophetic] spec fn src_id(&self) -> Self::Id;
    fn read(&mut self, buf: &mut [u8]) -> (r: Result<usize, Error>)
        ensures
            (*old(self)).src_id() == (*final(self)).src_id(),
            final(buf)@.len() == old(buf)@.len(),
            r is Ok ==> ({ let n = r->Ok_0 as int;
                n <= old(buf)@.len() && n <= (*old(self)).rest().len()
                && final(buf)@.subrange(0, n) == (*old(self)).rest().subrange(0, n)
                && (*final(self)).rest() == (*old(self)).rest().skip(n)
                && (*final(self)).seen() == (*old(self)).seen() + (*old(self)).rest().subrange(0, n) });
    #[verifier::external_body]
    fn read_exact(&mut self, buf: &mut [u8]) -> (r: Result<(), Error>)
        ensures (*old(self)).src_id() == (*final(self)).src_id(), final(buf)@.len() == old(buf)@.len(),
          r is Ok ==> ({ let n = old(buf)@.len() as int; (*old(self)).rest().len() >= n && final(buf)@ == (*old(self)).rest().subrange(0, n)
            && (*final(self)).rest() == (*old(self)).rest().skip(n)
            && (*final(self)).seen() == (*old(self)).seen() + (*old(self)).rest().subrange(0, n) })
    { unimplemented!() }
    #[verifier::external_body]
    fn read_u8(&mut self) -> (r: Result<u8, Error>)
        ensures (*old(self)).src_id() == (*final(self)).src_id(), r is Ok ==> (*old(self)).rest().len() >= 1 && r->Ok_0 == (*old(self)).rest()[0]
            && (*final(self)).rest() == (*old(self)).rest().skip(1)
            && (*final(self)).seen() == (*old(self)).seen() + (*old(self)).rest().subrange(0, 1)
    { unimplemented!() }
    #[verifier::external_body]
    fn read_u32_le(&mut self) -> (r: Result<u32, Error>)
        ensures (*old(self)).src_id() == (*final(self)).src_id(), r is Ok ==> (*old(self)).rest().len() >= 4 && r->Ok_0 == un_le32((*old(self)).rest().subrange(0, 4))
            && (*final(self)).rest() == (*old(self)).rest().skip(4)
            && (*final(self)).seen() == (*old(self)).seen() + (*old(self)).rest().subrange(0, 4)
    { unimplemented!() }
    /// varint_rs::VarintReader (TRUSTED): reads the unique varint at the head of the source
    #[verifier::external_body]
    fn read_u64_varint(&mut self) -> (r: Result<u64, Error>)
        ensures (*old(self)).src_id() == (*final(self)).src_id(),
            r is Ok ==> exists|n: int| 0 < n <= (*old(self)).rest().len() && (*old(self)).rest().subrange(0, n) == var64(r->Ok_0) && (*final(self)).rest() == (*old(self)).rest().skip(n),
            forall|x: u64, tail: Seq<u8>| (*old(self)).rest() == var64(x) + tail ==> (r is Ok ==> r->Ok_0 == x && (*final(self)).rest() == tail)
    { unimplemented!() }
    #[verifier::external_body]
    fn read_u32_varint(&mut self) -> (r: Result<u32, Error>)
        ensures (*old(self)).src_id() == (*final(self)).src_id(),
            r is Ok ==> exists|n: int| 0 < n <= (*old(self)).rest().len() && (*old(self)).rest().subrange(0, n) == var32(r->Ok_0) && (*final(self)).rest() == (*old(self)).rest().skip(n),
            forall|x: u32, tail: Seq<u8>| (*old(self)).rest() == var32(x) + tail ==> (r is Ok ==> r->Ok_0 == x && (*final(self)).rest() == tail)
    { unimplemented!() }
    #[verifier::external_body]
    fn read_u16_le(&mut self) -> (r: Result<u16, Error>)
        ensures (*old(self)).src_id() == (*final(self)).src_id(), r is Ok ==> (*old(self)).rest().len() >= 2 && r->Ok_0 == un_le16((*old(self)).rest().subrange(0, 2))
            && (*final(self)).rest() == (*old(self)).rest().skip(2)
            && (*final(self)).seen() == (*old(self)).seen() + (*old(self)).rest().subrange(0, 2)
    { unimplemented!() }
    #[verifier::external_body]
    fn read_u64_le(&mut self) -> (r: Result<u64, Error>)
        ensures (*old(self)).src_id() == (*final(self)).src_id(), r is Ok ==> (*old(self)).rest().len() >= 8 && r->Ok_0 == un_le64((*old(self)).rest().subrange(0, 8))
            && (*final(self)).rest() == (*old(self)).rest().skip(8)
            && (*final(self)).seen() == (*old(self)).seen() + (*old(self)).rest().subrange(0, 8)
    { unimplemented!() }
    #[verifier::external_body]
    fn read_u128_le(&mut self) -> (r: Result<u128, Error>)
        ensures (*old(self)).src_id() == (*final(self)).src_id(), r is Ok ==> (*old(self)).rest().len() >= 16 && r->Ok_0 == un_le128((*old(self)).rest().subrange(0, 16))
            && (*final(self)).rest() == (*old(self)).rest().skip(16)
            && (*final(self)).seen() == (*old(self)).seen() + (*old(self)).rest().subrange(0, 16)
    { unimplemented!() }
}
impl<R: Read> Read for &mut R {
    spec fn rest(&self) -> Seq<u8> { (**self).rest() }
    spec fn seen(&self) -> Seq<u8> { (**self).seen() }
    type Id = (R, R::Id);
    #[verifier::prophetic] spec fn src_id(&self) -> (R, R::Id) { (*final(*self), (**self).src_id()) }
    #[verifier::external_body]
    fn read(&mut self, buf: &mut [u8]) -> (r: Result<usize, Error>) { unimplemented!() }
}

/// std::io::Write + byteorder::WriteBytesExt.  `written()` = everything the sink accepted so far, `seen()` = what
/// the writer's own side state recorded (for ChecksummedWriter: what the hasher was fed).
trait Write: Sized {
    spec fn written(&self) -> Seq<u8>;
    spec fn seen(&self) -> Seq<u8>;
    /// identity of the sink: the lenders of every `&mut` on the way to it (a write never re-targets a writer)
    type Id;
    #[verifier::prophetic] spec fn sink_id(&self) -> Self::Id;
    fn write(&mut self, buf: &[u8]) -> (r: Result<usize, Error>)
        ensures
            (*old(self)).sink_id() == (*final(self)).sink_id(),
            r is Ok ==> ({ let n = r->Ok_0 as int;
                n <= buf@.len()
                && (*final(self)).written() == (*old(self)).written() + buf@.subrange(0, n)
                && (*final(self)).seen() == (*old(self)).seen() + buf@.subrange(0, n) });
    fn flush(&mut self) -> (r: Result<(), Error>)
        ensures (*old(self)).sink_id() == (*final(self)).sink_id(), r is Ok ==> (*final(self)).written() == (*old(self)).written() && (*final(self)).seen() == (*old(self)).seen();
    #[verifier::external_body]
    fn write_all(&mut self, buf: &[u8]) -> (r: Result<(), Error>)
        ensures (*old(self)).sink_id() == (*final(self)).sink_id(), r is Ok ==> (*final(self)).written() == (*old(self)).written() + buf@ && (*final(self)).seen() == (*old(self)).seen() + buf@
    { unimplemented!() }
    #[verifier::external_body]
    fn write_u8(&mut self, x: u8) -> (r: Result<(), Error>)
        ensures (*old(self)).sink_id() == (*final(self)).sink_id(), r is Ok ==> (*final(self)).written() == (*old(self)).written() + seq![x] && (*final(self)).seen() == (*old(self)).seen() + seq![x]
    { unimplemented!() }
    #[verifier::external_body]
    fn write_u32_le(&mut self, x: u32) -> (r: Result<(), Error>)
        ensures (*old(self)).sink_id() == (*final(self)).sink_id(), r is Ok ==> (*final(self)).written() == (*old(self)).written() + le32(x) && (*final(self)).seen() == (*old(self)).seen() + le32(x)
    { unimplemented!() }
    /// varint_rs::VarintWriter (TRUSTED)
    #[verifier::external_body]
    fn write_u64_varint(&mut self, x: u64) -> (r: Result<(), Error>)
        ensures (*old(self)).sink_id() == (*final(self)).sink_id(), r is Ok ==> (*final(self)).written() == (*old(self)).written() + var64(x) && (*final(self)).seen() == (*old(self)).seen() + var64(x)
    { unimplemented!() }
    #[verifier::external_body]
    fn write_u32_varint(&mut self, x: u32) -> (r: Result<(), Error>)
        ensures (*old(self)).sink_id() == (*final(self)).sink_id(), r is Ok ==> (*final(self)).written() == (*old(self)).written() + var32(x) && (*final(self)).seen() == (*old(self)).seen() + var32(x)
    { unimplemented!() }
    #[verifier::external_body]
    fn write_u16_le(&mut self, x: u16) -> (r: Result<(), Error>)
        ensures (*old(self)).sink_id() == (*final(self)).sink_id(), r is Ok ==> (*final(self)).written() == (*old(self)).written() + le16(x) && (*final(self)).seen() == (*old(self)).seen() + le16(x)
    { unimplemented!() }
    #[verifier::external_body]
    fn write_u64_le(&mut self, x: u64) -> (r: Result<(), Error>)
        ensures (*old(self)).sink_id() == (*final(self)).sink_id(), r is Ok ==> (*final(self)).written() == (*old(self)).written() + le64(x) && (*final(self)).seen() == (*old(self)).seen() + le64(x)
    { unimplemented!() }
    #[verifier::external_body]
    fn write_u128_le(&mut self, x: u128) -> (r: Result<(), Error>)
        ensures (*old(self)).sink_id() == (*final(self)).sink_id(), r is Ok ==> (*final(self)).written() == (*old(self)).written() + le128(x) && (*final(self)).seen() == (*old(self)).seen() + le128(x)
    { unimplemented!() }
}
impl<W: Write> Write for &mut W {
    spec fn written(&self) -> Seq<u8> { (**self).written() }
    spec fn seen(&self) -> Seq<u8> { (**self).seen() }
    type Id = (W, W::Id);
    #[verifier::prophetic] spec fn sink_id(&self) -> (W, W::Id) { (*final(*self), (**self).sink_id()) }
    #[verifier::external_body]
    fn write(&mut self, buf: &[u8]) -> (r: Result<usize, Error>) { unimplemented!() }
    #[verifier::external_body]
    fn flush(&mut self) -> (r: Result<(), Error>) { unimplemented!() }
}

pub const MAGIC_BYTES: [u8; 4] = [b'L', b'S', b'M', 3];

//@ SUBST `crate :: Error` ==> `Error`
//@ SUBST `std :: io :: Result <` ==> `IoResult<`
//@ SUBST `std :: io :: Read` ==> `Read`
//@ SUBST `std :: io :: Write` ==> `Write`
//@ SUBST `read_u32 :: < LE >` ==> `read_u32_le`
//@ SUBST `read_u128 :: < LE >` ==> `read_u128_le`
//@ SUBST `write_u32 :: < LE >` ==> `write_u32_le`
//@ SUBST `write_u128 :: < LE >` ==> `write_u128_le`
pub type IoResult<T> = Result<T, Error>;

//@ FROM src/checksum.rs :: - :: struct Checksum
/*+*/#[derive(Copy, Clone, PartialEq, Eq, Structural)]/*-*/
struct Checksum(u128);
//@ END
impl Checksum {
//@ FROM src/checksum.rs :: impl Checksum :: fn from_raw :: OBL C10.1, C10.2
    fn from_raw(value: u128) -> /*+*/(r:/*-*/ Self/*+*/) ensures r.0 == value/*-*/ {
        Self(value)
    }
//@ END
//@ FROM src/checksum.rs :: impl Checksum :: fn into_u128 :: OBL C10.1, C10.2
    fn into_u128(self) -> /*+*/(r:/*-*/ u128/*+*/) ensures r == self.0/*-*/ {
        self.0
    }
//@ END
//@ FROM src/checksum.rs :: impl Checksum :: fn check :: OBL C10.2
//@ SUBST `crate :: Result < ( ) >` ==> `Result<(), Error>`
    fn check(&self, expected: Self) -> /*+*/(r:/*-*/ Result<(), Error>/*+*/)
        ensures r is Ok ==> self.0 == expected.0/*-*/
    {
        if self.0 == expected.0 {
            Ok(())
        } else {
            Err(Error::ChecksumMismatch {
                expected,
                got: *self,
            })
        }
    }
//@ END
}

//@ FROM src/checksum.rs :: - :: struct ChecksummedWriter
//@ SUBST `xxhash_rust :: xxh3 :: Xxh3Default` ==> `Xxh3Default`
struct ChecksummedWriter<W: Write> {
    inner: W,
    hasher: Xxh3Default,
}
//@ END
impl<W: Write> ChecksummedWriter<W> {
//@ FROM src/checksum.rs :: ChecksummedWriter < W > :: fn new :: OBL C12.9
//@ SUBST `xxhash_rust :: xxh3 :: Xxh3Default` ==> `Xxh3Default`
    fn new(writer: W) -> /*+*/(r:/*-*/ Self/*+*/) ensures r.inner == writer, r.hasher.fed() == Seq::<u8>::empty()/*-*/ {
        Self {
            inner: writer,
            hasher: Xxh3Default::new(),
        }
    }
//@ END
//@ FROM src/checksum.rs :: ChecksummedWriter < W > :: fn checksum :: OBL C12.9
    fn checksum(&self) -> /*+*/(r:/*-*/ Checksum/*+*/) ensures r.0 == hash128(self.hasher.fed())/*-*/ {
        Checksum::from_raw(self.hasher.digest128())
    }
//@ END
}
impl<W: Write> Write for ChecksummedWriter<W> {
    spec fn written(&self) -> Seq<u8> { self.inner.written() }
    spec fn seen(&self) -> Seq<u8> { self.hasher.fed() }
    type Id = W::Id;
    #[verifier::prophetic] spec fn sink_id(&self) -> W::Id { self.inner.sink_id() }
//@ FROM src/checksum.rs :: ChecksummedWriter < W > :: fn flush :: OBL C12.9
    fn flush(&mut self) -> IoResult<()> {
        self.inner.flush()
    }
//@ END
//@ FROM src/checksum.rs :: ChecksummedWriter < W > :: fn write :: OBL C12.9
    fn write(&mut self, buf: &[u8]) -> IoResult<usize> {
        let n = self.inner.write(buf)?;

        self.hasher.update(&buf[..n]);

        Ok(n)
    }
//@ END
}

//@ FROM src/table/block/header.rs :: - :: struct ChecksummedReader
//@ SUBST `xxhash_rust :: xxh3 :: Xxh3Default` ==> `Xxh3Default`
struct ChecksummedReader<R: Read> {
    inner: R,
    hasher: Xxh3Default,
}
//@ END
impl<R: Read> ChecksummedReader<R> {
//@ FROM src/table/block/header.rs :: ChecksummedReader < R > :: fn new :: OBL C10.1
//@ SUBST `xxhash_rust :: xxh3 :: Xxh3Default` ==> `Xxh3Default`
    fn new(reader: R) -> /*+*/(r:/*-*/ Self/*+*/) ensures r.inner == reader, r.hasher.fed() == Seq::<u8>::empty()/*-*/ {
        Self {
            inner: reader,
            hasher: Xxh3Default::new(),
        }
    }
//@ END
//@ FROM src/table/block/header.rs :: ChecksummedReader < R > :: fn checksum :: OBL C10.1
    fn checksum(&self) -> /*+*/(r:/*-*/ Checksum/*+*/) ensures r.0 == hash128(self.hasher.fed())/*-*/ {
        Checksum::from_raw(self.hasher.digest128())
    }
//@ END
//@ FROM src/table/block/header.rs :: ChecksummedReader < R > :: fn into_inner :: OBL C10.1
    fn into_inner(self) -> /*+*/(r:/*-*/ R/*+*/) ensures r == self.inner/*-*/ {
        self.inner
    }
//@ END
}
impl<R: Read> Read for ChecksummedReader<R> {
    spec fn rest(&self) -> Seq<u8> { self.inner.rest() }
    spec fn seen(&self) -> Seq<u8> { self.hasher.fed() }
    type Id = R::Id;
    #[verifier::prophetic] spec fn src_id(&self) -> R::Id { self.inner.src_id() }
//@ FROM src/table/block/header.rs :: ChecksummedReader < R > :: fn read :: OBL C10.1
    fn read(&mut self, buf: &mut [u8]) -> IoResult<usize> {
        let n = self.inner.read(buf)?;

        self.hasher.update(&buf[..n]);

        Ok(n)
    }
//@ END
}

//@ FROM src/table/block/type.rs :: - :: enum BlockType
/*+*/#[derive(Copy, Clone, PartialEq, Eq, Structural)]
pub/*-*/ enum BlockType {
    Data,
    Index,
    Filter,
    Meta,
}
//@ END

pub open spec fn block_type_tag(t: BlockType) -> u8 {
    match t { BlockType::Data => 0, BlockType::Index => 1, BlockType::Filter => 2, BlockType::Meta => 3 }
}

//@ FROM src/table/block/header.rs :: - :: struct Header
/*+*/#[derive(Copy, Clone, PartialEq, Eq, Structural)]/*-*/
struct Header {
    block_type: BlockType,

    checksum: Checksum,

    data_length: u32,

    uncompressed_length: u32,
}
//@ END

impl Header {
//@ FROM src/table/block/header.rs :: impl Header :: fn serialized_len :: OBL C10.1
    const fn serialized_len() -> /*+*/(r:/*-*/ usize/*+*/) ensures r == 33/*-*/ {
        MAGIC_BYTES.len()
            + std::mem::size_of::<BlockType>()
            + std::mem::size_of::<Checksum>()
            + std::mem::size_of::<u32>()
            + std::mem::size_of::<u32>()
            + std::mem::size_of::<u32>()
    }
//@ END
}

impl vstd::std_specs::convert::FromSpecImpl<BlockType> for u8 {
    open spec fn obeys_from_spec() -> bool { true }
    open spec fn from_spec(t: BlockType) -> u8 { block_type_tag(t) }
}
impl From<BlockType> for u8 {
//@ FROM src/table/block/type.rs :: impl From < BlockType > for u8 :: fn from :: OBL C10.1, C12.9
    fn from(val: BlockType) -> /*+*/(r:/*-*/ Self/*+*/) ensures r == block_type_tag(val)/*-*/ {
        match val {
            BlockType::Data => 0,
            BlockType::Index => 1,
            BlockType::Filter => 2,
            BlockType::Meta => 3,
        }
    }
//@ END
}
impl BlockType {
//@ FROM src/table/block/type.rs :: impl TryFrom < u8 > for BlockType :: fn try_from :: OBL C10.1
//@ SUBST `Self :: Error` ==> `Error`
    fn try_from(value: u8) -> /*+*/(r:/*-*/ Result<Self, Error>/*+*/)
        ensures r is Ok ==> block_type_tag(r->Ok_0) == value/*-*/
    {
        match value {
            0 => Ok(Self::Data),
            1 => Ok(Self::Index),
            2 => Ok(Self::Filter),
            3 => Ok(Self::Meta),
            _ => Err(Error::InvalidTag(("BlockType", value))),
        }
    }
//@ END
}

spec fn low32(x: u128) -> u32 { x as u32 }
spec fn header_prefix(h: Header) -> Seq<u8> {
    MAGIC_BYTES@ + seq![block_type_tag(h.block_type)] + le128(h.checksum.0) + le32(h.data_length) + le32(h.uncompressed_length)
}
/// the 33 bytes of an encoded block header: magic, type, payload checksum, lengths, 32-bit checksum of those 29 bytes
spec fn header_bytes(h: Header) -> Seq<u8> {
    header_prefix(h) + le32(low32(hash128(header_prefix(h))))
}
/// `b` starts with a well-formed header that decodes to `h`: magic ok, known type tag, and the stored 32-bit header
/// checksum equals the low 32 bits of xxh3 over the 29 bytes before it
spec fn header_decodes(b: Seq<u8>, h: Header) -> bool {
    b.len() >= 33
    && b.subrange(0, 4) == MAGIC_BYTES@
    && b[4] == block_type_tag(h.block_type)
    && h.checksum.0 == un_le128(b.subrange(5, 21))
    && h.data_length == un_le32(b.subrange(21, 25))
    && h.uncompressed_length == un_le32(b.subrange(25, 29))
    && un_le32(b.subrange(29, 33)) == low32(hash128(b.subrange(0, 29)))
}

impl Header {
//@ FROM src/table/block/header.rs :: impl Encode for Header :: fn encode_into :: OBL C12.9
//@ SUBST `use byteorder :: LE ;` ==> ``
    fn encode_into<W: Write>(&self, mut writer: &mut W) -> /*+*/(r:/*-*/ Result<(), Error>/*+*/)
        ensures (*old(writer)).sink_id() == (*final(writer)).sink_id(),
            r is Ok ==> (*final(writer)).written() == (*old(writer)).written() + header_bytes(*self)/*-*/
    {
        /*+*/let ghost w0 = (*writer).written();/*-*/
        let checksum = {
            let mut writer = ChecksummedWriter::new(&mut writer);

            writer.write_all(&MAGIC_BYTES)?;

            writer.write_u8(self.block_type.into())?;

            writer.write_u128_le(self.checksum.into_u128())?;

            writer.write_u32_le(self.data_length)?;

            writer.write_u32_le(self.uncompressed_length)?;

            /*+*/proof {
                assert(writer.seen() =~= header_prefix(*self));
                assert(writer.written() =~= w0 + header_prefix(*self));
            }/*-*/
            writer.checksum()
        };
        /*+*/proof { assert((*writer).written() =~= w0 + header_prefix(*self)); }/*-*/

        writer.write_u32_le/*+*/(#[verifier::truncate]/*-*/ (checksum.into_u128() as u32/*+*/)/*-*/)?;

        /*+*/proof { assert((*writer).written() =~= w0 + header_bytes(*self)); }/*-*/
        Ok(())
    }
//@ END

//@ FROM src/table/block/header.rs :: impl Decode for Header :: fn decode_from :: OBL C10.1
//@ SUBST `use byteorder :: LE ;` ==> ``
    fn decode_from<R: Read>(reader: &mut R) -> /*+*/(r:/*-*/ Result<Self, Error>/*+*/)
        ensures (*old(reader)).src_id() == (*final(reader)).src_id(),
            r is Ok ==> header_decodes((*old(reader)).rest(), r->Ok_0) && (*final(reader)).rest() == (*old(reader)).rest().skip(33)/*-*/
    {
        /*+*/let ghost b = (*reader).rest();/*-*/
        let mut protected_reader = ChecksummedReader::new(reader);

        let mut magic = [0u8; MAGIC_BYTES.len()];
        protected_reader.read_exact(&mut magic)?;

        if magic != MAGIC_BYTES {
            return Err(Error::InvalidHeader("Block"));
        }

        let block_type = protected_reader.read_u8()?;
        let block_type = BlockType::try_from(block_type)?;

        let checksum = protected_reader.read_u128_le()?;

        let data_length = protected_reader.read_u32_le()?;

        let uncompressed_length = protected_reader.read_u32_le()?;

        /*+*/proof {
            assert(b.len() >= 29);
            assert(protected_reader.seen() =~= b.subrange(0, 29));
            assert(protected_reader.rest() =~= b.skip(29));
            assert(b.subrange(0, 4) =~= magic@);
            assert(b.skip(4).subrange(0, 1) =~= seq![b[4]]);
            assert(b.skip(4).skip(1).subrange(0, 16) =~= b.subrange(5, 21));
            assert(b.skip(4).skip(1).skip(16).subrange(0, 4) =~= b.subrange(21, 25));
            assert(b.skip(4).skip(1).skip(16).skip(4).subrange(0, 4) =~= b.subrange(25, 29));
        }/*-*/
        let got_checksum = /*+*/#[verifier::truncate] (/*-*/protected_reader.checksum().into_u128() as u32/*+*/)/*-*/;
        let got_checksum = Checksum::from_raw(u128::from(got_checksum));

        let reader = protected_reader.into_inner();

        let header_checksum: u128 = reader.read_u32_le()?.into();
        let header_checksum = Checksum::from_raw(header_checksum);
        /*+*/proof {
            assert(b.skip(29).subrange(0, 4) =~= b.subrange(29, 33));
            assert((*reader).rest() =~= b.skip(33));
        }/*-*/

        if header_checksum != got_checksum {
            return Err(Error::ChecksumMismatch {
                got: got_checksum,
                expected: header_checksum,
            });
        }

        /*+*/proof {
            assert(magic@ == MAGIC_BYTES@);
            assert(b[4] == block_type_tag(block_type));
            assert(header_checksum.0 == un_le32(b.subrange(29, 33)) as u128);
            assert(got_checksum.0 == low32(hash128(b.subrange(0, 29))) as u128);
            assert(un_le32(b.subrange(29, 33)) == low32(hash128(b.subrange(0, 29))));
        }/*-*/
        Ok(Self {
            block_type,
            checksum: Checksum::from_raw(checksum),
            data_length,
            uncompressed_length,
        })
    }
//@ END
}

/// decoding inverts encoding: the 33 bytes `encode_into` writes are accepted by `decode_from`, and only as `h`
proof fn lemma_header_roundtrip(h: Header, tail: Seq<u8>)
    ensures
        header_bytes(h).len() == 33,
        header_decodes(header_bytes(h) + tail, h),
        (header_bytes(h) + tail).skip(33) == tail,
        forall|h2: Header| header_decodes(header_bytes(h) + tail, h2) ==> h2 == h,
{
    broadcast use axiom_le;
    let p = header_prefix(h);
    let b = header_bytes(h) + tail;
    assert(MAGIC_BYTES@.len() == 4);
    assert(p.len() == 29);
    assert(b.subrange(0, 29) =~= p);
    assert(b.subrange(0, 4) =~= MAGIC_BYTES@);
    assert(b[4] == block_type_tag(h.block_type));
    assert(b.subrange(5, 21) =~= le128(h.checksum.0));
    assert(b.subrange(21, 25) =~= le32(h.data_length));
    assert(b.subrange(25, 29) =~= le32(h.uncompressed_length));
    assert(b.subrange(29, 33) =~= le32(low32(hash128(p))));
    assert(b.skip(33) =~= tail);
    assert forall|h2: Header| header_decodes(b, h2) implies h2 == h by {
        assert(block_type_tag(h2.block_type) == block_type_tag(h.block_type));
        assert(h2.checksum.0 == h.checksum.0);
    }
}

// ---------------- prelude (TRUSTED): byte slices (byteview), files ----------------
/// crate::Slice: immutable shared byte string
#[verifier::external_body]
pub struct Slice { p: u8 }
impl View for Slice { type V = Seq<u8>; uninterp spec fn view(&self) -> Seq<u8>; }
impl Clone for Slice { #[verifier::external_body] fn clone(&self) -> (r: Self) ensures r@ == self@ { unimplemented!() } }
/// `&buf[..]` used as an `io::Read` source (R19)
pub struct SliceReader { pub ghost rest: Seq<u8>, pub ghost whole: Seq<u8> }
impl Read for SliceReader {
    spec fn rest(&self) -> Seq<u8> { self.rest }
    uninterp spec fn seen(&self) -> Seq<u8>;
    type Id = Seq<u8>;
    #[verifier::prophetic] spec fn src_id(&self) -> Seq<u8> { self.whole }
    #[verifier::external_body]
    fn read(&mut self, buf: &mut [u8]) -> (r: Result<usize, Error>) { unimplemented!() }
}
impl SliceReader {
    /// Cursor::position: how much of the underlying slice has been consumed
    #[verifier::external_body]
    fn position(&self) -> (r: u64) ensures r == self.whole.len() - self.rest.len() { unimplemented!() }
}
impl Slice {
    #[verifier::external_body]
    pub fn len(&self) -> (r: usize) ensures r == self@.len() { unimplemented!() }
    /// Slice::from_reader: exactly `len` bytes or an error
    #[verifier::external_body]
    fn from_reader<R: Read>(reader: &mut R, len: usize) -> (r: Result<Slice, Error>)
        ensures (*old(reader)).src_id() == (*final(reader)).src_id(),
            r is Ok ==> (*old(reader)).rest().len() >= len && r->Ok_0@ == (*old(reader)).rest().subrange(0, len as int)
                && (*final(reader)).rest() == (*old(reader)).rest().skip(len as int)
    { unimplemented!() }
    /// `&mut &buf[..]` (R19)
    #[verifier::external_body]
    fn reader(&self) -> (r: SliceReader) ensures r.rest() == self@, r.whole == self@ { unimplemented!() }
    /// `&buf[a..]` (R19); panics like the slice index when out of range
    #[verifier::external_body]
    fn tail(&self, a: usize) -> (r: &[u8]) requires a <= self@.len() ensures r@ == self@.skip(a as int) { unimplemented!() }
    /// `&*buf` (R19)
    #[verifier::external_body]
    fn as_bytes(&self) -> (r: &[u8]) ensures r@ == self@ { unimplemented!() }
    /// `buf.slice(a..)` (R19)
    #[verifier::external_body]
    fn slice_from(&self, a: usize) -> (r: Slice) requires a <= self@.len() ensures r@ == self@.skip(a as int) { unimplemented!() }
}
#[verifier::external_body]
pub struct File { p: u8 }
impl File { pub uninterp spec fn content(&self) -> Seq<u8>; }
/// crate::file::read_exact (pread of exactly `size` bytes at `offset`, or an error)
#[verifier::external_body]
fn file_read_exact(file: &File, offset: u64, size: usize) -> (r: Result<Slice, Error>)
    ensures r is Ok ==> offset + size <= file.content().len() && r->Ok_0@ == file.content().subrange(offset as int, offset + size)
{ unimplemented!() }

//@ FROM src/compression.rs :: - :: enum CompressionType
/*+*/#[derive(Copy, Clone, PartialEq, Eq, Structural)]/*-*/
enum CompressionType {
    None,
}
//@ END

//@ FROM src/table/block/offset.rs :: - :: struct BlockOffset
/*+*/#[derive(Copy, Clone, PartialEq, Eq, Structural)]/*-*/
struct BlockOffset(u64);
//@ END

//@ FROM src/table/index_block/block_handle.rs :: - :: struct BlockHandle
/*+*/#[derive(Copy, Clone)]/*-*/
struct BlockHandle {
    offset: BlockOffset,

    size: u32,
}
//@ END
impl BlockHandle {
//@ FROM src/table/index_block/block_handle.rs :: impl BlockHandle :: fn size :: OBL C10.2
    fn size(&self) -> /*+*/(r:/*-*/ u32/*+*/) ensures r == self.size/*-*/ {
        self.size
    }
//@ END
//@ FROM src/table/index_block/block_handle.rs :: impl BlockHandle :: fn offset :: OBL C10.2
    fn offset(&self) -> /*+*/(r:/*-*/ BlockOffset/*+*/) ensures r == self.offset/*-*/ {
        self.offset
    }
//@ END
}

//@ FROM src/table/block/mod.rs :: - :: struct Block
struct Block {
    header: Header,
    data: Slice,
}
//@ END

/// `buf` is a block as stored: a well-formed header `h` followed by a payload whose xxh3-128 is the one the header records
spec fn stored_block_ok(buf: Seq<u8>, h: Header, data: Seq<u8>) -> bool {
    header_decodes(buf, h) && hash128(data) == h.checksum.0
}

impl Block {
//@ FROM src/table/block/mod.rs :: impl Block :: fn write_into :: OBL C12.9
//@ SUBST `crate :: Result < Header >` ==> `Result<Header, Error>`
//@ SUBST `crate :: hash :: hash128` ==> `hash128_exec`
    fn write_into<W: Write>(
        mut writer: &mut W,
        data: &[u8],
        block_type: BlockType,
        compression: CompressionType,
    ) -> /*+*/(r:/*-*/ Result<Header, Error>/*+*/)
        requires data@.len() <= u32::MAX
        ensures r is Ok ==> ({ let h = r->Ok_0;
            h.block_type == block_type && h.checksum.0 == hash128(data@) && h.data_length == data@.len() && h.uncompressed_length == data@.len()
            && (*final(writer)).written() == (*old(writer)).written() + header_bytes(h) + data@ })/*-*/
    {
        let mut header = Header {
            block_type,
            checksum: Checksum::from_raw(0), // <-- NOTE: Is set later on
            data_length: 0,                  // <-- NOTE: Is set later on

            uncompressed_length: data.len() as u32,
        };

        let data = match compression {
            CompressionType::None => data,
        };

        {
            header.data_length = data.len() as u32;
            header.checksum = Checksum::from_raw(hash128_exec(data));
        }

        header.encode_into(&mut writer)?;
        writer.write_all(data)?;

        Ok(header)
    }
//@ END

//@ FROM src/table/block/mod.rs :: impl Block :: fn from_reader :: OBL C10.2
//@ SUBST `crate :: Result < Self >` ==> `Result<Self, Error>`
//@ SUBST `crate :: hash :: hash128 ( & raw_data )` ==> `hash128_exec(raw_data.as_bytes())`
//@ SUBST `. inspect_err ( | _ | { } )` ==> ``
//@ SUBST `debug_assert_eq ! ( $1 ) ;` ==> ``
    fn from_reader<R: Read>(
        reader: &mut R,
        compression: CompressionType,
    ) -> /*+*/(r:/*-*/ Result<Self, Error>/*+*/)
        ensures r is Ok ==> ({ let b = (*old(reader)).rest(); let blk = r->Ok_0;
            b.len() >= 33 + blk.header.data_length
            && blk.data@ == b.subrange(33, 33 + blk.header.data_length)
            && stored_block_ok(b, blk.header, blk.data@)
            && (*final(reader)).rest() == b.skip(33 + blk.header.data_length) })/*-*/
    {
        let header = Header::decode_from(reader)?;
        let raw_data = Slice::from_reader(reader, header.data_length as usize)?;

        let checksum = Checksum::from_raw(hash128_exec(raw_data.as_bytes()));

        checksum.check(header.checksum)?;

        let data = match compression {
            CompressionType::None => raw_data,
        };

        Ok(Self { header, data })
    }
//@ END

//@ FROM src/table/block/mod.rs :: impl Block :: fn from_file :: OBL C10.2
//@ SUBST `crate :: Result < Self >` ==> `Result<Self, Error>`
//@ SUBST `crate :: file :: read_exact` ==> `file_read_exact`
//@ SUBST `* handle . offset ( )` ==> `handle.offset().0`
//@ SUBST `& mut & buf [ .. ]` ==> `&mut buf.reader()`
//@ SUBST `& buf [ $1 .. ]` ==> `buf.tail($1)`
//@ SUBST `crate :: hash :: hash128` ==> `hash128_exec`
//@ SUBST `buf . slice ( $1 .. )` ==> `buf.slice_from($1)`
//@ SUBST `. inspect_err ( | _ | { } )` ==> ``
//@ SUBST `debug_assert_eq ! ( $1 ) ;` ==> ``
    fn from_file(
        file: &File,
        handle: BlockHandle,
        compression: CompressionType,
    ) -> /*+*/(r:/*-*/ Result<Self, Error>/*+*/)
        ensures r is Ok ==> ({ let blk = r->Ok_0;
            handle.offset.0 + handle.size <= file.content().len()
            && ({ let buf = file.content().subrange(handle.offset.0 as int, handle.offset.0 + handle.size);
                  blk.data@ == buf.skip(33) && stored_block_ok(buf, blk.header, blk.data@) }) })/*-*/
    {
        let buf = file_read_exact(file, handle.offset().0, handle.size() as usize)?;

        let header = Header::decode_from(&mut buf.reader())?;

        let checksum = Checksum::from_raw(hash128_exec(buf.tail(Header::serialized_len())));

        checksum.check(header.checksum)?;

        let buf = match compression {
            CompressionType::None => {
                let value = buf.slice_from(Header::serialized_len());

                {
                }

                value
            }
        };

        Ok(Self { header, data: buf })
    }
//@ END
}

/// C12.9: what `write_into` appends is read back by `from_reader` as the same header and the same payload (or an error)
proof fn lemma_block_roundtrip(h: Header, data: Seq<u8>, tail: Seq<u8>, h2: Header, data2: Seq<u8>)
    requires
        h.checksum.0 == hash128(data), h.data_length == data.len(),
        ({ let b = header_bytes(h) + data + tail;
           b.len() >= 33 + h2.data_length && data2 == b.subrange(33, 33 + h2.data_length) && stored_block_ok(b, h2, data2) }),
    ensures h2 == h, data2 == data,
{
    lemma_header_roundtrip(h, data + tail);
    assert(header_bytes(h) + data + tail =~= header_bytes(h) + (data + tail));
    let b = header_bytes(h) + data + tail;
    assert(b.subrange(33, 33 + h.data_length) =~= data);
}

// ---------------- block cache (cache.rs) and load_block (table/util.rs) ----------------
pub type TreeId = u64;
pub type TableId = u64;
pub type BlobFileId = u64;
pub type UserValue = Slice;

/// quick_cache::sync::Cache (TRUSTED model, rule R15): a concurrent map with eviction behind `&self`; its content is
/// the ghost token `fx` = everything inserted and not removed.  `get` may miss (eviction) but never invents an item.
#[verifier::external_body]
#[verifier::reject_recursive_types(K)]
#[verifier::reject_recursive_types(V)]
pub struct QuickCache<K, V> { p: core::marker::PhantomData<(K, V)> }
pub struct CacheState<K, V> { pub ghost map: Map<K, V> }
impl<K, V> QuickCache<K, V> {
    #[verifier::external_body]
    fn get(&self, key: &K, Tracked(fx): Tracked<&mut CacheState<K, V>>) -> (r: Option<V>)
        ensures *final(fx) == *old(fx), r is Some ==> old(fx).map.contains_key(*key) && r->Some_0 == old(fx).map[*key]
    { unimplemented!() }
    #[verifier::external_body]
    fn insert(&self, key: K, value: V, Tracked(fx): Tracked<&mut CacheState<K, V>>)
        ensures final(fx).map == old(fx).map.insert(key, value)
    { unimplemented!() }
}

//@ FROM src/table/id.rs :: - :: struct GlobalTableId
/*+*/#[derive(Copy, Clone, PartialEq, Eq, Structural)]/*-*/
struct GlobalTableId(TreeId, TableId);
//@ END
impl GlobalTableId {
//@ FROM src/table/id.rs :: impl GlobalTableId :: fn tree_id :: OBL C11.5
    fn tree_id(&self) -> /*+*/(r:/*-*/ TreeId/*+*/) ensures r == self.0/*-*/ {
        self.0
    }
//@ END
//@ FROM src/table/id.rs :: impl GlobalTableId :: fn table_id :: OBL C11.5
    fn table_id(&self) -> /*+*/(r:/*-*/ TableId/*+*/) ensures r == self.1/*-*/ {
        self.1
    }
//@ END
}

//@ FROM src/vlog/handle.rs :: - :: struct ValueHandle
/*+*/#[derive(Copy, Clone)]/*-*/
struct ValueHandle {
    blob_file_id: BlobFileId,

    offset: u64,

    on_disk_size: u32,
}
//@ END

impl Block {
    /// `#[derive(Clone)]` of the source, spelled out (inherent, so that the private fields can be named in the contract)
    fn clone(&self) -> (r: Self) ensures r.header == self.header, r.data@ == self.data@ { Block { header: self.header, data: self.data.clone() } }
}

//@ FROM src/cache.rs :: - :: enum Item
enum Item {
    Block(Block),
    Blob(UserValue),
}
//@ END

//@ FROM src/cache.rs :: - :: struct CacheKey
/*+*/pub/*-*/ struct CacheKey(/*+*/pub/*-*/ u8, /*+*/pub/*-*/ u64, /*+*/pub/*-*/ u64, /*+*/pub/*-*/ u64);
//@ END

impl vstd::std_specs::convert::FromSpecImpl<(u8, u64, u64, u64)> for CacheKey {
    open spec fn obeys_from_spec() -> bool { true }
    open spec fn from_spec(t: (u8, u64, u64, u64)) -> CacheKey { CacheKey(t.0, t.1, t.2, t.3) }
}
impl From<(u8, u64, u64, u64)> for CacheKey {
//@ FROM src/cache.rs :: From < ( u8 , u64 , u64 , u64 ) > for CacheKey :: fn from :: OBL C11.5
//@ SUBST `fn from ( ( tag , root_id , table_id , offset ) : ( u8 , u64 , u64 , u64 ) ) -> Self {` ==> `fn from(t__: (u8, u64, u64, u64)) -> Self { let (tag, root_id, table_id, offset) = t__;`
    fn from(t__: (u8, u64, u64, u64)) -> /*+*/(r:/*-*/ Self/*+*/) ensures r == CacheKey(t__.0, t__.1, t__.2, t__.3)/*-*/ { let (tag, root_id, table_id, offset) = t__;
        Self(tag, root_id, table_id, offset)
    }
//@ END
}

const TAG_BLOCK: u8 = 0;
const TAG_BLOB: u8 = 1;

//@ FROM src/cache.rs :: - :: struct Cache
//@ SUBST `QuickCache < CacheKey , Item , BlockWeighter , rustc_hash :: FxBuildHasher >` ==> `QuickCache<CacheKey, Item>`
struct Cache {
    data: QuickCache<CacheKey, Item>,

    capacity: u64,
}
//@ END

/// the cache key of a table block / of a blob: kind tag, tree id, file id, offset - injective in all four
spec fn block_key(id: GlobalTableId, offset: u64) -> CacheKey { CacheKey(0, id.0, id.1, offset) }
spec fn blob_key(vlog_id: TreeId, blob_file_id: BlobFileId, offset: u64) -> CacheKey { CacheKey(1, vlog_id, blob_file_id, offset) }
/// items are stored under a key of their own kind (what makes the `unreachable!` arms unreachable)
spec fn well_tagged(m: Map<CacheKey, Item>) -> bool {
    forall|k: CacheKey| #[trigger] m.contains_key(k) ==> (k.0 == 0 ==> m[k] is Block) && (k.0 == 1 ==> m[k] is Blob) && (k.0 == 0 || k.0 == 1)
}

impl Cache {
//@ FROM src/cache.rs :: impl Cache :: fn get_block :: OBL C11.5
//@ SUBST `self . data . get ( $1 )` ==> `self.data.get($1, Tracked(fx))`
//@ SUBST `* offset` ==> `offset.0`
    fn get_block(&self, id: GlobalTableId, offset: BlockOffset/*+*/, Tracked(fx): Tracked<&mut CacheState<CacheKey, Item>>/*-*/) -> /*+*/(r:/*-*/ Option<Block>/*+*/)
        requires well_tagged(old(fx).map)
        ensures *final(fx) == *old(fx),
            r is Some ==> old(fx).map.contains_key(block_key(id, offset.0)) && old(fx).map[block_key(id, offset.0)] == Item::Block(r->Some_0)/*-*/
    {
        let key: CacheKey = (TAG_BLOCK, id.tree_id(), id.table_id(), offset.0).into();

        Some(match self.data.get(&key, Tracked(fx))? {
            Item::Block(block) => block,
            Item::Blob(_) => unreachable!("invalid cache item"),
        })
    }
//@ END

//@ FROM src/cache.rs :: impl Cache :: fn insert_block :: OBL C11.5
//@ SUBST `self . data . insert ( $1 )` ==> `self.data.insert($1 Tracked(fx))`
//@ SUBST `* offset` ==> `offset.0`
    fn insert_block(&self, id: GlobalTableId, offset: BlockOffset, block: Block/*+*/, Tracked(fx): Tracked<&mut CacheState<CacheKey, Item>>)
        requires well_tagged(old(fx).map)
        ensures final(fx).map == old(fx).map.insert(block_key(id, offset.0), Item::Block(block)), well_tagged(final(fx).map/*-*/)
    {
        self.data.insert(
            (TAG_BLOCK, id.tree_id(), id.table_id(), offset.0).into(),
            Item::Block(block),
        Tracked(fx));
    }
//@ END

//@ FROM src/cache.rs :: impl Cache :: fn insert_blob :: OBL C11.5
//@ SUBST `self . data . insert ( $1 )` ==> `self.data.insert($1 Tracked(fx))`
//@ SUBST `crate :: TreeId` ==> `TreeId`
//@ SUBST `crate :: vlog :: ValueHandle` ==> `ValueHandle`
    fn insert_blob(
        &self,
        vlog_id: TreeId,
        vhandle: &ValueHandle,
        value: UserValue,
        /*+*/Tracked(fx): Tracked<&mut CacheState<CacheKey, Item>>
    )
        requires well_tagged(old(fx).map)
        ensures final(fx).map == old(fx).map.insert(blob_key(vlog_id, vhandle.blob_file_id, vhandle.offset), Item::Blob(value)), well_tagged(final(fx).map/*-*/)
    {
        self.data.insert(
            (TAG_BLOB, vlog_id, vhandle.blob_file_id, vhandle.offset).into(),
            Item::Blob(value),
        Tracked(fx));
    }
//@ END

//@ FROM src/cache.rs :: impl Cache :: fn get_blob :: OBL C11.5
//@ SUBST `self . data . get ( $1 )` ==> `self.data.get($1, Tracked(fx))`
//@ SUBST `crate :: TreeId` ==> `TreeId`
//@ SUBST `crate :: vlog :: ValueHandle` ==> `ValueHandle`
    fn get_blob(
        &self,
        vlog_id: TreeId,
        vhandle: &ValueHandle,
        /*+*/Tracked(fx): Tracked<&mut CacheState<CacheKey, Item>>/*-*/
    ) -> /*+*/(r:/*-*/ Option<UserValue>/*+*/)
        requires well_tagged(old(fx).map)
        ensures *final(fx) == *old(fx),
            r is Some ==> ({ let k = blob_key(vlog_id, vhandle.blob_file_id, vhandle.offset); old(fx).map.contains_key(k) && old(fx).map[k] == Item::Blob(r->Some_0) })/*-*/
    {
        let key: CacheKey = (TAG_BLOB, vlog_id, vhandle.blob_file_id, vhandle.offset).into();

        Some(match self.data.get(&key, Tracked(fx))? {
            Item::Blob(blob) => blob,
            Item::Block(_) => unreachable!("invalid cache item"),
        })
    }
//@ END
}

/// ghost: the bytes of the file of table `id` (table files are immutable once written)
uninterp spec fn table_file(id: GlobalTableId) -> Seq<u8>;
#[verifier::external_body] pub struct Path { p: u8 }
impl Path { uninterp spec fn names_table(&self, id: GlobalTableId) -> bool; }
impl File {
    /// std::fs::File::open on a table path: a descriptor of that table's file
    #[verifier::external_body]
    fn open(path: &Path) -> (r: Result<File, Error>)
        ensures r is Ok ==> forall|id: GlobalTableId| #[trigger] path.names_table(id) ==> r->Ok_0.content() == table_file(id)
    { unimplemented!() }
}
/// FileAccessor (pinned descriptor or descriptor table; its keying is obligation C11.6): hands out only descriptors
/// registered for this table, and load_block must register only a descriptor of this table's file
#[verifier::external_body] pub struct FileAccessor { p: u8 }
impl FileAccessor {
    #[verifier::external_body]
    fn access_for_table(&self, table_id: &GlobalTableId) -> (r: Option<std::sync::Arc<File>>)
        ensures r is Some ==> r->Some_0.content() == table_file(*table_id)
    { unimplemented!() }
    #[verifier::external_body]
    fn insert_for_table(&self, table_id: GlobalTableId, fd: std::sync::Arc<File>)
        requires fd.content() == table_file(table_id)
    { unimplemented!() }
}

/// `b` is what a verified load of the block at `offset` of table `id` yields
spec fn block_of(id: GlobalTableId, offset: u64, b: Block) -> bool {
    exists|size: u32| #[trigger] stored_in(id, offset, size, b)
}
spec fn stored_in(id: GlobalTableId, offset: u64, size: u32, b: Block) -> bool {
    offset + size <= table_file(id).len() && stored_at(table_file(id).subrange(offset as int, offset + size), b)
}
spec fn stored_at(buf: Seq<u8>, b: Block) -> bool { b.data@ == buf.skip(33) && stored_block_ok(buf, b.header, b.data@) }
spec fn entry_ok(k: CacheKey, it: Item) -> bool { k.0 == 0 ==> it is Block && block_of(GlobalTableId(k.1, k.2), k.3, it->Block_0) }
/// cache invariant: every cached block is a verified block of the table and offset it is filed under
spec fn cache_ok(m: Map<CacheKey, Item>) -> bool {
    well_tagged(m) && forall|k: CacheKey| #[trigger] m.contains_key(k) ==> entry_ok(k, m[k])
}

//@ FROM src/table/util.rs :: - :: fn load_block :: OBL C10.3, C11.5
//@ SUBST `crate :: Result < Block >` ==> `Result<Block, Error>`
//@ SUBST `cache . get_block ( $1 )` ==> `cache.get_block($1, Tracked(fx))`
//@ SUBST `cache . insert_block ( $1 )` ==> `cache.insert_block($1, Tracked(fx))`
//@ SUBST `std :: fs :: File :: open` ==> `File::open`
fn load_block(
    table_id: GlobalTableId,
    path: &Path,
    file_accessor: &FileAccessor,
    cache: &Cache,
    handle: &BlockHandle,
    block_type: BlockType,
    compression: CompressionType,
    /*+*/Tracked(fx): Tracked<&mut CacheState<CacheKey, Item>>/*-*/
) -> /*+*/(r:/*-*/ Result<Block, Error>/*+*/)
    requires cache_ok(old(fx).map), path.names_table(table_id)
    ensures cache_ok(final(fx).map),
        r is Ok ==> block_of(table_id, handle.offset.0, r->Ok_0)
            && (r->Ok_0.header.block_type == block_type || old(fx).map.contains_key(block_key(table_id, handle.offset.0)))/*-*/
{
    if let Some(block) = cache.get_block(table_id, handle.offset(), Tracked(fx)) {
        /*+*/proof { assert(entry_ok(block_key(table_id, handle.offset.0), old(fx).map[block_key(table_id, handle.offset.0)])); }/*-*/
        return Ok(block);
    }

    let (fd, fd_cache_miss) = if let Some(cached_fd) = file_accessor.access_for_table(&table_id) {
        (cached_fd, false)
    } else {
        let fd = File::open(path)?;

        (Arc::new(fd), true)
    };

    let block = Block::from_file(&fd, *handle, compression)?;

    if block.header.block_type != block_type {
        return Err(Error::InvalidTag((
            "BlockType",
            block.header.block_type.into(),
        )));
    }

    if fd_cache_miss {
        file_accessor.insert_for_table(table_id, fd);
    }

    /*+*/proof { assert(stored_in(table_id, handle.offset.0, handle.size, block)); }
    let ghost m0 = fx.map;/*-*/
    cache.insert_block(table_id, handle.offset(), block.clone(), Tracked(fx));
    /*+*/proof {
        let k = block_key(table_id, handle.offset.0);
        let c = fx.map[k]->Block_0;
        assert(stored_in(table_id, handle.offset.0, handle.size, c));
        assert forall|k2: CacheKey| #[trigger] fx.map.contains_key(k2) implies entry_ok(k2, fx.map[k2]) by {
            if k2 != k { assert(m0.contains_key(k2)); }
        }
    }/*-*/

    Ok(block)
}
//@ END

// ---------------- blob frames (vlog/blob_file/reader.rs) ----------------
/// xxhash_rust::xxh3::Xxh3 (same streaming contract as Xxh3Default)
#[verifier::external_body]
pub struct Xxh3 { p: u8 }
impl Xxh3 {
    pub uninterp spec fn fed(&self) -> Seq<u8>;
    #[verifier::external_body] pub fn default() -> (r: Self) ensures r.fed() == Seq::<u8>::empty() { unimplemented!() }
    #[verifier::external_body] pub fn update(&mut self, b: &Slice) ensures final(self).fed() == old(self).fed() + b@ { unimplemented!() }
    #[verifier::external_body] pub fn digest128(&self) -> (r: u128) ensures r == hash128(self.fed()) { unimplemented!() }
}
pub const BLOB_HEADER_MAGIC: [u8; 4] = [b'B', b'L', b'O', b'B'];
pub const BLOB_HEADER_LEN: usize = 38;   // 4 + 16 + 8 + 2 + 4 + 4 (src/vlog/blob_file/writer.rs)
pub type UserKey = Slice;
struct BlobMeta { compression: CompressionType }
struct BlobInner { id: BlobFileId, meta: BlobMeta }
struct BlobFile(Arc<BlobInner>);
impl BlobFile { fn id(&self) -> (r: BlobFileId) ensures r == self.0.id { self.0.id } }

//@ FROM src/vlog/blob_file/reader.rs :: - :: struct Reader
//@ SUBST `< 'a >` ==> `<'a>`
struct Reader<'a> {
    blob_file: &'a BlobFile,
    file: &'a File,
}
//@ END

/// the stored frame of a blob is intact: magic, and the recorded xxh3-128 equals the hash of key bytes ++ payload bytes
spec fn blob_frame_ok(frame: Seq<u8>, v: Seq<u8>) -> bool {
    frame.len() >= 38
    && frame.subrange(0, 4) == BLOB_HEADER_MAGIC@
    && ({ let key_len = un_le16(frame.subrange(28, 30)) as int;   // the stored key length
          frame.len() >= 38 + key_len && un_le128(frame.subrange(4, 20)) == hash128(frame.subrange(38, 38 + key_len) + v) })
}

impl<'a> Reader<'a> {
//@ FROM src/vlog/blob_file/reader.rs :: impl < 'a > Reader < 'a > :: fn get :: OBL C10.9
//@ SUBST `crate :: Result < UserValue >` ==> `Result<UserValue, Error>`
//@ SUBST `& 'a [ u8 ]` ==> `&'a [u8]`
//@ SUBST `debug_assert_eq ! ( $1 ) ;` ==> ``
//@ SUBST `crate :: file :: read_exact` ==> `file_read_exact`
//@ SUBST `Cursor :: new ( & value [ .. ] )` ==> `value.reader()`
//@ SUBST `read_u128 :: < LittleEndian >` ==> `read_u128_le`
//@ SUBST `read_u64 :: < LittleEndian >` ==> `read_u64_le`
//@ SUBST `read_u16 :: < LittleEndian >` ==> `read_u16_le`
//@ SUBST `read_u32 :: < LittleEndian >` ==> `read_u32_le`
//@ SUBST `crate :: UserKey :: from_reader` ==> `Slice::from_reader`
//@ SUBST `value . slice ( $1 .. )` ==> `value.slice_from($1)`
//@ SUBST `xxhash_rust :: xxh3 :: Xxh3 :: default ( )` ==> `Xxh3::default()`
    fn get(&self, key: &'a [u8], vhandle: &'a ValueHandle) -> /*+*/(r:/*-*/ Result<UserValue, Error>/*+*/)
        requires vhandle.on_disk_size as int + 38 + key@.len() <= usize::MAX
        ensures r is Ok ==> ({ let total = vhandle.on_disk_size as int + 38 + key@.len();
            vhandle.offset + total <= self.file.content().len()
            && ({ let frame = self.file.content().subrange(vhandle.offset as int, vhandle.offset + total);
                  r->Ok_0@ == frame.skip(38 + key@.len() as int) && blob_frame_ok(frame, r->Ok_0@) }) })/*-*/
    {
        /*+*/let ghost klen = key@.len() as int;/*-*/
        let add_size = (BLOB_HEADER_LEN as u64) + (key.len() as u64);

        let value = file_read_exact(
            self.file,
            vhandle.offset,
            (u64::from(vhandle.on_disk_size) + add_size) as usize,
        )?;

        let mut reader = value.reader();
        /*+*/let ghost fr = value@;/*-*/

        let mut magic = [0u8; 4];
        reader.read_exact(&mut magic)?;

        if magic != BLOB_HEADER_MAGIC {
            return Err(Error::InvalidHeader("Blob"));
        }

        let expected_checksum = reader.read_u128_le()?;

        let _seqno = reader.read_u64_le()?;
        let key_len = reader.read_u16_le()?;

        let real_val_len = reader.read_u32_le()?;

        let _on_disk_val_len = reader.read_u32_le()? as usize;

        let key = Slice::from_reader(&mut reader, key_len.into())?;

        /*+*/proof {
            assert(fr.subrange(0, 4) =~= magic@);
            assert(fr.skip(4).subrange(0, 16) =~= fr.subrange(4, 20));
            assert(fr.skip(4).skip(16).skip(8).subrange(0, 2) =~= fr.subrange(28, 30));
            assert(fr.skip(4).skip(16).skip(8).skip(2).skip(4).skip(4).subrange(0, key_len as int) =~= fr.subrange(38, 38 + key_len));
        }/*-*/
        let raw_data = value.slice_from((add_size as usize));

        {
            let checksum = {
                let mut hasher = Xxh3::default();
                hasher.update(&key);
                hasher.update(&raw_data);
                hasher.digest128()
            };

            if expected_checksum != checksum {
                return Err(Error::ChecksumMismatch {
                    got: Checksum::from_raw(checksum),
                    expected: Checksum::from_raw(expected_checksum),
                });
            }
        }

        let value = match &self.blob_file.0.meta.compression {
            CompressionType::None => raw_data,
        };

        /*+*/proof {
            let total = vhandle.on_disk_size as int + 38 + klen;
            assert(vhandle.offset + total <= self.file.content().len());
            assert(fr == self.file.content().subrange(vhandle.offset as int, vhandle.offset + total));
            assert(value@ == fr.skip(38 + klen));
            assert(fr.len() >= 38);
            assert(fr.subrange(0, 4) == BLOB_HEADER_MAGIC@);
            assert(key_len == un_le16(fr.subrange(28, 30)));
            assert(expected_checksum == un_le128(fr.subrange(4, 20)));
            assert(fr.len() >= 38 + key_len);
            assert(expected_checksum == hash128(fr.subrange(38, 38 + key_len) + value@));
        }/*-*/
        Ok(value)
    }
//@ END
}

// ---------------- blob frames, writer side (vlog/blob_file/writer.rs: write_raw) ----------------
/// the bytes of one stored blob: magic, xxh3-128 of key ++ payload, seqno, key length, real value length, on-disk value length, key, payload
spec fn blob_frame(key: Seq<u8>, seqno: u64, value: Seq<u8>, uncompressed_len: u32) -> Seq<u8> {
    BLOB_HEADER_MAGIC@ + le128(hash128(key + value)) + le64(seqno) + le16(key.len() as u16) + le32(uncompressed_len) + le32(value.len() as u32) + key + value
}
/// xxh3::Xxh3::update with a byte slice
impl Xxh3 {
    #[verifier::external_body] pub fn update_bytes(&mut self, b: &[u8]) ensures final(self).fed() == old(self).fed() + b@ { unimplemented!() }
}
/// `std::borrow::Cow::Borrowed(value)`: the writer's payload when no compression applies
struct CowBytes<'a> { b: &'a [u8] }
impl<'a> CowBytes<'a> {
    fn borrowed(b: &'a [u8]) -> (r: Self) ensures r.b@ == b@ { CowBytes { b } }
    fn len(&self) -> (r: usize) ensures r == self.b@.len() { self.b.len() }
    fn bytes(&self) -> (r: &[u8]) ensures r@ == self.b@ { self.b }
}
#[derive(Copy, Clone)] enum BlobCompression { Standard(CompressionType), Passthrough(CompressionType) }
struct BlobWriter<W: Write> { writer: W, blob_compression: BlobCompression }

//@ WRAPPER_BEGIN
impl<W: Write> BlobWriter<W> {
    /// wrapper (generated) around the statements of blob_file::Writer::write_raw that emit one frame (the bookkeeping of offsets,
    /// counters and first / last key around them is not under contract)
    fn write_frame(&mut self, key: &[u8], seqno: u64, value: &[u8], uncompressed_len: u32) -> (r: Result<(), Error>)
        requires key@.len() <= u16::MAX, value@.len() <= u32::MAX
        ensures r is Ok ==> (*final(self)).writer.written() == (*old(self)).writer.written() + blob_frame(key@, seqno, value@, uncompressed_len)
    {
//@ FROM src/vlog/blob_file/writer.rs :: impl Writer :: fn write_raw :: STMTS `self . writer . write_all ( BLOB_HEADER_MAGIC ) ? ;` .. `<self . offset += BLOB_HEADER_MAGIC` :: OBL C08.10, C12.12
//@ SUBST `write_all ( BLOB_HEADER_MAGIC )` ==> `write_all(&BLOB_HEADER_MAGIC)`
//@ SUBST `std :: borrow :: Cow :: Borrowed ( value )` ==> `CowBytes::borrowed(value)`
//@ SUBST `xxhash_rust :: xxh3 :: Xxh3 :: default ( )` ==> `Xxh3::default()`
//@ SUBST `hasher . update ( key )` ==> `hasher.update_bytes(key)`
//@ SUBST `hasher . update ( & value )` ==> `hasher.update_bytes(value.bytes())`
//@ SUBST `write_all ( & value )` ==> `write_all(value.bytes())`
//@ SUBST `write_u128 :: < LittleEndian >` ==> `write_u128_le`
//@ SUBST `write_u64 :: < LittleEndian >` ==> `write_u64_le`
//@ SUBST `write_u16 :: < LittleEndian >` ==> `write_u16_le`
//@ SUBST `write_u32 :: < LittleEndian >` ==> `write_u32_le`
        /*+*/let ghost w0 = self.writer.written();/*-*/
        self.writer.write_all(&BLOB_HEADER_MAGIC)?;

        let value = match &self.blob_compression {
            _ => CowBytes::borrowed(value),
        };

        let checksum = {
            let mut hasher = Xxh3::default();
            hasher.update_bytes(key);
            hasher.update_bytes(value.bytes());
            hasher.digest128()
        };

        // Write checksum
        self.writer.write_u128_le(checksum)?;

        // Write seqno
        self.writer.write_u64_le(seqno)?;

        self.writer.write_u16_le(key.len() as u16)?;

        // Write uncompressed value length
        self.writer.write_u32_le(uncompressed_len)?;

        // Write compressed (on-disk) value length
        self.writer.write_u32_le(value.len() as u32)?;

        self.writer.write_all(key)?;
        self.writer.write_all(value.bytes())?;
        /*+*/proof { assert(self.writer.written() =~= w0 + blob_frame(key@, seqno, value.b@, uncompressed_len)); }
        Ok(())/*-*/
//@ END
    }
}
//@ WRAPPER_END

/// C08.10 / C12.12: what write_raw stores is accepted by Reader::get, which then returns exactly the stored payload
proof fn lemma_blob_roundtrip(key: Seq<u8>, seqno: u64, value: Seq<u8>, ul: u32)
    requires key.len() <= u16::MAX, value.len() <= u32::MAX
    ensures ({ let f = blob_frame(key, seqno, value, ul); f.len() == 38 + key.len() + value.len() && f.skip(38 + key.len() as int) == value && blob_frame_ok(f, value) })
{
    broadcast use axiom_le;
    let f = blob_frame(key, seqno, value, ul);
    assert(BLOB_HEADER_MAGIC@.len() == 4);
    assert(f.len() == 38 + key.len() + value.len());
    assert(f.skip(38 + key.len() as int) =~= value);
    assert(f.subrange(0, 4) =~= BLOB_HEADER_MAGIC@);
    assert(f.subrange(4, 20) =~= le128(hash128(key + value)));
    assert(f.subrange(28, 30) =~= le16(key.len() as u16));
    assert(f.subrange(38, 38 + key.len() as int) =~= key);
}

// ---------------- vlog::Accessor::get (src/vlog/accessor.rs) ----------------
/// ghost: the bytes of blob file `id` of tree `tree` (blob files are immutable once written)
uninterp spec fn blob_file_bytes(tree: TreeId, id: BlobFileId) -> Seq<u8>;
/// v is the checksummed payload the handle addresses in its blob file (for a key of length klen)
spec fn blob_of(tree: TreeId, vh: ValueHandle, klen: int, v: Seq<u8>) -> bool {
    let total = vh.on_disk_size as int + 38 + klen;
    vh.offset + total <= blob_file_bytes(tree, vh.blob_file_id).len()
    && ({ let frame = blob_file_bytes(tree, vh.blob_file_id).subrange(vh.offset as int, vh.offset + total);
          v == frame.skip(38 + klen) && blob_frame_ok(frame, v) })
}
/// cache invariant for blobs: a cached blob is a verified payload of the frame it is filed under (for some key length)
spec fn blob_entry_ok(k: CacheKey, it: Item) -> bool {
    k.0 == 1 ==> it is Blob && exists|klen: int, size: u32| #[trigger] blob_of(k.1, ValueHandle { blob_file_id: k.2, offset: k.3, on_disk_size: size }, klen, it->Blob_0@)
}
spec fn blob_cache_ok(m: Map<CacheKey, Item>) -> bool { well_tagged(m) && forall|k: CacheKey| #[trigger] m.contains_key(k) ==> blob_entry_ok(k, m[k]) }

/// version::BlobFileList: the blob files of the version, by id; a listed file is the blob file with that id of this tree
struct BlobFileList { ghost ids: Set<BlobFileId> }
impl BlobFileList {
    #[verifier::external_body]
    fn get(&self, key: BlobFileId) -> (r: Option<&BlobFileH>) ensures r is Some ==> self.ids.contains(key) && r->Some_0.id == key, r is None ==> !self.ids.contains(key) { unimplemented!() }
}
/// a blob file handle (vlog::BlobFile) as the accessor uses it
struct BlobFileH { id: BlobFileId, fa: BlobFa, bf: BlobFile }
impl BlobFileH {
    fn id(&self) -> (r: BlobFileId) ensures r == self.id { self.id }
    fn file_accessor(&self) -> (r: &BlobFa) ensures r == &self.fa { &self.fa }
    fn as_blob_file(&self) -> (r: &BlobFile) ensures r == &self.bf { &self.bf }
}
/// FileAccessor of a blob file (keying: unit fd_table, C11.6): hands out only descriptors registered for this blob file
struct BlobFa { p: u8 }
impl BlobFa {
    #[verifier::external_body]
    fn access_for_blob_file(&self, id: &GlobalTableId) -> (r: Option<Arc<File>>) ensures r is Some ==> r->Some_0.content() == blob_file_bytes(id.0, id.1) { unimplemented!() }
    #[verifier::external_body]
    fn insert_for_blob_file(&self, id: GlobalTableId, fd: Arc<File>) requires fd.content() == blob_file_bytes(id.0, id.1) { unimplemented!() }
}
/// `GlobalTableId::from((tree, id))` (src/table/id.rs, verified in unit table_recover, C11.7)
#[verifier::external_body] fn gid_of(tree: TreeId, id: TableId) -> (r: GlobalTableId) ensures r == GlobalTableId(tree, id) { unimplemented!() }
/// `base_path.join(vhandle.blob_file_id.to_string())`: the path of blob file `id` of the tree rooted here
#[verifier::external_body] struct BlobPath { p: u8 }
impl Path {
    uninterp spec fn tree_of(&self) -> TreeId;
    #[verifier::external_body] fn join_blob(&self, id: BlobFileId) -> (r: BlobPath) ensures r.names() == (self.tree_of(), id) { unimplemented!() }
}
impl BlobPath { uninterp spec fn names(&self) -> (TreeId, BlobFileId); }
impl File {
    #[verifier::external_body]
    fn open_blob(path: BlobPath) -> (r: Result<File, Error>) ensures r is Ok ==> r->Ok_0.content() == blob_file_bytes(path.names().0, path.names().1) { unimplemented!() }
}
struct Accessor<'a>(&'a BlobFileList);
impl Slice { }

impl<'a> Reader<'a> {
//@ FROM src/vlog/blob_file/reader.rs :: impl < 'a > Reader < 'a > :: fn new :: OBL C10.10
    fn new(blob_file: &'a BlobFile, file: &'a File) -> /*+*/(r:/*-*/ Self/*+*/) ensures r.blob_file == blob_file, r.file == file/*-*/ {
        Self { blob_file, file }
    }
//@ END
}

impl<'a> Accessor<'a> {
//@ FROM src/vlog/accessor.rs :: impl < 'a > Accessor < 'a > :: fn get :: OBL C10.10, C08.13
//@ SUBST `crate :: Result < Option < UserValue > >` ==> `Result<Option<UserValue>, Error>`
//@ SUBST `cache . get_blob ( $1 )` ==> `cache.get_blob($1, Tracked(fx))`
//@ SUBST `cache . insert_blob ( $1 )` ==> `cache.insert_blob($1, Tracked(fx))`
//@ SUBST `File :: open ( base_path . join ( vhandle . blob_file_id . to_string ( ) ) , ) ?` ==> `File::open_blob(base_path.join_blob(vhandle.blob_file_id))?`
//@ SUBST `Reader :: new ( blob_file , & file )` ==> `Reader::new(blob_file.as_blob_file(), &file)`
//@ SUBST `GlobalTableId :: from ( ( tree_id , blob_file . id ( ) ) )` ==> `gid_of(tree_id, blob_file.id())`
    fn get(
        &self,
        tree_id: TreeId,
        base_path: &Path,
        key: &[u8],
        vhandle: &ValueHandle,
        cache: &Cache,
        /*+*/Tracked(fx): Tracked<&mut CacheState<CacheKey, Item>>/*-*/
    ) -> /*+*/(r:/*-*/ Result<Option<UserValue>, Error>/*+*/)
        requires blob_cache_ok(old(fx).map), base_path.tree_of() == tree_id, vhandle.on_disk_size as int + 38 + key@.len() <= usize::MAX
        ensures blob_cache_ok(final(fx).map),
            // what is served is the checksummed payload of the addressed frame - from the file just verified, or from the cache
            // where only such payloads are filed
            r is Ok && r->Ok_0 is Some ==> exists|klen: int, size: u32| #[trigger] blob_of(tree_id, ValueHandle { blob_file_id: vhandle.blob_file_id, offset: vhandle.offset, on_disk_size: size }, klen, r->Ok_0->Some_0@),
            r is Ok && r->Ok_0 is None ==> !self.0.ids.contains(vhandle.blob_file_id),/*-*/
    {
        if let Some(value) = cache.get_blob(tree_id, vhandle, Tracked(fx)) {
            /*+*/proof { assert(blob_entry_ok(blob_key(tree_id, vhandle.blob_file_id, vhandle.offset), old(fx).map[blob_key(tree_id, vhandle.blob_file_id, vhandle.offset)])); }/*-*/
            return Ok(Some(value));
        }

        let Some(blob_file) = self.0.get(vhandle.blob_file_id) else {
            return Ok(None);
        };

        let bf_id = gid_of(tree_id, blob_file.id());

        let (file, fd_cache_miss) =
            if let Some(cached_fd) = blob_file.file_accessor().access_for_blob_file(&bf_id) {
                (cached_fd, false)
            } else {
                let file = Arc::new(File::open_blob(base_path.join_blob(vhandle.blob_file_id))?);
                (file, true)
            };

        let value = Reader::new(blob_file.as_blob_file(), &file).get(key, vhandle)?;
        /*+*/let ghost m0 = fx.map;/*-*/
        cache.insert_blob(tree_id, vhandle, value.clone(), Tracked(fx));
        /*+*/proof {
            let k = blob_key(tree_id, vhandle.blob_file_id, vhandle.offset);
            assert((*file).content() == blob_file_bytes(tree_id, vhandle.blob_file_id));
            assert(blob_of(tree_id, ValueHandle { blob_file_id: vhandle.blob_file_id, offset: vhandle.offset, on_disk_size: vhandle.on_disk_size }, key@.len() as int, value@));
            let c = fx.map[k]->Blob_0;
            assert(c@ == value@);
            assert(blob_of(k.1, ValueHandle { blob_file_id: k.2, offset: k.3, on_disk_size: vhandle.on_disk_size }, key@.len() as int, c@));
            assert forall|k2: CacheKey| #[trigger] fx.map.contains_key(k2) implies blob_entry_ok(k2, fx.map[k2]) by {
                if k2 != k { assert(m0.contains_key(k2)); }
            }
        }/*-*/

        if fd_cache_miss {
            blob_file.file_accessor().insert_for_blob_file(bf_id, file);
        }
        /*+*/proof { assert(blob_of(tree_id, ValueHandle { blob_file_id: vhandle.blob_file_id, offset: vhandle.offset, on_disk_size: vhandle.on_disk_size }, key@.len() as int, value@));
            assert(Ok::<Option<UserValue>, Error>(Some(value))->Ok_0->Some_0@ == value@); }/*-*/

        Ok(Some(value))
    }
//@ END
}

// ---------------- blob pointers (vlog/handle.rs, blob_tree/handle.rs) ----------------
//@ FROM src/blob_tree/handle.rs :: - :: struct BlobIndirection
/*+*/#[derive(Copy, Clone)]/*-*/
struct BlobIndirection {
    vhandle: ValueHandle,
    size: u32,
}
//@ END
/// the bytes of an encoded pointer: offset, blob file id, on-disk size, value size - all varints
spec fn vhandle_bytes(v: ValueHandle) -> Seq<u8> { var64(v.offset) + var64(v.blob_file_id) + var32(v.on_disk_size) }
spec fn indirection_bytes(b: BlobIndirection) -> Seq<u8> { vhandle_bytes(b.vhandle) + var32(b.size) }

impl ValueHandle {
//@ FROM src/vlog/handle.rs :: impl Encode for ValueHandle :: fn encode_into :: OBL C08.14
    fn encode_into<W: Write>(&self, writer: &mut W) -> /*+*/(r:/*-*/ Result<(), Error>/*+*/)
        ensures (*old(writer)).sink_id() == (*final(writer)).sink_id(), r is Ok ==> (*final(writer)).written() == (*old(writer)).written() + vhandle_bytes(*self)/*-*/
    {
        /*+*/let ghost w0 = (*writer).written();/*-*/
        writer.write_u64_varint(self.offset)?;
        writer.write_u64_varint(self.blob_file_id)?;
        writer.write_u32_varint(self.on_disk_size)?;
        /*+*/proof { assert((*writer).written() =~= w0 + vhandle_bytes(*self)); }/*-*/
        Ok(())
    }
//@ END
//@ FROM src/vlog/handle.rs :: impl Decode for ValueHandle :: fn decode_from :: OBL C08.14
    fn decode_from<R: Read>(reader: &mut R) -> /*+*/(r:/*-*/ Result<Self, Error>/*+*/)
        ensures (*old(reader)).src_id() == (*final(reader)).src_id(),
            forall|v: ValueHandle, tail: Seq<u8>| (*old(reader)).rest() == vhandle_bytes(v) + tail ==> (r is Ok ==> r->Ok_0 == v && (*final(reader)).rest() == tail)/*-*/
    {
        /*+*/let ghost r0 = (*reader).rest();/*-*/
        let offset = reader.read_u64_varint()?;
        /*+*/let ghost r1 = (*reader).rest();/*-*/
        let blob_file_id = reader.read_u64_varint()?;
        /*+*/let ghost r2 = (*reader).rest();/*-*/
        let on_disk_size = reader.read_u32_varint()?;
        /*+*/proof {
            assert forall|v: ValueHandle, tail: Seq<u8>| r0 == vhandle_bytes(v) + tail implies offset == v.offset && blob_file_id == v.blob_file_id && on_disk_size == v.on_disk_size && (*reader).rest() == tail by {
                assert(r0 =~= var64(v.offset) + (var64(v.blob_file_id) + var32(v.on_disk_size) + tail));
                assert(r1 == var64(v.blob_file_id) + var32(v.on_disk_size) + tail);
                assert(r1 =~= var64(v.blob_file_id) + (var32(v.on_disk_size) + tail));
                assert(r2 == var32(v.on_disk_size) + tail);
            }
        }/*-*/

        Ok(Self {
            blob_file_id,
            offset,
            on_disk_size,
        })
    }
//@ END
}
impl BlobIndirection {
//@ FROM src/blob_tree/handle.rs :: impl Encode for BlobIndirection :: fn encode_into :: OBL C08.14
    fn encode_into<W: Write>(&self, writer: &mut W) -> /*+*/(r:/*-*/ Result<(), Error>/*+*/)
        ensures (*old(writer)).sink_id() == (*final(writer)).sink_id(), r is Ok ==> (*final(writer)).written() == (*old(writer)).written() + indirection_bytes(*self)/*-*/
    {
        /*+*/let ghost w0 = (*writer).written();/*-*/
        self.vhandle.encode_into(writer)?;
        writer.write_u32_varint(self.size)?;
        /*+*/proof { assert((*writer).written() =~= w0 + indirection_bytes(*self)); }/*-*/
        Ok(())
    }
//@ END
//@ FROM src/blob_tree/handle.rs :: impl Decode for BlobIndirection :: fn decode_from :: OBL C08.14
    fn decode_from<R: Read>(reader: &mut R) -> /*+*/(r:/*-*/ Result<Self, Error>/*+*/)
        ensures forall|b: BlobIndirection, tail: Seq<u8>| (*old(reader)).rest() == indirection_bytes(b) + tail ==> (r is Ok ==> r->Ok_0 == b && (*final(reader)).rest() == tail)/*-*/
    {
        /*+*/let ghost r0 = (*reader).rest();/*-*/
        let vhandle = ValueHandle::decode_from(reader)?;
        /*+*/let ghost r1 = (*reader).rest();/*-*/
        let size = reader.read_u32_varint()?;
        /*+*/proof {
            assert forall|b: BlobIndirection, tail: Seq<u8>| r0 == indirection_bytes(b) + tail implies vhandle == b.vhandle && size == b.size && (*reader).rest() == tail by {
                assert(r0 =~= vhandle_bytes(b.vhandle) + (var32(b.size) + tail));
                assert(r1 == var32(b.size) + tail);
            }
        }/*-*/
        Ok(Self { vhandle, size })
    }
//@ END
}


// ---------------- blob file scanner (vlog/blob_file/scanner.rs): what relocation / GC reads blob files with ----------------
pub const METADATA_HEADER_MAGIC: [u8; 4] = [b'M', b'E', b'T', b'A'];
type SeqNo = u64;
/// BufReader<File> over a blob file: an io::Read source that also knows its stream position
struct BlobStream { ghost rest: Seq<u8>, ghost pos: u64 }
impl Read for BlobStream {
    spec fn rest(&self) -> Seq<u8> { self.rest }
    uninterp spec fn seen(&self) -> Seq<u8>;
    type Id = ();
    #[verifier::prophetic] spec fn src_id(&self) -> () { () }
    #[verifier::external_body]
    fn read(&mut self, buf: &mut [u8]) -> (r: Result<usize, Error>) { unimplemented!() }
}
impl BlobStream {
    /// Seek::stream_position
    #[verifier::external_body]
    fn stream_position(&mut self) -> (r: Result<u64, Error>) ensures final(self).rest == old(self).rest, final(self).pos == old(self).pos, r is Ok ==> r->Ok_0 == old(self).pos { unimplemented!() }
}
//@ FROM src/vlog/blob_file/scanner.rs :: - :: struct Scanner
//@ SUBST `BufReader < File >` ==> `BlobStream`
struct Scanner {
    blob_file_id: BlobFileId, // TODO: remove unused?
    inner: BlobStream,
    is_terminated: bool,
}
//@ END
//@ FROM src/vlog/blob_file/scanner.rs :: - :: struct ScanEntry
struct ScanEntry {
    key: UserKey,
    seqno: SeqNo,
    value: UserValue,
    offset: u64,
    uncompressed_len: u32,
}
//@ END
impl Scanner {
//@ FROM src/vlog/blob_file/scanner.rs :: impl Iterator for Scanner :: fn next :: OBL C10.13, C08.15
//@ SUBST `Self :: Item` ==> `Result<ScanEntry, Error>`
//@ SUBST `fail_iter ! ( $1 )` ==> `match $1 { Ok(v) => v, Err(e) => return Some(Err(e)) }`
//@ SUBST `[ 0 ; BLOB_HEADER_MAGIC . len ( ) ]` ==> `[0u8; 4]`
//@ SUBST `read_u128 :: < LittleEndian >` ==> `read_u128_le`
//@ SUBST `read_u64 :: < LittleEndian >` ==> `read_u64_le`
//@ SUBST `read_u32 :: < LittleEndian >` ==> `read_u32_le`
//@ SUBST `read_u16 :: < LittleEndian >` ==> `read_u16_le`
//@ SUBST `xxhash_rust :: xxh3 :: Xxh3 :: default ( )` ==> `Xxh3::default()`
//@ SUBST `crate :: Error ::` ==> `Error::`
    fn next(&mut self) -> /*+*/(r:/*-*/ Option<Result<ScanEntry, Error>>/*+*/)
        ensures
            old(self).is_terminated ==> r is None,
            // an entry is only handed out if its frame is intact: magic, and the recorded xxh3-128 equals the hash of key ++ payload
            r matches Some(Ok(e)) ==> !old(self).is_terminated && e.offset == old(self).inner.pos && ({
                let f = old(self).inner.rest; let klen = e.key@.len() as int; let vlen = e.value@.len() as int;
                f.len() >= 38 + klen + vlen && f.subrange(0, 4) == BLOB_HEADER_MAGIC@ && un_le128(f.subrange(4, 20)) == hash128(e.key@ + e.value@)
                && e.seqno == un_le64(f.subrange(20, 28)) && klen == un_le16(f.subrange(28, 30)) && e.uncompressed_len == un_le32(f.subrange(30, 34)) && vlen == un_le32(f.subrange(34, 38))
                && e.key@ == f.subrange(38, 38 + klen) && e.value@ == f.subrange(38 + klen, 38 + klen + vlen)
                && final(self).inner.rest == f.skip(38 + klen + vlen) }),
            // the metadata section ends the scan
            r is None && !old(self).is_terminated ==> final(self).is_terminated && old(self).inner.rest.len() >= 4 && old(self).inner.rest.subrange(0, 4) == METADATA_HEADER_MAGIC@,/*-*/
    {
        /*+*/let ghost f = self.inner.rest;/*-*/
        if self.is_terminated {
            return None;
        }

        let offset = match self.inner.stream_position() { Ok(v) => v, Err(e) => return Some(Err(e)) };

        {
            let mut buf = [0u8; 4];
            match self.inner.read_exact(&mut buf) { Ok(v) => v, Err(e) => return Some(Err(e)) };

            if buf == METADATA_HEADER_MAGIC {
                /*+*/proof { assert(buf@ =~= METADATA_HEADER_MAGIC@); }/*-*/
                self.is_terminated = true;
                return None;
            }

            if buf != BLOB_HEADER_MAGIC {
                return Some(Err(Error::InvalidHeader("Blob")));
            }
            /*+*/proof { assert(buf@ =~= BLOB_HEADER_MAGIC@); }/*-*/
        }

        let expected_checksum = match self.inner.read_u128_le() { Ok(v) => v, Err(e) => return Some(Err(e)) };
        let seqno = match self.inner.read_u64_le() { Ok(v) => v, Err(e) => return Some(Err(e)) };

        let key_len = match self.inner.read_u16_le() { Ok(v) => v, Err(e) => return Some(Err(e)) };

        let real_val_len = match self.inner.read_u32_le() { Ok(v) => v, Err(e) => return Some(Err(e)) };

        let on_disk_val_len = match self.inner.read_u32_le() { Ok(v) => v, Err(e) => return Some(Err(e)) };
        /*+*/proof {
            assert(f.skip(4).subrange(0, 16) =~= f.subrange(4, 20)); assert(f.skip(4).skip(16) =~= f.skip(20));
            assert(f.skip(20).subrange(0, 8) =~= f.subrange(20, 28)); assert(f.skip(20).skip(8) =~= f.skip(28));
            assert(f.skip(28).subrange(0, 2) =~= f.subrange(28, 30)); assert(f.skip(28).skip(2) =~= f.skip(30));
            assert(f.skip(30).subrange(0, 4) =~= f.subrange(30, 34)); assert(f.skip(30).skip(4) =~= f.skip(34));
            assert(f.skip(34).subrange(0, 4) =~= f.subrange(34, 38)); assert(f.skip(34).skip(4) =~= f.skip(38));
        }/*-*/

        let key = match UserKey::from_reader(&mut self.inner, key_len as usize) { Ok(v) => v, Err(e) => return Some(Err(e)) };

        let value = match UserValue::from_reader(
            &mut self.inner,
            on_disk_val_len as usize
        ) { Ok(v) => v, Err(e) => return Some(Err(e)) };
        /*+*/proof {
            let kl = key_len as int; let vl = on_disk_val_len as int;
            assert(f.skip(38).subrange(0, kl) =~= f.subrange(38, 38 + kl)); assert(f.skip(38).skip(kl) =~= f.skip(38 + kl));
            assert(f.skip(38 + kl).subrange(0, vl) =~= f.subrange(38 + kl, 38 + kl + vl)); assert(f.skip(38 + kl).skip(vl) =~= f.skip(38 + kl + vl));
        }/*-*/

        {
            let checksum = {
                let mut hasher = Xxh3::default();
                hasher.update(&key);
                hasher.update(&value);
                hasher.digest128()
            };
            /*+*/proof { assert(Seq::<u8>::empty() + key@ + value@ =~= key@ + value@); }/*-*/

            if expected_checksum != checksum {

                return Some(Err(Error::ChecksumMismatch {
                    got: Checksum::from_raw(checksum),
                    expected: Checksum::from_raw(expected_checksum),
                }));
            }
        }

        Some(Ok(ScanEntry {
            key,
            seqno,
            value,
            offset,
            uncompressed_len: real_val_len,
        }))
    }
//@ END
}
/// what the writer appends (blob_frame, C12.12) is what the scanner hands back
proof fn lemma_scan_roundtrip(key: Seq<u8>, seqno: u64, value: Seq<u8>, ul: u32, tail: Seq<u8>)
    requires key.len() <= u16::MAX, value.len() <= u32::MAX
    ensures ({ let f = blob_frame(key, seqno, value, ul) + tail; let klen = key.len() as int; let vlen = value.len() as int;
        f.len() >= 38 + klen + vlen && f.subrange(0, 4) == BLOB_HEADER_MAGIC@ && un_le128(f.subrange(4, 20)) == hash128(key + value)
        && un_le64(f.subrange(20, 28)) == seqno && un_le16(f.subrange(28, 30)) == klen && un_le32(f.subrange(30, 34)) == ul && un_le32(f.subrange(34, 38)) == vlen
        && f.subrange(38, 38 + klen) == key && f.subrange(38 + klen, 38 + klen + vlen) == value && f.skip(38 + klen + vlen) == tail })
{
    broadcast use axiom_le;
    let f = blob_frame(key, seqno, value, ul) + tail; let klen = key.len() as int; let vlen = value.len() as int;
    assert(BLOB_HEADER_MAGIC@.len() == 4);
    assert(f.subrange(0, 4) =~= BLOB_HEADER_MAGIC@);
    assert(f.subrange(4, 20) =~= le128(hash128(key + value)));
    assert(f.subrange(20, 28) =~= le64(seqno));
    assert(f.subrange(28, 30) =~= le16(key.len() as u16));
    assert(f.subrange(30, 34) =~= le32(ul));
    assert(f.subrange(34, 38) =~= le32(value.len() as u32));
    assert(f.subrange(38, 38 + klen) =~= key);
    assert(f.subrange(38 + klen, 38 + klen + vlen) =~= value);
    assert(f.skip(38 + klen + vlen) =~= tail);
}

}
fn main() {}
