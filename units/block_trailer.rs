//@ UNIT block_trailer
// table::block::Trailer::write: a block hash index is only persisted when every binary-index pointer it can refer to is
// representable below the reserved bucket markers (FREE = 254, CONFLICT = 255).  Obligations C11.4, C12.8
use vstd::prelude::*;
verus! {

global size_of usize == 8;
#[verifier::external_body] pub struct Error { p: u8 }

//@ FROM src/table/block/hash_index/mod.rs :: - :: const MARKER_FREE
const MARKER_FREE: u8 = u8::MAX - 1;
//@ END
//@ FROM src/table/block/hash_index/mod.rs :: - :: const MARKER_CONFLICT
const MARKER_CONFLICT: u8 = u8::MAX;
//@ END
//@ FROM src/table/block/hash_index/builder.rs :: - :: const MAX_POINTERS_FOR_HASH_INDEX
const MAX_POINTERS_FOR_HASH_INDEX: usize = 254;
//@ END
//@ FROM src/table/block/trailer.rs :: - :: const TRAILER_START_MARKER
const TRAILER_START_MARKER: u8 = 255;
//@ END

// ---------------- prelude (R8, R13): the block buffer as a log of sections ----------------
pub enum Sec { U8(u8), U16(u16), U32(u32), BinaryIndex(int), HashIndex(int) }
pub struct Buf { pub ghost log: Seq<Sec>, pub ghost n: int }
impl Buf {
    #[verifier::external_body] pub fn len(&self) -> (r: usize) ensures r == self.n { unimplemented!() }
    #[verifier::external_body] pub fn write_u8(&mut self, v: u8) -> (r: Result<(), Error>) ensures r is Ok ==> final(self).log == old(self).log.push(Sec::U8(v)) && final(self).n == old(self).n + 1, r is Err ==> *final(self) == *old(self) { unimplemented!() }
    #[verifier::external_body] pub fn write_u16_le(&mut self, v: u16) -> (r: Result<(), Error>) ensures r is Ok ==> final(self).log == old(self).log.push(Sec::U16(v)) && final(self).n == old(self).n + 2, r is Err ==> *final(self) == *old(self) { unimplemented!() }
    #[verifier::external_body] pub fn write_u32_le(&mut self, v: u32) -> (r: Result<(), Error>) ensures r is Ok ==> final(self).log == old(self).log.push(Sec::U32(v)) && final(self).n == old(self).n + 4, r is Err ==> *final(self) == *old(self) { unimplemented!() }
}
pub struct BinaryIndexBuilder { pub ghost pointers: int }
impl BinaryIndexBuilder {
    /// binary_index::Builder::write: writes all pointers, returns (step size, number of pointers)
    #[verifier::external_body]
    pub fn write(&self, w: &mut Buf) -> (r: Result<(u8, usize), Error>)
        ensures r is Ok ==> r->Ok_0.1 == self.pointers && final(w).log == old(w).log.push(Sec::BinaryIndex(self.pointers)) && final(w).n >= old(w).n,
    { unimplemented!() }
}
pub struct HashIndexBuilder { pub ghost buckets: int }
impl HashIndexBuilder {
    #[verifier::external_body] pub fn bucket_count(&self) -> (r: u32) ensures r == self.buckets { unimplemented!() }
    #[verifier::external_body]
    pub fn write(self, w: &mut Buf) -> (r: Result<(), Error>)
        ensures r is Ok ==> final(w).log == old(w).log.push(Sec::HashIndex(self.buckets)) && final(w).n >= old(w).n,
    { unimplemented!() }
}
pub struct Encoder { pub writer: Buf, pub item_count: usize, pub restart_interval: u8, pub binary_index_builder: BinaryIndexBuilder, pub hash_index_builder: HashIndexBuilder }

pub open spec fn has_hash_index(log: Seq<Sec>) -> bool { exists|i: int| 0 <= i < log.len() && #[trigger] log[i] is HashIndex }

//@ FROM src/table/block/trailer.rs :: impl < 'a > Trailer < 'a > :: fn write :: OBL C11.4, C12.8, C01.11
//@ SUBST `< S : Default , T : Encodable < S > >` ==> ``
//@ SUBST `Encoder < '_ , S , T >` ==> `Encoder`
//@ SUBST `crate :: Result < ( ) >` ==> `Result<(), Error>`
//@ SUBST `write_u32 :: < LittleEndian >` ==> `write_u32_le`
//@ SUBST `write_u16 :: < LittleEndian >` ==> `write_u16_le`
//@ SUBST `let bytes_before = encoder . writer . len ( ) ;` ==> ``
//@ SUBST `assert_eq ! ( TRAILER_SIZE , encoder . writer . len ( ) - bytes_before , "trailer size does not match" , ) ;` ==> ``
fn write(mut encoder: Encoder) -> /*+*/(r: /*-*/Result<(), Error>/*+*/)
    requires encoder.writer.n < 0xffff_ffff, !has_hash_index(encoder.writer.log), encoder.item_count < 0xffff_ffff, 0 <= encoder.binary_index_builder.pointers < 0xffff_ffff,
    // C11.4 (stated as the tagged assertion after the hash-index branch, because `encoder` is consumed): pointers are stored in
    // hash buckets as u8 values below the reserved markers FREE (254) and CONFLICT (255); a block with more restart points than
    // that must not carry a hash index, or lookups of the keys beyond would read FREE = "absent"
    /*-*/
{
    encoder.writer.write_u8(TRAILER_START_MARKER)?;

    let binary_index_offset = encoder.writer.len() as u32;

    let (binary_index_step_size, binary_index_len) =
        encoder.binary_index_builder.write(&mut encoder.writer)?;

    let mut hash_index_offset = 0u32;
    let hash_index_len = encoder.hash_index_builder.bucket_count();

    /*+*/let ghost mut wrote_hash = false;/*-*/
    if encoder.hash_index_builder.bucket_count() > 0
        && binary_index_len <= MAX_POINTERS_FOR_HASH_INDEX
    {
        {
            hash_index_offset = encoder.writer.len() as u32;
        }

        encoder.hash_index_builder.write(&mut encoder.writer)?;
        /*+*/proof { wrote_hash = true; }/*-*/
    }
    /*+*/proof {
        // the obligation itself: a hash index was written only if every pointer index 0..pointers-1 is a legal bucket value
        assert(wrote_hash ==> encoder.binary_index_builder.pointers - 1 < MARKER_FREE as int);   // @OBL C11.4, C12.8, C01.11
    }/*-*/

    encoder.writer.write_u8(encoder.restart_interval)?;

    encoder.writer.write_u8(binary_index_step_size)?;

    encoder
        .writer
        .write_u32_le(binary_index_len as u32)?;

    encoder
        .writer
        .write_u32_le(binary_index_offset)?;

    encoder
        .writer
        .write_u32_le(if hash_index_offset > 0 {
            hash_index_len
        } else {
            0
        })?;

    encoder
        .writer
        .write_u32_le(hash_index_offset)?;

    encoder.writer.write_u8(1)?;

    encoder.writer.write_u8(0)?;
    encoder.writer.write_u16_le(0)?;

    encoder.writer.write_u8(0)?;
    encoder.writer.write_u32_le(0)?;

    encoder
        .writer
        .write_u32_le(encoder.item_count as u32)?;

    Ok(())
}
//@ END

} // verus!
fn main() {}
