//@ UNIT bloom
// Bloom filter (src/table/filter/standard_bloom, bit_array): no false negatives.  `Builder::set_with_hash(h)` switches on every bit
// of the double-hashing probe sequence of h and never clears a bit; `StandardBloomFilterReader::contains_hash(h)` answers true
// exactly when every bit of the same probe sequence is on - so a key that was added is never reported absent (a false negative
// would hide a stored key from point reads).  Obligation C01.23
use vstd::prelude::*;
verus! {
global size_of usize == 8;

const BIT_MASK: u8 = 0b1000_0000_u8;

//@ FROM src/table/filter/bit_array/builder.rs :: - :: fn enable_bit
fn enable_bit(byte: u8, idx: usize) -> /*+*/(r: u8)
    requires idx < 8
    ensures forall|j:/*-*/ u8/*+*/| j < 8 ==> bit_of(r, j) == (#[trigger] bit_of(byte, j) || j == idx)/*-*/
{
    let bit_mask = BIT_MASK >> idx;
    /*+*/proof { assert forall|j: u8| j < 8 implies bit_of(byte | bit_mask, j) == (#[trigger] bit_of(byte, j) || j == idx) by { lemma_enable(byte, idx as u8, j); } }/*-*/
    byte | bit_mask
}
//@ END
spec fn bit_of(byte: u8, j: u8) -> bool { byte & (0x80u8 >> j) > 0 }
proof fn lemma_enable(byte: u8, i: u8, j: u8)
    requires i < 8, j < 8
    ensures bit_of(byte | (0x80u8 >> i), j) == (bit_of(byte, j) || j == i)
{
    assert(((byte | (0x80u8 >> i)) & (0x80u8 >> j) > 0) == ((byte & (0x80u8 >> j) > 0) || j == i)) by (bit_vector) requires i < 8, j < 8;
}

//@ FROM src/table/filter/bit_array/reader.rs :: - :: fn get_bit
fn get_bit(byte: u8, idx: usize) -> /*+*/(r:/*-*/ bool/*+*/)
    requires idx < 8
    ensures r == bit_of(byte, idx as u8)/*-*/
{
    let bit_mask = BIT_MASK >> idx;

    let masked = byte & bit_mask;
    masked > 0
}
//@ END

// ---------------- bit arrays ----------------
/// bit `idx` of a byte string (most significant bit of byte 0 first)
spec fn bit(bytes: Seq<u8>, idx: int) -> bool { bit_of(bytes[idx / 8], (idx % 8) as u8) }

//@ FROM src/table/filter/bit_array/builder.rs :: - :: struct Builder
//@ SUBST `Builder` ==> `BitArrayBuilder`
//@ SUBST `Box < [ u8 ] >` ==> `Vec<u8>`
struct BitArrayBuilder(Vec<u8>);
//@ END
impl BitArrayBuilder {
//@ FROM src/table/filter/bit_array/builder.rs :: impl Builder :: fn enable_bit :: OBL C01.23
//@ SUBST `self . 0 . get_mut ( byte_idx ) . expect ( "should be in bounds" )` ==> `&mut self.0[byte_idx]`
    fn enable_bit(&mut self, idx: usize/*+*/)
        requires idx < old(self).0@.len() * 8
        ensures final(self).0@.len() == old(self).0@.len(),
            // exactly that bit is switched on; no bit is ever cleared
            forall|j: int| 0 <= j < old(self).0@.len() * 8 ==> bit(final(self).0@, j) == (#[trigger] bit(old(self).0@, j) || j == idx/*-*/)
    {
        let byte_idx = idx / 8;

        let byte = &mut self.0[byte_idx];

        let bit_idx = idx % 8;
        *byte = enable_bit(*byte, bit_idx);
        /*+*/proof {
            let a = old(self).0@; let b = self.0@;
            assert forall|j: int| 0 <= j < a.len() * 8 implies bit(b, j) == (#[trigger] bit(a, j) || j == idx) by {
                if j / 8 == byte_idx as int {
                    assert(j == (j / 8) * 8 + j % 8 && idx == (idx / 8) * 8 + idx % 8);
                    assert(b =~= a.update(byte_idx as int, b[byte_idx as int]));
                    assert(forall|q: u8| q < 8 ==> bit_of(b[byte_idx as int], q) == (#[trigger] bit_of(a[byte_idx as int], q) || q == bit_idx));
                    assert(((j % 8) as u8) < 8);
                    let q = (j % 8) as u8;
                    assert(bit_of(b[byte_idx as int], q) == (bit_of(a[byte_idx as int], q) || q == bit_idx));
                } else { assert(b[j / 8] == a[j / 8]); }
            }
        }/*-*/
    }
//@ END
//@ FROM src/table/filter/bit_array/builder.rs :: impl Builder :: fn bytes
//@ SUBST `& self . 0` ==> `self.0.as_slice()`
    fn bytes(&self) -> /*+*/(r:/*-*/ &[u8]/*+*/) ensures r@ == self.0@/*-*/ {
        self.0.as_slice()
    }
//@ END
}

//@ FROM src/table/filter/bit_array/reader.rs :: - :: struct BitArrayReader
struct BitArrayReader<'a>(&'a [u8]);
//@ END
impl<'a> BitArrayReader<'a> {
//@ FROM src/table/filter/bit_array/reader.rs :: impl < 'a > BitArrayReader < 'a > :: fn get :: OBL C01.23
//@ SUBST `self . 0 . get ( byte_idx ) . expect ( "should be in bounds" )` ==> `&self.0[byte_idx]`
    fn get(&self, idx: usize) -> /*+*/(r:/*-*/ bool/*+*/)
        requires idx < self.0@.len() * 8
        ensures r == bit(self.0@, idx as int)/*-*/
    {
        let byte_idx = idx / 8;

        let byte = &self.0[byte_idx];

        let bit_idx = idx % 8;
        get_bit(*byte, bit_idx)
    }
//@ END
}

// ---------------- bloom filter ----------------
spec fn wadd(a: u64, b: u64) -> u64 { if a + b > u64::MAX { (a + b - 0x1_0000_0000_0000_0000) as u64 } else { (a + b) as u64 } }
spec fn wmul(a: u64, b: u64) -> u64 { ((a as int * b as int) % 0x1_0000_0000_0000_0000) as u64 }
/// secondary_hash: a fixed function of h1
spec fn sec(h1: u64) -> u64 { wmul(h1 >> 32u64, 0x51_7c_c1_b7_27_22_0a_95) }
//@ FROM src/table/filter/standard_bloom/builder.rs :: - :: fn secondary_hash
fn secondary_hash(h1: u64) -> /*+*/(r:/*-*/ u64/*+*/) ensures r == sec(h1)/*-*/ {
    h1.wrapping_shr(32).wrapping_mul(0x51_7c_c1_b7_27_22_0a_95)
}
//@ END
/// the double-hashing probe sequence: (h1, h2) after j rounds
spec fn h1_at(h: u64, j: nat) -> u64 decreases j { if j == 0 { h } else { wadd(h1_at(h, (j - 1) as nat), h2_at(h, (j - 1) as nat)) } }
spec fn h2_at(h: u64, j: nat) -> u64 decreases j { if j == 0 { sec(h) } else { wmul(h2_at(h, (j - 1) as nat), j as u64) } }
/// the bit probed in round j (0-based) of a filter with m bits
spec fn probe(h: u64, j: nat, m: usize) -> int { (h1_at(h, j) % (m as u64)) as int }

//@ FROM src/table/filter/standard_bloom/builder.rs :: - :: struct Builder
struct Builder {
    inner: BitArrayBuilder,

    m: usize,

    k: usize,
}
//@ END
impl Builder {
    spec fn wf(&self) -> bool { self.m > 0 && self.m <= self.inner.0@.len() * 8 }
//@ FROM src/table/filter/standard_bloom/builder.rs :: impl Builder :: fn set_with_hash :: OBL C01.23
    fn set_with_hash(&mut self, mut h1: u64)
        /*+*/requires old(self).wf()
        ensures final(self).wf(), final(self).m == old(self).m, final(self).k == old(self).k, final(self).inner.0@.len() == old(self).inner.0@.len(),
            // every probed bit is on afterwards, and no bit that was on is switched off
            forall|j: nat| j < old(self).k ==> bit(final(self).inner.0@, #[trigger] probe(h1, j, old(self).m)),
            forall|b: int| 0 <= b < old(self).inner.0@.len() * 8 && #[trigger] bit(old(self).inner.0@, b) ==> bit(final(self).inner.0@, b),/*-*/
    {
        /*+*/let ghost h = h1;/*-*/
        let mut h2 = secondary_hash(h1);

        for i in /*+*/it:/*-*/ 1..=(self.k as u64)
            /*+*/invariant self.wf(), self.m == old(self).m, self.k == old(self).k, self.inner.0@.len() == old(self).inner.0@.len(),
                it.index@ <= self.k,
                h1 == h1_at(h, it.index@ as nat), h2 == h2_at(h, it.index@ as nat),
                forall|j: nat| j < it.index@ ==> bit(self.inner.0@, #[trigger] probe(h, j, self.m)),
                forall|b: int| 0 <= b < old(self).inner.0@.len() * 8 && #[trigger] bit(old(self).inner.0@, b) ==> bit(self.inner.0@, b),/*-*/
        {
            /*+*/let ghost before = self.inner.0@;/*-*/
            let idx = h1 % (self.m as u64);

            self.inner.enable_bit(idx as usize);

            h1 = h1.wrapping_add(h2);
            h2 = h2.wrapping_mul(i);
            /*+*/proof {
                assert(idx as int == probe(h, it.index@ as nat, self.m));
                assert forall|j: nat| j < it.index@ + 1 implies bit(self.inner.0@, #[trigger] probe(h, j, self.m)) by {
                    let b = probe(h, j, self.m);
                    assert(0 <= b < self.m) by { assert((h1_at(h, j) % (self.m as u64)) < self.m as u64); }
                    assert(bit(self.inner.0@, b) == (bit(before, b) || b == idx));
                    if j < it.index@ { assert(bit(before, b)); }
                }
                assert forall|b: int| 0 <= b < old(self).inner.0@.len() * 8 && #[trigger] bit(old(self).inner.0@, b) implies bit(self.inner.0@, b) by { assert(bit(before, b)); }
            }/*-*/
        }
    }
//@ END
}

//@ FROM src/table/filter/standard_bloom/mod.rs :: - :: struct StandardBloomFilterReader
struct StandardBloomFilterReader<'a> {
    inner: BitArrayReader<'a>,

    m: usize,

    k: usize,
}
//@ END
impl<'a> StandardBloomFilterReader<'a> {
    spec fn wf(&self) -> bool { self.m > 0 && self.m <= self.inner.0@.len() * 8 }
//@ FROM src/table/filter/standard_bloom/mod.rs :: impl < 'a > StandardBloomFilterReader < 'a > :: fn has_bit
    fn has_bit(&self, idx: usize) -> /*+*/(r:/*-*/ bool/*+*/)
        requires idx < self.inner.0@.len() * 8
        ensures r == bit(self.inner.0@, idx as int)/*-*/
    {
        self.inner.get(idx)
    }
//@ END
//@ FROM src/table/filter/standard_bloom/mod.rs :: impl < 'a > StandardBloomFilterReader < 'a > :: fn contains_hash :: OBL C01.23
    fn contains_hash(&self, mut h1: u64/*+*/, Ghost(h): Ghost<u64>/*-*/) -> /*+*/(r:/*-*/ bool/*+*/)
        requires self.wf(), h == h1
        // true exactly when every probed bit is on
        ensures r == forall|j: nat| j < self.k ==> bit(self.inner.0@, #[trigger] probe(h, j, self.m))/*-*/
    {
        let mut h2 = secondary_hash(h1);

        for i in /*+*/it:/*-*/ 1..=(self.k as u64)
            /*+*/invariant self.wf(), it.index@ <= self.k,
                h1 == h1_at(h, it.index@ as nat), h2 == h2_at(h, it.index@ as nat),
                forall|j: nat| j < it.index@ ==> bit(self.inner.0@, #[trigger] probe(h, j, self.m)),/*-*/
        {
            let idx = h1 % (self.m as u64);

            if !self.has_bit(idx as usize) {
                /*+*/proof { assert(it.index@ < self.k); assert(idx as int == probe(h, it.index@ as nat, self.m)); assert(!bit(self.inner.0@, probe(h, it.index@ as nat, self.m))); assert(!(forall|j: nat| j < self.k ==> bit(self.inner.0@, #[trigger] probe(h, j, self.m)))); }/*-*/
                return false;
            }

            h1 = h1.wrapping_add(h2);
            h2 = h2.wrapping_mul(i);
        }

        true
    }
//@ END
}

/// no false negatives: a filter whose bits include everything `set_with_hash(h)` switched on (same m, k) answers true for h
proof fn lemma_no_false_negative(built: Seq<u8>, read: Seq<u8>, h: u64, m: usize, k: usize)
    requires forall|j: nat| j < k ==> bit(built, #[trigger] probe(h, j, m)),
        forall|b: int| 0 <= b < built.len() * 8 && #[trigger] bit(built, b) ==> bit(read, b),
        m > 0, m <= built.len() * 8,
    ensures forall|j: nat| j < k ==> bit(read, #[trigger] probe(h, j, m))
{
    assert forall|j: nat| j < k implies bit(read, #[trigger] probe(h, j, m)) by {
        let b = probe(h, j, m);
        assert(0 <= b < m) by { assert((h1_at(h, j) % (m as u64)) < m as u64); }
        assert(bit(built, b));
    }
}
}
fn main() {}
