//@ UNIT bloom
// Bloom filter (src/table/filter/standard_bloom, bit_array): no false negatives.  `Builder::set_with_hash(h)` switches on every bit
// of the double-hashing probe sequence of h and never clears a bit; `StandardBloomFilterReader::contains_hash(h)` answers true
// exactly when every bit of the same probe sequence is on - so a key that was added is never reported absent (a false negative
// would hide a stored key from point reads).  The filter block header round trip (Builder::build / StandardBloomFilterReader::new), the full
// filter writer (every registered key's hash is set) and FilterBlock::maybe_contains_hash close the chain from the table writer to
// the point read.  Obligations C01.23, C01.32, C12.29
use vstd::prelude::*;
verus! {
global size_of usize == 8;

const BIT_MASK: u8 = 0b1000_0000_u8;

//@ FROM src/table/filter/bit_array/builder.rs :: - :: fn enable_bit
fn enable_bit(byte: u8, idx: usize) -> /*+*/(r: u8)
    requires idx < 8
    ensures forall|j:/*-*/ u8/*+*/| j < 8 ==> bit_of(r, j) == (#[trigger] bit_of(byte, j) || j == idx)/*-*/
{
    let bit_mask = BIT_MASK >> idx;
    /*+*/proof { assert forall|j: u8| j < 8 implies bit_of(byte | bit_mask, j) == (#[trigger] bit_of(byte, j) || j == idx) by { lemma_enable(byte, idx as u8, j); } }/*-*/
    byte | bit_mask
}
//@ END
spec fn bit_of(byte: u8, j: u8) -> bool { byte & (0x80u8 >> j) > 0 }
proof fn lemma_enable(byte: u8, i: u8, j: u8)
    requires i < 8, j < 8
    ensures bit_of(byte | (0x80u8 >> i), j) == (bit_of(byte, j) || j == i)
{
    assert(((byte | (0x80u8 >> i)) & (0x80u8 >> j) > 0) == ((byte & (0x80u8 >> j) > 0) || j == i)) by (bit_vector) requires i < 8, j < 8;
}

//@ FROM src/table/filter/bit_array/reader.rs :: - :: fn get_bit
fn get_bit(byte: u8, idx: usize) -> /*+*/(r:/*-*/ bool/*+*/)
    requires idx < 8
    ensures r == bit_of(byte, idx as u8)/*-*/
{
    let bit_mask = BIT_MASK >> idx;

    let masked = byte & bit_mask;
    masked > 0
}
//@ END

// ---------------- bit arrays ----------------
/// bit `idx` of a byte string (most significant bit of byte 0 first)
spec fn bit(bytes: Seq<u8>, idx: int) -> bool { bit_of(bytes[idx / 8], (idx % 8) as u8) }

//@ FROM src/table/filter/bit_array/builder.rs :: - :: struct Builder
//@ SUBST `Builder` ==> `BitArrayBuilder`
//@ SUBST `Box < [ u8 ] >` ==> `Vec<u8>`
struct BitArrayBuilder(Vec<u8>);
//@ END
impl BitArrayBuilder {
//@ FROM src/table/filter/bit_array/builder.rs :: impl Builder :: fn enable_bit :: OBL C01.23
//@ SUBST `self . 0 . get_mut ( byte_idx ) . expect ( "should be in bounds" )` ==> `&mut self.0[byte_idx]`
    fn enable_bit(&mut self, idx: usize/*+*/)
        requires idx < old(self).0@.len() * 8
        ensures final(self).0@.len() == old(self).0@.len(),
            // exactly that bit is switched on; no bit is ever cleared
            forall|j: int| #![trigger bit(final(self).0@, j)] #![trigger bit(old(self).0@, j)] 0 <= j < old(self).0@.len() * 8 ==> bit(final(self).0@, j) == (bit(old(self).0@, j) || j == idx/*-*/)
    {
        let byte_idx = idx / 8;

        let byte = &mut self.0[byte_idx];

        let bit_idx = idx % 8;
        *byte = enable_bit(*byte, bit_idx);
        /*+*/proof {
            let a = old(self).0@; let b = self.0@;
            assert forall|j: int| 0 <= j < a.len() * 8 implies bit(b, j) == (#[trigger] bit(a, j) || j == idx) by {
                if j / 8 == byte_idx as int {
                    assert(j == (j / 8) * 8 + j % 8 && idx == (idx / 8) * 8 + idx % 8);
                    assert(b =~= a.update(byte_idx as int, b[byte_idx as int]));
                    assert(forall|q: u8| q < 8 ==> bit_of(b[byte_idx as int], q) == (#[trigger] bit_of(a[byte_idx as int], q) || q == bit_idx));
                    assert(((j % 8) as u8) < 8);
                    let q = (j % 8) as u8;
                    assert(bit_of(b[byte_idx as int], q) == (bit_of(a[byte_idx as int], q) || q == bit_idx));
                } else { assert(b[j / 8] == a[j / 8]); }
            }
        }/*-*/
    }
//@ END
//@ FROM src/table/filter/bit_array/builder.rs :: impl Builder :: fn bytes
//@ SUBST `& self . 0` ==> `self.0.as_slice()`
    fn bytes(&self) -> /*+*/(r:/*-*/ &[u8]/*+*/) ensures r@ == self.0@/*-*/ {
        self.0.as_slice()
    }
//@ END
}

//@ FROM src/table/filter/bit_array/reader.rs :: - :: struct BitArrayReader
struct BitArrayReader<'a>(&'a [u8]);
//@ END
impl<'a> BitArrayReader<'a> {
//@ FROM src/table/filter/bit_array/reader.rs :: impl < 'a > BitArrayReader < 'a > :: fn get :: OBL C01.23
//@ SUBST `self . 0 . get ( byte_idx ) . expect ( "should be in bounds" )` ==> `&self.0[byte_idx]`
    fn get(&self, idx: usize) -> /*+*/(r:/*-*/ bool/*+*/)
        requires idx < self.0@.len() * 8
        ensures r == bit(self.0@, idx as int)/*-*/
    {
        let byte_idx = idx / 8;

        let byte = &self.0[byte_idx];

        let bit_idx = idx % 8;
        get_bit(*byte, bit_idx)
    }
//@ END
}

// ---------------- bloom filter ----------------
spec fn wadd(a: u64, b: u64) -> u64 { if a + b > u64::MAX { (a + b - 0x1_0000_0000_0000_0000) as u64 } else { (a + b) as u64 } }
spec fn wmul(a: u64, b: u64) -> u64 { ((a as int * b as int) % 0x1_0000_0000_0000_0000) as u64 }
/// secondary_hash: a fixed function of h1
spec fn sec(h1: u64) -> u64 { wmul(h1 >> 32u64, 0x51_7c_c1_b7_27_22_0a_95) }
//@ FROM src/table/filter/standard_bloom/builder.rs :: - :: fn secondary_hash
fn secondary_hash(h1: u64) -> /*+*/(r:/*-*/ u64/*+*/) ensures r == sec(h1)/*-*/ {
    h1.wrapping_shr(32).wrapping_mul(0x51_7c_c1_b7_27_22_0a_95)
}
//@ END
/// the double-hashing probe sequence: (h1, h2) after j rounds
spec fn h1_at(h: u64, j: nat) -> u64 decreases j { if j == 0 { h } else { wadd(h1_at(h, (j - 1) as nat), h2_at(h, (j - 1) as nat)) } }
spec fn h2_at(h: u64, j: nat) -> u64 decreases j { if j == 0 { sec(h) } else { wmul(h2_at(h, (j - 1) as nat), j as u64) } }
/// the bit probed in round j (0-based) of a filter with m bits
spec fn probe(h: u64, j: nat, m: usize) -> int { (h1_at(h, j) % (m as u64)) as int }

//@ FROM src/table/filter/standard_bloom/builder.rs :: - :: struct Builder
struct Builder {
    inner: BitArrayBuilder,

    m: usize,

    k: usize,
}
//@ END
impl Builder {
    spec fn wf(&self) -> bool { self.m > 0 && self.m <= self.inner.0@.len() * 8 }
//@ FROM src/table/filter/standard_bloom/builder.rs :: impl Builder :: fn set_with_hash :: OBL C01.23
    fn set_with_hash(&mut self, mut h1: u64)
        /*+*/requires old(self).wf()
        ensures final(self).wf(), final(self).m == old(self).m, final(self).k == old(self).k, final(self).inner.0@.len() == old(self).inner.0@.len(),
            // every probed bit is on afterwards, and no bit that was on is switched off
            forall|j: nat| j < old(self).k ==> bit(final(self).inner.0@, #[trigger] probe(h1, j, old(self).m)),
            forall|b: int| 0 <= b < old(self).inner.0@.len() * 8 && #[trigger] bit(old(self).inner.0@, b) ==> bit(final(self).inner.0@, b),/*-*/
    {
        /*+*/let ghost h = h1;/*-*/
        let mut h2 = secondary_hash(h1);

        for i in /*+*/it:/*-*/ 1..=(self.k as u64)
            /*+*/invariant self.wf(), self.m == old(self).m, self.k == old(self).k, self.inner.0@.len() == old(self).inner.0@.len(),
                it.index@ <= self.k,
                h1 == h1_at(h, it.index@ as nat), h2 == h2_at(h, it.index@ as nat),
                forall|j: nat| j < it.index@ ==> bit(self.inner.0@, #[trigger] probe(h, j, self.m)),
                forall|b: int| 0 <= b < old(self).inner.0@.len() * 8 && #[trigger] bit(old(self).inner.0@, b) ==> bit(self.inner.0@, b),/*-*/
        {
            /*+*/let ghost before = self.inner.0@;/*-*/
            let idx = h1 % (self.m as u64);

            self.inner.enable_bit(idx as usize);

            h1 = h1.wrapping_add(h2);
            h2 = h2.wrapping_mul(i);
            /*+*/proof {
                assert(idx as int == probe(h, it.index@ as nat, self.m));
                assert forall|j: nat| j < it.index@ + 1 implies bit(self.inner.0@, #[trigger] probe(h, j, self.m)) by {
                    let b = probe(h, j, self.m);
                    assert(0 <= b < self.m) by { assert((h1_at(h, j) % (self.m as u64)) < self.m as u64); }
                    assert(bit(self.inner.0@, b) == (bit(before, b) || b == idx));
                    if j < it.index@ { assert(bit(before, b)); }
                }
                assert forall|b: int| 0 <= b < old(self).inner.0@.len() * 8 && #[trigger] bit(old(self).inner.0@, b) implies bit(self.inner.0@, b) by { assert(bit(before, b)); }
            }/*-*/
        }
    }
//@ END
}

//@ FROM src/table/filter/standard_bloom/mod.rs :: - :: struct StandardBloomFilterReader
struct StandardBloomFilterReader<'a> {
    inner: BitArrayReader<'a>,

    m: usize,

    k: usize,
}
//@ END
impl<'a> StandardBloomFilterReader<'a> {
    spec fn wf(&self) -> bool { self.m > 0 && self.m <= self.inner.0@.len() * 8 }
//@ FROM src/table/filter/standard_bloom/mod.rs :: impl < 'a > StandardBloomFilterReader < 'a > :: fn has_bit
    fn has_bit(&self, idx: usize) -> /*+*/(r:/*-*/ bool/*+*/)
        requires idx < self.inner.0@.len() * 8
        ensures r == bit(self.inner.0@, idx as int)/*-*/
    {
        self.inner.get(idx)
    }
//@ END
//@ FROM src/table/filter/standard_bloom/mod.rs :: impl < 'a > StandardBloomFilterReader < 'a > :: fn contains_hash :: OBL C01.23
    fn contains_hash(&self, mut h1: u64/*+*/, Ghost(h): Ghost<u64>/*-*/) -> /*+*/(r:/*-*/ bool/*+*/)
        requires self.wf(), h == h1
        // true exactly when every probed bit is on
        ensures r == forall|j: nat| j < self.k ==> bit(self.inner.0@, #[trigger] probe(h, j, self.m))/*-*/
    {
        let mut h2 = secondary_hash(h1);

        for i in /*+*/it:/*-*/ 1..=(self.k as u64)
            /*+*/invariant self.wf(), it.index@ <= self.k,
                h1 == h1_at(h, it.index@ as nat), h2 == h2_at(h, it.index@ as nat),
                forall|j: nat| j < it.index@ ==> bit(self.inner.0@, #[trigger] probe(h, j, self.m)),/*-*/
        {
            let idx = h1 % (self.m as u64);

            if !self.has_bit(idx as usize) {
                /*+*/proof { assert(it.index@ < self.k); assert(idx as int == probe(h, it.index@ as nat, self.m)); assert(!bit(self.inner.0@, probe(h, it.index@ as nat, self.m))); assert(!(forall|j: nat| j < self.k ==> bit(self.inner.0@, #[trigger] probe(h, j, self.m)))); }/*-*/
                return false;
            }

            h1 = h1.wrapping_add(h2);
            h2 = h2.wrapping_mul(i);
        }

        true
    }
//@ END
}

/// no false negatives: a filter whose bits include everything `set_with_hash(h)` switched on (same m, k) answers true for h
proof fn lemma_no_false_negative(built: Seq<u8>, read: Seq<u8>, h: u64, m: usize, k: usize)
    requires forall|j: nat| j < k ==> bit(built, #[trigger] probe(h, j, m)),
        forall|b: int| 0 <= b < built.len() * 8 && #[trigger] bit(built, b) ==> bit(read, b),
        m > 0, m <= built.len() * 8,
    ensures forall|j: nat| j < k ==> bit(read, #[trigger] probe(h, j, m))
{
    assert forall|j: nat| j < k implies bit(read, #[trigger] probe(h, j, m)) by {
        let b = probe(h, j, m);
        assert(0 <= b < m) by { assert((h1_at(h, j) % (m as u64)) < m as u64); }
        assert(bit(built, b));
    }
}

// ---------------- filter block header: Builder::build <-> StandardBloomFilterReader::new ----------------
#[derive(Debug)] enum Error { Io, InvalidHeader(u8), InvalidTag(u8) }
const MAGIC_BYTES: [u8; 4] = [b'L', b'S', b'M', 3];
pub uninterp spec fn le64(x: u64) -> Seq<u8>;
pub uninterp spec fn un_le64(b: Seq<u8>) -> u64;
/// fixed-width little-endian coding (byteorder): invertible
#[verifier::external_body]
pub broadcast proof fn axiom_le64() ensures forall|x: u64| #![trigger le64(x)] le64(x).len() == 8 && un_le64(le64(x)) == x {}
/// Vec<u8> as io::Write with byteorder: appends, never fails (the `expect`s of build are proved)
trait VecWrite { 
    fn write_all_(&mut self, b: &[u8]) -> (r: Result<(), Error>);
    fn write_u8_(&mut self, x: u8) -> (r: Result<(), Error>);
    fn write_u64_le(&mut self, x: u64) -> (r: Result<(), Error>);
}
impl VecWrite for Vec<u8> {
    #[verifier::external_body] fn write_all_(&mut self, b: &[u8]) -> (r: Result<(), Error>) ensures r is Ok, final(self)@ == old(self)@ + b@ { unimplemented!() }
    #[verifier::external_body] fn write_u8_(&mut self, x: u8) -> (r: Result<(), Error>) ensures r is Ok, final(self)@ == old(self)@ + seq![x] { unimplemented!() }
    #[verifier::external_body] fn write_u64_le(&mut self, x: u64) -> (r: Result<(), Error>) ensures r is Ok, final(self)@ == old(self)@ + le64(x) { unimplemented!() }
}
//@ FROM src/table/filter/mod.rs :: - :: enum FilterType
/*+*/#[derive(Copy, Clone, PartialEq, Eq, Structural)]/*-*/
enum FilterType {
    StandardBloom,
    BlockedBloom,
}
//@ END
impl FilterType {
//@ FROM src/table/filter/mod.rs :: impl TryFrom < u8 > for FilterType :: fn try_from
//@ SUBST `Result < Self , Self :: Error >` ==> `Result<Self, Error>`
//@ SUBST `crate :: Error :: InvalidTag ( ( "FilterType" , value ) )` ==> `Error::InvalidTag(value)`
    fn try_from(value: u8) -> /*+*/(r:/*-*/ Result<Self, Error>/*+*/)
        ensures value == 0 ==> r == Ok::<FilterType, Error>(FilterType::StandardBloom), value == 1 ==> r == Ok::<FilterType, Error>(FilterType::BlockedBloom), value > 1 ==> r is Err/*-*/
    {
        match value {
            0 => Ok(Self::StandardBloom),
            1 => Ok(Self::BlockedBloom),
            _ => Err(Error::InvalidTag(value)),
        }
    }
//@ END
}
struct U8From {}
impl U8From {
//@ FROM src/table/filter/mod.rs :: impl From < FilterType > for u8 :: fn from
//@ SUBST `-> Self` ==> `-> u8`
    fn from(value: FilterType) -> /*+*/(r:/*-*/ u8/*+*/) ensures r == (match value { FilterType::StandardBloom => 0u8, FilterType::BlockedBloom => 1u8 })/*-*/
    {
        match value {
            FilterType::StandardBloom => 0,
            FilterType::BlockedBloom => 1,
        }
    }
//@ END
}
/// what Builder::build produces: magic, filter type, hash type, m, k, then the bit array
spec fn filter_image(m: usize, k: usize, bits: Seq<u8>) -> Seq<u8> { MAGIC_BYTES@ + seq![0u8] + seq![0u8] + le64(m as u64) + le64(k as u64) + bits }

impl Builder {
//@ FROM src/table/filter/standard_bloom/builder.rs :: impl Builder :: fn build :: OBL C01.32, C12.29
//@ SUBST `v . write_all ( $1 ) . expect ( "should not fail" ) ;` ==> `v.write_all_($1).expect("should not fail");`
//@ SUBST `v . write_u8 ( FilterType :: StandardBloom . into ( ) ) . expect ( "should not fail" ) ;` ==> `v.write_u8_(U8From::from(FilterType::StandardBloom)).expect("should not fail");`
//@ SUBST `v . write_u8 ( 0 ) . expect ( "should not fail" ) ;` ==> `v.write_u8_(0).expect("should not fail");`
//@ SUBST `v . write_u64 :: < LittleEndian > ( $1 ) . expect ( "should not fail" ) ;` ==> `v.write_u64_le($1).expect("should not fail");`
//@ SUBST `vec ! [ ]` ==> `Vec::new()`
    fn build(&self) -> /*+*/(v:/*-*/ Vec<u8>/*+*/)
        ensures v@ == filter_image(self.m, self.k, self.inner.0@)/*-*/
    {
        let mut v = Vec::new();

        // Write header
        v.write_all_(&MAGIC_BYTES).expect("should not fail");

        // NOTE: Filter type
        v.write_u8_(U8From::from(FilterType::StandardBloom)).expect("should not fail");

        // NOTE: Hash type (unused)
        v.write_u8_(0).expect("should not fail");

        v.write_u64_le(self.m as u64).expect("should not fail");
        v.write_u64_le(self.k as u64).expect("should not fail");
        v.write_all_(self.inner.bytes()).expect("should not fail");
        /*+*/proof { assert(v@ =~= filter_image(self.m, self.k, self.inner.0@)); }/*-*/

        v
    }
//@ END
}

/// std::io::Cursor<&[u8]> with byteorder (in-memory: a read succeeds exactly when the bytes are there)
struct Cursor { ghost data: Seq<u8>, ghost pos: int }
impl Cursor {
    #[verifier::external_body] fn new(s: &[u8]) -> (r: Self) ensures r.data == s@, r.pos == 0 { unimplemented!() }
    #[verifier::external_body]
    fn read_exact(&mut self, buf: &mut [u8]) -> (r: Result<(), Error>)
        ensures final(self).data == old(self).data, final(buf)@.len() == old(buf)@.len(),
            0 <= old(self).pos && old(self).pos + old(buf)@.len() <= old(self).data.len() ==> r is Ok && final(buf)@ == old(self).data.subrange(old(self).pos, old(self).pos + old(buf)@.len()) && final(self).pos == old(self).pos + old(buf)@.len()
    { unimplemented!() }
    #[verifier::external_body]
    fn read_u8(&mut self) -> (r: Result<u8, Error>)
        ensures final(self).data == old(self).data, 0 <= old(self).pos < old(self).data.len() ==> r is Ok && r->Ok_0 == old(self).data[old(self).pos] && final(self).pos == old(self).pos + 1
    { unimplemented!() }
    #[verifier::external_body]
    fn read_u64_le(&mut self) -> (r: Result<u64, Error>)
        ensures final(self).data == old(self).data, 0 <= old(self).pos && old(self).pos + 8 <= old(self).data.len() ==> r is Ok && r->Ok_0 == un_le64(old(self).data.subrange(old(self).pos, old(self).pos + 8)) && final(self).pos == old(self).pos + 8
    { unimplemented!() }
    #[verifier::external_body] fn position(&self) -> (r: u64) ensures r == self.pos { unimplemented!() }
}
/// `slice.get(offset..).expect(..)`: the bound is proved
#[verifier::external_body]
fn tail_from<'a>(s: &'a [u8], from: usize) -> (r: &'a [u8]) requires from <= s@.len() ensures r@ == s@.skip(from as int) { unimplemented!() }
/// `assert_eq!(a, b, ..)`: execution continues only if equal
#[verifier::external_body] fn rt_check(c: bool) ensures c { assert!(c); }
impl<'a> BitArrayReader<'a> {
//@ FROM src/table/filter/bit_array/reader.rs :: impl < 'a > BitArrayReader < 'a > :: fn new
    fn new(bytes: &'a [u8]) -> /*+*/(r:/*-*/ Self/*+*/) ensures r.0@ == bytes@/*-*/ {
        Self(bytes)
    }
//@ END
}
impl<'a> StandardBloomFilterReader<'a> {
//@ FROM src/table/filter/standard_bloom/mod.rs :: impl < 'a > StandardBloomFilterReader < 'a > :: fn new :: OBL C01.32, C12.29
//@ SUBST `crate :: Result < Self >` ==> `Result<Self, Error>`
//@ SUBST `[ 0u8 ; MAGIC_BYTES . len ( ) ]` ==> `[0u8; 4]`
//@ SUBST `crate :: Error :: InvalidHeader ( "BloomFilter" )` ==> `Error::InvalidHeader(0)`
//@ SUBST `assert_eq ! ( FilterType :: StandardBloom , filter_type , $1 ) ;` ==> `rt_check(FilterType::StandardBloom == filter_type);`
//@ SUBST `assert_eq ! ( 0 , hash_type , "Invalid bloom hash type" ) ;` ==> `rt_check(0 == hash_type);`
//@ SUBST `read_u64 :: < LittleEndian >` ==> `read_u64_le`
//@ SUBST `slice . get ( offset .. ) . expect ( "should be in bounds" )` ==> `tail_from(slice, offset)`
    fn new(slice: &'a [u8]/*+*/, Ghost(f): Ghost<(usize, usize, Seq<u8>)>/*-*/) -> /*+*/(r:/*-*/ Result<Self, Error>/*+*/)
        requires slice@ == filter_image(f.0, f.1, f.2)
        // what the builder wrote is what the reader sees: m, k and the bit array
        ensures r is Ok && r->Ok_0.m == f.0 && r->Ok_0.k == f.1 && r->Ok_0.inner.0@ == f.2/*-*/
    {
        /*+*/proof {
            broadcast use axiom_le64;
            let d = slice@;
            assert(MAGIC_BYTES@.len() == 4);
            assert(d.subrange(0, 4) =~= MAGIC_BYTES@);
            assert(d[4] == 0u8 && d[5] == 0u8);
            assert(d.subrange(6, 14) =~= le64(f.0 as u64));
            assert(d.subrange(14, 22) =~= le64(f.1 as u64));
            assert(d.skip(22) =~= f.2);
        }/*-*/
        let mut reader = Cursor::new(slice);

        // Check header
        let mut magic = [0u8; 4];
        reader.read_exact(&mut magic)?;

        if magic != MAGIC_BYTES {
            /*+*/proof { assert(magic@ =~= MAGIC_BYTES@); }/*-*/
            return Err(Error::InvalidHeader(0));
        }

        // NOTE: Filter type
        let filter_type = reader.read_u8()?;
        let filter_type = FilterType::try_from(filter_type)?;
        rt_check(FilterType::StandardBloom == filter_type);

        // NOTE: Hash type (unused)
        let hash_type = reader.read_u8()?;
        rt_check(0 == hash_type);

        let m = reader.read_u64_le()? as usize;

        let k = reader.read_u64_le()? as usize;

        let offset = reader.position() as usize;

        Ok(Self {
            k,
            m,
            inner: BitArrayReader::new(tail_from(slice, offset)),
        })
    }
//@ END
}

// ---------------- full filter writer and filter block ----------------
/// crate::hash::hash64 (xxh3) of the key bytes
uninterp spec fn hash64_spec(key: Seq<u8>) -> u64;
#[verifier::external_body] struct UserKey { p: u8 }
impl View for UserKey { type V = Seq<u8>; uninterp spec fn view(&self) -> Seq<u8>; }
impl Builder {
    /// Builder::get_hash(key) = crate::hash::hash64(key)
    #[verifier::external_body] fn get_hash(key: &UserKey) -> (r: u64) ensures r == hash64_spec(key@) { unimplemented!() }
}
/// BloomConstructionPolicy::init(n): Builder::with_fp_rate / with_bpk (float arithmetic, not verified): a well-formed empty builder
struct BloomConstructionPolicy { p: u8 }
impl BloomConstructionPolicy {
    #[verifier::external_body] fn init(&self, n: usize) -> (r: Builder) ensures r.wf() { unimplemented!() }
}
//@ FROM src/table/writer/filter/full.rs :: - :: struct FullFilterWriter
struct FullFilterWriter {
    bloom_hash_buffer: Vec<u64>,

    bloom_policy: BloomConstructionPolicy,
}
//@ END
/// every probe bit of hash h is on
spec fn holds(bits: Seq<u8>, h: u64, m: usize, k: usize) -> bool { forall|j: nat| j < k ==> bit(bits, #[trigger] probe(h, j, m)) }
proof fn lemma_holds_mono(a: Seq<u8>, b: Seq<u8>, h: u64, m: usize, k: usize)
    requires holds(a, h, m, k), m > 0, m <= a.len() * 8, a.len() == b.len(), forall|x: int| 0 <= x < a.len() * 8 && #[trigger] bit(a, x) ==> bit(b, x)
    ensures holds(b, h, m, k)
{
    assert forall|j: nat| j < k implies bit(b, #[trigger] probe(h, j, m)) by {
        let x = probe(h, j, m);
        assert(0 <= x < m) by { assert((h1_at(h, j) % (m as u64)) < m as u64); }
        assert(bit(a, x));
    }
}
impl FullFilterWriter {
//@ FROM src/table/writer/filter/full.rs :: FilterWriter < W > for FullFilterWriter :: fn register_key :: OBL C01.32
//@ SUBST `crate :: Result < ( ) >` ==> `Result<(), Error>`
    fn register_key(&mut self, key: &UserKey) -> /*+*/(r:/*-*/ Result<(), Error>/*+*/)
        ensures r is Ok, final(self).bloom_hash_buffer@ == old(self).bloom_hash_buffer@.push(hash64_spec(key@))/*-*/
    {
        self.bloom_hash_buffer.push(Builder::get_hash(key));
        Ok(())
    }
//@ END
}
//@ WRAPPER_BEGIN
/// wrapper (generated) around the statements of FullFilterWriter::finish that build the filter from the buffered hashes
fn build_filter(bloom_hash_buffer: Vec<u64>, bloom_policy: &BloomConstructionPolicy, n: usize) -> (filter_bytes: Vec<u8>)
    ensures exists|m: usize, k: usize, bits: Seq<u8>| #![trigger filter_image(m, k, bits)] filter_bytes@ == filter_image(m, k, bits) && m > 0 && m <= bits.len() * 8
        // every registered hash is in the filter
        && forall|i: int| 0 <= i < bloom_hash_buffer@.len() ==> holds(bits, #[trigger] bloom_hash_buffer@[i], m, k)
{
//@ FROM src/table/writer/filter/full.rs :: FilterWriter < W > for FullFilterWriter :: fn finish :: BLOCK 1 `} else {` :: STMTS `let filter_bytes =` .. `let filter_bytes =` :: OBL C01.32
//@ SUBST `self . bloom_policy . init ( n )` ==> `bloom_policy.init(n)`
//@ SUBST `for hash in self . bloom_hash_buffer {` ==> `for hash in it__: bloom_hash_buffer {`
    /*+*/let ghost hs = bloom_hash_buffer@; let ghost mut gm: usize = 0; let ghost mut gk: usize = 0; let ghost mut gbits: Seq<u8> = Seq::empty();/*-*/
    let filter_bytes = {
        let mut builder = bloom_policy.init(n);

        for hash in it__: bloom_hash_buffer
            /*+*/invariant builder.wf(), it__.seq() == hs,
                forall|i: int| 0 <= i < it__.index@ ==> holds(builder.inner.0@, #[trigger] hs[i], builder.m, builder.k),/*-*/
        {
            /*+*/let ghost b0 = builder.inner.0@; let ghost m = builder.m; let ghost k = builder.k;/*-*/
            builder.set_with_hash(hash);
            /*+*/proof {
                assert(hash == hs[it__.index@ as int]);
                assert forall|i: int| 0 <= i < it__.index@ + 1 implies holds(builder.inner.0@, #[trigger] hs[i], builder.m, builder.k) by {
                    if i < it__.index@ { lemma_holds_mono(b0, builder.inner.0@, hs[i], m, k); }
                }
            }/*-*/
        }

        /*+*/proof { gm = builder.m; gk = builder.k; gbits = builder.inner.0@; }/*-*/
        builder.build()
    };
//@ END
    proof { assert(filter_bytes@ == filter_image(gm, gk, gbits)); }
    filter_bytes
}
//@ WRAPPER_END

struct Slice { v: Vec<u8> }
impl Slice { fn as_bytes(&self) -> (r: &[u8]) ensures r@ == self.v@ { self.v.as_slice() } }
struct Block { data: Slice }
//@ FROM src/table/filter/block.rs :: - :: struct FilterBlock
struct FilterBlock(Block);
//@ END
impl FilterBlock {
//@ FROM src/table/filter/block.rs :: impl FilterBlock :: fn maybe_contains_hash :: OBL C01.32
//@ SUBST `crate :: Result < bool >` ==> `Result<bool, Error>`
//@ SUBST `StandardBloomFilterReader :: new ( & self . 0 . data ) ? . contains_hash ( hash )` ==> `StandardBloomFilterReader::new(self.0.data.as_bytes(), Ghost(f))?.contains_hash(hash, Ghost(hash))`
    fn maybe_contains_hash(&self, hash: u64/*+*/, Ghost(f): Ghost<(usize, usize, Seq<u8>)>/*-*/) -> /*+*/(r:/*-*/ Result<bool, Error>/*+*/)
        requires self.0.data.v@ == filter_image(f.0, f.1, f.2), f.0 > 0, f.0 <= f.2.len() * 8
        // a filter block written by the full filter writer answers true for every hash whose probe bits are on - no false negatives
        ensures r is Ok && r->Ok_0 == holds(f.2, hash, f.0, f.1)/*-*/
    {
        Ok(StandardBloomFilterReader::new(self.0.data.as_bytes(), Ghost(f))?.contains_hash(hash, Ghost(hash)))
    }
//@ END
}
}
fn main() {}
