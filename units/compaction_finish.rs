//@ UNIT compaction_finish
// StandardCompaction::finish: input tables and dead blob files are marked for deletion only after the version that no longer
// references them has been published (persisted + appended); on any error nothing is marked.
// Obligations C05.4, C20.4, C16.5
use vstd::prelude::*;
use vstd::std_specs::iter::*;
verus! {

#[verifier::external_body] pub struct Error { p: u8 }
#[verifier::external_body] pub struct Path { p: u8 }
#[verifier::external_body] pub struct Instant { p: u8 }
#[verifier::external_body] pub struct MultiWriter { p: u8 }
#[verifier::external_body] pub struct SequenceNumberCounter { p: u8 }
pub type TableId = u64;
pub type BlobFileId = u64;

//@ INCLUDE prelude/seqiter.rs

/// Table / BlobFile handles: `mark_as_deleted` makes the file disappear once the last reference is dropped, so it may only be
/// called when the published version no longer names the file.  The ghost argument is the caller's knowledge "the new version
/// has been published" (rule R15; set from the contract of upgrade_version below).
pub struct Table { pub id: u64 }
impl Table { #[verifier::external_body] pub fn mark_as_deleted(&self, Ghost(published): Ghost<bool>) requires published { } }
pub struct BlobFile { pub id: u64 }
impl BlobFile {
    #[verifier::external_body] pub fn mark_as_deleted(&self, Ghost(published): Ghost<bool>) requires published { }
    #[verifier::external_body] pub fn is_dead(&self, gc: &FragmentationMap) -> bool { unimplemented!() }
    pub fn id(&self) -> (r: u64) ensures r == self.id { self.id }
}
impl Clone for BlobFile { #[verifier::external_body] fn clone(&self) -> (r: Self) ensures r == *self { unimplemented!() } }
pub struct FragmentationMap { pub p: u8 }
impl FragmentationMap { #[verifier::external_body] pub fn is_empty(&self) -> bool { unimplemented!() } }
#[verifier::external_body] pub struct IdSet { p: u8 }
/// stands for `v.iter().map(BlobFile::id).collect::<HashSet<_>>()`
#[verifier::external_body] pub fn ids_of(v: &Vec<BlobFile>) -> IdSet { unimplemented!() }
pub struct BlobFiles { pub v: Vec<BlobFile> }
impl BlobFiles {
    #[verifier::external_body]
    pub fn iter(&self) -> (r: SeqIter<&BlobFile>) ensures r.rest().len() == self.v@.len() { unimplemented!() }
}
pub struct Version { pub blob_files: BlobFiles, pub gc: FragmentationMap }
impl Version {
    pub fn gc_stats(&self) -> &FragmentationMap { &self.gc }
    #[verifier::external_body]
    pub fn with_merge(&self, old_ids: &Vec<TableId>, new_tables: &Vec<Table>, dest_level: usize, diff: Option<FragmentationMap>, new_blob_files: Vec<BlobFile>, blob_files_to_drop: &IdSet) -> Version { unimplemented!() }
}
pub struct SuperVersion { pub version: Version }
impl Clone for SuperVersion { #[verifier::external_body] fn clone(&self) -> (r: Self) { unimplemented!() } }
pub struct SuperVersions { pub h: Vec<SuperVersion> }
impl SuperVersions {
    #[verifier::external_body]
    pub fn latest_version(&self) -> (r: SuperVersion) requires self.h@.len() > 0 { unimplemented!() }
    /// contract proved in unit super_versions (C02.4 / C16.1): Ok <=> the new version was persisted and appended
    #[verifier::external_body]
    pub fn upgrade_version<F: FnOnce(&SuperVersion) -> Result<SuperVersion, Error>>(&mut self, tree_path: &Path, f: F, seqno: &SequenceNumberCounter, visible_seqno: &SequenceNumberCounter) -> (r: Result<(), Error>)
        requires old(self).h@.len() > 0, forall|x: &SuperVersion| call_requires(f, (x,)),
        ensures r is Err ==> final(self).h@ == old(self).h@, r is Ok ==> final(self).h@.len() == old(self).h@.len() + 1,
    { unimplemented!() }
}
pub struct Config { pub path: Path }
pub struct Options { pub config: Config, pub global_seqno: SequenceNumberCounter, pub visible_seqno: SequenceNumberCounter }
pub struct CompactionPayload { pub table_ids: Vec<TableId>, pub dest_level: u8 }
impl CompactionPayload {
    /// stands for `payload.table_ids.iter().copied().collect::<Vec<_>>()`
    #[verifier::external_body] pub fn table_id_vec(&self) -> (r: Vec<TableId>) { unimplemented!() }
}
/// stands for std::mem::take on a Vec
#[verifier::external_body] pub fn take_tables(v: &mut Vec<Table>) -> (r: Vec<Table>) ensures r@ == old(v)@, final(v)@.len() == 0 { unimplemented!() }

//@ FROM src/compaction/flavour.rs :: - :: struct StandardCompaction
struct StandardCompaction {
    start: Instant,
    table_writer: MultiWriter,
    tables_to_rewrite: Vec<Table>,
}
//@ END
impl StandardCompaction {
    /// finishes the output tables (I/O; not under contract)
    #[verifier::external_body]
    fn consume_writer(self, opts: &Options, dst_lvl: usize) -> (r: Result<Vec<Table>, Error>) { unimplemented!() }

//@ FROM src/compaction/flavour.rs :: CompactionFlavour for StandardCompaction :: fn finish :: OBL C05.4, C20.4, C16.5
//@ SUBST `crate :: Result < ( ) >` ==> `Result<(), Error>`
//@ SUBST `std :: mem :: take ( & mut self . tables_to_rewrite )` ==> `take_tables(&mut self.tables_to_rewrite)`
//@ SUBST `& payload . table_ids . iter ( ) . copied ( ) . collect :: < Vec < _ > > ( )` ==> `&payload.table_id_vec()`
//@ SUBST `& blob_files_to_drop . iter ( ) . map ( BlobFile :: id ) . collect :: < HashSet < _ > > ( )` ==> `&ids_of(&blob_files_to_drop)`
//@ SUBST `. mark_as_deleted ( )` ==> `.mark_as_deleted(Ghost(published))`
    fn finish(
        mut self: Box<Self>,
        super_version: &mut SuperVersions,
        opts: &Options,
        payload: &CompactionPayload,
        dst_lvl: usize,
        blob_frag_map: FragmentationMap,
        extra_blob_files: Vec<BlobFile>,
    ) -> /*+*/(r: /*-*/Result<(), Error>/*+*/)
        requires old(super_version).h@.len() > 0,
        ensures
            // C16.5: a failed finish published nothing (and, by the precondition of mark_as_deleted, marked nothing)
            r is Err ==> final(super_version).h@.len() <= old(super_version).h@.len() + 1,/*-*/
    {
        /*+*/let ghost mut published = false;
        let ghost n0 = super_version.h@.len();/*-*/
        let table_ids_to_delete = take_tables(&mut self.tables_to_rewrite);

        let created_tables = self.consume_writer(opts, dst_lvl)?;

        let mut blob_files_to_drop = Vec::default();

        let current_version = super_version.latest_version();

        for blob_file in /*+*/it: /*-*/current_version.version.blob_files.iter()
            /*+*/invariant super_version.h@.len() == n0, !published,/*-*/
        {
            if blob_file.is_dead(current_version.version.gc_stats()) {
                blob_files_to_drop.push(blob_file.clone());
            }
        }

        super_version.upgrade_version(
            &opts.config.path,
            |current/*+*/: &SuperVersion/*-*/| /*+*/-> (o: Result<SuperVersion, Error>)/*-*/ {
                let mut copy = current.clone();

                copy.version = copy.version.with_merge(
                    &payload.table_id_vec(),
                    &created_tables,
                    payload.dest_level as usize,
                    if blob_frag_map.is_empty() {
                        None
                    } else {
                        Some(blob_frag_map)
                    },
                    extra_blob_files,
                    &ids_of(&blob_files_to_drop),
                );

                Ok(copy)
            },
            &opts.global_seqno,
            &opts.visible_seqno,
        )?;
        /*+*/proof {
            // C05.4 / C20.4: from here on the version without the input tables is persisted and is the latest one
            assert(super_version.h@.len() == n0 + 1);
            published = true;
        }/*-*/

        for table in /*+*/it1: /*-*/table_ids_to_delete
            /*+*/invariant published,/*-*/
        {
            table.mark_as_deleted(Ghost(published));
        }

        for blob_file in /*+*/it3: /*-*/blob_files_to_drop
            /*+*/invariant published,/*-*/
        {
            blob_file.mark_as_deleted(Ghost(published));
        }

        Ok(())
    }
//@ END
}

/// BlobFileWriter (vlog::blob_file::multi_writer): finish() returns the blob files it wrote
#[verifier::external_body] pub struct BlobFileWriter { p: u8 }
impl BlobFileWriter { #[verifier::external_body] pub fn finish(self) -> (r: Result<Vec<BlobFile>, Error>) { unimplemented!() } }
/// Vec::extend with a Vec
#[verifier::external_body] pub fn extend_blob_files(v: &mut Vec<BlobFile>, more: Vec<BlobFile>) ensures final(v)@ == old(v)@ + more@ { unimplemented!() }
#[verifier::external_body] pub struct BlobScanner { p: u8 }
#[verifier::external_body] pub struct IdSetOwned { p: u8 }

//@ FROM src/compaction/flavour.rs :: - :: struct RelocatingCompaction
//@ SUBST `Peekable < BlobFileMergeScanner >` ==> `BlobScanner`
//@ SUBST `HashSet < BlobFileId >` ==> `IdSetOwned`
struct RelocatingCompaction {
    inner: StandardCompaction,
    blob_scanner: BlobScanner,
    blob_writer: BlobFileWriter,
    rewriting_blob_file_ids: IdSetOwned,
    rewriting_blob_files: Vec<BlobFile>,
}
//@ END
impl RelocatingCompaction {
//@ FROM src/compaction/flavour.rs :: CompactionFlavour for RelocatingCompaction :: fn finish :: OBL C05.4, C20.4, C16.5, C08.12
//@ SUBST `crate :: Result < ( ) >` ==> `Result<(), Error>`
//@ SUBST `std :: mem :: take ( & mut self . inner . tables_to_rewrite )` ==> `take_tables(&mut self.inner.tables_to_rewrite)`
//@ SUBST `created_blob_files . extend ( extra_blob_files )` ==> `extend_blob_files(&mut created_blob_files, extra_blob_files)`
//@ SUBST `& payload . table_ids . iter ( ) . copied ( ) . collect :: < Vec < _ > > ( )` ==> `&payload.table_id_vec()`
//@ SUBST `& blob_files_to_drop . iter ( ) . map ( BlobFile :: id ) . collect :: < HashSet < _ > > ( )` ==> `&ids_of(&blob_files_to_drop)`
//@ SUBST `. mark_as_deleted ( )` ==> `.mark_as_deleted(Ghost(published))`
    fn finish(
        mut self: Box<Self>,
        super_version: &mut SuperVersions,
        opts: &Options,
        payload: &CompactionPayload,
        dst_lvl: usize,
        blob_frag_map_diff: FragmentationMap,
        extra_blob_files: Vec<BlobFile>,
    ) -> /*+*/(r:/*-*/ Result<(), Error>/*+*/)
        requires old(super_version).h@.len() > 0,
        ensures
            r is Err ==> final(super_version).h@.len() <= old(super_version).h@.len() + 1,/*-*/
    {
        /*+*/let ghost mut published = false;
        let ghost n0 = super_version.h@.len();
        let ghost rewritten = self.rewriting_blob_files@;/*-*/
        let table_ids_to_delete = take_tables(&mut self.inner.tables_to_rewrite);

        let created_tables = self.inner.consume_writer(opts, dst_lvl)?;
        let mut created_blob_files = self.blob_writer.finish()?;
        /*+*/let ghost written = created_blob_files@;/*-*/
        extend_blob_files(&mut created_blob_files, extra_blob_files);

        let mut blob_files_to_drop = self.rewriting_blob_files;

        let current_version = super_version.latest_version();

        for blob_file in /*+*/it:/*-*/ current_version.version.blob_files.iter()
            /*+*/invariant super_version.h@.len() == n0, !published, created_blob_files@ == written + extra_blob_files@,
                // C08.12: every relocated (rewritten) blob file stays in the drop list: it is dropped only together with the
                // publication of the tables that point to its replacement
                blob_files_to_drop@.len() >= rewritten.len(), blob_files_to_drop@.take(rewritten.len() as int) == rewritten,/*-*/
        {
            if blob_file.is_dead(current_version.version.gc_stats()) {
                blob_files_to_drop.push(blob_file.clone());
            }
        }

        super_version.upgrade_version(
            &opts.config.path,
            |current/*+*/: &SuperVersion/*-*/| /*+*/-> (o: Result<SuperVersion, Error>)/*-*/ {
                let mut copy = current.clone();
                /*+*/proof { assert(created_blob_files@ == written + extra_blob_files@); }/*-*/

                copy.version = copy.version.with_merge(
                    &payload.table_id_vec(),
                    &created_tables,
                    payload.dest_level as usize,
                    if blob_frag_map_diff.is_empty() {
                        None
                    } else {
                        Some(blob_frag_map_diff)
                    },
                    created_blob_files,
                    &ids_of(&blob_files_to_drop),
                );

                Ok(copy)
            },
            &opts.global_seqno,
            &opts.visible_seqno,
        )?;
        /*+*/proof {
            assert(super_version.h@.len() == n0 + 1);
            published = true;
        }/*-*/

        for table in /*+*/it1:/*-*/ table_ids_to_delete
            /*+*/invariant published,/*-*/
        {
            table.mark_as_deleted(Ghost(published));
        }

        for blob_file in /*+*/it3:/*-*/ blob_files_to_drop
            /*+*/invariant published,/*-*/
        {
            blob_file.mark_as_deleted(Ghost(published));
        }

        Ok(())
    }
//@ END
}

} // verus!
fn main() {}
