//@ UNIT compaction_inputs
// compaction::worker::{pick_run_indexes, create_compaction_stream}: the merge stream of a compaction reads every table it was
// asked to compact - in each run the slice from the first to the last requested table, in single-table runs the table itself -
// and is only built when the number of tables read equals the number requested.  Obligations C01.20, C09.8
use vstd::prelude::*;
use vstd::std_specs::iter::*;
verus! {

global size_of usize == 8;

type TableId = u64;
type SeqNo = u64;
//@ INCLUDE prelude/seqiter.rs

enum Error { Io }
struct Meta { id: TableId }
struct Table { metadata: Meta }
impl Table {
    fn id(&self) -> (r: TableId) ensures r == self.metadata.id { self.metadata.id }
    /// Table::scan: a scanner over this table (I/O)
    #[verifier::external_body] fn scan(&self) -> (r: Result<Reader, Error>) ensures r is Ok ==> r->Ok_0.tables == seq![*self] { unimplemented!() }
}
struct Run { tables: Vec<Table> }
impl Run {
    fn len(&self) -> (r: usize) ensures r == self.tables@.len() { self.tables.len() }
    #[verifier::external_body] fn clone(&self) -> (r: Self) ensures r == *self { unimplemented!() }
}
/// `to_compact.contains(&id)`
spec fn wanted(c: Seq<TableId>, id: TableId) -> bool { c.contains(id) }
#[verifier::external_body] fn contains_id(c: &[TableId], id: &TableId) -> (r: bool) ensures r == wanted(c@, *id) { unimplemented!() }
/// `run.iter().position(p)` / `.rposition(p)` (std): first / last index whose element satisfies p
#[verifier::external_body]
fn position<P: Fn(&Table) -> bool>(run: &Run, p: P) -> (r: Option<usize>)
    requires forall|i: int| 0 <= i < run.tables@.len() ==> call_requires(p, (&#[trigger] run.tables@[i],))
    ensures match r {
        Some(k) => k < run.tables@.len() && call_ensures(p, (&run.tables@[k as int],), true) && forall|i: int| 0 <= i < k ==> call_ensures(p, (&#[trigger] run.tables@[i],), false),
        None => forall|i: int| 0 <= i < run.tables@.len() ==> call_ensures(p, (&#[trigger] run.tables@[i],), false) }
{ unimplemented!() }
#[verifier::external_body]
fn rposition<P: Fn(&Table) -> bool>(run: &Run, p: P) -> (r: Option<usize>)
    requires forall|i: int| 0 <= i < run.tables@.len() ==> call_requires(p, (&#[trigger] run.tables@[i],))
    ensures match r {
        Some(k) => k < run.tables@.len() && call_ensures(p, (&run.tables@[k as int],), true) && forall|i: int| k < i < run.tables@.len() ==> call_ensures(p, (&#[trigger] run.tables@[i],), false),
        None => forall|i: int| 0 <= i < run.tables@.len() ==> call_ensures(p, (&#[trigger] run.tables@[i],), false) }
{ unimplemented!() }
/// a compaction reader: `tables` = the tables it scans, in order (ghost)
struct Reader { ghost tables: Seq<Table> }
struct RunScanner { p: u8 }
impl RunScanner {
    /// RunScanner::culled(run, (Some(lo), Some(hi))): scans exactly tables lo..=hi of the run (unit run_scanner, C12.7)
    #[verifier::external_body]
    fn culled(run: Run, bounds: (Option<usize>, Option<usize>)) -> (r: Result<Reader, Error>)
        requires bounds.0 is Some, bounds.1 is Some, bounds.0->Some_0 <= bounds.1->Some_0 < run.tables@.len()
        ensures r is Ok ==> r->Ok_0.tables == run.tables@.subrange(bounds.0->Some_0 as int, bounds.1->Some_0 + 1)
    { unimplemented!() }
}
struct Version { runs: Vec<Run> }
impl Version {
    /// `version.iter_levels().flat_map(|lvl| lvl.iter())`: every run of every level
    #[verifier::external_body]
    fn iter_runs(&self) -> (r: SeqIter<&Run>) ensures r.rest().len() == self.runs@.len(), forall|i: int| 0 <= i < self.runs@.len() ==> *(#[trigger] r.rest()[i]) == self.runs@[i] { unimplemented!() }
}
/// `run.iter().filter(|x| to_compact.contains(&x.metadata.id))` on a run of at most one table
#[verifier::external_body]
fn wanted_tables<'a>(run: &'a Run, c: &[TableId]) -> (r: SeqIter<&'a Table>)
    requires run.tables@.len() <= 1
    ensures run.tables@.len() == 1 && wanted(c@, run.tables@[0].metadata.id) ==> r.rest().len() == 1 && *r.rest()[0] == run.tables@[0],
        !(run.tables@.len() == 1 && wanted(c@, run.tables@[0].metadata.id)) ==> r.rest().len() == 0
{ unimplemented!() }
struct Stream { ghost readers: Seq<Reader> }
/// `CompactionStream::new(Merger::new(readers), eviction_seqno)`
#[verifier::external_body] fn new_stream(readers: Vec<Reader>, eviction_seqno: SeqNo) -> (r: Stream) ensures r.readers == readers@ { unimplemented!() }

/// table t is read by one of the readers
spec fn read_by(readers: Seq<Reader>, t: Table) -> bool { exists|k: int, j: int| 0 <= k < readers.len() && 0 <= j < readers[k].tables.len() && #[trigger] readers[k].tables[j] == t }
/// number of tables in the first n runs
spec fn total(runs: Seq<Run>, n: int) -> int decreases n { if n <= 0 { 0 } else { total(runs, n - 1) + runs[n - 1].tables@.len() } }
proof fn lemma_total_mono(runs: Seq<Run>, a: int, b: int)
    requires 0 <= a <= b
    ensures total(runs, a) <= total(runs, b)
    decreases b - a
{ if a < b { lemma_total_mono(runs, a, b - 1); } }
proof fn lemma_read_by_mono(a: Seq<Reader>, b: Seq<Reader>, t: Table)
    requires read_by(a, t), a.len() <= b.len(), forall|k: int| 0 <= k < a.len() ==> b[k] == #[trigger] a[k]
    ensures read_by(b, t)
{
    let (k, j) = choose|k: int, j: int| 0 <= k < a.len() && 0 <= j < a[k].tables.len() && #[trigger] a[k].tables[j] == t;
    assert(b[k].tables[j] == t);
}

//@ FROM src/compaction/worker.rs :: - :: fn pick_run_indexes :: OBL C01.20, C09.8
//@ SUBST `& Run < Table >` ==> `&Run`
//@ SUBST `run . iter ( ) . position ( $1 )` ==> `position(run, $1)`
//@ SUBST `run . iter ( ) . rposition ( $1 )` ==> `rposition(run, $1)`
//@ SUBST `to_compact . contains ( & table . id ( ) )` ==> `contains_id(to_compact, &table.id())`
fn pick_run_indexes(run: &Run, to_compact: &[TableId]) -> /*+*/(r:/*-*/ Option<(usize, usize)>/*+*/)
    ensures match r {
        // the slice from the first to the last requested table of the run
        Some((lo, hi)) => lo <= hi < run.tables@.len()
            && forall|i: int| 0 <= i < run.tables@.len() && wanted(to_compact@, (#[trigger] run.tables@[i]).metadata.id) ==> lo <= i <= hi,
        None => forall|i: int| 0 <= i < run.tables@.len() ==> !wanted(to_compact@, (#[trigger] run.tables@[i]).metadata.id) }/*-*/
{
    let lo = position(run, |table/*+*/: &Table/*-*/| /*+*/-> (b: bool) ensures b == wanted(to_compact@, table.metadata.id) {/*-*/ contains_id(to_compact, &table.id()) /*+*/}/*-*/)?;

    let hi = rposition(run, |table/*+*/: &Table/*-*/| /*+*/-> (b: bool) ensures b == wanted(to_compact@, table.metadata.id) {/*-*/ contains_id(to_compact, &table.id()) /*+*/}/*-*/)?;

    Some((lo, hi))
}
//@ END

//@ FROM src/compaction/worker.rs :: - :: fn create_compaction_stream :: OBL C01.20, C09.8
//@ SUBST `crate :: Result < Option < CompactionStream < 'a , Merger < CompactionReader < 'a > > > > >` ==> `Result<Option<Stream>, Error>`
//@ SUBST `fn create_compaction_stream < 'a > (` ==> `fn create_compaction_stream(`
//@ SUBST `Vec < CompactionReader < '_ > >` ==> `Vec<Reader>`
//@ SUBST `vec ! [ ]` ==> `Vec::new()`
//@ SUBST `for run in version . iter_levels ( ) . flat_map ( | lvl | lvl . iter ( ) ) {` ==> `let mut iter__ = version.iter_runs(); loop { let Some(run) = iter__.next() else { break; };`
//@ SUBST `Box :: new ( RunScanner :: culled ( $1 ) ? )` ==> `RunScanner::culled($1)?`
//@ SUBST `Box :: new ( table . scan ( ) ? )` ==> `table.scan()?`
//@ SUBST `run . iter ( ) . filter ( $1 )` ==> `wanted_tables(run, to_compact)`
//@ SUBST `CompactionStream :: new ( Merger :: new ( readers ) , eviction_seqno )` ==> `new_stream(readers, eviction_seqno)`
fn create_compaction_stream(
    version: &Version,
    to_compact: &[TableId],
    eviction_seqno: SeqNo,
) -> /*+*/(r:/*-*/ Result<Option<Stream>, Error>/*+*/)
    requires total(version.runs@, version.runs@.len() as int) <= usize::MAX
    ensures r is Ok && r->Ok_0 is Some ==>
        // no requested table of the version is left out of the merge
        forall|ri: int, i: int| 0 <= ri < version.runs@.len() && 0 <= i < version.runs@[ri].tables@.len()
            && wanted(to_compact@, (#[trigger] version.runs@[ri].tables@[i]).metadata.id) ==> read_by(r->Ok_0->Some_0.readers, version.runs@[ri].tables@[i])/*-*/
{
    let mut readers: Vec<Reader> = Vec::new();
    let mut found/*+*/: usize/*-*/ = 0;

    /*+*/let ghost mut ri: int = 0;/*-*/
    let mut iter__ = version.iter_runs(); loop
        /*+*/invariant 0 <= ri <= version.runs@.len(), iter__.rest().len() == version.runs@.len() - ri,
            total(version.runs@, version.runs@.len() as int) <= usize::MAX, found <= total(version.runs@, ri),
            forall|j: int| 0 <= j < iter__.rest().len() ==> *(#[trigger] iter__.rest()[j]) == version.runs@[ri + j],
            forall|r2: int, i: int| 0 <= r2 < ri && 0 <= i < version.runs@[r2].tables@.len()
                && wanted(to_compact@, (#[trigger] version.runs@[r2].tables@[i]).metadata.id) ==> read_by(readers@, version.runs@[r2].tables@[i]),
        ensures ri == version.runs@.len(),
        decreases iter__.rest().len(),/*-*/
    {
        /*+*/let ghost rest0 = iter__.rest();/*-*/
        let Some(run) = iter__.next() else { break; };
        /*+*/proof {
            assert(*run == version.runs@[ri]);
            assert forall|j: int| 0 <= j < iter__.rest().len() implies *(#[trigger] iter__.rest()[j]) == version.runs@[ri + 1 + j] by { assert(iter__.rest()[j] == rest0[j + 1]); }
            lemma_total_mono(version.runs@, ri + 1, version.runs@.len() as int);
        }
        let ghost rd0 = readers@;/*-*/
        if run.len() > 1 {
            let Some((lo, hi)) = pick_run_indexes(run, to_compact) else {
                /*+*/proof { ri = ri + 1; }/*-*/
                continue;
            };

            readers.push(RunScanner::culled(
                run.clone(),
                (Some(lo), Some(hi)),
            )?);

            found += hi - lo + 1;
            /*+*/proof {
                let nr = readers@.last();
                assert forall|i: int| 0 <= i < run.tables@.len() && wanted(to_compact@, (#[trigger] run.tables@[i]).metadata.id) implies read_by(readers@, run.tables@[i]) by {
                    assert(nr.tables[i - lo] == run.tables@[i]);
                    assert(readers@[readers@.len() - 1].tables[i - lo] == run.tables@[i]);
                }
            }/*-*/
        } else {
            for table in /*+*/it_t:/*-*/ wanted_tables(run, to_compact)
                /*+*/invariant run.tables@.len() <= 1, it_t.seq().len() <= 1, found <= total(version.runs@, ri) + it_t.index@, total(version.runs@, ri) + 1 <= usize::MAX || it_t.seq().len() == 0,
                    rd0.len() <= readers@.len(), forall|k: int| 0 <= k < rd0.len() ==> readers@[k] == #[trigger] rd0[k],
                    forall|i: int| 0 <= i < it_t.index@ ==> read_by(readers@, *(#[trigger] it_t.seq()[i])),/*-*/
            {
                found += 1;
                readers.push(table.scan()?);
                /*+*/proof { assert(readers@[readers@.len() - 1].tables[0] == *table); }/*-*/
            }
        }
        /*+*/proof {
            assert forall|r2: int, i: int| 0 <= r2 < ri + 1 && 0 <= i < version.runs@[r2].tables@.len()
                && wanted(to_compact@, (#[trigger] version.runs@[r2].tables@[i]).metadata.id) implies read_by(readers@, version.runs@[r2].tables@[i]) by {
                if r2 < ri { lemma_read_by_mono(rd0, readers@, version.runs@[r2].tables@[i]); }
            }
            ri = ri + 1;
        }/*-*/
    }

    Ok(if found == to_compact.len() {
        Some(new_stream(readers, eviction_seqno))
    } else {
        None
    })
}
//@ END

}
fn main() {}
