//@ UNIT data_block_read
// Data block reads (src/table/data_block/mod.rs, iter.rs; src/table/util.rs): `DataBlock::point_read` returns exactly the first
// entry of the block (storage order) that is a version of the key below the snapshot - through the hash index (free / conflict /
// hit), the binary-index seek and the linear scan; `Iter::seek` / `seek_exclusive` / `seek_upper` / `seek_upper_exclusive`
// narrow the cursor to exactly the entries satisfying the bound; `compare_key` / `compare_prefixed_slice` compare the
// (prefix-truncated) key with the needle byte-lexicographically; `materialize` rebuilds the entry the item addresses.
use vstd::prelude::*;
use core::cmp::Ordering;
verus! {
global size_of usize == 8;
type SeqNo = u64;

// ---------------- prelude (TRUSTED) ----------------
/// byte-lexicographic order of `[u8]` (what `<[u8] as Ord>::cmp` computes)
pub open spec fn lex_cmp(a: Seq<u8>, b: Seq<u8>) -> Ordering decreases a.len()
{
    if a.len() == 0 { if b.len() == 0 { Ordering::Equal } else { Ordering::Less } }
    else if b.len() == 0 { Ordering::Greater }
    else if a[0] < b[0] { Ordering::Less }
    else if a[0] > b[0] { Ordering::Greater }
    else { lex_cmp(a.skip(1), b.skip(1)) }
}
/// `a.cmp(b)` on byte slices
#[verifier::external_body]
fn slice_cmp(a: &[u8], b: &[u8]) -> (r: Ordering) ensures r == lex_cmp(a@, b@) { a.cmp(b) }
/// `a < b` / `a <= b` on byte slices
#[verifier::external_body]
fn slice_lt(a: &[u8], b: &[u8]) -> (r: bool) ensures r == (lex_cmp(a@, b@) == Ordering::Less) { a < b }
#[verifier::external_body]
fn slice_le(a: &[u8], b: &[u8]) -> (r: bool) ensures r == (lex_cmp(a@, b@) != Ordering::Greater) { a <= b }
/// `unsafe { s.get_unchecked(lo..hi) }` / `&s[lo..hi]`: the precondition is the safety condition of the unchecked access
#[verifier::external_body]
fn sub<'a>(s: &'a [u8], lo: usize, hi: usize) -> (r: &'a [u8]) requires lo <= hi <= s@.len() ensures r@ == s@.subrange(lo as int, hi as int) { &s[lo..hi] }
#[verifier::external_body]
fn sub_from<'a>(s: &'a [u8], lo: usize) -> (r: &'a [u8]) requires lo <= s@.len() ensures r@ == s@.skip(lo as int) { &s[lo..] }

/// crate::Slice (byteview): opaque byte string
#[verifier::external_body]
pub struct Slice { p: u8 }
impl View for Slice { type V = Seq<u8>; uninterp spec fn view(&self) -> Seq<u8>; }
impl Slice {
    /// `&*buf` / `&buf` as `&[u8]`
    #[verifier::external_body] fn as_bytes(&self) -> (r: &[u8]) ensures r@ == self@ { unimplemented!() }
    /// `&buf[a..b]`
    #[verifier::external_body] fn sub(&self, a: usize, b: usize) -> (r: &[u8]) requires a <= b <= self@.len() ensures r@ == self@.subrange(a as int, b as int) { unimplemented!() }
    /// `buf.slice(a..b)`
    #[verifier::external_body] fn slice_range(&self, a: usize, b: usize) -> (r: Slice) requires a <= b <= self@.len() ensures r@ == self@.subrange(a as int, b as int) { unimplemented!() }
    #[verifier::external_body] fn fused(left: &[u8], right: &[u8]) -> (r: Slice) ensures r@ == left@ + right@ { unimplemented!() }
    #[verifier::external_body] fn empty() -> (r: Slice) ensures r@ == Seq::<u8>::empty() { unimplemented!() }
}
/// Option::map_or_else (std): the default thunk for None, the function for Some
pub assume_specification<T, U, D: FnOnce() -> U, F: FnOnce(T) -> U>[ Option::<T>::map_or_else ](o: Option<T>, default: D, f: F) -> (r: U)
    requires o is None ==> default.requires(()), o is Some ==> f.requires((o->Some_0,))
    ensures o is None ==> default.ensures((), r), o is Some ==> f.ensures((o->Some_0,), r);
type UserKey = Slice;
type UserValue = Slice;

//@ FROM src/value_type.rs :: - :: enum ValueType
/*+*/#[derive(Copy, Clone, PartialEq, Eq, Structural)]/*-*/
enum ValueType {
    Value,
    Tombstone,
    WeakTombstone,
    Indirection = 4,
}
//@ END
//@ FROM src/key.rs :: - :: struct InternalKey
struct InternalKey {
    user_key: UserKey,
    seqno: SeqNo,
    value_type: ValueType,
}
//@ END
impl InternalKey {
    /// InternalKey::new (asserts the key length fits u16; not part of this unit)
    #[verifier::external_body]
    fn new(user_key: UserKey, seqno: SeqNo, value_type: ValueType) -> (r: Self) ensures r.user_key@ == user_key@, r.seqno == seqno, r.value_type == value_type { unimplemented!() }
}
//@ FROM src/value.rs :: - :: struct InternalValue
struct InternalValue {
    key: InternalKey,
    value: UserValue,
}
//@ END

/// a stored entry
pub ghost struct Ent { pub key: Seq<u8>, pub seqno: SeqNo, pub vt: ValueType, pub value: Seq<u8> }
spec fn ent_of(v: InternalValue) -> Ent { Ent { key: v.key.user_key@, seqno: v.key.seqno, vt: v.key.value_type, value: v.value@ } }
/// the entries a data block's payload encodes, in storage order (block codec: unit entry_codec covers one entry)
uninterp spec fn entries(bytes: Seq<u8>) -> Seq<Ent>;
/// indices (into `entries`) of the restart heads, = the binary index
uninterp spec fn heads(bytes: Seq<u8>) -> Seq<int>;
/// byte offset the binary index records for restart head `h`
uninterp spec fn head_offset(bytes: Seq<u8>, h: int) -> int;
spec fn key_lt(a: Seq<u8>, b: Seq<u8>) -> bool { lex_cmp(a, b) == Ordering::Less }
spec fn key_le(a: Seq<u8>, b: Seq<u8>) -> bool { lex_cmp(a, b) != Ordering::Greater }
/// what the writer guarantees about a block: keys ascend (versions of one key are adjacent), the first entry is a restart head,
/// restart heads ascend, distinct heads have distinct offsets
spec fn block_wf(bytes: Seq<u8>) -> bool {
    let es = entries(bytes); let hs = heads(bytes);
    &&& forall|i: int, j: int| 0 <= i <= j < es.len() ==> key_le(#[trigger] es[i].key, #[trigger] es[j].key)
    &&& (es.len() > 0 ==> hs.len() > 0 && hs[0] == 0)
    &&& forall|i: int| 0 <= i < hs.len() ==> 0 <= #[trigger] hs[i] < es.len()
    &&& forall|i: int, j: int| 0 <= i < j < hs.len() ==> #[trigger] hs[i] < #[trigger] hs[j]
    &&& forall|i: int, j: int| 0 <= i < hs.len() && 0 <= j < hs.len() && head_offset(bytes, i) == head_offset(bytes, j) ==> i == j
}
/// lex_cmp is a total order (std)
#[verifier::external_body]
proof fn axiom_lex_total(a: Seq<u8>, b: Seq<u8>, c: Seq<u8>)
    ensures lex_cmp(a, a) == Ordering::Equal,
        (lex_cmp(a, b) == Ordering::Equal) == (a == b),
        (lex_cmp(a, b) == Ordering::Less) == (lex_cmp(b, a) == Ordering::Greater),
        key_le(a, b) && key_le(b, c) ==> key_le(a, c),
        key_lt(a, b) && key_le(b, c) ==> key_lt(a, c),
        key_le(a, b) && key_lt(b, c) ==> key_lt(a, c),
{}

//@ FROM src/table/util.rs :: - :: struct SliceIndexes
struct SliceIndexes(usize, usize);
//@ END
//@ FROM src/table/data_block/mod.rs :: - :: struct DataBlockParsedItem
struct DataBlockParsedItem {
    value_type: ValueType,
    seqno: SeqNo,
    prefix: Option<SliceIndexes>,
    key: SliceIndexes,
    value: Option<SliceIndexes>,
}
//@ END
spec fn idx_ok(s: SliceIndexes, bytes: Seq<u8>) -> bool { s.0 <= s.1 <= bytes.len() }
spec fn idx_bytes(s: SliceIndexes, bytes: Seq<u8>) -> Seq<u8> { bytes.subrange(s.0 as int, s.1 as int) }
/// the item's indexes lie inside the block (a slice never exceeds isize::MAX bytes)
spec fn item_wf(it: DataBlockParsedItem, bytes: Seq<u8>) -> bool {
    bytes.len() <= isize::MAX && idx_ok(it.key, bytes) && (it.prefix is Some ==> idx_ok(it.prefix->Some_0, bytes)) && (it.value is Some ==> idx_ok(it.value->Some_0, bytes))
}
/// the entry a parsed item addresses
spec fn item_ent(it: DataBlockParsedItem, bytes: Seq<u8>) -> Ent {
    Ent {
        key: if it.prefix is Some { idx_bytes(it.prefix->Some_0, bytes) + idx_bytes(it.key, bytes) } else { idx_bytes(it.key, bytes) },
        seqno: it.seqno, vt: it.value_type,
        value: if it.value is Some { idx_bytes(it.value->Some_0, bytes) } else { Seq::<u8>::empty() },
    }
}


// ---------------- decoder model (TRUSTED; derived from src/table/block/decoder.rs and src/double_ended_peekable.rs) ----------------
/// DoubleEndedPeekable<DataBlockParsedItem, Decoder<InternalValue, DataBlockParsedItem>>: a double-ended cursor [lo, hi) over the
/// block's entries.  `fresh_lo` / `fresh_hi`: nothing has been taken or peeked at that end since the decoder was made (the binary
/// index seeks reposition the raw scanners and are only meaningful then).
struct PeekDecoder { ghost bytes: Seq<u8>, ghost lo: int, ghost hi: int, ghost fresh_lo: bool, ghost fresh_hi: bool }
/// number of restart heads whose key satisfies a predicate that is downward closed along the (ascending) heads
spec fn head_count(bytes: Seq<u8>, p: spec_fn(Seq<u8>) -> bool, c: int) -> bool {
    let es = entries(bytes); let hs = heads(bytes);
    0 <= c <= hs.len() && (forall|i: int| 0 <= i < c ==> p(#[trigger] es[hs[i]].key)) && (forall|i: int| c <= i < hs.len() ==> !p(#[trigger] es[hs[i]].key))
}
impl PeekDecoder {
    spec fn n(&self) -> int { entries(self.bytes).len() as int }
    spec fn wf(&self) -> bool { block_wf(self.bytes) && 0 <= self.lo <= self.n() && 0 <= self.hi <= self.n() && (self.fresh_lo ==> self.lo == 0) && (self.fresh_hi ==> self.hi == self.n()) }
    spec fn same_block(&self, o: &Self) -> bool { self.bytes == o.bytes }
    /// `.peek()`
    #[verifier::external_body]
    fn peek(&mut self) -> (r: Option<&DataBlockParsedItem>)
        requires old(self).wf()
        ensures final(self).wf(), final(self).bytes == old(self).bytes, final(self).lo == old(self).lo, final(self).hi == old(self).hi,
            !final(self).fresh_lo, final(self).fresh_hi == old(self).fresh_hi,
            (old(self).lo < old(self).hi) == (r is Some),
            r is Some ==> item_wf(*r->Some_0, old(self).bytes) && item_ent(*r->Some_0, old(self).bytes) == entries(old(self).bytes)[old(self).lo]
    { unimplemented!() }
    /// `.next()`
    #[verifier::external_body]
    fn next(&mut self) -> (r: Option<DataBlockParsedItem>)
        requires old(self).wf()
        ensures final(self).wf(), final(self).bytes == old(self).bytes, final(self).hi == old(self).hi,
            !final(self).fresh_lo, final(self).fresh_hi == old(self).fresh_hi,
            (old(self).lo < old(self).hi) == (r is Some),
            r is None ==> final(self).lo == old(self).lo,
            r is Some ==> final(self).lo == old(self).lo + 1 && item_wf(r->Some_0, old(self).bytes) && item_ent(r->Some_0, old(self).bytes) == entries(old(self).bytes)[old(self).lo]
    { unimplemented!() }
    /// `.peek_back()`
    #[verifier::external_body]
    fn peek_back(&mut self) -> (r: Option<&DataBlockParsedItem>)
        requires old(self).wf()
        ensures final(self).wf(), final(self).bytes == old(self).bytes, final(self).lo == old(self).lo, final(self).hi == old(self).hi,
            !final(self).fresh_hi, final(self).fresh_lo == old(self).fresh_lo,
            (old(self).lo < old(self).hi) == (r is Some),
            r is Some ==> item_wf(*r->Some_0, old(self).bytes) && item_ent(*r->Some_0, old(self).bytes) == entries(old(self).bytes)[old(self).hi - 1]
    { unimplemented!() }
    /// `.next_back()`
    #[verifier::external_body]
    fn next_back(&mut self) -> (r: Option<DataBlockParsedItem>)
        requires old(self).wf()
        ensures final(self).wf(), final(self).bytes == old(self).bytes, final(self).lo == old(self).lo,
            !final(self).fresh_hi, final(self).fresh_lo == old(self).fresh_lo,
            (old(self).lo < old(self).hi) == (r is Some),
            r is None ==> final(self).hi == old(self).hi,
            r is Some ==> final(self).hi == old(self).hi - 1 && item_wf(r->Some_0, old(self).bytes) && item_ent(r->Some_0, old(self).bytes) == entries(old(self).bytes)[old(self).hi - 1]
    { unimplemented!() }
    /// `.inner_mut().seek(pred, false)`: Decoder::seek with the first partition point - binary search over the restart heads for the
    /// last head whose key satisfies `pred` (the first head if none does); the front scanner restarts there.  False (nothing moved)
    /// only for a block without restart heads.
    #[verifier::external_body]
    fn inner_seek<F: Fn(&[u8], SeqNo) -> bool>(&mut self, pred: F, second_partition: bool, Ghost(p): Ghost<spec_fn(Seq<u8>) -> bool>) -> (r: bool)
        requires old(self).wf(), old(self).fresh_lo, !second_partition,
            forall|k: &[u8], s: SeqNo| #[trigger] pred.requires((k, s)),
            forall|k: &[u8], s: SeqNo, b: bool| #[trigger] pred.ensures((k, s), b) ==> b == p(k@),
        ensures final(self).wf(), final(self).bytes == old(self).bytes, final(self).hi == old(self).hi, !final(self).fresh_lo, final(self).fresh_hi == old(self).fresh_hi,
            r == (heads(old(self).bytes).len() > 0),
            !r ==> final(self).lo == old(self).lo,
            r ==> forall|c: int| head_count(old(self).bytes, p, c) ==> final(self).lo == heads(old(self).bytes)[if c > 0 { c - 1 } else { 0 }]
    { unimplemented!() }
    /// `.inner_mut().seek_upper(pred, false)`: the back scanner is positioned at the END of the restart interval the first partition
    /// point selects (everything from the next head on is cut off)
    #[verifier::external_body]
    fn inner_seek_upper<F: Fn(&[u8], SeqNo) -> bool>(&mut self, pred: F, second_partition: bool, Ghost(p): Ghost<spec_fn(Seq<u8>) -> bool>) -> (r: bool)
        requires old(self).wf(), old(self).fresh_hi, !second_partition,
            forall|k: &[u8], s: SeqNo| #[trigger] pred.requires((k, s)),
            forall|k: &[u8], s: SeqNo, b: bool| #[trigger] pred.ensures((k, s), b) ==> b == p(k@),
        ensures final(self).wf(), final(self).bytes == old(self).bytes, final(self).lo == old(self).lo, final(self).fresh_lo == old(self).fresh_lo, !final(self).fresh_hi,
            r == (heads(old(self).bytes).len() > 0),
            !r ==> final(self).hi == old(self).hi,
            r ==> forall|c: int| head_count(old(self).bytes, p, c) ==> final(self).hi == (if c > 0 && c < heads(old(self).bytes).len() { heads(old(self).bytes)[c] } else if c == 0 && heads(old(self).bytes).len() > 1 { heads(old(self).bytes)[1] } else { old(self).n() })
    { unimplemented!() }
    /// `.inner_mut().set_lo_offset(offset)`: the front scanner restarts at the restart head stored at that byte offset
    #[verifier::external_body]
    fn inner_set_lo_offset(&mut self, offset: usize)
        requires old(self).wf(), old(self).fresh_lo
        ensures final(self).wf(), final(self).bytes == old(self).bytes, final(self).hi == old(self).hi, !final(self).fresh_lo, final(self).fresh_hi == old(self).fresh_hi,
            forall|h: int| 0 <= h < heads(old(self).bytes).len() && head_offset(old(self).bytes, h) == offset ==> final(self).lo == heads(old(self).bytes)[h]
    { unimplemented!() }
}

proof fn lemma_lex_concat(p: Seq<u8>, s: Seq<u8>, n: Seq<u8>)
    ensures ({
        let m = if p.len() < n.len() { p.len() } else { n.len() } as int;
        let c = lex_cmp(p.subrange(0, m), n.subrange(0, m));
        lex_cmp(p + s, n) == if c != Ordering::Equal { c } else if p.len() > n.len() { Ordering::Greater } else { lex_cmp(s, n.skip(m)) }
    })
    decreases p.len()
{
    let m = if p.len() < n.len() { p.len() } else { n.len() } as int;
    if p.len() == 0 {
        assert(p + s =~= s); assert(n.skip(0) =~= n);
    } else if n.len() == 0 {
    } else {
        assert((p + s)[0] == p[0]);
        assert(p.subrange(0, m)[0] == p[0]); assert(n.subrange(0, m)[0] == n[0]);
        if p[0] == n[0] {
            lemma_lex_concat(p.skip(1), s, n.skip(1));
            assert((p + s).skip(1) =~= p.skip(1) + s);
            assert(p.subrange(0, m).skip(1) =~= p.skip(1).subrange(0, m - 1));
            assert(n.subrange(0, m).skip(1) =~= n.skip(1).subrange(0, m - 1));
            assert(n.skip(1).skip(m - 1) =~= n.skip(m));
        }
    }
}

//@ SUBST `std :: cmp :: Ordering` ==> `Ordering`
//@ FROM src/table/util.rs :: - :: fn compare_prefixed_slice :: OBL C12.15
//@ SUBST `unsafe { prefix . get_unchecked ( 0 .. max_pfx_len ) }` ==> `sub(prefix, 0, max_pfx_len)`
//@ SUBST `unsafe { needle . get_unchecked ( 0 .. max_pfx_len ) }` ==> `sub(needle, 0, max_pfx_len)`
//@ SUBST `unsafe { needle . get_unchecked ( max_pfx_len .. ) }` ==> `sub_from(needle, max_pfx_len)`
//@ SUBST `prefix . cmp ( needle )` ==> `slice_cmp(prefix, needle)`
//@ SUBST `suffix . cmp ( needle )` ==> `slice_cmp(suffix, needle)`
fn compare_prefixed_slice(prefix: &[u8], suffix: &[u8], needle: &[u8]) -> /*+*/(r:/*-*/ Ordering/*+*/)
    requires prefix@.len() + suffix@.len() <= usize::MAX
    ensures r == lex_cmp(prefix@ + suffix@, needle@)/*-*/
{
    use Ordering::{Equal, Greater};
    /*+*/proof { lemma_lex_concat(prefix@, suffix@, needle@); }/*-*/

    if needle.is_empty() {
        let combined_len = prefix.len() + suffix.len();
        return if combined_len > 0 { Greater } else { Equal };
    }

    let max_pfx_len = prefix.len().min(needle.len());

    {
        let prefix = sub(prefix, 0, max_pfx_len);

        let needle = sub(needle, 0, max_pfx_len);

        match slice_cmp(prefix, needle) {
            Equal => {}
            ordering => return ordering,
        }
    }

    let rest_len = prefix.len().saturating_sub(needle.len());
    if rest_len > 0 {
        return Greater;
    }

    let needle = sub_from(needle, max_pfx_len);
    slice_cmp(suffix, needle)
}
//@ END

impl DataBlockParsedItem {
//@ FROM src/table/data_block/mod.rs :: impl ParsedItem < InternalValue > for DataBlockParsedItem :: fn compare_key :: OBL C12.15
//@ SUBST `unsafe { bytes . get_unchecked ( $1 .. $2 ) }` ==> `sub(bytes, $1, $2)`
//@ SUBST `key . cmp ( needle )` ==> `slice_cmp(key, needle)`
    fn compare_key(&self, needle: &[u8], bytes: &[u8]) -> /*+*/(r:/*-*/ Ordering/*+*/)
        requires item_wf(*self, bytes@)
        ensures r == lex_cmp(item_ent(*self, bytes@).key, needle@)/*-*/
    {
        if let Some(prefix) = &self.prefix {
            let prefix = sub(bytes, prefix.0, prefix.1);
            let rest_key = sub(bytes, self.key.0, self.key.1);
            compare_prefixed_slice(prefix, rest_key, needle)
        } else {
            let key = sub(bytes, self.key.0, self.key.1);
            slice_cmp(key, needle)
        }
    }
//@ END

//@ FROM src/table/data_block/mod.rs :: impl ParsedItem < InternalValue > for DataBlockParsedItem :: fn materialize :: OBL C12.15
//@ SUBST `& bytes [ $1 .. $2 ]` ==> `bytes.sub($1, $2)`
//@ SUBST `bytes . slice ( $1 .. $2 )` ==> `bytes.slice_range($1, $2)`
    fn materialize(&self, bytes: &Slice) -> /*+*/(r:/*-*/ InternalValue/*+*/)
        requires item_wf(*self, bytes@)
        ensures ent_of(r) == item_ent(*self, bytes@)/*-*/
    {
        // NOTE: We consider the prefix and key slice indexes to be trustworthy
        let key = if let Some(prefix) = &self.prefix {
            let prefix_key = bytes.sub(prefix.0, prefix.1);
            let rest_key = bytes.sub(self.key.0, self.key.1);
            Slice::fused(prefix_key, rest_key)
        } else {
            bytes.slice_range(self.key.0, self.key.1)
        };

        let key = InternalKey::new(key, self.seqno, self.value_type);

        let value = self
            .value
            .as_ref()
            .map_or_else(Slice::empty, |v/*+*/: &SliceIndexes/*-*/| /*+*/-> (s: Slice) requires v.0 <= v.1 <= bytes@.len() ensures s@ == bytes@.subrange(v.0 as int, v.1 as int) {/*-*/ bytes.slice_range(v.0, v.1) /*+*/}/*-*/);

        InternalValue { key, value }
    }
//@ END
//@ FROM src/table/data_block/mod.rs :: impl ParsedItem < InternalValue > for DataBlockParsedItem :: fn key_offset
    fn key_offset(&self) -> /*+*/(r:/*-*/ usize/*+*/) ensures r == self.key.0/*-*/ {
        self.key.0
    }
//@ END
}

/// counting the heads that satisfy a downward-closed predicate
spec fn count_upto(bytes: Seq<u8>, p: spec_fn(Seq<u8>) -> bool, k: int) -> int decreases k
{ if k <= 0 { 0 } else if p(entries(bytes)[heads(bytes)[k - 1]].key) { k } else { count_upto(bytes, p, k - 1) } }
spec fn down_closed(p: spec_fn(Seq<u8>) -> bool) -> bool { forall|a: Seq<u8>, b: Seq<u8>| key_le(a, b) && #[trigger] p(b) ==> #[trigger] p(a) }
proof fn lemma_count_upto(bytes: Seq<u8>, p: spec_fn(Seq<u8>) -> bool, k: int)
    requires block_wf(bytes), down_closed(p), 0 <= k <= heads(bytes).len()
    ensures ({ let c = count_upto(bytes, p, k); 0 <= c <= k
        && (forall|i: int| 0 <= i < c ==> p(#[trigger] entries(bytes)[heads(bytes)[i]].key))
        && (forall|i: int| c <= i < k ==> !p(#[trigger] entries(bytes)[heads(bytes)[i]].key)) })
    decreases k
{
    let es = entries(bytes); let hs = heads(bytes);
    if k > 0 {
        if p(es[hs[k - 1]].key) {
            assert forall|i: int| 0 <= i < k implies p(#[trigger] es[hs[i]].key) by {
                if i < k - 1 { assert(hs[i] < hs[k - 1]); assert(key_le(es[hs[i]].key, es[hs[k - 1]].key)); }
            }
        } else {
            lemma_count_upto(bytes, p, k - 1);
        }
    }
}
proof fn lemma_head_count(bytes: Seq<u8>, p: spec_fn(Seq<u8>) -> bool) -> (c: int)
    requires block_wf(bytes), down_closed(p)
    ensures head_count(bytes, p, c)
{ lemma_count_upto(bytes, p, heads(bytes).len() as int); count_upto(bytes, p, heads(bytes).len() as int) }

//@ FROM src/table/data_block/iter.rs :: - :: struct Iter
//@ SUBST `DoubleEndedPeekable < DataBlockParsedItem , Decoder < 'a , InternalValue , DataBlockParsedItem > >` ==> `PeekDecoder`
struct Iter<'a> {
    bytes: &'a [u8],
    decoder:
        PeekDecoder,
}
//@ END
//@ SUBST `. decoder . inner_mut ( ) . seek (` ==> `.decoder.inner_seek(`
//@ SUBST `. decoder . inner_mut ( ) . seek_upper (` ==> `.decoder.inner_seek_upper(`
//@ SUBST `. decoder . inner_mut ( ) . set_lo_offset (` ==> `.decoder.inner_set_lo_offset(`
//@ SUBST `| head_key , _ |` ==> `|head_key: &[u8], s__: SeqNo|`
//@ SUBST `head_key < needle` ==> `slice_lt(head_key, needle)`
//@ SUBST `head_key <= needle` ==> `slice_le(head_key, needle)`
//@ SUBST `head_key > needle` ==> `slice_lt(needle, head_key)`
//@ SUBST `head_key >= needle` ==> `slice_le(needle, head_key)`
impl<'a> Iter<'a> {
    spec fn wf(&self) -> bool { self.decoder.wf() && self.bytes@ == self.decoder.bytes && self.bytes@.len() <= isize::MAX }
    spec fn es(&self) -> Seq<Ent> { entries(self.decoder.bytes) }
    /// nothing but the cursor ends moves
    spec fn same(&self, o: &Self) -> bool { self.bytes == o.bytes && self.decoder.bytes == o.decoder.bytes }

//@ FROM src/table/data_block/iter.rs :: impl < 'a > Iter < 'a > :: fn seek :: OBL C03.12, C12.15
    fn seek(&mut self, needle: &[u8]) -> /*+*/(r:/*-*/ bool/*+*/)
        requires old(self).wf(), old(self).decoder.fresh_lo
        ensures final(self).wf(), final(self).same(old(self)), final(self).decoder.hi == old(self).decoder.hi, final(self).decoder.fresh_hi == old(self).decoder.fresh_hi,
            // everything skipped is below the needle
            forall|i: int| 0 <= i < final(self).decoder.lo ==> key_lt(#[trigger] old(self).es()[i].key, needle@),
            // true: the cursor stands on the first entry of the needle key
            r ==> final(self).decoder.lo < final(self).decoder.hi && old(self).es()[final(self).decoder.lo].key == needle@,
            // false: the next entry (if the cursor is not empty) is above the needle
            !r && final(self).decoder.lo < final(self).decoder.hi ==> key_lt(needle@, old(self).es()[final(self).decoder.lo].key),/*-*/
    {
        /*+*/let ghost p = |k: Seq<u8>| key_lt(k, needle@);
        proof {
            assert(down_closed(p)) by { assert forall|a: Seq<u8>, b: Seq<u8>| key_le(a, b) && #[trigger] p(b) implies #[trigger] p(a) by { axiom_lex_total(a, b, needle@); } }
            let c = lemma_head_count(self.decoder.bytes, p);
        }/*-*/
        // Find the restart interval whose head key is the last one strictly below `needle`.
        // The decoder then performs a linear scan within that interval; we stop as soon as we
        // reach a key ≥ needle. This minimizes parsing work while preserving correctness.
        if !self
            .decoder.inner_seek(|head_key: &[u8], s__: SeqNo| /*+*/-> (b: bool) ensures b == key_lt(head_key@, needle@) {/*-*/ slice_lt(head_key, needle) /*+*/}/*-*/, false/*+*/, Ghost(p)/*-*/)
        {
            return false;
        }
        /*+*/proof {
            let c = lemma_head_count(self.decoder.bytes, p);
            let es = self.es(); let hs = heads(self.decoder.bytes);
            assert forall|i: int| 0 <= i < self.decoder.lo implies key_lt(#[trigger] es[i].key, needle@) by {
                if c > 0 { assert(p(es[hs[c - 1]].key)); assert(key_le(es[i].key, es[hs[c - 1]].key)); axiom_lex_total(es[i].key, es[hs[c - 1]].key, needle@); }
            }
        }/*-*/

        // TODO: make sure we only linear scan over the current restart interval
        // TODO: if we do more steps, something has gone wrong with the seek probably, maybe...?

        // Linear scan
        loop
            /*+*/invariant self.wf(), self.same(old(self)), self.decoder.hi == old(self).decoder.hi, self.decoder.fresh_hi == old(self).decoder.fresh_hi,
                forall|i: int| 0 <= i < self.decoder.lo ==> key_lt(#[trigger] old(self).es()[i].key, needle@),
            decreases self.decoder.n() - self.decoder.lo/*-*/
        {
            let Some(item) = self.decoder.peek() else {
                return false;
            };

            match item.compare_key(needle, self.bytes) {
                Ordering::Equal => {
                    /*+*/proof { axiom_lex_total(self.es()[self.decoder.lo].key, needle@, needle@); }/*-*/
                    return true;
                }
                Ordering::Greater => {
                    /*+*/proof { axiom_lex_total(needle@, self.es()[self.decoder.lo].key, needle@); }/*-*/
                    return false;
                }
                Ordering::Less => {
                    // Continue

                    self.decoder.next().expect("should exist");
                }
            }
        }
    }
//@ END

//@ FROM src/table/data_block/iter.rs :: impl < 'a > Iter < 'a > :: fn seek_to_offset
    fn seek_to_offset(&mut self, offset: usize) -> /*+*/(r:/*-*/ bool/*+*/)
        requires old(self).wf(), old(self).decoder.fresh_lo
        ensures final(self).wf(), final(self).same(old(self)), final(self).decoder.hi == old(self).decoder.hi, final(self).decoder.fresh_hi == old(self).decoder.fresh_hi,
            forall|h: int| 0 <= h < heads(old(self).decoder.bytes).len() && head_offset(old(self).decoder.bytes, h) == offset ==> final(self).decoder.lo == heads(old(self).decoder.bytes)[h]/*-*/
    {
        self.decoder.inner_set_lo_offset(offset);
        true
    }
//@ END

//@ FROM src/table/data_block/iter.rs :: impl < 'a > Iter < 'a > :: fn seek_exclusive :: OBL C03.12, C12.15
    fn seek_exclusive(&mut self, needle: &[u8]) -> /*+*/(r:/*-*/ bool/*+*/)
        requires old(self).wf(), old(self).decoder.fresh_lo
        ensures final(self).wf(), final(self).same(old(self)), final(self).decoder.hi == old(self).decoder.hi, final(self).decoder.fresh_hi == old(self).decoder.fresh_hi,
            // everything skipped is at or below the needle
            forall|i: int| 0 <= i < final(self).decoder.lo ==> key_le(#[trigger] old(self).es()[i].key, needle@),
            // true: the cursor stands on an entry above the needle; false: it is empty
            r ==> final(self).decoder.lo < final(self).decoder.hi && key_lt(needle@, old(self).es()[final(self).decoder.lo].key),
            !r ==> final(self).decoder.lo >= final(self).decoder.hi,/*-*/
    {
        /*+*/let ghost p = |k: Seq<u8>| key_lt(k, needle@);
        proof {
            assert(down_closed(p)) by { assert forall|a: Seq<u8>, b: Seq<u8>| key_le(a, b) && #[trigger] p(b) implies #[trigger] p(a) by { axiom_lex_total(a, b, needle@); } }
        }/*-*/
        // Exclusive lower bound: identical to `seek`, except we must not yield entries equal to
        // `needle`. We therefore keep consuming while keys compare equal and only stop once we
        // observe a strictly greater key.
        if !self
            .decoder.inner_seek(|head_key: &[u8], s__: SeqNo| /*+*/-> (b: bool) ensures b == key_lt(head_key@, needle@) {/*-*/ slice_lt(head_key, needle) /*+*/}/*-*/, false/*+*/, Ghost(p)/*-*/)
        {
            return false;
        }
        /*+*/proof {
            let c = lemma_head_count(self.decoder.bytes, p);
            let es = self.es(); let hs = heads(self.decoder.bytes);
            assert forall|i: int| 0 <= i < self.decoder.lo implies key_le(#[trigger] es[i].key, needle@) by {
                if c > 0 { assert(p(es[hs[c - 1]].key)); assert(key_le(es[i].key, es[hs[c - 1]].key)); axiom_lex_total(es[i].key, es[hs[c - 1]].key, needle@); }
            }
        }/*-*/

        loop
            /*+*/invariant self.wf(), self.same(old(self)), self.decoder.hi == old(self).decoder.hi, self.decoder.fresh_hi == old(self).decoder.fresh_hi,
                forall|i: int| 0 <= i < self.decoder.lo ==> key_le(#[trigger] old(self).es()[i].key, needle@),
            decreases self.decoder.n() - self.decoder.lo/*-*/
        {
            let Some(item) = self.decoder.peek() else {
                return false;
            };

            match item.compare_key(needle, self.bytes) {
                Ordering::Greater => {
                    /*+*/proof { axiom_lex_total(needle@, self.es()[self.decoder.lo].key, needle@); }/*-*/
                    return true;
                }
                Ordering::Equal | Ordering::Less => {
                    self.decoder.next().expect("should exist");
                }
            }
        }
    }
//@ END

//@ FROM src/table/data_block/iter.rs :: impl < 'a > Iter < 'a > :: fn seek_upper :: OBL C03.12, C12.15
    fn seek_upper(&mut self, needle: &[u8]) -> /*+*/(r:/*-*/ bool/*+*/)
        requires old(self).wf(), old(self).decoder.fresh_hi
        ensures final(self).wf(), final(self).same(old(self)), final(self).decoder.lo == old(self).decoder.lo, final(self).decoder.fresh_lo == old(self).decoder.fresh_lo,
            // everything cut off is above the needle
            forall|i: int| final(self).decoder.hi <= i < old(self).es().len() ==> key_lt(needle@, #[trigger] old(self).es()[i].key),
            // true: the last entry of the cursor has the needle key; false: it is below (or the cursor is empty)
            r ==> final(self).decoder.lo < final(self).decoder.hi && old(self).es()[final(self).decoder.hi - 1].key == needle@,
            !r && final(self).decoder.lo < final(self).decoder.hi ==> key_lt(old(self).es()[final(self).decoder.hi - 1].key, needle@),/*-*/
    {
        /*+*/let ghost p = |k: Seq<u8>| key_le(k, needle@);
        proof {
            assert(down_closed(p)) by { assert forall|a: Seq<u8>, b: Seq<u8>| key_le(a, b) && #[trigger] p(b) implies #[trigger] p(a) by { axiom_lex_total(a, b, needle@); } }
        }/*-*/
        // Reverse-bound seek: position the high scanner at the first restart whose head key is
        // ≤ needle, then walk backwards inside the interval until we find a key ≤ needle.
        if !self
            .decoder.inner_seek_upper(|head_key: &[u8], s__: SeqNo| /*+*/-> (b: bool) ensures b == key_le(head_key@, needle@) {/*-*/ slice_le(head_key, needle) /*+*/}/*-*/, false/*+*/, Ghost(p)/*-*/)
        {
            return false;
        }
        /*+*/proof {
            let c = lemma_head_count(self.decoder.bytes, p);
            let es = self.es(); let hs = heads(self.decoder.bytes);
            assert forall|i: int| self.decoder.hi <= i < es.len() implies key_lt(needle@, #[trigger] es[i].key) by {
                let h = if c > 0 { c } else { 1 };
                assert(h < hs.len());
                assert(!p(es[hs[h]].key));
                assert(key_le(es[hs[h]].key, es[i].key));
                axiom_lex_total(needle@, es[hs[h]].key, es[i].key);
                axiom_lex_total(es[hs[h]].key, needle@, needle@);
            }
        }/*-*/

        // Linear scan
        loop
            /*+*/invariant self.wf(), self.same(old(self)), self.decoder.lo == old(self).decoder.lo, self.decoder.fresh_lo == old(self).decoder.fresh_lo,
                forall|i: int| self.decoder.hi <= i < old(self).es().len() ==> key_lt(needle@, #[trigger] old(self).es()[i].key),
            decreases self.decoder.hi/*-*/
        {
            let Some(item) = self.decoder.peek_back() else {
                return false;
            };

            match item.compare_key(needle, self.bytes) {
                Ordering::Equal => {
                    /*+*/proof { axiom_lex_total(self.es()[self.decoder.hi - 1].key, needle@, needle@); }/*-*/
                    return true;
                }
                Ordering::Less => {
                    return false;
                }
                Ordering::Greater => {
                    // Continue

                    /*+*/proof { axiom_lex_total(needle@, self.es()[self.decoder.hi - 1].key, needle@); }/*-*/
                    self.decoder.next_back().expect("should exist");
                }
            }
        }
    }
//@ END

//@ FROM src/table/data_block/iter.rs :: impl < 'a > Iter < 'a > :: fn seek_upper_exclusive :: OBL C03.12, C12.15
    fn seek_upper_exclusive(&mut self, needle: &[u8]) -> /*+*/(r:/*-*/ bool/*+*/)
        requires old(self).wf(), old(self).decoder.fresh_hi
        ensures final(self).wf(), final(self).same(old(self)), final(self).decoder.lo == old(self).decoder.lo, final(self).decoder.fresh_lo == old(self).decoder.fresh_lo,
            // everything cut off is at or above the needle
            forall|i: int| final(self).decoder.hi <= i < old(self).es().len() ==> key_le(needle@, #[trigger] old(self).es()[i].key),
            // true: the last entry of the cursor is below the needle; false: the cursor is empty
            r ==> final(self).decoder.lo < final(self).decoder.hi && key_lt(old(self).es()[final(self).decoder.hi - 1].key, needle@),
            !r ==> final(self).decoder.lo >= final(self).decoder.hi,/*-*/
    {
        /*+*/let ghost p = |k: Seq<u8>| key_le(k, needle@);
        proof {
            assert(down_closed(p)) by { assert forall|a: Seq<u8>, b: Seq<u8>| key_le(a, b) && #[trigger] p(b) implies #[trigger] p(a) by { axiom_lex_total(a, b, needle@); } }
        }/*-*/
        // Exclusive upper bound: mirror of `seek_upper`. We must not include entries equal to
        // `needle`, so we consume equals from the high end until we see a strictly smaller key.
        if !self
            .decoder.inner_seek_upper(|head_key: &[u8], s__: SeqNo| /*+*/-> (b: bool) ensures b == key_le(head_key@, needle@) {/*-*/ slice_le(head_key, needle) /*+*/}/*-*/, false/*+*/, Ghost(p)/*-*/)
        {
            return false;
        }
        /*+*/proof {
            let c = lemma_head_count(self.decoder.bytes, p);
            let es = self.es(); let hs = heads(self.decoder.bytes);
            assert forall|i: int| self.decoder.hi <= i < es.len() implies key_le(needle@, #[trigger] es[i].key) by {
                let h = if c > 0 { c } else { 1 };
                assert(h < hs.len());
                assert(!p(es[hs[h]].key));
                assert(key_le(es[hs[h]].key, es[i].key));
                axiom_lex_total(needle@, es[hs[h]].key, es[i].key);
                axiom_lex_total(es[hs[h]].key, needle@, needle@);
            }
        }/*-*/

        loop
            /*+*/invariant self.wf(), self.same(old(self)), self.decoder.lo == old(self).decoder.lo, self.decoder.fresh_lo == old(self).decoder.fresh_lo,
                forall|i: int| self.decoder.hi <= i < old(self).es().len() ==> key_le(needle@, #[trigger] old(self).es()[i].key),
            decreases self.decoder.hi/*-*/
        {
            let Some(item) = self.decoder.peek_back() else {
                return false;
            };

            match item.compare_key(needle, self.bytes) {
                Ordering::Less => {
                    return true;
                }
                Ordering::Equal | Ordering::Greater => {
                    /*+*/proof { axiom_lex_total(needle@, self.es()[self.decoder.hi - 1].key, needle@); axiom_lex_total(self.es()[self.decoder.hi - 1].key, needle@, needle@); }/*-*/
                    self.decoder.next_back().expect("should exist");
                }
            }
        }
    }
//@ END
}

impl<'a> Iter<'a> {
//@ FROM src/table/data_block/iter.rs :: impl Iterator for Iter < '_ > :: fn next
//@ SUBST `Self :: Item` ==> `DataBlockParsedItem`
    fn next(&mut self) -> /*+*/(r:/*-*/ Option<DataBlockParsedItem>/*+*/)
        requires old(self).wf()
        ensures final(self).wf(), final(self).same(old(self)), final(self).decoder.hi == old(self).decoder.hi,
            (old(self).decoder.lo < old(self).decoder.hi) == (r is Some),
            r is None ==> final(self).decoder.lo == old(self).decoder.lo,
            r is Some ==> final(self).decoder.lo == old(self).decoder.lo + 1 && item_wf(r->Some_0, old(self).bytes@) && item_ent(r->Some_0, old(self).bytes@) == old(self).es()[old(self).decoder.lo]/*-*/
    {
        self.decoder.next()
    }
//@ END
}

// ---------------- block readers (TRUSTED; src/table/block/hash_index, binary_index, decoder.rs) ----------------
const MARKER_FREE: u8 = 254;
const MARKER_CONFLICT: u8 = 255;
/// the embedded hash index: a bucket is FREE when no key of the block hashes to it, CONFLICT when keys of different restart
/// intervals do, else it holds the one restart interval all entries of the keys hashing to it lie in (builder: `set`)
struct HashIndexReader { ghost bytes: Seq<u8> }
impl HashIndexReader {
    #[verifier::external_body]
    fn get(&self, key: &[u8]) -> (r: u8)
        ensures r == MARKER_FREE ==> forall|i: int| 0 <= i < entries(self.bytes).len() ==> #[trigger] entries(self.bytes)[i].key != key@,
            r != MARKER_FREE && r != MARKER_CONFLICT ==> r < heads(self.bytes).len()
                && forall|i: int| 0 <= i < entries(self.bytes).len() && #[trigger] entries(self.bytes)[i].key == key@ ==> heads(self.bytes)[r as int] <= i
    { unimplemented!() }
}
struct BinaryIndexReader { ghost bytes: Seq<u8> }
impl BinaryIndexReader {
    /// the byte offset of restart head `idx`
    #[verifier::external_body]
    fn get(&self, idx: usize) -> (r: usize)
        requires idx < heads(self.bytes).len()
        ensures r == head_offset(self.bytes, idx as int)
    { unimplemented!() }
}
struct Block { data: Slice }
/// block::Decoder::new + `.double_ended_peekable()`: a fresh cursor over all entries of the block
struct Decoder { ghost bytes: Seq<u8> }
impl Decoder {
    #[verifier::external_body]
    fn new(block: &Block) -> (r: Self) ensures r.bytes == block.data@ { unimplemented!() }
    #[verifier::external_body]
    fn double_ended_peekable(self) -> (r: PeekDecoder)
        ensures r.bytes == self.bytes, r.lo == 0, r.hi == r.n(), r.fresh_lo, r.fresh_hi
    { unimplemented!() }
}
impl<'a> Iter<'a> {
//@ FROM src/table/data_block/iter.rs :: impl < 'a > Iter < 'a > :: fn new
//@ SUBST `Decoder < 'a , InternalValue , DataBlockParsedItem >` ==> `Decoder`
    fn new(bytes: &'a [u8], decoder: Decoder) -> /*+*/(r:/*-*/ Self/*+*/)
        requires bytes@ == decoder.bytes
        ensures r.bytes == bytes, r.decoder.bytes == decoder.bytes, r.decoder.lo == 0, r.decoder.hi == r.decoder.n(), r.decoder.fresh_lo, r.decoder.fresh_hi/*-*/
    {
        let decoder = decoder.double_ended_peekable();
        Self { bytes, decoder }
    }
//@ END
}

//@ FROM src/table/data_block/mod.rs :: - :: struct DataBlock
struct DataBlock {
    inner: Block,
}
//@ END

/// entry i is a version of the key visible below the snapshot
spec fn is_match(e: Ent, needle: Seq<u8>, seqno: SeqNo) -> bool { e.key == needle && e.seqno < seqno }
impl DataBlock {
    spec fn bytes(&self) -> Seq<u8> { self.inner.data@ }
    /// get_hash_index_reader / get_binary_index_reader: views of the block's trailer sections (trailer parsing: not in this unit)
    #[verifier::external_body]
    fn get_hash_index_reader(&self) -> (r: Option<HashIndexReader>) ensures r is Some ==> r->Some_0.bytes == self.bytes() { unimplemented!() }
    #[verifier::external_body]
    fn get_binary_index_reader(&self) -> (r: BinaryIndexReader) ensures r.bytes == self.bytes() { unimplemented!() }

//@ FROM src/table/data_block/mod.rs :: impl DataBlock :: fn iter
//@ SUBST `Decoder :: < InternalValue , DataBlockParsedItem > :: new` ==> `Decoder::new`
//@ SUBST `& self . inner . data ,` ==> `self.inner.data.as_bytes(),`
    fn iter(&self) -> /*+*/(r:/*-*/ Iter<'_>/*+*/)
        ensures r.bytes@ == self.bytes(), r.decoder.bytes == self.bytes(), r.decoder.lo == 0, r.decoder.hi == r.decoder.n(), r.decoder.fresh_lo, r.decoder.fresh_hi/*-*/
    {
        Iter::new(
            self.inner.data.as_bytes(),
            Decoder::new(&self.inner),
        )
    }
//@ END

//@ FROM src/table/data_block/mod.rs :: impl DataBlock :: fn point_read :: OBL C12.15, C01.22
//@ SUBST `for item in iter {` ==> `let mut iter__ = iter; loop { let Some(item) = iter__.next() else { break; };`
//@ SUBST `item . compare_key ( needle , & self . inner . data )` ==> `item.compare_key(needle, self.inner.data.as_bytes())`
    fn point_read(&self, needle: &[u8], seqno: SeqNo) -> /*+*/(r:/*-*/ Option<InternalValue>/*+*/)
        requires block_wf(self.bytes()), self.bytes().len() <= isize::MAX
        ensures
            // exactly the first stored version of the key below the snapshot
            r is Some ==> exists|i: int| 0 <= i < entries(self.bytes()).len() && is_match(entries(self.bytes())[i], needle@, seqno)
                && (forall|j: int| 0 <= j < i ==> !is_match(#[trigger] entries(self.bytes())[j], needle@, seqno))
                && ent_of(r->Some_0) == entries(self.bytes())[i],
            r is None ==> forall|i: int| 0 <= i < entries(self.bytes()).len() ==> !is_match(#[trigger] entries(self.bytes())[i], needle@, seqno),/*-*/
    {
        /*+*/let ghost es = entries(self.bytes());/*-*/
        let iter = if let Some(hash_index_reader) = self.get_hash_index_reader() {
            match hash_index_reader.get(needle) {
                MARKER_FREE => {
                    return None;
                }
                MARKER_CONFLICT => {
                    // NOTE: Fallback to binary search
                    let mut iter = self.iter();

                    if !iter.seek(needle) {
                        /*+*/proof { assert forall|i: int| 0 <= i < es.len() implies !is_match(#[trigger] es[i], needle@, seqno) by { lemma_absent(iter, needle@, i); } }/*-*/
                        return None;
                    }
                    /*+*/proof { assert forall|i: int| 0 <= i < iter.decoder.lo implies #[trigger] es[i].key != needle@ by { axiom_lex_total(es[i].key, needle@, needle@); } }/*-*/

                    iter
                }
                idx => {
                    let offset: usize = self.get_binary_index_reader().get(usize::from(idx));

                    let mut iter = self.iter();
                    iter.seek_to_offset(offset);

                    iter
                }
            }
        } else {
            let mut iter = self.iter();

            // NOTE: Fallback to binary search
            if !iter.seek(needle) {
                /*+*/proof { assert forall|i: int| 0 <= i < es.len() implies !is_match(#[trigger] es[i], needle@, seqno) by { lemma_absent(iter, needle@, i); } }/*-*/
                return None;
            }
            /*+*/proof { assert forall|i: int| 0 <= i < iter.decoder.lo implies #[trigger] es[i].key != needle@ by { axiom_lex_total(es[i].key, needle@, needle@); } }/*-*/

            iter
        };
        /*+*/proof { assert forall|i: int| 0 <= i < iter.decoder.lo implies !is_match(#[trigger] es[i], needle@, seqno) by { } }/*-*/

        // Linear scan
        let mut iter__ = iter; loop
            /*+*/invariant iter__.wf(), iter__.decoder.bytes == self.bytes(), iter__.decoder.hi == es.len(), es == entries(self.bytes()),
                block_wf(self.bytes()), self.bytes().len() <= isize::MAX,
                forall|i: int| 0 <= i < iter__.decoder.lo ==> !is_match(#[trigger] es[i], needle@, seqno),
            ensures iter__.decoder.lo >= es.len()
            decreases es.len() - iter__.decoder.lo/*-*/
        { let Some(item) = iter__.next() else { break; };
            match item.compare_key(needle, self.inner.data.as_bytes()) {
                Ordering::Greater => {
                    // We are before our searched key/seqno
                    /*+*/proof {
                        let k = iter__.decoder.lo - 1;
                        assert forall|i: int| 0 <= i < es.len() implies !is_match(#[trigger] es[i], needle@, seqno) by {
                            if i >= k { assert(key_le(es[k].key, es[i].key)); axiom_lex_total(needle@, es[k].key, es[i].key); axiom_lex_total(needle@, needle@, needle@); }
                        }
                    }/*-*/
                    return None;
                }
                Ordering::Equal => {
                    // If key is same as needle, check sequence number
                }
                Ordering::Less => {
                    // We are past our searched key
                    /*+*/proof { axiom_lex_total(es[iter__.decoder.lo - 1].key, needle@, needle@); }/*-*/
                    continue;
                }
            }

            if item.seqno >= seqno {
                continue;
            }

            /*+*/proof { axiom_lex_total(es[iter__.decoder.lo - 1].key, needle@, needle@); }/*-*/
            return Some(item.materialize(&self.inner.data));
        }

        None
    }
//@ END
}
/// after a failed `seek` no entry has the needle key
proof fn lemma_absent(it: Iter, needle: Seq<u8>, i: int)
    requires it.wf(), it.decoder.hi == it.es().len(), 0 <= i < it.es().len(),
        forall|j: int| 0 <= j < it.decoder.lo ==> key_lt(#[trigger] it.es()[j].key, needle),
        it.decoder.lo < it.decoder.hi ==> key_lt(needle, it.es()[it.decoder.lo].key),
    ensures it.es()[i].key != needle
{
    let es = it.es();
    axiom_lex_total(needle, needle, needle);
    if i >= it.decoder.lo { assert(key_le(es[it.decoder.lo].key, es[i].key)); axiom_lex_total(needle, es[it.decoder.lo].key, es[i].key); }
}
}
fn main() {}
