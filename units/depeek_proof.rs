//@ UNIT depeek_proof
// DoubleEndedPeekable (src/double_ended_peekable.rs): the adapter behaves as a deque over `front buffer ++ inner iterator ++ back buffer`
// for EVERY inner double-ended iterator and EVERY interleaving of next / next_back / next_if (unbounded; replaces the bounded Kani
// check of these functions): next takes the first element, next_back the last, next_if takes the first only if the predicate holds,
// and nothing is lost, duplicated or reordered.  Obligation C03.16
use vstd::prelude::*;
verus! {
global size_of usize == 8;

// ---------------- prelude (TRUSTED) ----------------
/// any double-ended source iterator: yields the elements of the ghost sequence `rest()` from either end
#[verifier::external_body]
#[verifier::reject_recursive_types(T)]
pub struct Src<T> { v: Vec<T> }
impl<T> Src<T> {
    pub uninterp spec fn rest(&self) -> Seq<T>;
    #[verifier::external_body]
    pub fn next(&mut self) -> (r: Option<T>)
        ensures old(self).rest().len() == 0 ==> r is None && final(self).rest() == old(self).rest(),
            old(self).rest().len() > 0 ==> r == Some(old(self).rest()[0]) && final(self).rest() == old(self).rest().skip(1),
    { unimplemented!() }
    #[verifier::external_body]
    pub fn next_back(&mut self) -> (r: Option<T>)
        ensures old(self).rest().len() == 0 ==> r is None && final(self).rest() == old(self).rest(),
            old(self).rest().len() > 0 ==> r == Some(old(self).rest().last()) && final(self).rest() == old(self).rest().drop_last(),
    { unimplemented!() }
}

/// std Option::or_else
pub assume_specification<T, F: FnOnce() -> Option<T>> [core::option::Option::<T>::or_else] (o: Option<T>, f: F) -> (r: Option<T>)
    requires o is None ==> call_requires(f, ())
    ensures o is Some ==> r == o, o is None ==> call_ensures(f, (), r);
/// std::mem::replace
pub assume_specification<T> [core::mem::replace] (dest: &mut T, src: T) -> (r: T)
    ensures r == *old(dest), *final(dest) == src;

//@ FROM src/double_ended_peekable.rs :: - :: enum MaybePeeked
enum MaybePeeked<T> {
    Unpeeked,
    Peeked(Option<T>),
}
//@ END
/// the elements a buffer holds
spec fn buf<T>(m: MaybePeeked<T>) -> Seq<T> { match m { MaybePeeked::Peeked(Some(x)) => seq![x], _ => Seq::empty() } }

//@ SUBST `const fn` ==> `fn`
impl<T> MaybePeeked<T> {
//@ FROM src/double_ended_peekable.rs :: impl < T > MaybePeeked < T > :: fn take :: OBL C03.16
//@ SUBST `mem :: replace ( self , Self :: Unpeeked )` ==> `core::mem::replace(self, Self::Unpeeked)`
    fn take(&mut self) -> /*+*/(r:/*-*/ Self/*+*/)
        ensures r == *old(self), *final(self) == MaybePeeked::<T>::Unpeeked/*-*/
    {
        core::mem::replace(self, Self::Unpeeked)
    }
//@ END
//@ FROM src/double_ended_peekable.rs :: impl < T > MaybePeeked < T > :: fn into_peeked_value :: OBL C03.16
    fn into_peeked_value(self) -> /*+*/(r:/*-*/ Option<T>/*+*/)
        ensures r == (match self { MaybePeeked::Peeked(Some(x)) => Some(x), _ => None })/*-*/
    {
        match self {
            Self::Unpeeked | Self::Peeked(None) => None,
            Self::Peeked(Some(peeked)) => Some(peeked),
        }
    }
//@ END
//@ FROM src/double_ended_peekable.rs :: impl < T > MaybePeeked < T > :: fn is_unpeeked
    fn is_unpeeked(&self) -> /*+*/(r:/*-*/ bool/*+*/) ensures r == (*self is Unpeeked)/*-*/
    {
        matches!(self, Self::Unpeeked)
    }
//@ END
}


/// `unsafe { unreachable_unchecked() }`: undefined behaviour if reached - unreachability is the obligation
#[verifier::external_body]
fn unreachable_unchecked_() -> ! requires false { unreachable!() }
//@ SUBST `const fn` ==> `fn`
impl<T> MaybePeeked<T> {
//@ FROM src/double_ended_peekable.rs :: impl < T > MaybePeeked < T > :: fn get_peeked_or_insert_with :: OBL C03.16
//@ SUBST `unsafe { unreachable_unchecked ( ) }` ==> `unreachable_unchecked_()`
    fn get_peeked_or_insert_with<F>(&mut self, f: F) -> /*+*/(r:/*-*/ &mut Option<T>/*+*/)/*-*/
    where
        F: FnOnce() -> Option<T>/*+*/,
        requires *old(self) is Unpeeked ==> call_requires(f, ())
        ensures *final(self) == MaybePeeked::<T>::Peeked(*final(r)),
            // the buffered value is kept; the closure is consulted exactly when nothing was buffered
            *old(self) is Peeked ==> *r == (*old(self))->Peeked_0,
            *old(self) is Unpeeked ==> call_ensures(f, (), *r)/*-*/,
    {
        if matches!(self, Self::Unpeeked) {
            *self = Self::Peeked(f());
        }

        let Self::Peeked(peeked) = self else {
            unreachable_unchecked_()
        };

        peeked
    }
//@ END
//@ FROM src/double_ended_peekable.rs :: impl < T > MaybePeeked < T > :: fn get_peeked_or_insert_with :: OBL C03.16
//@ SUBST `unsafe { unreachable_unchecked ( ) }` ==> `unreachable_unchecked_()`
//@ SUBST `fn get_peeked_or_insert_with < F > ( & mut self , f : F ) -> & mut Option < T > where F : FnOnce ( ) -> Option < T > ,` ==> `fn get_peeked_or_insert_with_next(&mut self, it: &mut Src<T>) -> &mut Option<T>`
//@ SUBST `f ( )` ==> `it.next()`
    fn get_peeked_or_insert_with_next(&mut self, it: &mut Src<T>) -> /*+*/(r:/*-*/ &mut Option<T>/*+*/)
        ensures *final(self) == MaybePeeked::<T>::Peeked(*final(r)),
            *old(self) is Peeked ==> *r == (*old(self))->Peeked_0 && final(it).rest() == old(it).rest(),
            *old(self) is Unpeeked ==> (old(it).rest().len() == 0 ==> *r is None && final(it).rest() == old(it).rest())
                && (old(it).rest().len() > 0 ==> *r == Some(old(it).rest()[0]) && final(it).rest() == old(it).rest().skip(1)),/*-*/
    {
        if matches!(self, Self::Unpeeked) {
            *self = Self::Peeked(it.next());
        }

        let Self::Peeked(peeked) = self else {
            unreachable_unchecked_()
        };

        peeked
    }
//@ END
//@ FROM src/double_ended_peekable.rs :: impl < T > MaybePeeked < T > :: fn get_peeked_or_insert_with :: OBL C03.16
//@ SUBST `unsafe { unreachable_unchecked ( ) }` ==> `unreachable_unchecked_()`
//@ SUBST `fn get_peeked_or_insert_with < F > ( & mut self , f : F ) -> & mut Option < T > where F : FnOnce ( ) -> Option < T > ,` ==> `fn get_peeked_or_insert_with_next_back(&mut self, it: &mut Src<T>) -> &mut Option<T>`
//@ SUBST `f ( )` ==> `it.next_back()`
    fn get_peeked_or_insert_with_next_back(&mut self, it: &mut Src<T>) -> /*+*/(r:/*-*/ &mut Option<T>/*+*/)
        ensures *final(self) == MaybePeeked::<T>::Peeked(*final(r)),
            *old(self) is Peeked ==> *r == (*old(self))->Peeked_0 && final(it).rest() == old(it).rest(),
            *old(self) is Unpeeked ==> (old(it).rest().len() == 0 ==> *r is None && final(it).rest() == old(it).rest())
                && (old(it).rest().len() > 0 ==> *r == Some(old(it).rest().last()) && final(it).rest() == old(it).rest().drop_last()),/*-*/
    {
        if matches!(self, Self::Unpeeked) {
            *self = Self::Peeked(it.next_back());
        }

        let Self::Peeked(peeked) = self else {
            unreachable_unchecked_()
        };

        peeked
    }
//@ END
//@ FROM src/double_ended_peekable.rs :: impl < T > MaybePeeked < T > :: fn peeked_value_ref :: OBL C03.16
    fn peeked_value_ref(&self) -> /*+*/(r:/*-*/ Option<&T>/*+*/)
        ensures r == (match *self { MaybePeeked::Peeked(Some(x)) => Some(&x), _ => None::<&T> })/*-*/
    {
        match self {
            Self::Unpeeked | Self::Peeked(None) => None,
            Self::Peeked(Some(peeked)) => Some(peeked),
        }
    }
//@ END
}

//@ FROM src/double_ended_peekable.rs :: - :: struct DoubleEndedPeekable
//@ SUBST `< T , I : Iterator < Item = T > >` ==> `<T>`
//@ SUBST `iter : I` ==> `iter: Src<T>`
/*+*/#[verifier::reject_recursive_types(T)]/*-*/
struct DoubleEndedPeekable<T> {
    iter: Src<T>,
    front: MaybePeeked<T>,
    back: MaybePeeked<T>,
}
//@ END
//@ SUBST `Self :: Item` ==> `T`
//@ SUBST `I :: Item` ==> `T`
impl<T> DoubleEndedPeekable<T> {
    /// the deque the adapter stands for
    spec fn view(&self) -> Seq<T> { buf(self.front) + self.iter.rest() + buf(self.back) }
    /// a buffered `None` means the inner iterator was seen exhausted
    spec fn wf(&self) -> bool { (self.front == MaybePeeked::<T>::Peeked(None) || self.back == MaybePeeked::<T>::Peeked(None)) ==> self.iter.rest().len() == 0 }

//@ FROM src/double_ended_peekable.rs :: impl < T , I > Iterator for DoubleEndedPeekable < T , I > :: fn next :: OBL C03.16
    fn next(&mut self) -> /*+*/(r:/*-*/ Option<T>/*+*/)
        requires old(self).wf()
        ensures final(self).wf(), final(self).front is Unpeeked,
            old(self).view().len() == 0 ==> r is None && final(self).view().len() == 0,
            old(self).view().len() > 0 ==> r == Some(old(self).view()[0]) && final(self).view() == old(self).view().skip(1),/*-*/
    {
        /*+*/let ghost v0 = self.view();/*-*/
        match self.front.take() {
            MaybePeeked::Peeked(out @ Some(_)) => /*+*/{ proof { assert(self.view() =~= v0.skip(1)); }/*-*/ out /*+*/}/*-*/,
            MaybePeeked::Peeked(None) => /*+*/{ let r =/*-*/ self.back.take().into_peeked_value()/*+*/; proof { assert(self.view() =~= v0.skip(1) || v0.len() == 0); } r }/*-*/,
            MaybePeeked::Unpeeked => match self.iter.next() {
                item @ Some(_) => /*+*/{ proof { assert(self.view() =~= v0.skip(1)); }/*-*/ item /*+*/}/*-*/,
                None => /*+*/{ let r =/*-*/ self.back.take().into_peeked_value()/*+*/; proof { assert(self.view() =~= v0.skip(1) || v0.len() == 0); } r }/*-*/,
            },
        }
    }
//@ END

//@ FROM src/double_ended_peekable.rs :: impl < T , I > DoubleEndedIterator for DoubleEndedPeekable < T , I > :: fn next_back :: OBL C03.16
    fn next_back(&mut self) -> /*+*/(r:/*-*/ Option<T>/*+*/)
        requires old(self).wf()
        ensures final(self).wf(),
            old(self).view().len() == 0 ==> r is None && final(self).view().len() == 0,
            old(self).view().len() > 0 ==> r == Some(old(self).view().last()) && final(self).view() == old(self).view().drop_last(),/*-*/
    {
        /*+*/let ghost v0 = self.view();/*-*/
        match self.back.take() {
            MaybePeeked::Peeked(out @ Some(_)) => /*+*/{ proof { assert(self.view() =~= v0.drop_last()); }/*-*/ out /*+*/}/*-*/,
            MaybePeeked::Peeked(None) => /*+*/{ let r =/*-*/ self.front.take().into_peeked_value()/*+*/; proof { assert(self.view() =~= v0.drop_last() || v0.len() == 0); } r }/*-*/,
            MaybePeeked::Unpeeked => match self.iter.next_back() {
                out @ Some(_) => /*+*/{ proof { assert(self.view() =~= v0.drop_last()); }/*-*/ out /*+*/}/*-*/,
                None => /*+*/{ let r =/*-*/ self.front.take().into_peeked_value()/*+*/; proof { assert(self.view() =~= v0.drop_last() || v0.len() == 0); } r }/*-*/,
            },
        }
    }
//@ END

//@ FROM src/double_ended_peekable.rs :: impl < T , I > DoubleEndedPeekable < T , I > :: fn next_if :: OBL C03.16
//@ SUBST `func : impl FnOnce ( & T ) -> bool` ==> `func: F`
//@ SUBST `debug_assert ! ( $1 ) ;` ==> ``
    fn next_if/*+*/<F: FnOnce(&T) -> bool>/*-*/(&mut self, func: F) -> /*+*/(r:/*-*/ Option<T>/*+*/)
        requires old(self).wf(), old(self).view().len() > 0 ==> call_requires(func, (&old(self).view()[0],))
        ensures final(self).wf(),
            old(self).view().len() == 0 ==> r is None && final(self).view().len() == 0,
            // the first element is taken exactly when the predicate accepts it; otherwise the deque is unchanged
            old(self).view().len() > 0 ==> (
                (r == Some(old(self).view()[0]) && final(self).view() == old(self).view().skip(1) && call_ensures(func, (&old(self).view()[0],), true))
                || (r is None && final(self).view() == old(self).view() && call_ensures(func, (&old(self).view()[0],), false))),/*-*/
    {
        /*+*/let ghost v0 = self.view();/*-*/
        match self.next() {
            Some(item) if func(&item) => Some(item),
            other => {
                self.front = MaybePeeked::Peeked(other);
                /*+*/proof { if v0.len() > 0 { assert(self.view() =~= seq![v0[0]] + v0.skip(1)); assert(seq![v0[0]] + v0.skip(1) =~= v0); } }/*-*/
                None
            }
        }
    }
//@ END

//@ FROM src/double_ended_peekable.rs :: impl < T , I > DoubleEndedPeekable < T , I > :: fn peek :: OBL C03.16
//@ SUBST `. get_peeked_or_insert_with ( || self . iter . next ( ) )` ==> `.get_peeked_or_insert_with_next(&mut self.iter)`
    fn peek(&mut self) -> /*+*/(r:/*-*/ Option<&T>/*+*/)
        requires old(self).wf()
        ensures final(self).wf(), final(self).view() == old(self).view(),
            (old(self).view().len() > 0) == (r is Some), r is Some ==> *r->Some_0 == old(self).view()[0],/*-*/
    {
        self.front
            .get_peeked_or_insert_with_next(&mut self.iter)
            .as_ref()
            .or_else(|| /*+*/-> (o: Option<&T>) ensures o == (match self.back { MaybePeeked::Peeked(Some(x)) => Some(&x), _ => None::<&T> }) {/*-*/ self.back.peeked_value_ref() /*+*/}/*-*/)
    }
//@ END

//@ FROM src/double_ended_peekable.rs :: impl < T , I > DoubleEndedPeekable < T , I > :: fn peek_back :: OBL C03.16
//@ SUBST `. get_peeked_or_insert_with ( || self . iter . next_back ( ) )` ==> `.get_peeked_or_insert_with_next_back(&mut self.iter)`
    fn peek_back(&mut self) -> /*+*/(r:/*-*/ Option<&T>/*+*/)
        requires old(self).wf()
        ensures final(self).wf(), final(self).view() == old(self).view(),
            (old(self).view().len() > 0) == (r is Some), r is Some ==> *r->Some_0 == old(self).view().last(),/*-*/
    {
        self.back
            .get_peeked_or_insert_with_next_back(&mut self.iter)
            .as_ref()
            .or_else(|| /*+*/-> (o: Option<&T>) ensures o == (match self.front { MaybePeeked::Peeked(Some(x)) => Some(&x), _ => None::<&T> }) {/*-*/ self.front.peeked_value_ref() /*+*/}/*-*/)
    }
//@ END

//@ FROM src/double_ended_peekable.rs :: impl < T , I > DoubleEndedPeekable < T , I > :: fn inner_mut
//@ SUBST `& mut I` ==> `&mut Src<T>`
    fn inner_mut(&mut self) -> /*+*/(r:/*-*/ &mut Src<T>/*+*/)
        ensures *r == old(self).iter, final(self).iter == *final(r), final(self).front == old(self).front, final(self).back == old(self).back/*-*/
    {
        &mut self.iter
    }
//@ END
}

impl<T> Src<T> {
//@ FROM src/double_ended_peekable.rs :: impl < T , I > DoubleEndedPeekableExt < T , I > for I :: fn double_ended_peekable :: OBL C03.16
//@ SUBST `DoubleEndedPeekable < T , I >` ==> `DoubleEndedPeekable<T>`
    fn double_ended_peekable(self) -> /*+*/(r:/*-*/ DoubleEndedPeekable<T>/*+*/)
        ensures r.wf(), r.view() == self.rest()/*-*/
    {
        /*+*/let r =/*-*/ DoubleEndedPeekable {
            iter: self,
            front: MaybePeeked::Unpeeked,
            back: MaybePeeked::Unpeeked,
        }/*+*/;
        proof { assert(r.view() =~= self.rest()); }
        r/*-*/
    }
//@ END
}
}
fn main() {}
