//@ UNIT derived_queries
// The derived queries of `AbstractTree` (src/abstract_tree.rs, default methods): `len`, `is_empty`, `first_key_value`, `last_key_value`
// and `contains_key` are exactly what a scan / a point read of the same snapshot says - `len` counts the items the scan yields (an error
// item makes it fail, it is not counted or skipped), `is_empty` holds iff the scan yields nothing, first / last are the scan's first and
// last item, `contains_key` holds iff `get` finds a value.  Obligations C01.39, C03.18
use vstd::prelude::*;
use vstd::std_specs::iter::*;
verus! {
global size_of usize == 8;
type SeqNo = u64;
#[derive(Copy, Clone, PartialEq, Eq, Structural)] struct Error { e: u8 }
#[derive(Copy, Clone, PartialEq, Eq, Structural)] struct UserKey { rank: int }
#[derive(Copy, Clone, PartialEq, Eq, Structural)] struct UserValue { v: int }
/// IterGuardImpl: an item of a scan; `key()` resolves it to the key or to the error the scan hit there
#[derive(Copy, Clone, PartialEq, Eq, Structural)] struct IterGuardImpl { k: Result<UserKey, Error> }
impl IterGuardImpl { fn key(self) -> (r: Result<UserKey, Error>) ensures r == self.k { self.k } }
//@ INCLUDE prelude/seqiter.rs
/// SeqIter as a double-ended iterator
impl<T> SeqIter<T> {
    #[verifier::external_body]
    pub fn next_back(&mut self) -> (r: Option<T>)
        ensures old(self).rest().len() == 0 ==> r is None, old(self).rest().len() > 0 ==> r == Some(old(self).rest().last()) && final(self).rest() == old(self).rest().drop_last(),
    { unimplemented!() }
}
/// Option<(Arc<Memtable>, SeqNo)>: the ephemeral index memtable of a transaction
#[derive(Copy, Clone)] struct Ephemeral { p: u8 }
/// a tree: what a scan of snapshot `seqno` yields and what a point read finds are uninterpreted functions of the tree (their agreement
/// with the stored history is C01 / C03's other obligations)
struct T { p: u8 }
impl T {
    uninterp spec fn scan(&self, seqno: SeqNo, index: Option<Ephemeral>) -> Seq<IterGuardImpl>;
    uninterp spec fn point(&self, key: int, seqno: SeqNo) -> Result<Option<UserValue>, Error>;
    #[verifier::external_body] fn iter(&self, seqno: SeqNo, index: Option<Ephemeral>) -> (r: SeqIter<IterGuardImpl>) ensures r.rest() == self.scan(seqno, index) { unimplemented!() }
    #[verifier::external_body] fn get(&self, key: &UserKey, seqno: SeqNo) -> (r: Result<Option<UserValue>, Error>) ensures r == self.point(key.rank, seqno) { unimplemented!() }
}
pub assume_specification<T, E> [Option::<Result<T, E>>::transpose] (o: Option<Result<T, E>>) -> (r: Result<Option<T>, E>)
    ensures o is None ==> r == Ok::<Option<T>, E>(None), o is Some && o->0 is Ok ==> r == Ok::<Option<T>, E>(Some(o->0->Ok_0)), o is Some && o->0 is Err ==> r == Err::<Option<T>, E>(o->0->Err_0);
spec fn all_ok(s: Seq<IterGuardImpl>) -> bool { forall|i: int| 0 <= i < s.len() ==> (#[trigger] s[i]).k is Ok }

//@ SUBST `crate :: Result < $1 >` ==> `Result<$1, Error>`
//@ SUBST `Option < ( Arc < Memtable > , SeqNo ) >` ==> `Option<Ephemeral>`
impl T {
//@ FROM src/abstract_tree.rs :: trait AbstractTree :: fn len :: OBL C01.39
//@ SUBST `for item in self . iter ( seqno , index ) {` ==> `for item in it: self.iter(seqno, index) {`
    fn len(&self, seqno: SeqNo, index: Option<Ephemeral>) -> /*+*/(r:/*-*/ Result<usize, Error>/*+*/)
        requires self.scan(seqno, index).len() <= usize::MAX,
        ensures r is Ok ==> r->Ok_0 == self.scan(seqno, index).len() && all_ok(self.scan(seqno, index)),
            r is Err ==> !all_ok(self.scan(seqno, index)),/*-*/
    {
        let mut count = 0;

        for item in it: self.iter(seqno, index)
            /*+*/invariant count == it.index@, it.seq() == self.scan(seqno, index), it.seq().len() <= usize::MAX,
                forall|i: int| 0 <= i < it.index@ ==> (#[trigger] it.seq()[i]).k is Ok,/*-*/
        {
            let _ = item.key()?;
            count += 1;
        }

        Ok(count)
    }
//@ END
//@ FROM src/abstract_tree.rs :: trait AbstractTree :: fn first_key_value :: OBL C01.39, C03.18
    fn first_key_value(
        &self,
        seqno: SeqNo,
        index: Option<Ephemeral>,
    ) -> /*+*/(r:/*-*/ Option<IterGuardImpl>/*+*/)
        ensures ({ let s = self.scan(seqno, index); (s.len() == 0 ==> r is None) && (s.len() > 0 ==> r == Some(s[0])) })/*-*/
    {
        self.iter(seqno, index).next()
    }
//@ END
//@ FROM src/abstract_tree.rs :: trait AbstractTree :: fn last_key_value :: OBL C01.39, C03.18
    fn last_key_value(
        &self,
        seqno: SeqNo,
        index: Option<Ephemeral>,
    ) -> /*+*/(r:/*-*/ Option<IterGuardImpl>/*+*/)
        ensures ({ let s = self.scan(seqno, index); (s.len() == 0 ==> r is None) && (s.len() > 0 ==> r == Some(s.last())) })/*-*/
    {
        self.iter(seqno, index).next_back()
    }
//@ END
//@ FROM src/abstract_tree.rs :: trait AbstractTree :: fn is_empty :: OBL C01.39
//@ SUBST `. map ( crate :: Guard :: key )` ==> `.map(|g__: IterGuardImpl| -> (k: Result<UserKey, Error>) ensures k == g__.k { g__.key() })`
    fn is_empty(&self, seqno: SeqNo, index: Option<Ephemeral>) -> /*+*/(r:/*-*/ Result<bool, Error>/*+*/)
        ensures ({ let s = self.scan(seqno, index);
            (r is Ok ==> r->Ok_0 == (s.len() == 0)) && (r is Err ==> s.len() > 0 && s[0].k == Err::<UserKey, Error>(r->Err_0)) })/*-*/
    {
        Ok(self
            .first_key_value(seqno, index)
            .map(|g__: IterGuardImpl| -> (k: Result<UserKey, Error>) ensures k == g__.k { g__.key() })
            .transpose()?
            .is_none())
    }
//@ END
//@ FROM src/abstract_tree.rs :: trait AbstractTree :: fn contains_key :: OBL C01.39
//@ SUBST `fn contains_key < K : AsRef < [ u8 ] > > ( & self , key : K ,` ==> `fn contains_key(&self, key: &UserKey,`
//@ SUBST `. map ( | x | x . is_some ( ) )` ==> `.map(|x: Option<UserValue>| -> (b: bool) ensures b == x is Some { x.is_some() })`
    fn contains_key(&self, key: &UserKey, seqno: SeqNo) -> /*+*/(r:/*-*/ Result<bool, Error>/*+*/)
        ensures ({ let g = self.point(key.rank, seqno); (g is Ok ==> r == Ok::<bool, Error>(g->Ok_0 is Some)) && (g is Err ==> r == Err::<bool, Error>(g->Err_0)) })/*-*/
    {
        self.get(key, seqno).map(|x: Option<UserValue>| -> (b: bool) ensures b == x is Some { x.is_some() })
    }
//@ END
}
}
fn main() {}
