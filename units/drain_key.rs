//@ UNIT drain_key
// `CompactionStream::drain_key` (src/compaction/stream.rs) and the closure it hands to `Peekable::next_if`: after the head of a key has
// been decided, the older versions of that key are drained - and reported to the drop callback - up to, but not including, the first
// one that must be kept: any tombstone when `keep_tombstones`, a weak tombstone when `keep_weak_tombstones`; entries of other keys are
// never touched; a stream error is returned.  The postcondition is textually the one unit `stream` (C13.2, C01.6) assumes for drain_key
// (prelude/drain_key_ensures.rs).  Obligations C13.4, C01.35
use vstd::prelude::*;
use vstd::std_specs::cmp::*;

verus! {

//@ INCLUDE prelude/key.rs
//@ INCLUDE prelude/entry.rs
//@ INCLUDE prelude/stream_env.rs

/// the verdict of drain_key's closure on the next item: an error is taken (and then returned), an entry is taken iff it has the key and is not kept
spec fn taken(x: Item, k: int, kw: bool, kt: bool) -> bool { match x { Ok(v) => v.key.user_key.rank() == k && !kept(v, kw, kt), Err(_) => true } }
spec fn log_of(cb: Option<DropLog>) -> Seq<InternalValue> { match cb { Some(l) => l.log, None => Seq::empty() } }

//@ WRAPPER_BEGIN
    /// wrapper (generated) around the closure drain_key hands to `Peekable::next_if`; its parameters are the variables the closure captures
    fn expired_pred(kv: &Item, key: &UserKey, keep_weak_tombstones: bool, keep_tombstones: bool, dropped_callback: &mut Option<DropLog>) -> (r: bool)
        ensures r == taken(*kv, key.rank(), keep_weak_tombstones, keep_tombstones),   // @OBL C13.4, C01.35
            (*old(dropped_callback) is Some) == (*final(dropped_callback) is Some),
            // exactly the entries that are drained are reported
            log_of(*final(dropped_callback)) == (if *kv is Ok && r && *old(dropped_callback) is Some { log_of(*old(dropped_callback)).push(kv->Ok_0) } else { log_of(*old(dropped_callback)) }),   // @OBL C13.4, C01.35
//@ FROM src/compaction/stream.rs :: impl < 'a , I : Iterator < Item = Item > , F : StreamFilter + 'a > CompactionStream < 'a , I , F > :: fn drain_key :: CLOSURE 1 `| kv | {` :: OBL C13.4, C01.35
//@ SUBST `kv . key . user_key == key` ==> `kv.key.user_key == *key`
//@ SUBST `& mut self . dropped_callback` ==> `dropped_callback`
//@ SUBST `| kv | { $1 }` ==> `{ $1 }`
// the closure's parameter becomes the wrapper's parameter of the same name (Verus has no closures capturing `&mut`)
        {
                if let Ok(kv) = kv {
                    let keep = (keep_tombstones && kv.is_tombstone())
                        || (keep_weak_tombstones
                            && kv.key.value_type == ValueType::WeakTombstone);

                    let expired = kv.key.user_key == *key && !keep;

                    if expired {
                        if let Some(watcher) = dropped_callback {
                            watcher.on_dropped(kv);
                        }
                    }

                    expired
                } else {
                    true
                }
            }
//@ END
//@ WRAPPER_END

impl Peek {
    /// `Peekable::next_if(f)` with f = the closure of drain_key (verified as `CompactionStream::expired_pred`): std defines it as
    /// "take the next item iff there is one and f returns true for it"; written over peek/next so that the closure's contract carries through
    fn next_if_expired(&mut self, key: &UserKey, kw: bool, kt: bool, cb: &mut Option<DropLog>) -> (r: Option<Item>)
        ensures
            (*old(cb) is Some) == (*final(cb) is Some),
            old(self).rest().len() > 0 && taken(old(self).rest()[0], key.rank(), kw, kt)
                ==> r == Some(old(self).rest()[0]) && final(self).rest() == old(self).rest().skip(1)
                    && log_of(*final(cb)) == (if old(self).rest()[0] is Ok && *old(cb) is Some { log_of(*old(cb)).push(old(self).rest()[0]->Ok_0) } else { log_of(*old(cb)) }),
            !(old(self).rest().len() > 0 && taken(old(self).rest()[0], key.rank(), kw, kt))
                ==> r is None && final(self).rest() == old(self).rest() && log_of(*final(cb)) == log_of(*old(cb)),
    {
        let take = match self.peek() { Some(x) => expired_pred(x, key, kw, kt, cb), None => false };
        if take { self.next() } else { None }
    }
}

impl<F: StreamFilter> CompactionStream<F> {
//@ FROM src/compaction/stream.rs :: impl < 'a , I : Iterator < Item = Item > , F : StreamFilter + 'a > CompactionStream < 'a , I , F > :: fn drain_key :: OBL C13.4, C01.35
//@ SUBST `self . inner . next_if ( | kv | { $1 } )` ==> `self.inner.next_if_expired(key, keep_weak_tombstones, keep_tombstones, &mut self.dropped_callback)`
//@ SUBST `crate :: Result < ( ) >` ==> `Result<(), Error>`
//@ INCLUDE prelude/drain_key_ensures.rs
// R23'': the closure handed to next_if is verified above as expired_pred; here the call is specialised to it
    fn drain_key(
        &mut self,
        key: &UserKey,
        keep_weak_tombstones: bool,
        keep_tombstones: bool,
    ) -> /*+*/(r:/*-*/ Result<(), Error>/*+*/)
    /*-*/ {
        /*+*/let ghost s = self.inner.rest();
        let ghost k = key.rank();
        let ghost mut i: int = 0;
        proof { assert(s.skip(0) =~= s); assert(vals(s.take(0)) =~= Seq::<InternalValue>::empty()); assert(self.log() + Seq::<InternalValue>::empty() =~= self.log()); }/*-*/
        loop /*+*/invariant
                self.same_cfg(old(self)),
                0 <= i <= s.len(), self.inner.rest() == s.skip(i),
                k == key.rank(), s == old(self).inner.rest(),
                same_key_prefix(s, k, keep_weak_tombstones, keep_tombstones) == i + same_key_prefix(s.skip(i), k, keep_weak_tombstones, keep_tombstones),
                old(self).has_cb() ==> self.log() == old(self).log() + vals(s.take(i)),
            decreases s.len() - i,
        /*-*/ {
            let Some(next) = self.inner.next_if_expired(key, keep_weak_tombstones, keep_tombstones, &mut self.dropped_callback) else {
                return Ok(());
            };

            /*+*/proof {
                assert(s.skip(i).skip(1) =~= s.skip(i + 1));
                assert(s.take(i + 1) =~= s.take(i).push(s[i]));
                if s[i] is Ok { assert(vals(s.take(i + 1)) =~= vals(s.take(i)).push(s[i]->Ok_0)); assert(old(self).log() + vals(s.take(i + 1)) =~= (old(self).log() + vals(s.take(i))).push(s[i]->Ok_0)); }
                i = i + 1;
            }/*-*/
            next?;
        }
    }
//@ END
}

} // verus!
fn main() {}
