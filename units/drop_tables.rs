//@ UNIT drop_tables
// compaction::worker::{drop_tables, move_tables}: dropped tables (drop_range, FIFO, clear-by-drop) and the blob files that die
// with them are marked for deletion only after the version without them has been published; a failed or declined drop marks
// nothing and publishes nothing; a move only re-levels.  Obligations C15.6, C19.2, C20.5, C16.8
use vstd::prelude::*;
use vstd::std_specs::iter::*;
verus! {

global size_of usize == 8;

#[verifier::external_body] struct Error { p: u8 }
#[verifier::external_body] struct Path { p: u8 }
#[verifier::external_body] struct SequenceNumberCounter { p: u8 }
type TableId = u64;
type SeqNo = u64;

//@ INCLUDE prelude/seqiter.rs

/// Table / BlobFile handles: `mark_as_deleted` makes the file disappear once the last reference is dropped, so it may only be
/// called when the published version no longer names the file.  The ghost argument is the caller's knowledge "the version
/// without the file has been published" (rule R15; obtained from the contract of upgrade_version below).
struct Table { id: u64 }
impl Table { #[verifier::external_body] fn mark_as_deleted(&self, Ghost(published): Ghost<bool>) requires published { } }
struct BlobFile { id: u64 }
impl BlobFile { #[verifier::external_body] fn mark_as_deleted(&self, Ghost(published): Ghost<bool>) requires published { } }
#[verifier::external_body] struct Version { p: u8 }
struct SuperVersion { version: Version }
impl Clone for SuperVersion { #[verifier::external_body] fn clone(&self) -> (r: Self) { unimplemented!() } }
impl Version {
    /// Version::with_dropped / with_moved (level arithmetic not under contract here; gc stats part is C09.4)
    #[verifier::external_body] fn with_dropped(&self, ids: &[TableId], dropped_blob_files: &mut Vec<BlobFile>) -> (r: Result<Version, Error>) { unimplemented!() }
    #[verifier::external_body] fn with_moved(&self, ids: &[TableId], dest_level: usize) -> (r: Version) { unimplemented!() }
}
/// the version history behind `Arc<RwLock<SuperVersions>>` as a ghost token (R15): n = number of versions published so far;
/// the write guard is the capability to change it
struct Hist { ghost n: int }
struct WriteGuard { p: u8 }
/// the closure handed to upgrade_version (rule R23: it captures `&mut dropped_blob_files`, which this Verus cannot express):
/// an opaque edit of the current super version
struct Edit { p: u8 }
#[verifier::external_body] fn drop_edit(ids: &[TableId], dropped_blob_files: &mut Vec<BlobFile>) -> (r: Edit) { unimplemented!() }
#[verifier::external_body] fn move_edit(ids: &Vec<TableId>, payload: &CompactionPayload) -> (r: Edit) { unimplemented!() }
impl WriteGuard {
    /// contract proved in unit super_versions (C02.4 / C16.1): Ok <=> the edited version was persisted and appended; Err leaves the history alone
    #[verifier::external_body]
    fn upgrade_version(&mut self, tree_path: &Path, f: Edit, seqno: &SequenceNumberCounter, visible_seqno: &SequenceNumberCounter, Tracked(fx): Tracked<&mut Hist>) -> (r: Result<(), Error>)
        ensures r is Err ==> final(fx).n == old(fx).n, r is Ok ==> final(fx).n == old(fx).n + 1,
    { unimplemented!() }
    /// SuperVersions::maintenance only trims old versions from the free list (unit super_versions, C20.1): publishes nothing
    #[verifier::external_body]
    fn maintenance(&mut self, path: &Path, watermark: SeqNo) -> (r: Result<(), Error>) { unimplemented!() }
}
struct HistoryLock { p: u8 }
struct WriteLockResult { p: u8 }
impl HistoryLock { fn write(&self) -> (r: WriteLockResult) { WriteLockResult { p: 0 } } }
impl WriteLockResult { fn expect(self, msg: &str) -> (r: WriteGuard) { WriteGuard { p: 0 } } }
struct CompactionPayload { ghost ids: Set<TableId>, dest_level: u8 }
impl CompactionPayload {
    /// `payload.table_ids.iter().copied()` / `..collect::<Vec<_>>()`
    #[verifier::external_body] fn ids(&self) -> (r: SeqIter<TableId>) ensures r.rest().to_set() == self.ids { unimplemented!() }
    #[verifier::external_body] fn id_vec(&self) -> (r: Vec<TableId>) { unimplemented!() }
}
struct Config { path: Box<Path> }
struct Options { config: Box<Config>, global_seqno: SequenceNumberCounter, visible_seqno: SequenceNumberCounter, mvcc_gc_watermark: u64, version_history: Box<HistoryLock> }
struct StateGuard { ghost hidden: Set<TableId> }
struct HidRef { ghost hidden: Set<TableId> }
impl StateGuard { #[verifier::external_body] fn hidden_set(&self) -> (r: HidRef) ensures r.hidden == self.hidden { unimplemented!() } }
impl HidRef {
    /// HiddenSet::should_decline_compaction (unit merge_tables, C16.6)
    #[verifier::external_body]
    fn should_decline_compaction(&self, ids: SeqIter<TableId>) -> (r: bool) ensures r == !self.hidden.disjoint(ids.rest().to_set()) { unimplemented!() }
}
fn drop<T>(x: T) {}
/// `ids.iter().map(|&id| lock.latest_version().version.get_table(id).cloned()).collect::<Option<Vec<_>>>()`
#[verifier::external_body] fn collect_tables(ids: &[TableId], h: &WriteGuard) -> (r: Option<Vec<Table>>) { unimplemented!() }
#[verifier::external_body] fn ids_iter(ids: &[TableId]) -> (r: SeqIter<TableId>) ensures r.rest() == ids@ { unimplemented!() }
//@ SUBST `crate :: Result < ( ) >` ==> `Result<(), Error>`
//@ SUBST `MutexGuard < '_ , CompactionState >` ==> `StateGuard`
//@ SUBST `. mark_as_deleted ( )` ==> `.mark_as_deleted(Ghost(published))`
//@ SUBST `. upgrade_version ( $1 )` ==> `.upgrade_version($1 Tracked(fx))`

//@ FROM src/compaction/worker.rs :: - :: fn drop_tables :: OBL C15.6, C19.2, C20.5, C16.8, C05.11
//@ SUBST `ids_to_drop . iter ( ) . copied ( )` ==> `ids_iter(ids_to_drop)`
//@ SUBST `ids_to_drop . iter ( ) . map ( $1 ) . collect :: < Option < Vec < _ > > > ( )` ==> `collect_tables(ids_to_drop, &version_history_lock)` :: FORBID mark_as_deleted upgrade_version fx
//@ SUBST `| current | { $1 }` ==> `drop_edit(ids_to_drop, &mut dropped_blob_files)` :: FORBID mark_as_deleted upgrade_version fx
//@ SUBST `vec ! [ ]` ==> `Vec::new()`
fn drop_tables(
    compaction_state: StateGuard,
    opts: &Options,
    ids_to_drop: &[TableId],
    /*+*/Tracked(fx): Tracked<&mut Hist>/*-*/
) -> /*+*/(r:/*-*/ Result<(), Error>/*+*/)
    ensures
        // a declined or failed drop publishes at most the one new version, a successful one exactly one - and (by the
        // precondition of mark_as_deleted) nothing is marked for deletion unless that version was published
        old(fx).n <= final(fx).n <= old(fx).n + 1,
        r is Ok && !compaction_state.hidden.disjoint(ids_to_drop@.to_set()) ==> final(fx).n == old(fx).n,/*-*/
{
    /*+*/let ghost mut published = false;/*-*/
    let mut version_history_lock = opts.version_history.write().expect("lock is poisoned");

    // Fail-safe for buggy compaction strategies
    if compaction_state
        .hidden_set()
        .should_decline_compaction(ids_iter(ids_to_drop))
    {
        return Ok(());
    }

    let Some(tables) = collect_tables(ids_to_drop, &version_history_lock)
    else {
        return Ok(());
    };

    let mut dropped_blob_files/*+*/: Vec<BlobFile>/*-*/ = Vec::new();

    // IMPORTANT: Write the manifest with the removed tables first
    // Otherwise the table files are deleted, but are still referenced!
    version_history_lock.upgrade_version(
        &opts.config.path,
        drop_edit(ids_to_drop, &mut dropped_blob_files),
        &opts.global_seqno,
        &opts.visible_seqno,
    Tracked(fx))?;
    /*+*/proof { published = true; }/*-*/

    if let Err(e) = version_history_lock.maintenance(&opts.config.path, opts.mvcc_gc_watermark) {
        return Err(e);
    }

    drop(version_history_lock);

    // NOTE: If the application were to crash >here< it's fine
    // The tables are not referenced anymore, and will be
    // cleaned up upon recovery
    for table in /*+*/it:/*-*/ tables
        /*+*/invariant published,/*-*/
    {
        table.mark_as_deleted(Ghost(published));
    }

    for blob_file in /*+*/it:/*-*/ dropped_blob_files
        /*+*/invariant published,/*-*/
    {
        blob_file.mark_as_deleted(Ghost(published));
    }

    drop(compaction_state);

    Ok(())
}
//@ END

//@ FROM src/compaction/worker.rs :: - :: fn move_tables :: OBL C16.8
//@ SUBST `& MutexGuard < '_ , CompactionState >` ==> `&StateGuard`
//@ SUBST `payload . table_ids . iter ( ) . copied ( ) . collect :: < Vec < _ > > ( )` ==> `payload.id_vec()`
//@ SUBST `payload . table_ids . iter ( ) . copied ( )` ==> `payload.ids()`
//@ SUBST `| current | { $1 }` ==> `move_edit(&table_ids, payload)` :: FORBID mark_as_deleted upgrade_version fx
fn move_tables(
    compaction_state: &StateGuard,
    opts: &Options,
    payload: &CompactionPayload,
    /*+*/Tracked(fx): Tracked<&mut Hist>/*-*/
) -> /*+*/(r:/*-*/ Result<(), Error>/*+*/)
    ensures old(fx).n <= final(fx).n <= old(fx).n + 1,
        r is Ok && !compaction_state.hidden.disjoint(payload.ids) ==> final(fx).n == old(fx).n,/*-*/
{
    let mut version_history_lock = opts.version_history.write().expect("lock is poisoned");

    // Fail-safe for buggy compaction strategies
    if compaction_state
        .hidden_set()
        .should_decline_compaction(payload.ids())
    {
        return Ok(());
    }

    let table_ids = payload.id_vec();

    version_history_lock.upgrade_version(
        &opts.config.path,
        move_edit(&table_ids, payload),
        &opts.global_seqno,
        &opts.visible_seqno,
    Tracked(fx))?;

    if let Err(e) = version_history_lock.maintenance(&opts.config.path, opts.mvcc_gc_watermark) {
        return Err(e);
    }

    Ok(())
}
//@ END

}
fn main() {}
