//@ UNIT durability
// Write / sync / publish order of the functions that make a version durable: file::rewrite_atomic, file::fsync_directory,
// version::persist::persist_version.  Effects are made explicit by rule R15 (effect passing): every call of a file-system
// level function gets the ghost effect token `Tracked(fx)` appended by a SUBST rule; the token's state machine is the
// contract of the file system calls.  Every `?` is a possible fault, so all single-fault positions are covered.
// Obligations C05.1, C05.2, C16.4, C10.8
use vstd::prelude::*;
verus! {

global size_of usize == 8;
#[verifier::external_body] pub struct IoError { p: u8 }
#[verifier::external_body] pub struct Error { p: u8 }
impl From<IoError> for Error { #[verifier::external_body] fn from(e: IoError) -> (r: Error) { unimplemented!() } }
impl vstd::std_specs::convert::FromSpecImpl<IoError> for Error {
    open spec fn obeys_from_spec() -> bool { false }
    uninterp spec fn from_spec(e: IoError) -> Error;
}
#[verifier::external_body] pub struct Path { p: u8 }
#[verifier::external_body] pub struct PathBuf { p: u8 }
/// which file of the tree folder a path names (ghost)
#[derive(PartialEq, Eq, Structural, Clone, Copy)]
pub enum Which { Folder, VersionFile(u64), Current, Temp, Other }
impl Path {
    pub uninterp spec fn which(&self) -> Which;
    #[verifier::external_body] pub fn join_version(&self, id: u64) -> (r: PathBuf) requires self.which() == Which::Folder ensures r.which() == Which::VersionFile(id) { unimplemented!() }
    #[verifier::external_body] pub fn join_current(&self) -> (r: PathBuf) requires self.which() == Which::Folder ensures r.which() == Which::Current { unimplemented!() }
    /// parent of a file inside the tree folder is the folder
    #[verifier::external_body] pub fn parent(&self) -> (r: Option<&Path>) ensures r is Some, r->0.which() == Which::Folder { unimplemented!() }
}
impl PathBuf {
    pub uninterp spec fn which(&self) -> Which;
    #[verifier::external_body] pub fn as_path(&self) -> (r: &Path) ensures r.which() == self.which() { unimplemented!() }
}

/// The effect token: an abstract view of what has reached the disk so far (TRUSTED contract of the OS calls).
pub struct Fx {
    pub ghost vfile_exact: bool,        // v<N> holds nothing but what was written through the handle opened last (it was created / truncated)
    pub ghost vfile_written: bool,      // v<N> has (some) content
    pub ghost vfile_synced: bool,       // v<N>'s data was fsynced after its last write
    pub ghost folder_synced_after_vfile: bool, // the folder was fsynced after v<N> was synced (its directory entry is durable)
    pub ghost temp_written: Seq<Field>, // content of the temp file that will replace `current`
    pub ghost temp_synced: bool,
    pub ghost current_replaced: bool,   // rename(temp -> current) happened
    pub ghost current_content: Seq<Field>,
    pub ghost current_synced: bool,
    pub ghost folder_synced_after_rename: bool,
}
pub enum Field { U8(u8), U64(u64), U128(u128), Bytes }

// ---- file handles (typestate lives in the token, handles only say which file they are) ----
pub struct File { pub ghost which: Which }
impl File {
    /// std::fs::File::create (through retry_transient_io)
    #[verifier::external_body]
    pub fn create(path: &PathBuf, Tracked(fx): Tracked<&mut Fx>) -> (r: Result<File, IoError>)
        ensures r is Ok ==> r->Ok_0.which == path.which(),
            // creating / truncating the version file: nothing of it is durable any more; nothing else changes
            *final(fx) == (Fx { vfile_exact: true, vfile_written: false, vfile_synced: false, folder_synced_after_vfile: false, ..*old(fx) }),
    { unimplemented!() }
    /// std::fs::File::open (read-only handle, used to fsync a file or a directory)
    #[verifier::external_body]
    pub fn open(path: &Path, Tracked(fx): Tracked<&mut Fx>) -> (r: Result<File, IoError>)
        ensures r is Ok ==> r->Ok_0.which == path.which(), *final(fx) == *old(fx),
    { unimplemented!() }
    #[verifier::external_body]
    pub fn sync_all(&self, Tracked(fx): Tracked<&mut Fx>) -> (r: Result<(), IoError>)
        ensures
            r is Err ==> *final(fx) == *old(fx),
            r is Ok ==> *final(fx) == (match self.which {
                Which::VersionFile(_) => Fx { vfile_synced: true, ..*old(fx) },
                Which::Temp => Fx { temp_synced: true, ..*old(fx) },
                Which::Current => Fx { current_synced: old(fx).current_replaced, ..*old(fx) },
                Which::Folder => Fx { folder_synced_after_vfile: old(fx).vfile_synced, folder_synced_after_rename: old(fx).current_replaced && old(fx).current_synced, ..*old(fx) },
                Which::Other => *old(fx),
            }),
    { unimplemented!() }
    #[verifier::external_body]
    pub fn metadata(&self) -> (r: Result<Metadata, IoError>) ensures r is Ok ==> r->Ok_0.dir == (self.which == Which::Folder) { unimplemented!() }
}
/// std::fs::OpenOptions: only truncate(true) (or File::create) guarantees that no bytes of an earlier file survive
pub struct OpenOptions { pub w: bool, pub c: bool, pub t: bool }
impl OpenOptions {
    pub fn new() -> (r: OpenOptions) ensures !r.w, !r.c, !r.t { OpenOptions { w: false, c: false, t: false } }
    pub fn write(self, b: bool) -> (r: OpenOptions) ensures r.w == b, r.c == self.c, r.t == self.t { OpenOptions { w: b, c: self.c, t: self.t } }
    pub fn create(self, b: bool) -> (r: OpenOptions) ensures r.c == b, r.w == self.w, r.t == self.t { OpenOptions { w: self.w, c: b, t: self.t } }
    pub fn truncate(self, b: bool) -> (r: OpenOptions) ensures r.t == b, r.w == self.w, r.c == self.c { OpenOptions { w: self.w, c: self.c, t: b } }
    #[verifier::external_body]
    pub fn open(&self, path: &PathBuf, Tracked(fx): Tracked<&mut Fx>) -> (r: Result<File, IoError>)
        ensures r is Ok ==> r->Ok_0.which == path.which(),
            *final(fx) == (Fx { vfile_exact: self.t, vfile_written: false, vfile_synced: false, folder_synced_after_vfile: false, ..*old(fx) }),
    { unimplemented!() }
}
pub struct Metadata { pub dir: bool }
impl Metadata { pub fn is_dir(&self) -> (r: bool) ensures r == self.dir { self.dir } }

/// tempfile::NamedTempFile (R8)
pub struct NamedTempFile { pub file: File }
pub struct PersistError { pub error: IoError, pub file: NamedTempFile }
impl NamedTempFile {
    #[verifier::external_body]
    pub fn new_in(dir: &Path, Tracked(fx): Tracked<&mut Fx>) -> (r: Result<NamedTempFile, IoError>)
        ensures r is Ok ==> r->Ok_0.file.which == Which::Temp,
            *final(fx) == (Fx { temp_written: Seq::empty(), temp_synced: false, ..*old(fx) }),
    { unimplemented!() }
    /// Write::write_all on the temp file
    #[verifier::external_body]
    pub fn write_all(&mut self, content: &Content, Tracked(fx): Tracked<&mut Fx>) -> (r: Result<(), IoError>)
        ensures final(self).file.which == old(self).file.which,
            r is Ok ==> *final(fx) == (Fx { temp_written: old(fx).temp_written + content.fields, temp_synced: false, ..*old(fx) }),
            r is Err ==> *final(fx) == (Fx { temp_synced: false, ..*old(fx) }) || *final(fx) == *old(fx),
    { unimplemented!() }
    #[verifier::external_body]
    pub fn flush(&mut self, Tracked(fx): Tracked<&mut Fx>) -> (r: Result<(), IoError>) ensures final(self).file.which == old(self).file.which, *final(fx) == *old(fx) { unimplemented!() }
    #[verifier::external_body]
    pub fn as_file_mut(&mut self) -> (r: &mut File) ensures r.which == old(self).file.which, final(self).file.which == old(self).file.which { &mut self.file }
}
/// contract of file::persist_temp_file (its body moves the temp file through a retry closure; TRUSTED): rename(temp -> path)
#[verifier::external_body]
pub fn persist_temp_file(temp_file: NamedTempFile, path: &Path, Tracked(fx): Tracked<&mut Fx>) -> (r: Result<(), IoError>)
    requires
        // C05.2: the replacement content must be durable before it is renamed over the target
        old(fx).temp_synced,
        // C05.1: `current` may only be switched once the version file it will name and its directory entry are durable
        path.which() == Which::Current ==> old(fx).vfile_synced && old(fx).folder_synced_after_vfile,
    ensures
        r is Err ==> *final(fx) == *old(fx),
        r is Ok ==> *final(fx) == (Fx { current_replaced: true, current_content: old(fx).temp_written, current_synced: false, folder_synced_after_rename: false, ..*old(fx) }),
{ unimplemented!() }

/// bytes handed to rewrite_atomic, as a sequence of fields (R13)
pub struct Content { pub ghost fields: Seq<Field> }
impl Content {
    #[verifier::external_body] pub fn new() -> (r: Content) ensures r.fields == Seq::<Field>::empty() { unimplemented!() }
    #[verifier::external_body] pub fn write_u64_le(&mut self, v: u64) -> (r: Result<(), IoError>) ensures r is Ok, final(self).fields == old(self).fields.push(Field::U64(v)) { Ok(()) }
    #[verifier::external_body] pub fn write_u128_le(&mut self, v: u128) -> (r: Result<(), IoError>) ensures r is Ok, final(self).fields == old(self).fields.push(Field::U128(v)) { Ok(()) }
    #[verifier::external_body] pub fn write_u8(&mut self, v: u8) -> (r: Result<(), IoError>) ensures r is Ok, final(self).fields == old(self).fields.push(Field::U8(v)) { Ok(()) }
}

//@ SUBST `std :: io :: Result < ( ) >` ==> `Result<(), IoError>`
//@ SUBST `std :: fs :: File :: open ( $1 )` ==> `File::open($1, Tracked(fx))`
//@ SUBST `. sync_all ( )` ==> `.sync_all(Tracked(fx))`
//@ SUBST `fsync_directory ( $1 )` ==> `fsync_directory($1, Tracked(fx))`

//@ FROM src/file.rs :: - :: fn fsync_directory :: OBL C05.2
//@ SUBST `fsync_directory($1, Tracked(fx))` ==> `fsync_directory($1)`
fn fsync_directory(path: &Path/*+*/, Tracked(fx): Tracked<&mut Fx>/*-*/) -> /*+*/(r: /*-*/Result<(), IoError>/*+*/)
    requires path.which() == Which::Folder,
    ensures r is Err ==> *final(fx) == *old(fx),
        r is Ok ==> *final(fx) == (Fx { folder_synced_after_vfile: old(fx).vfile_synced, folder_synced_after_rename: old(fx).current_replaced && old(fx).current_synced, ..*old(fx) }),/*-*/
{
    let file = File::open(path, Tracked(fx))?;
    debug_assert!(file.metadata()?.is_dir());
    file.sync_all(Tracked(fx))
}
//@ END

//@ FROM src/file.rs :: - :: fn retry_transient_io :: OBL C05.1
//@ SUBST `std :: io :: Result < T >` ==> `Result<T, IoError>`
fn retry_transient_io<T>(mut op: impl FnMut() -> Result<T, IoError>) -> /*+*/(r: /*-*/Result<T, IoError>/*+*/)
    requires call_requires(op, ()),
    ensures call_ensures(op, (), r)/*-*/
{
    op()
}
//@ END

//@ FROM src/file.rs :: - :: fn rewrite_atomic :: OBL C05.2, C16.4
//@ SUBST `content : & [ u8 ]` ==> `content: &Content`
//@ SUBST `tempfile :: NamedTempFile :: new_in ( folder )` ==> `NamedTempFile::new_in(folder, Tracked(fx))`
//@ SUBST `temp_file . write_all ( content )` ==> `temp_file.write_all(content, Tracked(fx))`
//@ SUBST `temp_file . flush ( )` ==> `temp_file.flush(Tracked(fx))`
//@ SUBST `persist_temp_file ( temp_file , path )` ==> `persist_temp_file(temp_file, path, Tracked(fx))`
fn rewrite_atomic(path: &Path, content: &Content/*+*/, Tracked(fx): Tracked<&mut Fx>/*-*/) -> /*+*/(r: /*-*/Result<(), IoError>/*+*/)
    requires
        path.which() == Which::Current,
        // C05.1: the version file that `current` is about to name must already be durable
        old(fx).vfile_synced && old(fx).folder_synced_after_vfile,
    ensures
        // nothing about the version file changes
        final(fx).vfile_written == old(fx).vfile_written, final(fx).vfile_synced == old(fx).vfile_synced, final(fx).folder_synced_after_vfile == old(fx).folder_synced_after_vfile, final(fx).vfile_exact == old(fx).vfile_exact,
        // C05.2: success => the target holds exactly the new content and both it and its directory entry are durable
        r is Ok ==> final(fx).current_replaced && final(fx).current_content == content.fields && final(fx).current_synced && final(fx).folder_synced_after_rename,
        // C16.4: failure => the target holds either its old content or exactly the new content, never a mixture
        r is Err ==> (final(fx).current_content == old(fx).current_content && final(fx).current_replaced == old(fx).current_replaced) || (final(fx).current_replaced && final(fx).current_content == content.fields),/*-*/
{
    let folder = path.parent().expect("should have a parent");

    let mut temp_file = NamedTempFile::new_in(folder, Tracked(fx))?;
    temp_file.write_all(content, Tracked(fx))?;
    temp_file.flush(Tracked(fx))?;
    temp_file.as_file_mut().sync_all(Tracked(fx))?;
    persist_temp_file(temp_file, path, Tracked(fx))?;

    {
        let file = File::open(path, Tracked(fx))?;
        file.sync_all(Tracked(fx))?;

        let folder = path.parent().expect("should have parent folder");
        fsync_directory(folder, Tracked(fx))?;
    }

    Ok(())
}
//@ END

// ---------------- persist_version ----------------
pub type VersionId = u64;
#[derive(Clone, Copy)]
pub struct Checksum(pub u128);
impl Checksum { pub fn into_u128(self) -> (r: u128) ensures r == self.0 { self.0 } }
pub struct BufWriter { pub p: u8 }
impl BufWriter { #[verifier::external_body] pub fn new(f: &File) -> (r: BufWriter) { unimplemented!() } }
/// checksum::ChecksummedWriter over the version file
pub struct ChecksummedWriter { pub p: u8 }
impl ChecksummedWriter {
    pub uninterp spec fn digest(&self) -> u128;
    #[verifier::external_body] pub fn new(w: BufWriter) -> (r: ChecksummedWriter) { unimplemented!() }
    /// flushes the buffered bytes into the version file
    #[verifier::external_body]
    pub fn flush(&mut self, Tracked(fx): Tracked<&mut Fx>) -> (r: Result<(), IoError>)
        ensures final(self).digest() == old(self).digest(),
            *final(fx) == (Fx { vfile_written: true, vfile_synced: false, folder_synced_after_vfile: false, ..*old(fx) }),
    { unimplemented!() }
    #[verifier::external_body] pub fn checksum(&self) -> (r: Checksum) ensures r.0 == self.digest() { unimplemented!() }
}
/// sfa::Writer over the checksummed writer (external crate)
pub struct SfaWriter { pub p: u8 }
#[verifier::external_body] pub struct SfaError { p: u8 }
#[verifier::external_body] pub fn sfa_io_error(e: SfaError) -> (r: Error) { unimplemented!() }
impl SfaWriter {
    #[verifier::external_body] pub fn from_writer(w: &mut ChecksummedWriter) -> (r: SfaWriter) { unimplemented!() }
    #[verifier::external_body]
    pub fn finish(self, Tracked(fx): Tracked<&mut Fx>) -> (r: Result<(), SfaError>)
        ensures *final(fx) == (Fx { vfile_written: true, vfile_synced: false, folder_synced_after_vfile: false, ..*old(fx) }),
    { unimplemented!() }
}
pub struct Version { pub id: u64 }
impl Version {
    pub fn id(&self) -> (r: u64) ensures r == self.id { self.id }
    /// Version::encode_into writes the manifest sections into the version file (its content is obligation C04.2)
    #[verifier::external_body]
    pub fn encode_into(&self, w: &mut SfaWriter, Tracked(fx): Tracked<&mut Fx>) -> (r: Result<(), Error>)
        ensures *final(fx) == (Fx { vfile_written: true, vfile_synced: false, folder_synced_after_vfile: false, ..*old(fx) }),
    { unimplemented!() }
}
pub open spec fn current_record(id: u64, checksum: u128) -> Seq<Field> { seq![Field::U64(id), Field::U128(checksum), Field::U8(0)] }

//@ FROM src/version/persist.rs :: - :: fn persist_version :: OBL C05.1, C16.4, C10.8, C04.17
//@ SUBST `crate :: Result < ( ) >` ==> `Result<(), Error>`
//@ SUBST `folder . join ( format ! ( "v{}" , version . id ( ) ) )` ==> `folder.join_version(version.id())`
//@ SUBST `retry_transient_io ( || $1 )` ==> `$1`
//@ SUBST `std :: fs :: File :: create ( $1 )` ==> `File::create($1, Tracked(fx))`
//@ SUBST `std :: fs :: OpenOptions :: new ( )` ==> `OpenOptions::new()`
//@ SUBST `. open ( & path )` ==> `.open(&path, Tracked(fx))`
//@ SUBST `sfa :: Writer :: from_writer` ==> `SfaWriter::from_writer`
//@ SUBST `version . encode_into ( & mut writer )` ==> `version.encode_into(&mut writer, Tracked(fx))`
//@ SUBST `writer . finish ( ) . map_err ( | e | match e { sfa :: Error :: Io ( e ) => crate :: Error :: from ( e ) , _ => unreachable ! ( ) , } )` ==> `writer.finish(Tracked(fx)).map_err(sfa_io_error)`
//@ SUBST `writer . flush ( )` ==> `writer.flush(Tracked(fx))`
//@ SUBST `drop ( writer ) ;` ==> ``
//@ SUBST `let mut current_file_content = vec ! [ ] ;` ==> `let mut current_file_content = Content::new();`
//@ SUBST `write_u64 :: < LittleEndian >` ==> `write_u64_le`
//@ SUBST `write_u128 :: < LittleEndian >` ==> `write_u128_le`
//@ SUBST `rewrite_atomic ( & folder . join ( CURRENT_VERSION_FILE ) , & current_file_content )` ==> `rewrite_atomic(folder.join_current().as_path(), &current_file_content, Tracked(fx))`
fn persist_version(folder: &Path, version: &Version/*+*/, Tracked(fx): Tracked<&mut Fx>/*-*/) -> /*+*/(r: /*-*/Result<(), Error>/*+*/)
    requires folder.which() == Which::Folder,
    ensures
        // C05.1: success => `current` names this version with the checksum of what was written, and everything is durable
        r is Ok ==> final(fx).current_replaced && final(fx).current_synced && final(fx).folder_synced_after_rename
            && final(fx).vfile_synced && final(fx).folder_synced_after_vfile
            // ... and the version file holds exactly the bytes the checksum was computed over (no tail of an older file survives)
            && final(fx).vfile_exact
            && exists|c: u128| final(fx).current_content == current_record(version.id, c),
        // C05.1 / C16.4: whenever `current` was switched (even if a later step failed) the version file it names was already durable;
        // otherwise `current` is exactly what it was
        (final(fx).current_content == old(fx).current_content && final(fx).current_replaced == old(fx).current_replaced)
            || (final(fx).vfile_synced && final(fx).folder_synced_after_vfile && exists|c: u128| final(fx).current_content == current_record(version.id, c)),/*-*/
{
    let path = folder.join_version(version.id());
    let file = File::create(&path, Tracked(fx))?;
    let writer = BufWriter::new(&file);
    let mut writer = ChecksummedWriter::new(writer);

    {
        let mut writer = SfaWriter::from_writer(&mut writer);

        version.encode_into(&mut writer, Tracked(fx))?;

        writer.finish(Tracked(fx)).map_err(sfa_io_error)?;
    }

    writer.flush(Tracked(fx))?;

    let checksum = writer.checksum();

    file.sync_all(Tracked(fx))?;

    fsync_directory(folder, Tracked(fx))?;

    let mut current_file_content = Content::new();
    current_file_content.write_u64_le(version.id())?;
    current_file_content.write_u128_le(checksum.into_u128())?;
    current_file_content.write_u8(0)?;
    /*+*/proof { assert(current_file_content.fields =~= current_record(version.id, checksum.0)); }/*-*/

    rewrite_atomic(folder.join_current().as_path(), &current_file_content, Tracked(fx))?;

    Ok(())
}
//@ END

} // verus!
fn main() {}
