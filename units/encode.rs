//@ UNIT encode
// Version::encode_into: manifest count fields are lossless, structure of the tables section.
// Obligations: C04.2, C07.5
use vstd::prelude::*;
use vstd::std_specs::iter::*;
verus! {

global size_of usize == 8;

#[verifier::external_body] pub struct Error { p: u8 }

//@ INCLUDE prelude/seqiter.rs

// ---------------- prelude: version structure (light, R8) ----------------
#[derive(Clone, Copy)]
pub struct Checksum(pub u128);
impl Checksum { pub fn into_u128(self) -> (r: u128) ensures r == self.0 { self.0 } }
pub struct Table { pub id: u64, pub checksum: u128, pub global_seqno: u64 }
impl Table {
    pub fn id(&self) -> (r: u64) ensures r == self.id { self.id }
    pub fn checksum(&self) -> (r: Checksum) ensures r.0 == self.checksum { Checksum(self.checksum) }
    pub fn global_seqno(&self) -> (r: u64) ensures r == self.global_seqno { self.global_seqno }
}
pub struct Run { pub tables: Vec<Table> }
impl Run {
    pub fn len(&self) -> (r: usize) ensures r == self.tables@.len() { self.tables.len() }
    #[verifier::external_body]
    pub fn iter(&self) -> (r: SeqIter<&Table>)
        ensures r.rest().len() == self.tables@.len(), forall|i: int| 0 <= i < self.tables@.len() ==> *(#[trigger] r.rest()[i]) == self.tables@[i]
    { unimplemented!() }
}
pub struct Level { pub runs: Vec<Run> }
impl Level {
    pub fn len(&self) -> (r: usize) ensures r == self.runs@.len() { self.runs.len() }
    #[verifier::external_body]
    pub fn iter(&self) -> (r: SeqIter<&Run>)
        ensures r.rest().len() == self.runs@.len(), forall|i: int| 0 <= i < self.runs@.len() ==> *(#[trigger] r.rest()[i]) == self.runs@[i]
    { unimplemented!() }
}
pub struct BlobFileInner { pub checksum: Checksum }
pub struct BlobFile(pub BlobFileInner, pub u64);
impl BlobFile { pub fn id(&self) -> (r: u64) ensures r == self.1 { self.1 } }
pub struct BlobFileList { pub files: Vec<BlobFile> }
impl BlobFileList {
    pub fn len(&self) -> (r: usize) ensures r == self.files@.len() { self.files.len() }
    #[verifier::external_body]
    pub fn iter(&self) -> (r: SeqIter<&BlobFile>)
        ensures r.rest().len() == self.files@.len(), forall|i: int| 0 <= i < self.files@.len() ==> *(#[trigger] r.rest()[i]) == self.files@[i]
    { unimplemented!() }
}
#[derive(Clone, Copy)]
pub enum TreeType { Standard, Blob }
impl TreeType { #[verifier::external_body] pub fn into(self) -> u8 { 0 } }
pub enum FormatVersion { V3 }
impl FormatVersion { #[verifier::external_body] pub fn into(self) -> u8 { 3 } }
pub enum ChecksumType { Xxh3 }
#[verifier::external_body] pub fn checksum_type_u8(c: ChecksumType) -> u8 { 0 }
#[verifier::external_body] pub fn crate_version_bytes() -> (r: Vec<u8>) { Vec::new() }
pub struct FragmentationMap { pub p: u8 }
impl FragmentationMap {
    /// its own round trip is obligation C04.3
    #[verifier::external_body] pub fn encode_into(&self, writer: &mut SfaWriter) -> (r: Result<(), Error>) ensures final(writer).log.len() >= old(writer).log.len(), final(writer).log.take(old(writer).log.len() as int) == old(writer).log { Ok(()) }
}
pub struct Version { pub levels: Vec<Level>, pub blob_files: BlobFileList, pub tree_type: TreeType, pub gc_stats: FragmentationMap }
impl Version {
    pub fn level_count(&self) -> (r: usize) ensures r == self.levels@.len() { self.levels.len() }
    #[verifier::external_body]
    pub fn iter_levels(&self) -> (r: SeqIter<&Level>)
        ensures r.rest().len() == self.levels@.len(), forall|i: int| 0 <= i < self.levels@.len() ==> *(#[trigger] r.rest()[i]) == self.levels@[i]
    { unimplemented!() }
}

// ---------------- prelude: the section writer = a ghost log of the fields written (R13) ----------------
pub enum Field { U8(u8), U32(u32), U64(u64), U128(u128), Bytes, Section }
pub struct SfaWriter { pub ghost log: Seq<Field> }
impl SfaWriter {
    #[verifier::external_body] pub fn start(&mut self, name: &str) -> (r: Result<(), Error>) ensures r is Ok ==> final(self).log == old(self).log.push(Field::Section) { Ok(()) }
    #[verifier::external_body] pub fn write_all(&mut self, b: &[u8]) -> (r: Result<(), Error>) ensures r is Ok ==> final(self).log == old(self).log.push(Field::Bytes) { Ok(()) }
    #[verifier::external_body] pub fn write_u8(&mut self, v: u8) -> (r: Result<(), Error>) ensures r is Ok ==> final(self).log == old(self).log.push(Field::U8(v)) { Ok(()) }
    #[verifier::external_body] pub fn write_u32_le(&mut self, v: u32) -> (r: Result<(), Error>) ensures r is Ok ==> final(self).log == old(self).log.push(Field::U32(v)) { Ok(()) }
    #[verifier::external_body] pub fn write_u64_le(&mut self, v: u64) -> (r: Result<(), Error>) ensures r is Ok ==> final(self).log == old(self).log.push(Field::U64(v)) { Ok(()) }
    #[verifier::external_body] pub fn write_u128_le(&mut self, v: u128) -> (r: Result<(), Error>) ensures r is Ok ==> final(self).log == old(self).log.push(Field::U128(v)) { Ok(()) }
}
#[verifier::external_body] pub fn too_many_runs() -> Error { Error { p: 0 } }

/// index of the `tables` section start in the log written by encode_into: 5 manifest sections of 2 entries each
pub open spec fn tables_at(start: int) -> int { start + 10 }

impl Version {
//@ FROM src/version/mod.rs :: impl Version :: fn encode_into :: OBL C04.2, C07.5
//@ SUBST `writer : & mut sfa :: Writer < impl std :: io :: Write + std :: io :: Seek >` ==> `writer: &mut SfaWriter`
//@ SUBST `Result < ( ) , crate :: Error >` ==> `Result<(), Error>`
//@ SUBST `use crate :: FormatVersion ;` ==> ``
//@ SUBST `use byteorder :: { LittleEndian , WriteBytesExt } ;` ==> ``
//@ SUBST `use std :: io :: Write ;` ==> ``
//@ SUBST `env ! ( "CARGO_PKG_VERSION" ) . as_bytes ( )` ==> `crate_version_bytes().as_slice()`
//@ SUBST `u8 :: from ( ChecksumType :: Xxh3 )` ==> `checksum_type_u8(ChecksumType::Xxh3)`
//@ SUBST `write_u32 :: < LittleEndian >` ==> `write_u32_le`
//@ SUBST `write_u64 :: < LittleEndian >` ==> `write_u64_le`
//@ SUBST `write_u128 :: < LittleEndian >` ==> `write_u128_le`
//@ SUBST `| _ |` ==> `|_e: core::num::TryFromIntError|`
//@ SUBST `crate :: Error :: Io ( std :: io :: Error :: other ( "too many runs in level to persist version (max 255)" , ) )` ==> `too_many_runs()`
    fn encode_into(
        &self,
        writer: &mut SfaWriter,
    ) -> /*+*/(r: /*-*/Result<(), Error>/*+*/)
        requires self.levels@.len() < 256,
        ensures
            // structure: after the five manifest sections comes the `tables` section: level count, then the first level's run count - as written
            r is Ok && self.levels@.len() > 0 ==> ({
                let t = tables_at(old(writer).log.len() as int);
                final(writer).log.len() >= t + 3
                && final(writer).log[t + 1] == Field::U8(self.levels@.len() as u8)
                && final(writer).log[t + 2] == Field::U8(self.levels@[0].runs@.len() as u8)
            }),
            // C04.2 / C07.5 (losslessness): a successfully written manifest never carries a truncated count
            r is Ok ==> forall|l: int| 0 <= l < self.levels@.len() ==> (#[trigger] self.levels@[l]).runs@.len() < 256,/*-*/
    {
        /*+*/let ghost start = writer.log.len() as int;/*-*/
        writer.start("format_version")?;
        writer.write_u8(FormatVersion::V3.into())?;

        writer.start("crate_version")?;
        writer.write_all(crate_version_bytes().as_slice())?;

        writer.start("tree_type")?;
        writer.write_u8(self.tree_type.into())?;

        writer.start("level_count")?;
        writer.write_u8(self.level_count() as u8)?;

        writer.start("filter_hash_type")?;
        writer.write_u8(checksum_type_u8(ChecksumType::Xxh3))?;

        writer.start("tables")?;

        writer.write_u8(self.level_count() as u8)?;
        /*+*/let ghost t = tables_at(start);
        proof { assert(writer.log.len() == t + 2); assert(writer.log[t + 1] == Field::U8(self.levels@.len() as u8)); }/*-*/

        for level in /*+*/it: /*-*/self.iter_levels()
            /*+*/invariant
                it.seq().len() == self.levels@.len(), forall|i: int| 0 <= i < self.levels@.len() ==> *(#[trigger] it.seq()[i]) == self.levels@[i],
                t == tables_at(old(writer).log.len() as int),
                writer.log.len() >= t + 2, writer.log[t + 1] == Field::U8(self.levels@.len() as u8),
                it.index@ > 0 ==> writer.log.len() >= t + 3 && writer.log[t + 2] == Field::U8(self.levels@[0].runs@.len() as u8),
                it.index@ == 0 ==> writer.log.len() == t + 2,
                forall|l: int| 0 <= l < it.index@ ==> (#[trigger] self.levels@[l]).runs@.len() < 256,/*-*/
        {
            let run_count = u8::try_from(level.len()).map_err(|_e: core::num::TryFromIntError| {
                too_many_runs()
            })?;
            writer.write_u8(run_count)?;
            /*+*/let ghost n1 = writer.log.len() as int;
            let ghost f0 = writer.log[t + 1];
            let ghost f1 = writer.log[t + 2];/*-*/

            for run in level.iter()
                /*+*/invariant writer.log.len() >= n1, n1 >= t + 3, writer.log[t + 1] == f0, writer.log[t + 2] == f1,/*-*/
            {
                writer.write_u32_le(run.len() as u32)?;

                for table in run.iter()
                    /*+*/invariant writer.log.len() >= n1, n1 >= t + 3, writer.log[t + 1] == f0, writer.log[t + 2] == f1,/*-*/
                {
                    writer.write_u64_le(table.id())?;
                    writer.write_u8(0)?;
                    writer.write_u128_le(table.checksum().into_u128())?;
                    writer.write_u64_le(table.global_seqno())?;
                }
            }
        }

        /*+*/let ghost n2 = writer.log.len() as int;
        let ghost g0 = writer.log[t + 1];
        let ghost g1 = if n2 > t + 2 { writer.log[t + 2] } else { Field::Section };/*-*/
        writer.start("blob_files")?;

        writer.write_u32_le(self.blob_files.len() as u32)?;

        for file in self.blob_files.iter()
            /*+*/invariant writer.log.len() > n2, n2 >= t + 2, writer.log[t + 1] == g0, n2 > t + 2 ==> writer.log[t + 2] == g1,/*-*/
        {
            writer.write_u64_le(file.id())?;
            writer.write_u8(0)?;
            writer.write_u128_le(file.0.checksum.into_u128())?;
        }

        writer.start("blob_gc_stats")?;

        /*+*/let ghost pre = writer.log;/*-*/
        self.gc_stats.encode_into(writer)?;
        /*+*/proof {
            assert(writer.log.take(pre.len() as int) == pre);
            assert(writer.log[t + 1] == writer.log.take(pre.len() as int)[t + 1]);
            if n2 > t + 2 { assert(writer.log[t + 2] == writer.log.take(pre.len() as int)[t + 2]); }
        }/*-*/

        Ok(())
    }
//@ END
}

} // verus!
fn main() {}
