//@ UNIT entry_codec
// Data block entries (src/table/data_block/mod.rs): `encode_full_into` / `encode_truncated_into` and `parse_full` /
// `parse_truncated` are inverse: what the encoder writes for an entry (full at a restart point, prefix-truncated otherwise;
// values, tombstones, weak tombstones, blob pointers; any key / value length the formats admit) the decoder parses back to the
// same type, seqno, key bytes and value bytes, leaving the cursor at the next entry.  Obligation C12.14
use vstd::prelude::*;

//@ FROM src/lib.rs :: - :: macro_rules unwrap
macro_rules! unwrap {
    ($x:expr) => {{
        $x.expect("should read")
    }};
}
//@ END

verus! {

global size_of usize == 8;
type SeqNo = u64;

// ---------------- prelude (TRUSTED): byte strings, writer, in-memory cursor, varints ----------------
#[derive(Debug)]
enum Error { Io }
/// Slice (UserKey / UserValue) as a byte string
struct Bytes { v: Vec<u8> }
impl Bytes {
    spec fn view(&self) -> Seq<u8> { self.v@ }
    fn len(&self) -> (r: usize) ensures r == self.view().len() { self.v.len() }
    /// `&*slice` / `&slice` as `&[u8]`
    fn as_bytes(&self) -> (r: &[u8]) ensures r@ == self.view() { self.v.as_slice() }
    /// `slice.get(n..)`
    #[verifier::external_body] fn get_from(&self, n: usize) -> (r: Option<&[u8]>) ensures n <= self.view().len() ==> r is Some && r->Some_0@ == self.view().skip(n as int), n > self.view().len() ==> r is None { unimplemented!() }
}
/// LEB128 varints (varint_rs): prefix-free codes
uninterp spec fn var64(x: u64) -> Seq<u8>;
uninterp spec fn var32(x: u32) -> Seq<u8>;
uninterp spec fn var16(x: u16) -> Seq<u8>;
/// `W: std::io::Write` with byteorder / varint_rs extension methods: `written()` = bytes accepted so far
struct Sink { ghost written: Seq<u8> }
impl Sink {
    #[verifier::external_body] fn write_u8(&mut self, x: u8) -> (r: Result<(), Error>) ensures r is Ok ==> final(self).written == old(self).written + seq![x] { unimplemented!() }
    #[verifier::external_body] fn write_u64_varint(&mut self, x: u64) -> (r: Result<(), Error>) ensures r is Ok ==> final(self).written == old(self).written + var64(x) { unimplemented!() }
    #[verifier::external_body] fn write_u32_varint(&mut self, x: u32) -> (r: Result<(), Error>) ensures r is Ok ==> final(self).written == old(self).written + var32(x) { unimplemented!() }
    #[verifier::external_body] fn write_u16_varint(&mut self, x: u16) -> (r: Result<(), Error>) ensures r is Ok ==> final(self).written == old(self).written + var16(x) { unimplemented!() }
    #[verifier::external_body] fn write_all(&mut self, b: &[u8]) -> (r: Result<(), Error>) ensures r is Ok ==> final(self).written == old(self).written + b@ { unimplemented!() }
}

//@ FROM src/value_type.rs :: - :: enum ValueType
/*+*/#[derive(Copy, Clone, PartialEq, Eq, Structural)]/*-*/
enum ValueType {
    Value,

    Tombstone,

    WeakTombstone,

    Indirection = 4,
}
//@ END
spec fn tag(t: ValueType) -> u8 { match t { ValueType::Value => 0, ValueType::Tombstone => 1, ValueType::WeakTombstone => 2, ValueType::Indirection => 4 } }
spec fn is_tomb(t: ValueType) -> bool { t == ValueType::Tombstone || t == ValueType::WeakTombstone }
impl ValueType {
//@ FROM src/value_type.rs :: impl ValueType :: fn is_tombstone :: OBL C12.14
    fn is_tombstone(self) -> /*+*/(r:/*-*/ bool/*+*/) ensures r == is_tomb(self)/*-*/ {
        self == Self::Tombstone || self == Self::WeakTombstone
    }
//@ END
//@ FROM src/value_type.rs :: impl TryFrom < u8 > for ValueType :: fn try_from :: OBL C12.14
//@ SUBST `Self :: Error` ==> `()`
    fn try_from(value: u8) -> /*+*/(r:/*-*/ Result<Self, ()>/*+*/)
        ensures r is Ok ==> tag(r->Ok_0) == value, (value == 0 || value == 1 || value == 2 || value == 4) ==> r is Ok/*-*/
    {
        match value {
            0 => Ok(Self::Value),
            1 => Ok(Self::Tombstone),
            2 => Ok(Self::WeakTombstone),
            4 => Ok(Self::Indirection),
            _ => Err(()),
        }
    }
//@ END
}
/// holder for `impl From<ValueType> for u8` (R6: the trait impl method as an associated function)
struct U8From { p: u8 }
impl U8From {
//@ FROM src/value_type.rs :: impl From < ValueType > for u8 :: fn from :: OBL C12.14
//@ SUBST `-> Self` ==> `-> u8`
    fn from(value: ValueType) -> /*+*/(r:/*-*/ u8/*+*/) ensures r == tag(value)/*-*/ {
        match value {
            ValueType::Value => 0,
            ValueType::Tombstone => 1,
            ValueType::WeakTombstone => 2,
            ValueType::Indirection => 4,
        }
    }
//@ END
}
struct InternalKey { user_key: Bytes, seqno: SeqNo, value_type: ValueType }
struct InternalValue { key: InternalKey, value: Bytes }
impl InternalValue {
    fn is_tombstone(&self) -> (r: bool) ensures r == is_tomb(self.key.value_type) { self.key.value_type.is_tombstone() }
    fn key(&self) -> (r: &Bytes) ensures r == &self.key.user_key { &self.key.user_key }
}

/// the value part of an encoded entry: nothing for tombstones, else varint length + bytes
spec fn value_part(e: InternalValue) -> Seq<u8> { if is_tomb(e.key.value_type) { Seq::empty() } else { var32(e.value.view().len() as u32) + e.value.view() } }
/// [type] [seqno] [key len] [key] [value len] [value]
spec fn full_bytes(e: InternalValue) -> Seq<u8> {
    seq![tag(e.key.value_type)] + var64(e.key.seqno) + var16(e.key.user_key.view().len() as u16) + e.key.user_key.view() + value_part(e)
}
/// [type] [seqno] [shared prefix len] [rest key len] [rest key] [value len] [value]
spec fn trunc_bytes(e: InternalValue, shared: int) -> Seq<u8> {
    seq![tag(e.key.value_type)] + var64(e.key.seqno) + var16(shared as u16) + var16((e.key.user_key.view().len() - shared) as u16) + e.key.user_key.view().skip(shared) + value_part(e)
}
spec fn fits(e: InternalValue) -> bool { e.key.user_key.view().len() <= u16::MAX && e.value.view().len() <= u32::MAX }

//@ SUBST `crate :: Result < ( ) >` ==> `Result<(), Error>`
//@ SUBST `< W : std :: io :: Write >` ==> ``
//@ SUBST `writer : & mut W` ==> `writer: &mut Sink`
//@ SUBST `u8 :: from (` ==> `U8From::from(`
impl InternalValue {
//@ FROM src/table/data_block/mod.rs :: impl Encodable < ( ) > for InternalValue :: fn encode_full_into :: OBL C12.14
//@ SUBST `& self . key . user_key` ==> `self.key.user_key.as_bytes()`
//@ SUBST `& self . value` ==> `self.value.as_bytes()`
    fn encode_full_into(
        &self,
        writer: &mut Sink,
        _state: &mut (),
    ) -> /*+*/(r:/*-*/ Result<(), Error>/*+*/)
        requires fits(*self)
        ensures r is Ok ==> final(writer).written == old(writer).written + full_bytes(*self)/*-*/
    {
        /*+*/let ghost w0 = writer.written;/*-*/
        writer.write_u8(U8From::from(self.key.value_type))?; // 1
        writer.write_u64_varint(self.key.seqno)?; // 2

        writer.write_u16_varint(self.key.user_key.len() as u16)?; // 3
        writer.write_all(self.key.user_key.as_bytes())?; // 4

        // NOTE: Only write value len + value if we are actually a value
        if !self.is_tombstone() {
            writer.write_u32_varint(self.value.len() as u32)?; // 5
            writer.write_all(self.value.as_bytes())?; // 6
        }
        /*+*/proof { assert(writer.written =~= w0 + full_bytes(*self)); }/*-*/

        Ok(())
    }
//@ END

//@ FROM src/table/data_block/mod.rs :: impl Encodable < ( ) > for InternalValue :: fn encode_truncated_into :: OBL C12.14
//@ SUBST `self . key . user_key . get ( shared_len .. )` ==> `self.key.user_key.get_from(shared_len)`
//@ SUBST `& self . value` ==> `self.value.as_bytes()`
    fn encode_truncated_into(
        &self,
        writer: &mut Sink,
        _state: &mut (),
        shared_len: usize,
    ) -> /*+*/(r:/*-*/ Result<(), Error>/*+*/)
        requires fits(*self), shared_len <= self.key.user_key.view().len()
        ensures r is Ok ==> final(writer).written == old(writer).written + trunc_bytes(*self, shared_len as int)/*-*/
    {
        /*+*/let ghost w0 = writer.written;/*-*/
        writer.write_u8(U8From::from(self.key.value_type))?; // 1
        writer.write_u64_varint(self.key.seqno)?; // 2

        writer.write_u16_varint(shared_len as u16)?; // 3

        let rest_len = self.key().len() - shared_len;

        writer.write_u16_varint(rest_len as u16)?; // 4

        let truncated_user_key = self.key.user_key.get_from(shared_len)
            .expect("should be in bounds");

        writer.write_all(truncated_user_key)?; // 5

        // NOTE: Only write value len + value if we are actually a value
        if !self.is_tombstone() {
            writer.write_u32_varint(self.value.len() as u32)?; // 6
            writer.write_all(self.value.as_bytes())?; // 7
        }
        /*+*/proof { assert(writer.written =~= w0 + trunc_bytes(*self, shared_len as int)); }/*-*/

        Ok(())
    }
//@ END
}

// ---------------- decoder side ----------------
const TRAILER_START_MARKER: u8 = 255;
/// std::io::Cursor<&[u8]> with byteorder / varint_rs readers (TRUSTED): an in-memory reader, so a read succeeds exactly when the
/// bytes are there; `seek_relative` moves the position (like std, it may move past the end)
struct Cursor { ghost data: Seq<u8>, ghost pos: int }
impl Cursor {
    spec fn rest(&self) -> Seq<u8> { self.data.skip(self.pos) }
    #[verifier::external_body]
    fn read_u8(&mut self) -> (r: Result<u8, Error>)
        ensures final(self).data == old(self).data, 0 <= old(self).pos < old(self).data.len() ==> r is Ok && r->Ok_0 == old(self).data[old(self).pos] && final(self).pos == old(self).pos + 1
    { unimplemented!() }
    #[verifier::external_body]
    fn read_u64_varint(&mut self) -> (r: Result<u64, Error>)
        ensures final(self).data == old(self).data, forall|x: u64, tail: Seq<u8>| old(self).rest() == var64(x) + tail ==> r is Ok && r->Ok_0 == x && final(self).pos == old(self).pos + var64(x).len()
    { unimplemented!() }
    #[verifier::external_body]
    fn read_u32_varint(&mut self) -> (r: Result<u32, Error>)
        ensures final(self).data == old(self).data, forall|x: u32, tail: Seq<u8>| old(self).rest() == var32(x) + tail ==> r is Ok && r->Ok_0 == x && final(self).pos == old(self).pos + var32(x).len()
    { unimplemented!() }
    #[verifier::external_body]
    fn read_u16_varint(&mut self) -> (r: Result<u16, Error>)
        ensures final(self).data == old(self).data, forall|x: u16, tail: Seq<u8>| old(self).rest() == var16(x) + tail ==> r is Ok && r->Ok_0 == x && final(self).pos == old(self).pos + var16(x).len()
    { unimplemented!() }
    #[verifier::external_body]
    fn position(&self) -> (r: u64) ensures r == self.pos { unimplemented!() }
    #[verifier::external_body]
    fn seek_relative(&mut self, n: i64) -> (r: Result<(), Error>)
        ensures final(self).data == old(self).data, old(self).pos + n >= 0 ==> r is Ok && final(self).pos == old(self).pos + n
    { unimplemented!() }
}

//@ FROM src/table/util.rs :: - :: struct SliceIndexes
/*+*/#[derive(PartialEq, Eq, Structural)]/*-*/
struct SliceIndexes(usize, usize);
//@ END
//@ FROM src/table/data_block/mod.rs :: - :: struct DataBlockParsedItem
struct DataBlockParsedItem {
    value_type: ValueType,
    seqno: SeqNo,
    prefix: Option<SliceIndexes>,
    key: SliceIndexes,
    value: Option<SliceIndexes>,
}
//@ END

/// the parsed item addresses exactly the entry's (rest of the) key bytes and value bytes inside `data` (indexes are relative to
/// `offset`), with its type and seqno
spec fn item_matches(it: DataBlockParsedItem, e: InternalValue, data: Seq<u8>, offset: int, shared: int) -> bool {
    it.value_type == e.key.value_type && it.seqno == e.key.seqno
    && offset <= it.key.0 <= it.key.1 && it.key.1 - offset <= data.len() && data.subrange(it.key.0 - offset, it.key.1 - offset) == e.key.user_key.view().skip(shared)
    && (is_tomb(e.key.value_type) ==> it.value is None)
    && (!is_tomb(e.key.value_type) ==> it.value is Some && offset <= it.value->Some_0.0 <= it.value->Some_0.1 && it.value->Some_0.1 - offset <= data.len()
            && data.subrange(it.value->Some_0.0 - offset, it.value->Some_0.1 - offset) == e.value.view())
}
proof fn lemma_advance(d: Seq<u8>, p: int, a: Seq<u8>, b: Seq<u8>)
    requires 0 <= p <= d.len(), d.skip(p) == a + b
    ensures p + a.len() <= d.len(), d.skip(p + a.len()) == b, d.subrange(p, p + a.len()) == a
{
    assert(d.skip(p).len() == d.len() - p);
    assert((a + b).len() == a.len() + b.len());
    assert(d.skip(p + a.len()) =~= (a + b).skip(a.len() as int));
    assert((a + b).skip(a.len() as int) =~= b);
    assert(d.subrange(p, p + a.len()) =~= (a + b).subrange(0, a.len() as int));
    assert((a + b).subrange(0, a.len() as int) =~= a);
}


impl InternalValue {
//@ FROM src/table/data_block/mod.rs :: impl Decodable < DataBlockParsedItem > for InternalValue :: fn parse_full :: OBL C12.14
//@ SUBST `& mut Cursor < & [ u8 ] >` ==> `&mut Cursor`
    fn parse_full(reader: &mut Cursor, offset: usize/*+*/, Ghost(e): Ghost<InternalValue>, Ghost(tail): Ghost<Seq<u8>>/*-*/) -> /*+*/(r:/*-*/ Option<DataBlockParsedItem>/*+*/)
        requires fits(e), 0 <= old(reader).pos <= old(reader).data.len(), old(reader).rest() == full_bytes(e) + tail, offset + old(reader).data.len() <= usize::MAX / 2
        ensures final(reader).data == old(reader).data, final(reader).pos == old(reader).pos + full_bytes(e).len(),
            r is Some && r->Some_0.prefix is None && item_matches(r->Some_0, e, old(reader).data, offset as int, 0)/*-*/
    {
        /*+*/let ghost d = reader.data; let ghost p0 = reader.pos;
        let ghost k = e.key.user_key.view(); let ghost v = e.value.view(); let ghost vp = value_part(e);
        let ghost t = seq![tag(e.key.value_type)]; let ghost s64 = var64(e.key.seqno); let ghost kl = var16(k.len() as u16);
        proof {
            assert(full_bytes(e) + tail =~= t + (s64 + (kl + (k + (vp + tail)))));
            lemma_advance(d, p0, t, s64 + (kl + (k + (vp + tail))));
            assert(d[p0] == d.subrange(p0, p0 + 1)[0]);
        }/*-*/
        let value_type = unwrap!(reader.read_u8());
        if value_type == TRAILER_START_MARKER {
            return None;
        }

        let value_type = ValueType::try_from(value_type).expect("should be valid value type");

        let seqno = unwrap!(reader.read_u64_varint());
        /*+*/proof { lemma_advance(d, p0 + 1, s64, kl + (k + (vp + tail))); }/*-*/

        let key_len: usize = unwrap!(reader.read_u16_varint()).into();
        /*+*/proof { lemma_advance(d, p0 + 1 + s64.len(), kl, k + (vp + tail)); }/*-*/
        let key_start = offset + reader.position() as usize;
        let key_len_i64 = key_len as i64;
        /*+*/let ghost pk = reader.pos;/*-*/
        unwrap!(reader.seek_relative(key_len_i64));
        /*+*/proof { lemma_advance(d, pk, k, vp + tail); }/*-*/

        let is_value = !value_type.is_tombstone();

        let val_len: usize = if is_value {
            /*+*/proof { assert(vp + tail =~= var32(v.len() as u32) + (v + tail)); }/*-*/
            unwrap!(reader.read_u32_varint()) as usize
        } else {
            0
        };
        /*+*/proof { if is_value { lemma_advance(d, pk + k.len(), var32(v.len() as u32), v + tail); } }/*-*/
        let val_offset = offset + reader.position() as usize;
        let val_len_i64 = val_len as i64;
        /*+*/let ghost pv = reader.pos;/*-*/
        unwrap!(reader.seek_relative(val_len_i64));
        /*+*/proof {
            if is_value { lemma_advance(d, pv, v, tail); }
            assert(full_bytes(e).len() == 1 + s64.len() + kl.len() + k.len() + vp.len());
            assert(k.skip(0) =~= k);
        }/*-*/

        Some(if is_value {
            DataBlockParsedItem {
                value_type,
                seqno,
                prefix: None,
                key: SliceIndexes(key_start, key_start + key_len),
                value: Some(SliceIndexes(val_offset, val_offset + val_len)),
            }
        } else {
            DataBlockParsedItem {
                value_type,
                seqno,
                prefix: None,
                key: SliceIndexes(key_start, key_start + key_len),
                value: None, // TODO: enum value/tombstone, so value is not Option for values
            }
        })
    }
//@ END

//@ FROM src/table/data_block/mod.rs :: impl Decodable < DataBlockParsedItem > for InternalValue :: fn parse_truncated :: OBL C12.14
//@ SUBST `& mut Cursor < & [ u8 ] >` ==> `&mut Cursor`
    fn parse_truncated(
        reader: &mut Cursor,
        offset: usize,
        base_key_offset: usize/*+*/,
        Ghost(e): Ghost<InternalValue>, Ghost(shared): Ghost<int>, Ghost(tail): Ghost<Seq<u8>>/*-*/,
    ) -> /*+*/(r:/*-*/ Option<DataBlockParsedItem>/*+*/)
        requires fits(e), 0 <= shared <= e.key.user_key.view().len(), 0 <= old(reader).pos <= old(reader).data.len(), old(reader).rest() == trunc_bytes(e, shared) + tail,
            offset + old(reader).data.len() <= usize::MAX / 2, base_key_offset <= usize::MAX / 2
        ensures final(reader).data == old(reader).data, final(reader).pos == old(reader).pos + trunc_bytes(e, shared).len(),
            r is Some && r->Some_0.prefix == Some(SliceIndexes(base_key_offset, (base_key_offset + shared) as usize)) && item_matches(r->Some_0, e, old(reader).data, offset as int, shared)/*-*/
    {
        /*+*/let ghost d = reader.data; let ghost p0 = reader.pos;
        let ghost k = e.key.user_key.view().skip(shared); let ghost v = e.value.view(); let ghost vp = value_part(e);
        let ghost t = seq![tag(e.key.value_type)]; let ghost s64 = var64(e.key.seqno); let ghost sl = var16(shared as u16); let ghost kl = var16(k.len() as u16);
        proof {
            assert(trunc_bytes(e, shared) + tail =~= t + (s64 + (sl + (kl + (k + (vp + tail))))));
            lemma_advance(d, p0, t, s64 + (sl + (kl + (k + (vp + tail)))));
            assert(d[p0] == d.subrange(p0, p0 + 1)[0]);
        }/*-*/
        let value_type = unwrap!(reader.read_u8());
        if value_type == TRAILER_START_MARKER {
            return None;
        }
        let value_type = unwrap!(ValueType::try_from(value_type));

        let seqno = unwrap!(reader.read_u64_varint());
        /*+*/proof { lemma_advance(d, p0 + 1, s64, sl + (kl + (k + (vp + tail)))); }/*-*/

        let shared_prefix_len: usize = unwrap!(reader.read_u16_varint()).into();
        /*+*/proof { lemma_advance(d, p0 + 1 + s64.len(), sl, kl + (k + (vp + tail))); }/*-*/
        let rest_key_len: usize = unwrap!(reader.read_u16_varint()).into();
        /*+*/proof { lemma_advance(d, p0 + 1 + s64.len() + sl.len(), kl, k + (vp + tail)); }/*-*/

        let key_offset = offset + reader.position() as usize;

        let rest_key_len_i64 = rest_key_len as i64;
        /*+*/let ghost pk = reader.pos;/*-*/
        unwrap!(reader.seek_relative(rest_key_len_i64));
        /*+*/proof { lemma_advance(d, pk, k, vp + tail); }/*-*/

        let is_value = !value_type.is_tombstone();

        let val_len: usize = if is_value {
            /*+*/proof { assert(vp + tail =~= var32(v.len() as u32) + (v + tail)); }/*-*/
            unwrap!(reader.read_u32_varint()) as usize
        } else {
            0
        };
        /*+*/proof { if is_value { lemma_advance(d, pk + k.len(), var32(v.len() as u32), v + tail); } }/*-*/
        let val_offset = offset + reader.position() as usize;
        let val_len_i64 = val_len as i64;
        /*+*/let ghost pv = reader.pos;/*-*/
        unwrap!(reader.seek_relative(val_len_i64));
        /*+*/proof {
            if is_value { lemma_advance(d, pv, v, tail); }
            assert(trunc_bytes(e, shared).len() == 1 + s64.len() + sl.len() + kl.len() + k.len() + vp.len());
        }/*-*/

        Some(if is_value {
            DataBlockParsedItem {
                value_type,
                seqno,
                prefix: Some(SliceIndexes(
                    base_key_offset,
                    base_key_offset + shared_prefix_len,
                )),
                key: SliceIndexes(key_offset, key_offset + rest_key_len),
                value: Some(SliceIndexes(val_offset, val_offset + val_len)),
            }
        } else {
            DataBlockParsedItem {
                value_type,
                seqno,
                prefix: Some(SliceIndexes(
                    base_key_offset,
                    base_key_offset + shared_prefix_len,
                )),
                key: SliceIndexes(key_offset, key_offset + rest_key_len),
                value: None,
            }
        })
    }
//@ END
}

}
fn main() {}
