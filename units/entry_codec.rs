//@ UNIT entry_codec
// Data block entries (src/table/data_block/mod.rs): `encode_full_into` / `encode_truncated_into` and `parse_full` /
// `parse_truncated` are inverse: what the encoder writes for an entry (full at a restart point, prefix-truncated otherwise;
// values, tombstones, weak tombstones, blob pointers; any key / value length the formats admit) the decoder parses back to the
// same type, seqno, key bytes and value bytes, leaving the cursor at the next entry.  Obligation C12.14
use vstd::prelude::*;
use vstd::arithmetic::div_mod::*;
use vstd::arithmetic::mul::*;

//@ FROM src/lib.rs :: - :: macro_rules unwrap
macro_rules! unwrap {
    ($x:expr) => {{
        $x.expect("should read")
    }};
}
//@ END

verus! {

global size_of usize == 8;
type SeqNo = u64;

// ---------------- prelude (TRUSTED): byte strings, writer, in-memory cursor, varints ----------------
#[derive(Debug)]
enum Error { Io }
/// Slice (UserKey / UserValue) as a byte string
struct Bytes { v: Vec<u8> }
impl Bytes {
    spec fn view(&self) -> Seq<u8> { self.v@ }
    fn len(&self) -> (r: usize) ensures r == self.view().len() { self.v.len() }
    /// `&*slice` / `&slice` as `&[u8]`
    fn as_bytes(&self) -> (r: &[u8]) ensures r@ == self.view() { self.v.as_slice() }
    /// `slice.get(n..)`
    #[verifier::external_body] fn get_from(&self, n: usize) -> (r: Option<&[u8]>) ensures n <= self.view().len() ==> r is Some && r->Some_0@ == self.view().skip(n as int), n > self.view().len() ==> r is None { unimplemented!() }
}
/// LEB128 varints (varint_rs): prefix-free codes
uninterp spec fn var64(x: u64) -> Seq<u8>;
uninterp spec fn var32(x: u32) -> Seq<u8>;
uninterp spec fn var16(x: u16) -> Seq<u8>;
/// `W: std::io::Write` with byteorder / varint_rs extension methods: `written()` = bytes accepted so far.  Vec<u8> is a writer
/// whose accepted bytes are its content.
trait IoWrite: Sized {
    spec fn written(&self) -> Seq<u8>;
    fn write_u8(&mut self, x: u8) -> (r: Result<(), Error>) ensures r is Ok ==> (*final(self)).written() == (*old(self)).written() + seq![x];
    fn write_u64_varint(&mut self, x: u64) -> (r: Result<(), Error>) ensures r is Ok ==> (*final(self)).written() == (*old(self)).written() + var64(x);
    fn write_u32_varint(&mut self, x: u32) -> (r: Result<(), Error>) ensures r is Ok ==> (*final(self)).written() == (*old(self)).written() + var32(x);
    fn write_u16_varint(&mut self, x: u16) -> (r: Result<(), Error>) ensures r is Ok ==> (*final(self)).written() == (*old(self)).written() + var16(x);
    fn write_all(&mut self, b: &[u8]) -> (r: Result<(), Error>) ensures r is Ok ==> (*final(self)).written() == (*old(self)).written() + b@;
}
impl IoWrite for Vec<u8> {
    spec fn written(&self) -> Seq<u8> { self@ }
    #[verifier::external_body] fn write_u8(&mut self, x: u8) -> (r: Result<(), Error>) { unimplemented!() }
    #[verifier::external_body] fn write_u64_varint(&mut self, x: u64) -> (r: Result<(), Error>) { unimplemented!() }
    #[verifier::external_body] fn write_u32_varint(&mut self, x: u32) -> (r: Result<(), Error>) { unimplemented!() }
    #[verifier::external_body] fn write_u16_varint(&mut self, x: u16) -> (r: Result<(), Error>) { unimplemented!() }
    #[verifier::external_body] fn write_all(&mut self, b: &[u8]) -> (r: Result<(), Error>) { unimplemented!() }
}

//@ FROM src/value_type.rs :: - :: enum ValueType
/*+*/#[derive(Copy, Clone, PartialEq, Eq, Structural)]/*-*/
enum ValueType {
    Value,

    Tombstone,

    WeakTombstone,

    Indirection = 4,
}
//@ END
spec fn tag(t: ValueType) -> u8 { match t { ValueType::Value => 0, ValueType::Tombstone => 1, ValueType::WeakTombstone => 2, ValueType::Indirection => 4 } }
spec fn is_tomb(t: ValueType) -> bool { t == ValueType::Tombstone || t == ValueType::WeakTombstone }
impl ValueType {
//@ FROM src/value_type.rs :: impl ValueType :: fn is_tombstone :: OBL C12.14
    fn is_tombstone(self) -> /*+*/(r:/*-*/ bool/*+*/) ensures r == is_tomb(self)/*-*/ {
        self == Self::Tombstone || self == Self::WeakTombstone
    }
//@ END
//@ FROM src/value_type.rs :: impl TryFrom < u8 > for ValueType :: fn try_from :: OBL C12.14
//@ SUBST `Self :: Error` ==> `()`
    fn try_from(value: u8) -> /*+*/(r:/*-*/ Result<Self, ()>/*+*/)
        ensures r is Ok ==> tag(r->Ok_0) == value, (value == 0 || value == 1 || value == 2 || value == 4) ==> r is Ok/*-*/
    {
        match value {
            0 => Ok(Self::Value),
            1 => Ok(Self::Tombstone),
            2 => Ok(Self::WeakTombstone),
            4 => Ok(Self::Indirection),
            _ => Err(()),
        }
    }
//@ END
}
/// holder for `impl From<ValueType> for u8` (R6: the trait impl method as an associated function)
struct U8From { p: u8 }
impl U8From {
//@ FROM src/value_type.rs :: impl From < ValueType > for u8 :: fn from :: OBL C12.14
//@ SUBST `-> Self` ==> `-> u8`
    fn from(value: ValueType) -> /*+*/(r:/*-*/ u8/*+*/) ensures r == tag(value)/*-*/ {
        match value {
            ValueType::Value => 0,
            ValueType::Tombstone => 1,
            ValueType::WeakTombstone => 2,
            ValueType::Indirection => 4,
        }
    }
//@ END
}
struct InternalKey { user_key: Bytes, seqno: SeqNo, value_type: ValueType }
struct InternalValue { key: InternalKey, value: Bytes }
impl InternalValue {
    fn is_tombstone(&self) -> (r: bool) ensures r == is_tomb(self.key.value_type) { self.key.value_type.is_tombstone() }
}

/// the value part of an encoded entry: nothing for tombstones, else varint length + bytes
spec fn value_part(e: InternalValue) -> Seq<u8> { if is_tomb(e.key.value_type) { Seq::empty() } else { var32(e.value.view().len() as u32) + e.value.view() } }
/// [type] [seqno] [key len] [key] [value len] [value]
spec fn full_bytes(e: InternalValue) -> Seq<u8> {
    seq![tag(e.key.value_type)] + var64(e.key.seqno) + var16(e.key.user_key.view().len() as u16) + e.key.user_key.view() + value_part(e)
}
/// [type] [seqno] [shared prefix len] [rest key len] [rest key] [value len] [value]
spec fn trunc_bytes(e: InternalValue, shared: int) -> Seq<u8> {
    seq![tag(e.key.value_type)] + var64(e.key.seqno) + var16(shared as u16) + var16((e.key.user_key.view().len() - shared) as u16) + e.key.user_key.view().skip(shared) + value_part(e)
}
spec fn fits(e: InternalValue) -> bool { e.key.user_key.view().len() <= u16::MAX && e.value.view().len() <= u32::MAX }

//@ SUBST `crate :: Result < ( ) >` ==> `Result<(), Error>`
//@ SUBST `< W : std :: io :: Write >` ==> `<W: IoWrite>`
//@ SUBST `u8 :: from (` ==> `U8From::from(`
impl InternalValue {
//@ FROM src/table/data_block/mod.rs :: impl Encodable < ( ) > for InternalValue :: fn encode_full_into :: OBL C12.14
//@ SUBST `& self . key . user_key` ==> `self.key.user_key.as_bytes()`
//@ SUBST `& self . value` ==> `self.value.as_bytes()`
    fn encode_full_into<W: IoWrite>(
        &self,
        writer: &mut W,
        _state: &mut (),
    ) -> /*+*/(r:/*-*/ Result<(), Error>/*+*/)
        requires fits(*self)
        ensures r is Ok ==> (*final(writer)).written() == (*old(writer)).written() + full_bytes(*self)/*-*/
    {
        /*+*/let ghost w0 = writer.written();/*-*/
        writer.write_u8(U8From::from(self.key.value_type))?; // 1
        writer.write_u64_varint(self.key.seqno)?; // 2

        writer.write_u16_varint(self.key.user_key.len() as u16)?; // 3
        writer.write_all(self.key.user_key.as_bytes())?; // 4

        // NOTE: Only write value len + value if we are actually a value
        if !self.is_tombstone() {
            writer.write_u32_varint(self.value.len() as u32)?; // 5
            writer.write_all(self.value.as_bytes())?; // 6
        }
        /*+*/proof { assert(writer.written() =~= w0 + full_bytes(*self)); }/*-*/

        Ok(())
    }
//@ END

//@ FROM src/table/data_block/mod.rs :: impl Encodable < ( ) > for InternalValue :: fn encode_truncated_into :: OBL C12.14
//@ SUBST `self . key . user_key . get ( shared_len .. )` ==> `self.key.user_key.get_from(shared_len)`
//@ SUBST `& self . value` ==> `self.value.as_bytes()`
    fn encode_truncated_into<W: IoWrite>(
        &self,
        writer: &mut W,
        _state: &mut (),
        shared_len: usize,
    ) -> /*+*/(r:/*-*/ Result<(), Error>/*+*/)
        requires fits(*self), shared_len <= self.key.user_key.view().len()
        ensures r is Ok ==> (*final(writer)).written() == (*old(writer)).written() + trunc_bytes(*self, shared_len as int)/*-*/
    {
        /*+*/let ghost w0 = writer.written();/*-*/
        writer.write_u8(U8From::from(self.key.value_type))?; // 1
        writer.write_u64_varint(self.key.seqno)?; // 2

        writer.write_u16_varint(shared_len as u16)?; // 3

        let rest_len = self.key().len() - shared_len;

        writer.write_u16_varint(rest_len as u16)?; // 4

        let truncated_user_key = self.key.user_key.get_from(shared_len)
            .expect("should be in bounds");

        writer.write_all(truncated_user_key)?; // 5

        // NOTE: Only write value len + value if we are actually a value
        if !self.is_tombstone() {
            writer.write_u32_varint(self.value.len() as u32)?; // 6
            writer.write_all(self.value.as_bytes())?; // 7
        }
        /*+*/proof { assert(writer.written() =~= w0 + trunc_bytes(*self, shared_len as int)); }/*-*/

        Ok(())
    }
//@ END

//@ FROM src/table/data_block/mod.rs :: impl Encodable < ( ) > for InternalValue :: fn key
//@ SUBST `& self . key . user_key` ==> `self.key.user_key.as_bytes()`
    fn key(&self) -> /*+*/(r:/*-*/ &[u8]/*+*/) ensures r@ == self.key.user_key.view()/*-*/ {
        self.key.user_key.as_bytes()
    }
//@ END
}


// ---------------- block encoder ----------------
/// longest_shared_prefix_length (src/table/util.rs; an iterator chain, not verified here): the length of the longest common prefix
spec fn lspl(a: Seq<u8>, b: Seq<u8>) -> int decreases a.len()
{ if a.len() > 0 && b.len() > 0 && a[0] == b[0] { 1 + lspl(a.skip(1), b.skip(1)) } else { 0 } }
#[verifier::external_body]
fn longest_shared_prefix_length(s1: &[u8], s2: &[u8]) -> (r: usize) ensures r == lspl(s1@, s2@) { unimplemented!() }
proof fn lemma_lspl_bound(a: Seq<u8>, b: Seq<u8>) ensures 0 <= lspl(a, b) <= a.len(), lspl(a, b) <= b.len() decreases a.len()
{ if a.len() > 0 && b.len() > 0 && a[0] == b[0] { lemma_lspl_bound(a.skip(1), b.skip(1)); } }


const MAX_POINTERS_FOR_HASH_INDEX: usize = 254;
/// binary_index::Builder: the restart head offsets pushed so far
struct BinaryIndexBuilder { ghost ptrs: Seq<u32> }
impl BinaryIndexBuilder {
    #[verifier::external_body]
    fn insert(&mut self, pos: u32) ensures final(self).ptrs == old(self).ptrs.push(pos) { unimplemented!() }
}
/// hash_index::Builder: the (key, restart index) pairs registered so far (bucket logic: not in this unit)
struct HashIndexBuilder { ghost buckets: nat, ghost sets: Seq<(Seq<u8>, u8)> }
impl HashIndexBuilder {
    #[verifier::external_body]
    fn bucket_count(&self) -> (r: u32) ensures r == self.buckets { unimplemented!() }
    #[verifier::external_body]
    fn set(&mut self, key: &[u8], binary_index_pos: u8) -> (r: bool)
        requires old(self).buckets > 0
        ensures final(self).buckets == old(self).buckets, final(self).sets == old(self).sets.push((key@, binary_index_pos))
    { unimplemented!() }
}

//@ FROM src/table/block/encoder.rs :: - :: struct Encoder
//@ SUBST `< 'a , Context : Default , Item : Encodable < Context > >` ==> `<'a>`
//@ SUBST `phantom : PhantomData < ( Context , Item ) > ,` ==> ``
//@ SUBST `state : Context` ==> `state: ()`
struct Encoder<'a> {

    writer: &'a mut Vec<u8>,

    state: (),

    item_count: usize,
    restart_count: usize,

    restart_interval: u8,
    // pub(crate) use_prefix_truncation: bool, // TODO: support non-prefix truncation?
    binary_index_builder: BinaryIndexBuilder,
    hash_index_builder: HashIndexBuilder,

    base_key: &'a [u8],
}
//@ END

/// entry i of a block with restart interval ri starts a restart interval
spec fn is_head(i: int, ri: int) -> bool { if ri == 0 { i == 0 } else { i % ri == 0 } }

impl<'a> Encoder<'a> {
//@ FROM src/table/block/encoder.rs :: impl < 'a , Context : Default , Item : Encodable < Context > > Encoder < 'a , Context , Item > :: fn write :: OBL C12.17
//@ SUBST `item : & 'a Item` ==> `item: &'a InternalValue`
    fn write(&mut self, item: &'a InternalValue) -> /*+*/(r:/*-*/ Result<(), Error>/*+*/)
        requires fits(*item), old(self).item_count < usize::MAX, old(self).restart_count < usize::MAX, old(self).writer@.len() <= u32::MAX,
            // at least one restart head has been written unless this is the first item
            old(self).item_count > 0 ==> old(self).restart_count > 0,
        ensures *final(final(self).writer) == *final(old(self).writer),
            r is Ok ==> ({
                let head = is_head(old(self).item_count as int, old(self).restart_interval as int);
                let shared = lspl(old(self).base_key@, item.key.user_key.view());
                // the entry is appended in full at a restart head, truncated against the current base key otherwise
                &&& final(self).writer@ == old(self).writer@ + (if head { full_bytes(*item) } else { trunc_bytes(*item, shared) })
                &&& final(self).item_count == old(self).item_count + 1
                &&& final(self).restart_interval == old(self).restart_interval
                // a restart head records its offset in the binary index and becomes the base key
                &&& final(self).restart_count == old(self).restart_count + (if head { 1int } else { 0 })
                &&& final(self).base_key@ == (if head { item.key.user_key.view() } else { old(self).base_key@ })
                &&& final(self).binary_index_builder.ptrs == (if head && old(self).restart_interval > 0 { old(self).binary_index_builder.ptrs.push(old(self).writer@.len() as u32) } else { old(self).binary_index_builder.ptrs })
                // the key is registered in the hash index under its restart interval when that is addressable
                &&& final(self).hash_index_builder.buckets == old(self).hash_index_builder.buckets
                &&& final(self).hash_index_builder.sets == (if old(self).hash_index_builder.buckets > 0 && final(self).restart_count - 1 < MAX_POINTERS_FOR_HASH_INDEX {
                        old(self).hash_index_builder.sets.push((item.key.user_key.view(), (final(self).restart_count - 1) as u8)) } else { old(self).hash_index_builder.sets })
            }),/*-*/
    {
        // NOTE: Check if we are a restart marker
        if self
            .item_count
            .is_multiple_of(usize::from(self.restart_interval))
        {
            self.restart_count += 1;

            if self.restart_interval > 0 {
                self.binary_index_builder.insert(self.writer.len() as u32);
            }

            item.encode_full_into(&mut *self.writer, &mut self.state)?;

            self.base_key = item.key();
        } else {
            let shared_prefix_len = longest_shared_prefix_length(self.base_key, item.key());
            /*+*/proof { lemma_lspl_bound(self.base_key@, item.key.user_key.view()); }/*-*/
            item.encode_truncated_into(&mut *self.writer, &mut self.state, shared_prefix_len)?;
        }

        let restart_idx = self.restart_count - 1;

        if self.hash_index_builder.bucket_count() > 0 && restart_idx < MAX_POINTERS_FOR_HASH_INDEX {
            self.hash_index_builder.set(item.key(), restart_idx as u8);
        }

        self.item_count += 1;

        Ok(())
    }
//@ END
}


impl BinaryIndexBuilder {
    #[verifier::external_body]
    fn new(capacity: usize) -> (r: Self) ensures r.ptrs == Seq::<u32>::empty() { unimplemented!() }
}
impl HashIndexBuilder {
    #[verifier::external_body]
    fn with_hash_ratio(item_count: usize, hash_ratio: f32) -> (r: Self) ensures r.sets == Seq::<(Seq<u8>, u8)>::empty() { unimplemented!() }
}
impl<'a> Encoder<'a> {
//@ FROM src/table/block/encoder.rs :: impl < 'a , Context : Default , Item : Encodable < Context > > Encoder < 'a , Context , Item > :: fn new :: OBL C12.17
//@ SUBST `phantom : PhantomData ,` ==> ``
//@ SUBST `Context :: default ( )` ==> `()`
    fn new(
        writer: &'a mut Vec<u8>,
        item_count: usize,
        restart_interval: u8, // TODO: should be NonZero
        hash_index_ratio: f32,
        first_key: &'a [u8],
    ) -> /*+*/(r:/*-*/ Self/*+*/)
        requires restart_interval >= 1   // 0 divides by zero here
        ensures r.writer@ == old(writer)@, *final(r.writer) == *final(writer), r.item_count == 0, r.restart_count == 0, r.restart_interval == restart_interval,
            r.base_key@ == first_key@, r.binary_index_builder.ptrs.len() == 0, r.hash_index_builder.sets.len() == 0/*-*/
    {
        let binary_index_builder = BinaryIndexBuilder::new(item_count / restart_interval as usize);
        let hash_index_builder = HashIndexBuilder::with_hash_ratio(item_count, hash_index_ratio);

        Self {

            writer,

            state: (),

            item_count: 0,
            restart_count: 0,

            restart_interval,
            // use_prefix_truncation: true,
            binary_index_builder,
            hash_index_builder,

            base_key: first_key,
        }
    }
//@ END

    /// Encoder::finish = Trailer::write(self) (unit block_trailer): the trailer start marker, then index sections and trailer
    #[verifier::external_body]
    fn finish(self) -> (r: Result<(), Error>)
        ensures r is Ok ==> exists|rest: Seq<u8>| (*final(self.writer))@ == (*old(self.writer))@ + seq![TRAILER_START_MARKER] + rest
    { unimplemented!() }
}

// ---------------- decoder side ----------------
const TRAILER_START_MARKER: u8 = 255;
/// std::io::Cursor<&[u8]> with byteorder / varint_rs readers (TRUSTED): an in-memory reader, so a read succeeds exactly when the
/// bytes are there; `seek_relative` moves the position (like std, it may move past the end)
struct Cursor { ghost data: Seq<u8>, ghost pos: int }
impl Cursor {
    spec fn rest(&self) -> Seq<u8> { self.data.skip(self.pos) }
    #[verifier::external_body]
    fn read_u8(&mut self) -> (r: Result<u8, Error>)
        ensures final(self).data == old(self).data, 0 <= old(self).pos < old(self).data.len() ==> r is Ok && r->Ok_0 == old(self).data[old(self).pos] && final(self).pos == old(self).pos + 1
    { unimplemented!() }
    #[verifier::external_body]
    fn read_u64_varint(&mut self) -> (r: Result<u64, Error>)
        ensures final(self).data == old(self).data, forall|x: u64, tail: Seq<u8>| old(self).rest() == var64(x) + tail ==> r is Ok && r->Ok_0 == x && final(self).pos == old(self).pos + var64(x).len()
    { unimplemented!() }
    #[verifier::external_body]
    fn read_u32_varint(&mut self) -> (r: Result<u32, Error>)
        ensures final(self).data == old(self).data, forall|x: u32, tail: Seq<u8>| old(self).rest() == var32(x) + tail ==> r is Ok && r->Ok_0 == x && final(self).pos == old(self).pos + var32(x).len()
    { unimplemented!() }
    #[verifier::external_body]
    fn read_u16_varint(&mut self) -> (r: Result<u16, Error>)
        ensures final(self).data == old(self).data, forall|x: u16, tail: Seq<u8>| old(self).rest() == var16(x) + tail ==> r is Ok && r->Ok_0 == x && final(self).pos == old(self).pos + var16(x).len()
    { unimplemented!() }
    #[verifier::external_body]
    fn position(&self) -> (r: u64) ensures r == self.pos { unimplemented!() }
    #[verifier::external_body]
    fn seek_relative(&mut self, n: i64) -> (r: Result<(), Error>)
        ensures final(self).data == old(self).data, old(self).pos + n >= 0 ==> r is Ok && final(self).pos == old(self).pos + n
    { unimplemented!() }
}

//@ FROM src/table/util.rs :: - :: struct SliceIndexes
/*+*/#[derive(PartialEq, Eq, Structural)]/*-*/
struct SliceIndexes(usize, usize);
//@ END
//@ FROM src/table/data_block/mod.rs :: - :: struct DataBlockParsedItem
struct DataBlockParsedItem {
    value_type: ValueType,
    seqno: SeqNo,
    prefix: Option<SliceIndexes>,
    key: SliceIndexes,
    value: Option<SliceIndexes>,
}
//@ END

/// the parsed item addresses exactly the entry's (rest of the) key bytes and value bytes inside `data` (indexes are relative to
/// `offset`), with its type and seqno
spec fn item_matches(it: DataBlockParsedItem, e: InternalValue, data: Seq<u8>, offset: int, shared: int) -> bool {
    it.value_type == e.key.value_type && it.seqno == e.key.seqno
    && offset <= it.key.0 <= it.key.1 && it.key.1 - offset <= data.len() && data.subrange(it.key.0 - offset, it.key.1 - offset) == e.key.user_key.view().skip(shared)
    && (is_tomb(e.key.value_type) ==> it.value is None)
    && (!is_tomb(e.key.value_type) ==> it.value is Some && offset <= it.value->Some_0.0 <= it.value->Some_0.1 && it.value->Some_0.1 - offset <= data.len()
            && data.subrange(it.value->Some_0.0 - offset, it.value->Some_0.1 - offset) == e.value.view())
}
proof fn lemma_advance(d: Seq<u8>, p: int, a: Seq<u8>, b: Seq<u8>)
    requires 0 <= p <= d.len(), d.skip(p) == a + b
    ensures p + a.len() <= d.len(), d.skip(p + a.len()) == b, d.subrange(p, p + a.len()) == a
{
    assert(d.skip(p).len() == d.len() - p);
    assert((a + b).len() == a.len() + b.len());
    assert(d.skip(p + a.len()) =~= (a + b).skip(a.len() as int));
    assert((a + b).skip(a.len() as int) =~= b);
    assert(d.subrange(p, p + a.len()) =~= (a + b).subrange(0, a.len() as int));
    assert((a + b).subrange(0, a.len() as int) =~= a);
}


impl InternalValue {
//@ FROM src/table/data_block/mod.rs :: impl Decodable < DataBlockParsedItem > for InternalValue :: fn parse_full :: OBL C12.14
//@ SUBST `& mut Cursor < & [ u8 ] >` ==> `&mut Cursor`
    fn parse_full(reader: &mut Cursor, offset: usize/*+*/, Ghost(oe): Ghost<Option<InternalValue>>, Ghost(tail): Ghost<Seq<u8>>/*-*/) -> /*+*/(r:/*-*/ Option<DataBlockParsedItem>/*+*/)
        requires 0 <= old(reader).pos <= old(reader).data.len(), offset + old(reader).data.len() <= usize::MAX / 2,
            // either an entry is stored at the position, or the block's trailer starts there
            oe is Some ==> fits(oe->Some_0) && old(reader).rest() == full_bytes(oe->Some_0) + tail,
            oe is None ==> old(reader).pos < old(reader).data.len() && old(reader).data[old(reader).pos] == TRAILER_START_MARKER,
        ensures final(reader).data == old(reader).data,
            oe is None ==> r is None,
            oe is Some ==> final(reader).pos == old(reader).pos + full_bytes(oe->Some_0).len()
                && r is Some && r->Some_0.prefix is None && item_matches(r->Some_0, oe->Some_0, old(reader).data, offset as int, 0)/*-*/
    {
        /*+*/let ghost e = oe->Some_0;
        let ghost d = reader.data; let ghost p0 = reader.pos;
        let ghost k = e.key.user_key.view(); let ghost v = e.value.view(); let ghost vp = value_part(e);
        let ghost t = seq![tag(e.key.value_type)]; let ghost s64 = var64(e.key.seqno); let ghost kl = var16(k.len() as u16);
        proof {
            if oe is Some {
                assert(full_bytes(e) + tail =~= t + (s64 + (kl + (k + (vp + tail)))));
                lemma_advance(d, p0, t, s64 + (kl + (k + (vp + tail))));
                assert(d[p0] == d.subrange(p0, p0 + 1)[0]);
            }
        }/*-*/
        let value_type = unwrap!(reader.read_u8());
        if value_type == TRAILER_START_MARKER {
            return None;
        }

        let value_type = ValueType::try_from(value_type).expect("should be valid value type");

        let seqno = unwrap!(reader.read_u64_varint());
        /*+*/proof { lemma_advance(d, p0 + 1, s64, kl + (k + (vp + tail))); }/*-*/

        let key_len: usize = unwrap!(reader.read_u16_varint()).into();
        /*+*/proof { lemma_advance(d, p0 + 1 + s64.len(), kl, k + (vp + tail)); }/*-*/
        let key_start = offset + reader.position() as usize;
        let key_len_i64 = key_len as i64;
        /*+*/let ghost pk = reader.pos;/*-*/
        unwrap!(reader.seek_relative(key_len_i64));
        /*+*/proof { lemma_advance(d, pk, k, vp + tail); }/*-*/

        let is_value = !value_type.is_tombstone();

        let val_len: usize = if is_value {
            /*+*/proof { assert(vp + tail =~= var32(v.len() as u32) + (v + tail)); }/*-*/
            unwrap!(reader.read_u32_varint()) as usize
        } else {
            0
        };
        /*+*/proof { if is_value { lemma_advance(d, pk + k.len(), var32(v.len() as u32), v + tail); } }/*-*/
        let val_offset = offset + reader.position() as usize;
        let val_len_i64 = val_len as i64;
        /*+*/let ghost pv = reader.pos;/*-*/
        unwrap!(reader.seek_relative(val_len_i64));
        /*+*/proof {
            if is_value { lemma_advance(d, pv, v, tail); }
            assert(full_bytes(e).len() == 1 + s64.len() + kl.len() + k.len() + vp.len());
            assert(k.skip(0) =~= k);
        }/*-*/

        Some(if is_value {
            DataBlockParsedItem {
                value_type,
                seqno,
                prefix: None,
                key: SliceIndexes(key_start, key_start + key_len),
                value: Some(SliceIndexes(val_offset, val_offset + val_len)),
            }
        } else {
            DataBlockParsedItem {
                value_type,
                seqno,
                prefix: None,
                key: SliceIndexes(key_start, key_start + key_len),
                value: None, // TODO: enum value/tombstone, so value is not Option for values
            }
        })
    }
//@ END

//@ FROM src/table/data_block/mod.rs :: impl Decodable < DataBlockParsedItem > for InternalValue :: fn parse_truncated :: OBL C12.14
//@ SUBST `& mut Cursor < & [ u8 ] >` ==> `&mut Cursor`
    fn parse_truncated(
        reader: &mut Cursor,
        offset: usize,
        base_key_offset: usize/*+*/,
        Ghost(oe): Ghost<Option<InternalValue>>, Ghost(shared): Ghost<int>, Ghost(tail): Ghost<Seq<u8>>/*-*/,
    ) -> /*+*/(r:/*-*/ Option<DataBlockParsedItem>/*+*/)
        requires 0 <= old(reader).pos <= old(reader).data.len(), offset + old(reader).data.len() <= usize::MAX / 2, base_key_offset <= usize::MAX / 2,
            oe is Some ==> fits(oe->Some_0) && 0 <= shared <= oe->Some_0.key.user_key.view().len() && old(reader).rest() == trunc_bytes(oe->Some_0, shared) + tail,
            oe is None ==> old(reader).pos < old(reader).data.len() && old(reader).data[old(reader).pos] == TRAILER_START_MARKER,
        ensures final(reader).data == old(reader).data,
            oe is None ==> r is None,
            oe is Some ==> final(reader).pos == old(reader).pos + trunc_bytes(oe->Some_0, shared).len()
                && r is Some && r->Some_0.prefix == Some(SliceIndexes(base_key_offset, (base_key_offset + shared) as usize)) && item_matches(r->Some_0, oe->Some_0, old(reader).data, offset as int, shared)/*-*/
    {
        /*+*/let ghost e = oe->Some_0;
        let ghost d = reader.data; let ghost p0 = reader.pos;
        let ghost k = e.key.user_key.view().skip(shared); let ghost v = e.value.view(); let ghost vp = value_part(e);
        let ghost t = seq![tag(e.key.value_type)]; let ghost s64 = var64(e.key.seqno); let ghost sl = var16(shared as u16); let ghost kl = var16(k.len() as u16);
        proof {
            if oe is Some {
                assert(trunc_bytes(e, shared) + tail =~= t + (s64 + (sl + (kl + (k + (vp + tail))))));
                lemma_advance(d, p0, t, s64 + (sl + (kl + (k + (vp + tail)))));
                assert(d[p0] == d.subrange(p0, p0 + 1)[0]);
            }
        }/*-*/
        let value_type = unwrap!(reader.read_u8());
        if value_type == TRAILER_START_MARKER {
            return None;
        }
        let value_type = unwrap!(ValueType::try_from(value_type));

        let seqno = unwrap!(reader.read_u64_varint());
        /*+*/proof { lemma_advance(d, p0 + 1, s64, sl + (kl + (k + (vp + tail)))); }/*-*/

        let shared_prefix_len: usize = unwrap!(reader.read_u16_varint()).into();
        /*+*/proof { lemma_advance(d, p0 + 1 + s64.len(), sl, kl + (k + (vp + tail))); }/*-*/
        let rest_key_len: usize = unwrap!(reader.read_u16_varint()).into();
        /*+*/proof { lemma_advance(d, p0 + 1 + s64.len() + sl.len(), kl, k + (vp + tail)); }/*-*/

        let key_offset = offset + reader.position() as usize;

        let rest_key_len_i64 = rest_key_len as i64;
        /*+*/let ghost pk = reader.pos;/*-*/
        unwrap!(reader.seek_relative(rest_key_len_i64));
        /*+*/proof { lemma_advance(d, pk, k, vp + tail); }/*-*/

        let is_value = !value_type.is_tombstone();

        let val_len: usize = if is_value {
            /*+*/proof { assert(vp + tail =~= var32(v.len() as u32) + (v + tail)); }/*-*/
            unwrap!(reader.read_u32_varint()) as usize
        } else {
            0
        };
        /*+*/proof { if is_value { lemma_advance(d, pk + k.len(), var32(v.len() as u32), v + tail); } }/*-*/
        let val_offset = offset + reader.position() as usize;
        let val_len_i64 = val_len as i64;
        /*+*/let ghost pv = reader.pos;/*-*/
        unwrap!(reader.seek_relative(val_len_i64));
        /*+*/proof {
            if is_value { lemma_advance(d, pv, v, tail); }
            assert(trunc_bytes(e, shared).len() == 1 + s64.len() + sl.len() + kl.len() + k.len() + vp.len());
        }/*-*/

        Some(if is_value {
            DataBlockParsedItem {
                value_type,
                seqno,
                prefix: Some(SliceIndexes(
                    base_key_offset,
                    base_key_offset + shared_prefix_len,
                )),
                key: SliceIndexes(key_offset, key_offset + rest_key_len),
                value: Some(SliceIndexes(val_offset, val_offset + val_len)),
            }
        } else {
            DataBlockParsedItem {
                value_type,
                seqno,
                prefix: Some(SliceIndexes(
                    base_key_offset,
                    base_key_offset + shared_prefix_len,
                )),
                key: SliceIndexes(key_offset, key_offset + rest_key_len),
                value: None,
            }
        })
    }
//@ END
}


// ---------------- block decoder: forward scan ----------------
/// the restart head governing entry i
spec fn base_of(i: int, ri: int) -> int { i - i % ri }
spec fn ukey(e: InternalValue) -> Seq<u8> { e.key.user_key.view() }
/// how entry i of the block is stored (restart interval ri >= 1)
spec fn code(items: Seq<InternalValue>, i: int, ri: int) -> Seq<u8> {
    if i % ri == 0 { full_bytes(items[i]) } else { trunc_bytes(items[i], lspl(ukey(items[base_of(i, ri)]), ukey(items[i]))) }
}
/// the first k entries, as Encoder::write lays them out
spec fn body(items: Seq<InternalValue>, k: int, ri: int) -> Seq<u8> decreases k
{ if k <= 0 { Seq::empty() } else { body(items, k - 1, ri) + code(items, k - 1, ri) } }
/// entries i.. of the block
spec fn suffix(items: Seq<InternalValue>, i: int, ri: int) -> Seq<u8> decreases items.len() - i
{ if i >= items.len() { Seq::empty() } else { code(items, i, ri) + suffix(items, i + 1, ri) } }
proof fn lemma_body_suffix(items: Seq<InternalValue>, i: int, ri: int)
    requires 0 <= i <= items.len()
    ensures body(items, items.len() as int, ri) == body(items, i, ri) + suffix(items, i, ri)
    decreases items.len() - i
{
    if i < items.len() {
        lemma_body_suffix(items, i + 1, ri);
        assert(body(items, i + 1, ri) + suffix(items, i + 1, ri) =~= body(items, i, ri) + (code(items, i, ri) + suffix(items, i + 1, ri)));
    } else {
        assert(body(items, i, ri) + suffix(items, i, ri) =~= body(items, i, ri));
    }
}
/// a data block payload: the entries, the trailer start marker, then index sections and trailer
spec fn block_is(d: Seq<u8>, items: Seq<InternalValue>, ri: int, rest: Seq<u8>) -> bool {
    ri >= 1 && d == body(items, items.len() as int, ri) + seq![TRAILER_START_MARKER] + rest && (forall|i: int| 0 <= i < items.len() ==> fits(#[trigger] items[i]))
}
/// at entry i: what is stored there, followed by the rest of the payload
proof fn lemma_at(d: Seq<u8>, items: Seq<InternalValue>, ri: int, rest: Seq<u8>, i: int)
    requires block_is(d, items, ri, rest), 0 <= i <= items.len()
    ensures 0 <= body(items, i, ri).len() < d.len(),
        i < items.len() ==> d.skip(body(items, i, ri).len() as int) == code(items, i, ri) + d.skip(body(items, i + 1, ri).len() as int)
            && body(items, i + 1, ri).len() == body(items, i, ri).len() + code(items, i, ri).len(),
        i == items.len() ==> d[body(items, i, ri).len() as int] == TRAILER_START_MARKER,
{
    let b = body(items, i, ri); let t = seq![TRAILER_START_MARKER] + rest;
    lemma_body_suffix(items, i, ri);
    assert(d =~= b + (suffix(items, i, ri) + t));
    if i < items.len() {
        lemma_body_suffix(items, i + 1, ri);
        let b1 = body(items, i + 1, ri);
        assert(b1 =~= b + code(items, i, ri));
        assert(d =~= b1 + (suffix(items, i + 1, ri) + t));
        assert(d.skip(b.len() as int) =~= code(items, i, ri) + (suffix(items, i + 1, ri) + t));
        assert(d.skip(b1.len() as int) =~= suffix(items, i + 1, ri) + t);
    } else {
        assert(suffix(items, i, ri) =~= Seq::<u8>::empty());
        assert(d[b.len() as int] == t[0]);
    }
}
proof fn lemma_lspl_prefix(a: Seq<u8>, b: Seq<u8>)
    ensures 0 <= lspl(a, b) <= a.len(), lspl(a, b) <= b.len(), a.subrange(0, lspl(a, b)) == b.subrange(0, lspl(a, b))
    decreases a.len()
{
    if a.len() > 0 && b.len() > 0 && a[0] == b[0] {
        lemma_lspl_prefix(a.skip(1), b.skip(1));
        let l = lspl(a.skip(1), b.skip(1));
        assert(a.subrange(0, l + 1) =~= seq![a[0]] + a.skip(1).subrange(0, l));
        assert(b.subrange(0, l + 1) =~= seq![b[0]] + b.skip(1).subrange(0, l));
    } else {
        assert(a.subrange(0, 0) =~= b.subrange(0, 0));
    }
}

/// every stored entry takes at least its tag byte: offsets strictly increase
proof fn lemma_body_strict(items: Seq<InternalValue>, i: int, j: int, ri: int)
    requires 0 <= i < j <= items.len()
    ensures body(items, i, ri).len() < body(items, j, ri).len()
    decreases j - i
{
    assert(code(items, j - 1, ri).len() >= 1) by {
        let e = items[j - 1];
        if (j - 1) % ri == 0 { assert(full_bytes(e).len() >= 1); } else { let sh = lspl(ukey(items[base_of(j - 1, ri)]), ukey(e)); assert(trunc_bytes(e, sh).len() >= 1); }
    }
    if i < j - 1 { lemma_body_strict(items, i, j - 1, ri); }
}
struct Block { data: Bytes }
impl Bytes {
    /// `unsafe { data.get_unchecked(off..) }` wrapped in a Cursor: the precondition is the safety condition of the unchecked access
    #[verifier::external_body]
    fn cursor_from(&self, off: usize) -> (r: Cursor) requires off <= self.view().len() ensures r.data == self.view().skip(off as int), r.pos == 0 { unimplemented!() }
}
impl Cursor {
    /// the position as the code reads it (`reader.position() as usize`)
    spec fn upos(&self) -> usize { self.pos as usize }
}

//@ FROM src/table/block/decoder.rs :: - :: struct LoScanner
struct LoScanner {
    offset: usize,
    remaining_in_interval: usize,
    base_key_offset: Option<usize>,
}
//@ END
//@ FROM src/table/block/decoder.rs :: - :: struct HiScanner
struct HiScanner {
    offset: usize,
    ptr_idx: usize,
    stack: Vec<usize>, // TODO: SmallVec?
    base_key_offset: Option<usize>,
}
//@ END
//@ FROM src/table/block/decoder.rs :: - :: struct Decoder
//@ SUBST `< 'a , Item : Decodable < Parsed > , Parsed : ParsedItem < Item > >` ==> `<'a>`
//@ SUBST `phantom : PhantomData < ( Item , Parsed ) > ,` ==> ``
struct Decoder<'a> {
    block: &'a Block,

    lo_scanner: LoScanner,
    hi_scanner: HiScanner,

    // Cached metadata
    restart_interval: u8,
    binary_index_step_size: u8,
    binary_index_offset: u32,
    binary_index_len: u32,
}
//@ END

/// the parsed item addresses entry e inside the payload d: rest key, shared prefix of the base key, value
spec fn item_is(it: DataBlockParsedItem, e: InternalValue, d: Seq<u8>) -> bool {
    &&& it.value_type == e.key.value_type && it.seqno == e.key.seqno
    &&& it.key.0 <= it.key.1 <= d.len()
    &&& it.prefix is Some ==> it.prefix->Some_0.0 <= it.prefix->Some_0.1 <= d.len()
    &&& (if it.prefix is Some { d.subrange(it.prefix->Some_0.0 as int, it.prefix->Some_0.1 as int) } else { Seq::<u8>::empty() }) + d.subrange(it.key.0 as int, it.key.1 as int) == ukey(e)
    &&& is_tomb(e.key.value_type) ==> it.value is None
    &&& !is_tomb(e.key.value_type) ==> it.value is Some && it.value->Some_0.0 <= it.value->Some_0.1 <= d.len() && d.subrange(it.value->Some_0.0 as int, it.value->Some_0.1 as int) == e.value.view()
}
impl<'a> Decoder<'a> {
    spec fn d(&self) -> Seq<u8> { self.block.data.view() }
    /// the front scanner stands before entry i and nothing has been taken from the back
    /// the back scanner limits the front scan at entry b (b == n while the back scanner has not been used)
    spec fn hi_lim(&self, items: Seq<InternalValue>, b: int) -> bool {
        (self.hi_scanner.base_key_offset is Some ==> self.hi_scanner.offset == body(items, b, self.restart_interval as int).len())
        && (self.hi_scanner.base_key_offset is None ==> b == items.len())
    }
    spec fn at(&self, items: Seq<InternalValue>, i: int) -> bool {
        let ri = self.restart_interval as int;
        &&& self.lo_scanner.offset == body(items, i, ri).len()
        &&& self.lo_scanner.remaining_in_interval == (if i % ri == 0 { 0 } else { ri - i % ri })
        &&& i % ri != 0 ==> self.lo_scanner.base_key_offset is Some && ({
                let kp = self.lo_scanner.base_key_offset->Some_0 as int; let hk = ukey(items[base_of(i, ri)]);
                kp + hk.len() <= self.d().len() && self.d().subrange(kp, kp + hk.len()) == hk })
    }

//@ FROM src/table/block/decoder.rs :: impl < 'a , Item : Decodable < Parsed > , Parsed : ParsedItem < Item > > Decoder < 'a , Item , Parsed > :: fn parse_current_item :: OBL C12.17
//@ SUBST `& mut Cursor < & [ u8 ] >` ==> `&mut Cursor`
//@ SUBST `Option < Parsed >` ==> `Option<DataBlockParsedItem>`
//@ SUBST `Item :: parse_full (` ==> `InternalValue::parse_full(`
//@ SUBST `Item :: parse_truncated (` ==> `InternalValue::parse_truncated(`
    fn parse_current_item(
        reader: &mut Cursor,
        offset: usize,
        base_key_offset: Option<usize>,
        is_restart: bool/*+*/,
        Ghost(oe): Ghost<Option<InternalValue>>, Ghost(shared): Ghost<int>, Ghost(tail): Ghost<Seq<u8>>/*-*/,
    ) -> /*+*/(r:/*-*/ Option<DataBlockParsedItem>/*+*/)
        requires 0 <= old(reader).pos <= old(reader).data.len(), offset + old(reader).data.len() <= usize::MAX / 2,
            !is_restart ==> base_key_offset is Some && base_key_offset->Some_0 <= usize::MAX / 2,
            oe is Some ==> fits(oe->Some_0) && (if is_restart { old(reader).rest() == full_bytes(oe->Some_0) + tail } else { 0 <= shared <= ukey(oe->Some_0).len() && old(reader).rest() == trunc_bytes(oe->Some_0, shared) + tail }),
            oe is None ==> old(reader).pos < old(reader).data.len() && old(reader).data[old(reader).pos] == TRAILER_START_MARKER,
        ensures final(reader).data == old(reader).data,
            oe is None ==> r is None,
            oe is Some ==> r is Some && item_matches(r->Some_0, oe->Some_0, old(reader).data, offset as int, if is_restart { 0 } else { shared })
                && final(reader).pos == old(reader).pos + (if is_restart { full_bytes(oe->Some_0).len() } else { trunc_bytes(oe->Some_0, shared).len() })
                && r->Some_0.prefix == (if is_restart { None } else { Some(SliceIndexes(base_key_offset->Some_0, (base_key_offset->Some_0 + shared) as usize)) }),/*-*/
    {
        if is_restart {
            InternalValue::parse_full(reader, offset/*+*/, Ghost(oe), Ghost(tail)/*-*/)
        } else {
            InternalValue::parse_truncated(
                reader,
                offset,
                base_key_offset.expect("should parse truncated item"/*+*/),
                Ghost(oe), Ghost(shared), Ghost(tail/*-*/),
            )
        }
    }
//@ END
}

impl DataBlockParsedItem {
//@ FROM src/table/data_block/mod.rs :: impl ParsedItem < InternalValue > for DataBlockParsedItem :: fn key_offset
    fn key_offset(&self) -> /*+*/(r:/*-*/ usize/*+*/) ensures r == self.key.0/*-*/ {
        self.key.0
    }
//@ END
}
proof fn lemma_mod_step(i: int, ri: int)
    requires i >= 0, ri >= 1
    ensures (i + 1) % ri == (if i % ri == ri - 1 { 0 } else { i % ri + 1 }), 0 <= i % ri < ri,
        (i + 1) % ri != 0 ==> base_of(i + 1, ri) == base_of(i, ri)
{
    lemma_fundamental_div_mod(i, ri);
    lemma_mod_pos_bound(i, ri);
    let q = i / ri; let m = i % ri;
    if m == ri - 1 {
        lemma_mul_is_distributive_add(ri, q, 1);
        assert(i + 1 == ri * (q + 1) + 0);
        lemma_mul_is_commutative(ri, q + 1);
        lemma_fundamental_div_mod_converse(i + 1, ri, q + 1, 0);
    } else {
        lemma_mul_is_commutative(ri, q);
        lemma_fundamental_div_mod_converse(i + 1, ri, q, m + 1);
    }
}
proof fn lemma_skip_sub(d: Seq<u8>, o: int, a: int, b: int)
    requires 0 <= o <= a <= b, b - o <= d.skip(o).len(), o <= d.len()
    ensures d.skip(o).subrange(a - o, b - o) == d.subrange(a, b), b <= d.len()
{ assert(d.skip(o).subrange(a - o, b - o) =~= d.subrange(a, b)); }

/// what parse_full / parse_truncated report about the bytes after offset o is what item_is says about the whole payload
proof fn lemma_item_is(d: Seq<u8>, o: int, it: DataBlockParsedItem, e: InternalValue, hk: Seq<u8>, bko: Option<usize>, shared: int, is_restart: bool)
    requires 0 <= o <= d.len(),
        item_matches(it, e, d.skip(o), o, if is_restart { 0 } else { shared }),
        is_restart ==> it.prefix is None,
        !is_restart ==> bko is Some && it.prefix == Some(SliceIndexes(bko->Some_0, (bko->Some_0 + shared) as usize)) && bko->Some_0 + hk.len() <= d.len() && bko->Some_0 + shared <= usize::MAX
            && d.subrange(bko->Some_0 as int, bko->Some_0 + hk.len()) == hk && 0 <= shared <= hk.len() && shared <= ukey(e).len() && hk.subrange(0, shared) == ukey(e).subrange(0, shared),
    ensures item_is(it, e, d)
{
    let k = ukey(e);
    let sh = if is_restart { 0 } else { shared };
    lemma_skip_sub(d, o, it.key.0 as int, it.key.1 as int);
    if it.value is Some { lemma_skip_sub(d, o, it.value->Some_0.0 as int, it.value->Some_0.1 as int); }
    assert(k.subrange(0, sh) + k.skip(sh) =~= k);
    if !is_restart {
        let kp = bko->Some_0 as int;
        assert(d.subrange(kp, kp + sh) =~= d.subrange(kp, kp + hk.len()).subrange(0, sh));
    } else {
        assert(k.skip(0) =~= k);
        assert(Seq::<u8>::empty() + d.subrange(it.key.0 as int, it.key.1 as int) =~= d.subrange(it.key.0 as int, it.key.1 as int));
    }
}

impl<'a> Decoder<'a> {
//@ FROM src/table/block/decoder.rs :: impl < Item : Decodable < Parsed > , Parsed : ParsedItem < Item > > Iterator for Decoder < '_ , Item , Parsed > :: fn next :: OBL C12.17
//@ SUBST `Self :: Item` ==> `DataBlockParsedItem`
//@ SUBST `Cursor :: new ( unsafe { self . block . data . get_unchecked ( self . lo_scanner . offset .. ) } )` ==> `self.block.data.cursor_from(self.lo_scanner.offset)`
//@ SUBST `let item = Self :: parse_current_item ( $1 ) . inspect ( | item | { $2 } ) ;` ==> `let item = match Self::parse_current_item($1 Ghost(oe), Ghost(shared), Ghost(tail)) { Some(item) => { { $2 } Some(item) } None => None };`
    fn next(&mut self/*+*/, Ghost(items): Ghost<Seq<InternalValue>>, Ghost(i): Ghost<int>, Ghost(rest): Ghost<Seq<u8>>, Ghost(b): Ghost<int>/*-*/) -> /*+*/(r:/*-*/ Option<DataBlockParsedItem>/*+*/)
        requires block_is(old(self).d(), items, old(self).restart_interval as int, rest), 0 <= i <= b <= items.len(), old(self).at(items, i), old(self).hi_lim(items, b), old(self).d().len() <= usize::MAX / 4
        ensures final(self).block == old(self).block, final(self).restart_interval == old(self).restart_interval, final(self).hi_scanner == old(self).hi_scanner,
            // the trailer marker, or the position the back scanner has reached, ends the scan
            i == b ==> r is None,
            // otherwise exactly entry i is yielded (type, seqno, full key = shared prefix of the base key ++ rest, value) and the scanner stands before entry i + 1
            i < b ==> r is Some && item_is(r->Some_0, items[i], old(self).d()) && final(self).at(items, i + 1),/*-*/
    {
        /*+*/proof { if i < b { lemma_body_strict(items, i, b, self.restart_interval as int); } }
        let ghost d = self.d(); let ghost ri = self.restart_interval as int;
        let ghost oe = if i < items.len() { Some(items[i]) } else { None };
        let ghost hk = ukey(items[base_of(i, ri)]);
        let ghost shared = if i < items.len() { lspl(hk, ukey(items[i])) } else { 0 };
        let ghost tail = d.skip(body(items, i + 1, ri).len() as int);
        let ghost o = self.lo_scanner.offset as int;
        proof {
            lemma_at(d, items, ri, rest, i);
            lemma_mod_step(i, ri);
            if i < items.len() { lemma_lspl_prefix(hk, ukey(items[i])); }
            assert(d.skip(o).skip(0) =~= d.skip(o));
            if i == items.len() { assert(d.skip(o)[0] == d[o]); }
        }/*-*/
        if self.hi_scanner.base_key_offset.is_some()
            && self.lo_scanner.offset >= self.hi_scanner.offset
        {
            return None;
        }

        let is_restart: bool = self.lo_scanner.remaining_in_interval == 0;

        let mut reader =
            self.block.data.cursor_from(self.lo_scanner.offset);

        let item = match Self::parse_current_item(
            &mut reader,
            self.lo_scanner.offset,
            self.lo_scanner.base_key_offset,
            is_restart,
        Ghost(oe), Ghost(shared), Ghost(tail)) { Some(item) => { {
            self.lo_scanner.offset += reader.position() as usize;

            if is_restart {
                self.lo_scanner.base_key_offset = Some(item.key_offset());
            }
        } Some(item) } None => None };

        if is_restart {
            self.lo_scanner.remaining_in_interval = usize::from(self.restart_interval) - 1;
        } else {
            self.lo_scanner.remaining_in_interval -= 1;
        }

        /*+*/proof {
            if i < items.len() {
                lemma_item_is(d, o, item->Some_0, items[i], hk, old(self).lo_scanner.base_key_offset, shared, is_restart);
            }
        }/*-*/
        item
    }
//@ END
}


// ---------------- block decoder: backward scan ----------------
/// entry p * ri + j of interval p (0 <= j < ri): its position inside the interval and its restart head
proof fn lemma_interval(p: int, j: int, ri: int)
    requires p >= 0, 0 <= j < ri
    ensures (p * ri + j) % ri == j, base_of(p * ri + j, ri) == p * ri, p * ri >= 0
{
    lemma_mul_is_commutative(p, ri);
    lemma_fundamental_div_mod_converse(p * ri + j, ri, p, j);
    assert(p * ri >= 0) by (nonlinear_arith) requires p >= 0, ri >= 1;
}
/// h restart intervals cover n entries: (h - 1) * ri < n <= h * ri
spec fn heads_cover(n: int, ri: int, h: int) -> bool { if n == 0 { h == 0 } else { h >= 1 && (h - 1) * ri < n <= h * ri } }
/// number of entries of interval p
spec fn isize_(n: int, ri: int, p: int) -> int { if (p + 1) * ri <= n { ri } else { n - p * ri } }
proof fn lemma_isize(n: int, ri: int, h: int, p: int)
    requires heads_cover(n, ri, h), 0 <= p < h, ri >= 1
    ensures p * ri < n, 1 <= isize_(n, ri, p) <= ri, p * ri + isize_(n, ri, p) <= n, p < h - 1 ==> isize_(n, ri, p) == ri, p == h - 1 ==> p * ri + isize_(n, ri, p) == n, p * ri >= 0
{
    assert(p * ri <= (h - 1) * ri) by (nonlinear_arith) requires p <= h - 1, ri >= 1;
    assert((p + 1) * ri == p * ri + ri) by (nonlinear_arith);
    assert(p * ri >= 0) by (nonlinear_arith) requires p >= 0, ri >= 1;
    if p < h - 1 { assert((p + 1) * ri <= (h - 1) * ri) by (nonlinear_arith) requires p + 1 <= h - 1, ri >= 1; }
    if p == h - 1 { assert(h * ri == (h - 1) * ri + ri) by (nonlinear_arith); }
}
impl<'a> Decoder<'a> {
    /// the back scanner holds the offsets of the first m entries of interval p on its stack (m > 0 ==> its base key is that interval's head)
    spec fn hi_ok(&self, items: Seq<InternalValue>, p: int, m: int) -> bool {
        let ri = self.restart_interval as int;
        &&& p >= 0 && self.hi_scanner.ptr_idx == p && self.hi_scanner.stack@.len() == m && 0 <= m <= ri && p * ri + m <= items.len()
        &&& forall|j: int| 0 <= j < m ==> (#[trigger] self.hi_scanner.stack@[j]) == body(items, p * ri + j, ri).len()
        &&& m > 0 ==> self.hi_scanner.base_key_offset is Some && ({
                let kp = self.hi_scanner.base_key_offset->Some_0 as int; let hk = ukey(items[p * ri]);
                kp + hk.len() <= self.d().len() && self.d().subrange(kp, kp + hk.len()) == hk })
    }

//@ FROM src/table/block/decoder.rs :: impl < 'a , Item : Decodable < Parsed > , Parsed : ParsedItem < Item > > Decoder < 'a , Item , Parsed > :: fn consume_stack_top :: OBL C12.26, C03.17
//@ SUBST `Option < Parsed >` ==> `Option<DataBlockParsedItem>`
//@ SUBST `Cursor :: new ( unsafe { self . block . data . get_unchecked ( offset .. ) } )` ==> `self.block.data.cursor_from(offset)`
//@ SUBST `Self :: parse_current_item ( $1 )` ==> `Self::parse_current_item($1 Ghost(oe), Ghost(shared), Ghost(tail))`
    fn consume_stack_top(&mut self/*+*/, Ghost(items): Ghost<Seq<InternalValue>>, Ghost(rest): Ghost<Seq<u8>>, Ghost(p): Ghost<int>, Ghost(m): Ghost<int>, Ghost(fr): Ghost<int>/*-*/) -> /*+*/(r:/*-*/ Option<DataBlockParsedItem>/*+*/)
        requires block_is(old(self).d(), items, old(self).restart_interval as int, rest), old(self).hi_scanner.stack@.len() == m, m > 0 ==> old(self).hi_ok(items, p, m),
            0 <= fr <= items.len(), old(self).lo_scanner.offset == body(items, fr, old(self).restart_interval as int).len(), old(self).d().len() <= usize::MAX / 4
        ensures final(self).block == old(self).block, final(self).restart_interval == old(self).restart_interval, final(self).lo_scanner == old(self).lo_scanner,
            // nothing on the stack: nothing happens
            m == 0 ==> r is None && final(self).hi_scanner.ptr_idx == old(self).hi_scanner.ptr_idx && final(self).hi_scanner.stack@ == old(self).hi_scanner.stack@
                && final(self).hi_scanner.base_key_offset == old(self).hi_scanner.base_key_offset && final(self).hi_scanner.offset == old(self).hi_scanner.offset,
            // otherwise the last stacked entry of the interval leaves the stack, and is yielded unless the front scanner has already passed it
            m > 0 ==> final(self).hi_ok(items, p, m - 1) && final(self).hi_scanner.base_key_offset == old(self).hi_scanner.base_key_offset
                && (p * old(self).restart_interval + m - 1 >= fr ==> r is Some && item_is(r->Some_0, items[p * old(self).restart_interval + m - 1], old(self).d())
                        && final(self).hi_scanner.offset == body(items, p * old(self).restart_interval + m - 1, old(self).restart_interval as int).len())
                && (p * old(self).restart_interval + m - 1 < fr ==> r is None),/*-*/
    {
        /*+*/let ghost d = self.d(); let ghost ri = self.restart_interval as int; let ghost i = p * ri + m - 1;
        let ghost hk = ukey(items[p * ri]);
        let ghost oe = if m > 0 { Some(items[i]) } else { None };
        let ghost shared = if m > 0 { lspl(hk, ukey(items[i])) } else { 0 };
        let ghost tail = d.skip(body(items, i + 1, ri).len() as int);
        proof {
            if m > 0 {
                lemma_interval(p, m - 1, ri);
                lemma_at(d, items, ri, rest, i);
                lemma_lspl_prefix(hk, ukey(items[i]));
                let o = body(items, i, ri).len() as int;
                assert(self.hi_scanner.stack@[m - 1] == o);
                if i < fr { lemma_body_strict(items, i, fr, ri); }
                if fr < i { lemma_body_strict(items, fr, i, ri); }
                if fr > 0 { lemma_body_strict(items, 0, fr, ri); }
                assert(body(items, 0, ri).len() == 0);
                assert(d.skip(o).skip(0) =~= d.skip(o));
            }
        }/*-*/
        let offset = self.hi_scanner.stack.pop()?;

        if self.lo_scanner.offset > 0 && offset < self.lo_scanner.offset {
            return None;
        }

        self.hi_scanner.offset = offset;

        let is_restart = self.hi_scanner.stack.is_empty();

        let mut reader = self.block.data.cursor_from(offset);

        /*+*/let r =/*-*/ Self::parse_current_item(
            &mut reader,
            offset,
            self.hi_scanner.base_key_offset,
            is_restart,
        Ghost(oe), Ghost(shared), Ghost(tail))/*+*/;
        proof { lemma_item_is(d, offset as int, r->Some_0, items[i], hk, self.hi_scanner.base_key_offset, shared, is_restart); }
        r/*-*/
    }
//@ END
}

/// binary_index::Reader over the block (unit binary_index, C12.22): pointer i is the offset at which restart head i was written
/// (Encoder::write records the writer length at every head, C12.17)
struct BinaryIndexReader { ghost items: Seq<InternalValue>, ghost ri: int, ghost h: int }
impl BinaryIndexReader {
    #[verifier::external_body]
    fn get(&self, idx: usize) -> (r: usize) requires idx < self.h ensures r == body(self.items, idx * self.ri, self.ri).len() { unimplemented!() }
}
impl<'a> Decoder<'a> {
    /// get_binary_index_reader (trailer fields: unit trailer_rt, C12.23)
    #[verifier::external_body]
    fn get_binary_index_reader(&self, Ghost(items): Ghost<Seq<InternalValue>>, Ghost(h): Ghost<int>) -> (r: BinaryIndexReader)
        ensures r.items == items, r.ri == self.restart_interval as int, r.h == h
    { unimplemented!() }

//@ FROM src/table/block/decoder.rs :: impl < 'a , Item : Decodable < Parsed > , Parsed : ParsedItem < Item > > Decoder < 'a , Item , Parsed > :: fn fill_stack :: OBL C12.26, C03.17
//@ SUBST `self . get_binary_index_reader ( )` ==> `self.get_binary_index_reader(Ghost(items), Ghost(h))`
//@ SUBST `Cursor :: new ( unsafe { self . block . data . get_unchecked ( offset .. ) } )` ==> `self.block.data.cursor_from(offset)`
//@ SUBST `if Item :: parse_full ( & mut reader , offset ) . inspect ( | item | { $1 } ) . is_some ( ) {` ==> `if (match InternalValue::parse_full(&mut reader, offset, Ghost(oe0), Ghost(tail0)) { Some(item) => { { $1 } true } None => false }) {`
//@ SUBST `if Item :: parse_truncated ( & mut reader , offset , self . hi_scanner . base_key_offset . expect ( "should exist" ) , ) . inspect ( | _ | { $1 } ) . is_some ( ) {` ==> `if (match InternalValue::parse_truncated(&mut reader, offset, self.hi_scanner.base_key_offset.expect("should exist"), Ghost(oe), Ghost(shared), Ghost(tail)) { Some(item__) => { { $1 } true } None => false }) {`
//@ SUBST `for _ in 1 .. self . restart_interval {` ==> `let mut i__ = 1u8; loop { if i__ >= self.restart_interval { break; } i__ += 1;`
    fn fill_stack(&mut self/*+*/, Ghost(items): Ghost<Seq<InternalValue>>, Ghost(rest): Ghost<Seq<u8>>, Ghost(h): Ghost<int>)
        requires block_is(old(self).d(), items, old(self).restart_interval as int, rest), heads_cover(items.len() as int, old(self).restart_interval as int, h),
            old(self).hi_scanner.ptr_idx < h, old(self).hi_scanner.stack@.len() == 0, old(self).d().len() <= usize::MAX / 4,
        ensures final(self).block == old(self).block, final(self).restart_interval == old(self).restart_interval, final(self).lo_scanner == old(self).lo_scanner,
            // the whole restart interval is on the stack
            final(self).hi_ok(items, old(self).hi_scanner.ptr_idx as int, isize_(items.len() as int, old(self).restart_interval as int, old(self).hi_scanner.ptr_idx as int)),
            final(self).hi_scanner.offset == body(items, old(self).hi_scanner.ptr_idx * old(self).restart_interval + isize_(items.len() as int, old(self).restart_interval as int, old(self).hi_scanner.ptr_idx as int), old(self).restart_interval as int).len(/*-*/)/*+*/,/*-*/
    {
        /*+*/let ghost d = self.d(); let ghost ri = self.restart_interval as int; let ghost p = self.hi_scanner.ptr_idx as int; let ghost n = items.len() as int;
        let ghost hk = ukey(items[p * ri]);
        proof { lemma_isize(n, ri, h, p); lemma_interval(p, 0, ri); lemma_at(d, items, ri, rest, p * ri); }/*-*/
        let binary_index = self.get_binary_index_reader(Ghost(items), Ghost(h));

        {
            self.hi_scanner.offset = binary_index.get(self.hi_scanner.ptr_idx);

            let offset = self.hi_scanner.offset;
            /*+*/let ghost oe0 = Some(items[p * ri]); let ghost tail0 = d.skip(body(items, p * ri + 1, ri).len() as int);
            proof { assert(d.skip(offset as int).skip(0) =~= d.skip(offset as int)); }/*-*/

            let mut reader = self.block.data.cursor_from(offset);

            if (match InternalValue::parse_full(&mut reader, offset, Ghost(oe0), Ghost(tail0)) { Some(item) => { {
                    self.hi_scanner.offset += reader.position() as usize;
                    self.hi_scanner.base_key_offset = Some(item.key_offset());
                    /*+*/proof { lemma_skip_sub(d, offset as int, item.key.0 as int, item.key.1 as int); assert(hk.skip(0) =~= hk); }/*-*/
                } true } None => false })
            {
                self.hi_scanner.stack.push(offset);
            }
        }

        let mut i__ = 1u8; loop
            /*+*/invariant_except_break
                1 <= i__ <= ri, i__ == self.hi_scanner.stack@.len(),
                self.hi_ok(items, p, i__ as int),
                self.hi_scanner.offset == body(items, p * ri + i__, ri).len(),
            invariant self.block == old(self).block, self.restart_interval == old(self).restart_interval, self.lo_scanner == old(self).lo_scanner,
                d == self.d(), ri == self.restart_interval as int, ri >= 1, n == items.len(), p >= 0, p * ri < n, block_is(d, items, ri, rest), d.len() <= usize::MAX / 4, hk == ukey(items[p * ri]),
            ensures self.hi_ok(items, p, isize_(n, ri, p)), self.hi_scanner.offset == body(items, p * ri + isize_(n, ri, p), ri).len(),
            decreases ri - i__/*-*/
        { if i__ >= self.restart_interval { /*+*/proof { assert((p + 1) * ri == p * ri + ri) by (nonlinear_arith); }/*-*/ break; }
            /*+*/let ghost c = i__ as int;/*-*/
            i__ += 1;
            let offset = self.hi_scanner.offset;
            /*+*/let ghost oe = if p * ri + c < n { Some(items[p * ri + c]) } else { None };
            let ghost shared = if p * ri + c < n { lspl(hk, ukey(items[p * ri + c])) } else { 0 };
            let ghost tail = d.skip(body(items, p * ri + c + 1, ri).len() as int);
            proof {
                lemma_interval(p, c, ri);
                lemma_at(d, items, ri, rest, p * ri + c);
                if p * ri + c < n { lemma_lspl_prefix(hk, ukey(items[p * ri + c])); }
                assert(d.skip(offset as int).skip(0) =~= d.skip(offset as int));
                if p * ri + c == n { assert(d.skip(offset as int)[0] == d[offset as int]); }
            }/*-*/

            let mut reader = self.block.data.cursor_from(offset);

            if (match InternalValue::parse_truncated(&mut reader, offset, self.hi_scanner.base_key_offset.expect("should exist"), Ghost(oe), Ghost(shared), Ghost(tail)) { Some(item__) => { {
                    self.hi_scanner.offset += reader.position() as usize;
                } true } None => false })
            {
                self.hi_scanner.stack.push(offset);
            } else {
                /*+*/proof { assert((p + 1) * ri == p * ri + ri) by (nonlinear_arith); }/*-*/
                break;
            }
        }
        /*+*/proof { assert((p + 1) * ri == p * ri + ri) by (nonlinear_arith); }/*-*/
    }
//@ END
}

impl<'a> Decoder<'a> {
    /// b entries have not yet been yielded from the back: the next one is entry b - 1
    spec fn back_at(&self, items: Seq<InternalValue>, h: int, b: int) -> bool {
        let ri = self.restart_interval as int; let m = self.hi_scanner.stack@.len() as int; let n = items.len() as int;
        &&& (self.hi_scanner.base_key_offset is Some ==> self.hi_scanner.offset == body(items, b, ri).len())
        &&& (self.hi_scanner.base_key_offset is None ==> self.hi_scanner.ptr_idx == h && m == 0)
        &&& if m > 0 { exists|p: int| #[trigger] self.hi_ok(items, p, m) && 0 <= p < h && b == p * ri + m }
        else if self.hi_scanner.ptr_idx == usize::MAX { b == 0 }
        // nothing taken yet (Decoder::new points behind the last interval), or interval ptr_idx fully consumed
        else if self.hi_scanner.ptr_idx == h { b == n }
        else { self.hi_scanner.ptr_idx < h && b == self.hi_scanner.ptr_idx * ri }
    }

//@ FROM src/table/block/decoder.rs :: impl < Item : Decodable < Parsed > , Parsed : ParsedItem < Item > > DoubleEndedIterator for Decoder < '_ , Item , Parsed > :: fn next_back :: OBL C12.26, C03.17
//@ SUBST `Self :: Item` ==> `DataBlockParsedItem`
//@ SUBST `self . consume_stack_top ( )` ==> `self.consume_stack_top(Ghost(items), Ghost(rest), Ghost(gp), Ghost(gm), Ghost(fr))`
//@ SUBST `self . fill_stack ( )` ==> `self.fill_stack(Ghost(items), Ghost(rest), Ghost(h))`
    fn next_back(&mut self/*+*/, Ghost(items): Ghost<Seq<InternalValue>>, Ghost(rest): Ghost<Seq<u8>>, Ghost(h): Ghost<int>, Ghost(b): Ghost<int>, Ghost(fr): Ghost<int>/*-*/) -> /*+*/(r:/*-*/ Option<DataBlockParsedItem>/*+*/)
        requires block_is(old(self).d(), items, old(self).restart_interval as int, rest), heads_cover(items.len() as int, old(self).restart_interval as int, h), h < usize::MAX,
            old(self).back_at(items, h, b), 0 <= fr <= b <= items.len(), old(self).lo_scanner.offset == body(items, fr, old(self).restart_interval as int).len(), old(self).d().len() <= usize::MAX / 4,
            // the call made when the two scanners have just crossed inside a stacked interval (nothing remains but stale offsets are stacked) is not specified
            b > fr || old(self).hi_scanner.stack@.len() == 0,
        ensures final(self).block == old(self).block, final(self).restart_interval == old(self).restart_interval, final(self).lo_scanner == old(self).lo_scanner,
            // the entries [fr, b) remain; when they are used up the scan ends
            b == fr ==> r is None,
            // otherwise exactly entry b - 1 is yielded and [fr, b - 1) remain
            b > fr ==> r is Some && item_is(r->Some_0, items[b - 1], old(self).d()) && final(self).back_at(items, h, b - 1),/*-*/
    {
        /*+*/let ghost ri = self.restart_interval as int; let ghost n = items.len() as int;
        let ghost mut gm = self.hi_scanner.stack@.len() as int;
        let ghost mut gp: int = if gm > 0 { choose|p: int| #[trigger] self.hi_ok(items, p, gm) && 0 <= p < h && b == p * ri + gm } else { 0 };
        proof { if gm > 0 { lemma_interval(gp, gm - 1, ri); } }/*-*/
        if let Some(top) = self.consume_stack_top(Ghost(items), Ghost(rest), Ghost(gp), Ghost(gm), Ghost(fr)) {
            /*+*/proof {
                // the interval still has entries on the stack, or is now fully consumed
                if gm - 1 > 0 { assert(self.hi_ok(items, gp, gm - 1)); }
            }/*-*/
            return Some(top);
        }

        // NOTE: If we wrapped, we are at the end
        // This is safe to do, because there cannot be that many restart intervals
        if self.hi_scanner.ptr_idx == usize::MAX {
            return None;
        }

        self.hi_scanner.ptr_idx = self.hi_scanner.ptr_idx.wrapping_sub(1);

        // NOTE: If we wrapped, we are at the end
        // This is safe to do, because there cannot be that many restart intervals
        if self.hi_scanner.ptr_idx == usize::MAX {
            /*+*/proof { assert(old(self).hi_scanner.stack@.len() == 0); assert(old(self).hi_scanner.ptr_idx == 0); assert(0 * ri == 0); }/*-*/
            return None;
        }

        /*+*/let ghost ptr0 = old(self).hi_scanner.ptr_idx as int;
        proof {
            assert(old(self).hi_scanner.stack@.len() == 0);
            assert(ptr0 > 0 && self.hi_scanner.ptr_idx == ptr0 - 1);
            assert(self.hi_scanner.ptr_idx < h);
            lemma_isize(n, ri, h, self.hi_scanner.ptr_idx as int);
            assert((ptr0 - 1) * ri + ri == ptr0 * ri) by (nonlinear_arith);
        }/*-*/
        self.fill_stack(Ghost(items), Ghost(rest), Ghost(h));
        /*+*/proof {
            gp = self.hi_scanner.ptr_idx as int; gm = isize_(n, ri, gp); lemma_interval(gp, gm - 1, ri);
            assert(gp * ri + gm == b);
        }

        let r =/*-*/ self.consume_stack_top(Ghost(items), Ghost(rest), Ghost(gp), Ghost(gm), Ghost(fr))/*+*/;
        proof { if gm - 1 > 0 { assert(self.hi_ok(items, gp, gm - 1)); } if b > fr { assert(self.back_at(items, h, b - 1)); } }
        r/*-*/
    }
//@ END
}

/// `data.get(a..b)` on a byte slice
#[verifier::external_body]
fn slice_get_range<'a>(data: &'a [u8], a: usize, b: usize) -> (r: Option<&'a [u8]>)
    ensures a <= b <= data@.len() ==> r is Some && r->Some_0@ == data@.subrange(a as int, b as int), !(a <= b <= data@.len()) ==> r is None
{ unimplemented!() }
impl InternalValue {
//@ FROM src/table/data_block/mod.rs :: impl Decodable < DataBlockParsedItem > for InternalValue :: fn parse_restart_key :: OBL C12.17
//@ SUBST `& mut Cursor < & [ u8 ] >` ==> `&mut Cursor`
//@ SUBST `data . get ( key_start .. ( key_start + key_len ) )` ==> `slice_get_range(data, key_start, key_start + key_len)`
    fn parse_restart_key<'a>(
        reader: &mut Cursor,
        offset: usize,
        data: &'a [u8]/*+*/,
        Ghost(oe): Ghost<Option<InternalValue>>, Ghost(tail): Ghost<Seq<u8>>/*-*/,
    ) -> /*+*/(r:/*-*/ Option<(&'a [u8], SeqNo)>/*+*/)
        requires old(reader).pos == 0, offset <= data@.len() <= usize::MAX / 2, old(reader).data == data@.skip(offset as int),
            oe is Some ==> fits(oe->Some_0) && old(reader).rest() == full_bytes(oe->Some_0) + tail,
            oe is None ==> old(reader).data.len() > 0 && old(reader).data[0] == TRAILER_START_MARKER,
        ensures oe is None ==> r is None,
            // the key and seqno of the restart head stored at `offset`
            oe is Some ==> r is Some && r->Some_0.0@ == ukey(oe->Some_0) && r->Some_0.1 == oe->Some_0.key.seqno,/*-*/
    {
        /*+*/let ghost e = oe->Some_0;
        let ghost d = reader.data;
        let ghost k = ukey(e); let ghost vp = value_part(e);
        let ghost t = seq![tag(e.key.value_type)]; let ghost s64 = var64(e.key.seqno); let ghost kl = var16(k.len() as u16);
        proof {
            if oe is Some {
                assert(full_bytes(e) + tail =~= t + (s64 + (kl + (k + (vp + tail)))));
                lemma_advance(d, 0, t, s64 + (kl + (k + (vp + tail))));
                assert(d[0] == d.subrange(0, 1)[0]);
            }
        }/*-*/
        let value_type = unwrap!(reader.read_u8());

        if value_type == TRAILER_START_MARKER {
            return None;
        }

        let seqno = unwrap!(reader.read_u64_varint());
        /*+*/proof { lemma_advance(d, 1, s64, kl + (k + (vp + tail))); }/*-*/

        let key_len: usize = unwrap!(reader.read_u16_varint()).into();
        /*+*/proof { lemma_advance(d, 1int + s64.len(), kl, k + (vp + tail)); }/*-*/
        let key_start = offset + reader.position() as usize;
        let key_len_i64 = key_len as i64;
        /*+*/let ghost pk = reader.pos;/*-*/
        unwrap!(reader.seek_relative(key_len_i64));
        /*+*/proof { lemma_advance(d, pk, k, vp + tail); lemma_skip_sub(data@, offset as int, offset + pk, offset + pk + k.len()); }/*-*/

        let key = slice_get_range(data, key_start, key_start + key_len);

        key.map(|k/*+*/: &'a [u8]/*-*/| /*+*/-> (o: (&'a [u8], SeqNo)) ensures o.0@ == k@ && o.1 == seqno {/*-*/ (k, seqno) /*+*/}/*-*/)
    }
//@ END
}

struct DataBlock { inner: Block }
proof fn lemma_body_mono(items: Seq<InternalValue>, k: int, n: int, ri: int)
    requires 0 <= k <= n
    ensures body(items, k, ri).len() <= body(items, n, ri).len()
    decreases n - k
{ if k < n { lemma_body_mono(items, k, n - 1, ri); } }
impl DataBlock {
//@ FROM src/table/data_block/mod.rs :: impl DataBlock :: fn encode_into :: OBL C12.17
//@ SUBST `Encoder :: < '_ , ( ) , InternalValue > :: new` ==> `Encoder::new`
//@ SUBST `. key . user_key ;` ==> `.key.user_key.as_bytes();`
//@ SUBST `for item in items` ==> `for item in items.iter()`
    fn encode_into(
        writer: &mut Vec<u8>,
        items: &[InternalValue],
        restart_interval: u8,
        hash_index_ratio: f32,
    ) -> /*+*/(r:/*-*/ Result<(), Error>/*+*/)
        requires items@.len() > 0, restart_interval >= 1, forall|i: int| 0 <= i < items@.len() ==> fits(#[trigger] items@[i]),
            // 'blocks do not even come close to 4 GiB in size'
            old(writer)@.len() + body(items@, items@.len() as int, restart_interval as int).len() <= u32::MAX,
        ensures
            // the payload is laid out exactly as the decoder's forward scan expects it
            r is Ok ==> exists|rest: Seq<u8>| final(writer)@ == old(writer)@ + body(items@, items@.len() as int, restart_interval as int) + seq![TRAILER_START_MARKER] + rest/*-*/
    {
        /*+*/let ghost ri = restart_interval as int; let ghost w0 = writer@; let ghost fw = *final(writer);/*-*/
        let first_key = &items
            .first()
            .expect("chunk should not be empty")
            .key.user_key.as_bytes();

        let mut serializer = Encoder::new(
            writer,
            items.len(),
            restart_interval,
            hash_index_ratio,
            first_key,
        );

        for item in /*+*/it__:/*-*/ items.iter()
            /*+*/invariant it__.seq().len() == items@.len(), items@.len() <= usize::MAX, forall|k: int| 0 <= k < items@.len() ==> *(#[trigger] it__.seq()[k]) == items@[k], ri == restart_interval as int, ri >= 1, w0 == old(writer)@,
                forall|i: int| 0 <= i < items@.len() ==> fits(#[trigger] items@[i]),
                w0.len() + body(items@, items@.len() as int, ri).len() <= u32::MAX,
                *final(serializer.writer) == fw,
                serializer.item_count == it__.index@, serializer.restart_interval == restart_interval,
                serializer.restart_count <= serializer.item_count, serializer.item_count > 0 ==> serializer.restart_count > 0,
                serializer.writer@ == w0 + body(items@, it__.index@, ri),
                it__.index@ % ri != 0 ==> serializer.base_key@ == ukey(items@[base_of(it__.index@, ri)]),/*-*/
        {
            /*+*/proof {
                lemma_body_mono(items@, it__.index@ as int, items@.len() as int, ri);
                assert(0 <= it__.index@ < items@.len());
                assert(*item == items@[it__.index@ as int]);
                assert(fits(*item));
                assert(serializer.item_count < usize::MAX);
                assert(serializer.restart_count < usize::MAX);
                assert(serializer.writer@.len() == w0.len() + body(items@, it__.index@ as int, ri).len());
                assert(serializer.writer@.len() <= u32::MAX);
                lemma_body_mono(items@, it__.index@ as int, items@.len() as int, ri);
                lemma_mod_step(it__.index@ as int, ri);
                assert(w0 + body(items@, it__.index@ + 1, ri) =~= (w0 + body(items@, it__.index@, ri)) + code(items@, it__.index@, ri));
            }/*-*/
            serializer.write(item)?;
        }

        serializer.finish()
    }
//@ END
}
}
fn main() {}
