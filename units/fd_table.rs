//@ UNIT fd_table
// descriptor_table.rs (whole) and FileAccessor::{access_for_table, insert_for_table, access_for_blob_file,
// insert_for_blob_file}: file descriptors are filed under (kind, tree id, file id).  Obligation C11.6
use vstd::prelude::*;
use std::sync::Arc;
verus! {

pub type TreeId = u64;
pub type TableId = u64;

/// quick_cache::sync::Cache (TRUSTED model, rule R15): a concurrent map with eviction behind `&self`; its content is
/// the ghost token `fx` = everything inserted and not removed.  `get` may miss (eviction) but never invents an item.
#[verifier::external_body]
#[verifier::reject_recursive_types(K)]
#[verifier::reject_recursive_types(V)]
pub struct QuickCache<K, V> { p: core::marker::PhantomData<(K, V)> }
pub struct CacheState<K, V> { pub ghost map: Map<K, V> }
impl<K, V> QuickCache<K, V> {
    #[verifier::external_body]
    fn get(&self, key: &K, Tracked(fx): Tracked<&mut CacheState<K, V>>) -> (r: Option<V>)
        ensures *final(fx) == *old(fx), r is Some ==> old(fx).map.contains_key(*key) && r->Some_0 == old(fx).map[*key]
    { unimplemented!() }
    #[verifier::external_body]
    fn insert(&self, key: K, value: V, Tracked(fx): Tracked<&mut CacheState<K, V>>)
        ensures final(fx).map == old(fx).map.insert(key, value)
    { unimplemented!() }
    #[verifier::external_body]
    fn remove(&self, key: &K, Tracked(fx): Tracked<&mut CacheState<K, V>>)
        ensures final(fx).map == old(fx).map.remove(*key)
    { unimplemented!() }
}
#[verifier::external_body] pub struct File { p: u8 }

//@ FROM src/table/id.rs :: - :: struct GlobalTableId
/*+*/#[derive(Copy, Clone, PartialEq, Eq, Structural)]/*-*/
struct GlobalTableId(TreeId, TableId);
//@ END
impl GlobalTableId {
//@ FROM src/table/id.rs :: impl GlobalTableId :: fn tree_id :: OBL C11.6
    fn tree_id(&self) -> /*+*/(r:/*-*/ TreeId/*+*/) ensures r == self.0/*-*/ {
        self.0
    }
//@ END
//@ FROM src/table/id.rs :: impl GlobalTableId :: fn table_id :: OBL C11.6
    fn table_id(&self) -> /*+*/(r:/*-*/ TableId/*+*/) ensures r == self.1/*-*/ {
        self.1
    }
//@ END
}

const TAG_BLOCK: u8 = 0;
const TAG_BLOB: u8 = 1;
type Item = Arc<File>;

//@ FROM src/descriptor_table.rs :: - :: struct CacheKey
/*+*/pub/*-*/ struct CacheKey(/*+*/pub/*-*/ u8, /*+*/pub/*-*/ u64, /*+*/pub/*-*/ u64);
//@ END

//@ FROM src/descriptor_table.rs :: - :: struct DescriptorTable
//@ SUBST `QuickCache < CacheKey , Item , UnitWeighter , rustc_hash :: FxBuildHasher >` ==> `QuickCache<CacheKey, Item>`
struct DescriptorTable {
    inner: QuickCache<CacheKey, Item>,
}
//@ END

/// the key a table file / a blob file descriptor is filed under: kind tag, tree id, file id - injective in all three
spec fn table_key(id: GlobalTableId) -> CacheKey { CacheKey(0, id.0, id.1) }
spec fn blob_file_key(id: GlobalTableId) -> CacheKey { CacheKey(1, id.0, id.1) }

//@ SUBST `self . inner . get ( $1 )` ==> `self.inner.get($1, Tracked(fx))`
//@ SUBST `self . inner . insert ( $1 )` ==> `self.inner.insert($1, Tracked(fx))`
//@ SUBST `self . inner . remove ( $1 )` ==> `self.inner.remove($1, Tracked(fx))`
impl DescriptorTable {
//@ FROM src/descriptor_table.rs :: impl DescriptorTable :: fn access_for_table :: OBL C11.6
    fn access_for_table(&self, id: &GlobalTableId/*+*/, Tracked(fx): Tracked<&mut CacheState<CacheKey, Item>>/*-*/) -> /*+*/(r:/*-*/ Option<Arc<File>>/*+*/)
        ensures *final(fx) == *old(fx), r is Some ==> old(fx).map.contains_key(table_key(*id)) && r->Some_0 == old(fx).map[table_key(*id)]/*-*/
    {
        let key = CacheKey(TAG_BLOCK, id.tree_id(), id.table_id());
        self.inner.get(&key, Tracked(fx))
    }
//@ END
//@ FROM src/descriptor_table.rs :: impl DescriptorTable :: fn insert_for_table :: OBL C11.6
    fn insert_for_table(&self, id: GlobalTableId, item: Item/*+*/, Tracked(fx): Tracked<&mut CacheState<CacheKey, Item>>)
        ensures final(fx).map == old(fx).map.insert(table_key(id), item/*-*/)
    {
        let key = CacheKey(TAG_BLOCK, id.tree_id(), id.table_id());
        self.inner.insert(key, item, Tracked(fx));
    }
//@ END
//@ FROM src/descriptor_table.rs :: impl DescriptorTable :: fn access_for_blob_file :: OBL C11.6
    fn access_for_blob_file(&self, id: &GlobalTableId/*+*/, Tracked(fx): Tracked<&mut CacheState<CacheKey, Item>>/*-*/) -> /*+*/(r:/*-*/ Option<Arc<File>>/*+*/)
        ensures *final(fx) == *old(fx), r is Some ==> old(fx).map.contains_key(blob_file_key(*id)) && r->Some_0 == old(fx).map[blob_file_key(*id)]/*-*/
    {
        let key = CacheKey(TAG_BLOB, id.tree_id(), id.table_id());
        self.inner.get(&key, Tracked(fx))
    }
//@ END
//@ FROM src/descriptor_table.rs :: impl DescriptorTable :: fn insert_for_blob_file :: OBL C11.6
    fn insert_for_blob_file(&self, id: GlobalTableId, item: Item/*+*/, Tracked(fx): Tracked<&mut CacheState<CacheKey, Item>>)
        ensures final(fx).map == old(fx).map.insert(blob_file_key(id), item/*-*/)
    {
        let key = CacheKey(TAG_BLOB, id.tree_id(), id.table_id());
        self.inner.insert(key, item, Tracked(fx));
    }
//@ END
//@ FROM src/descriptor_table.rs :: impl DescriptorTable :: fn remove_for_table :: OBL C11.6
    fn remove_for_table(&self, id: &GlobalTableId/*+*/, Tracked(fx): Tracked<&mut CacheState<CacheKey, Item>>)
        ensures final(fx).map == old(fx).map.remove(table_key(*id)/*-*/)
    {
        let key = CacheKey(TAG_BLOCK, id.tree_id(), id.table_id());
        self.inner.remove(&key, Tracked(fx));
    }
//@ END
//@ FROM src/descriptor_table.rs :: impl DescriptorTable :: fn remove_for_blob_file :: OBL C11.6
    fn remove_for_blob_file(&self, id: &GlobalTableId/*+*/, Tracked(fx): Tracked<&mut CacheState<CacheKey, Item>>)
        ensures final(fx).map == old(fx).map.remove(blob_file_key(*id)/*-*/)
    {
        let key = CacheKey(TAG_BLOB, id.tree_id(), id.table_id());
        self.inner.remove(&key, Tracked(fx));
    }
//@ END
}

//@ FROM src/file_accessor.rs :: - :: enum FileAccessor
enum FileAccessor {
    File(Arc<File>),

    DescriptorTable(Arc<DescriptorTable>),
}
//@ END

//@ SUBST `descriptor_table . access_for_table ( $1 )` ==> `descriptor_table.access_for_table($1, Tracked(fx))`
//@ SUBST `descriptor_table . insert_for_table ( $1 )` ==> `descriptor_table.insert_for_table($1, Tracked(fx))`
//@ SUBST `descriptor_table . access_for_blob_file ( $1 )` ==> `descriptor_table.access_for_blob_file($1, Tracked(fx))`
//@ SUBST `descriptor_table . insert_for_blob_file ( $1 )` ==> `descriptor_table.insert_for_blob_file($1, Tracked(fx))`
impl FileAccessor {
//@ FROM src/file_accessor.rs :: impl FileAccessor :: fn access_for_table :: OBL C11.6
    fn access_for_table(&self, table_id: &GlobalTableId/*+*/, Tracked(fx): Tracked<&mut CacheState<CacheKey, Item>>/*-*/) -> /*+*/(r:/*-*/ Option<Arc<File>>/*+*/)
        ensures *final(fx) == *old(fx),
            r is Some ==> match *self {
                FileAccessor::File(fd) => r->Some_0 == fd,
                FileAccessor::DescriptorTable(_) => old(fx).map.contains_key(table_key(*table_id)) && r->Some_0 == old(fx).map[table_key(*table_id)],
            }/*-*/
    {
        match self {
            Self::File(fd) => Some(fd.clone()),
            Self::DescriptorTable(descriptor_table) => descriptor_table.access_for_table(table_id, Tracked(fx)),
        }
    }
//@ END
//@ FROM src/file_accessor.rs :: impl FileAccessor :: fn insert_for_table :: OBL C11.6
    fn insert_for_table(&self, table_id: GlobalTableId, fd: Arc<File>/*+*/, Tracked(fx): Tracked<&mut CacheState<CacheKey, Item>>)
        ensures match *self {
                FileAccessor::File(_) => *final(fx) == *old(fx),
                FileAccessor::DescriptorTable(_) => final(fx).map == old(fx).map.insert(table_key(table_id), fd/*-*/)/*+*/,
            }/*-*/
    {
        if let Self::DescriptorTable(descriptor_table) = self {
            descriptor_table.insert_for_table(table_id, fd, Tracked(fx));
        }
    }
//@ END
//@ FROM src/file_accessor.rs :: impl FileAccessor :: fn access_for_blob_file :: OBL C11.6
    fn access_for_blob_file(&self, table_id: &GlobalTableId/*+*/, Tracked(fx): Tracked<&mut CacheState<CacheKey, Item>>/*-*/) -> /*+*/(r:/*-*/ Option<Arc<File>>/*+*/)
        ensures *final(fx) == *old(fx),
            r is Some ==> match *self {
                FileAccessor::File(fd) => r->Some_0 == fd,
                FileAccessor::DescriptorTable(_) => old(fx).map.contains_key(blob_file_key(*table_id)) && r->Some_0 == old(fx).map[blob_file_key(*table_id)],
            }/*-*/
    {
        match self {
            Self::File(fd) => Some(fd.clone()),
            Self::DescriptorTable(descriptor_table) => {
                descriptor_table.access_for_blob_file(table_id, Tracked(fx))
            }
        }
    }
//@ END
//@ FROM src/file_accessor.rs :: impl FileAccessor :: fn insert_for_blob_file :: OBL C11.6
    fn insert_for_blob_file(&self, table_id: GlobalTableId, fd: Arc<File>/*+*/, Tracked(fx): Tracked<&mut CacheState<CacheKey, Item>>)
        ensures match *self {
                FileAccessor::File(_) => *final(fx) == *old(fx),
                FileAccessor::DescriptorTable(_) => final(fx).map == old(fx).map.insert(blob_file_key(table_id), fd/*-*/)/*+*/,
            }/*-*/
    {
        if let Self::DescriptorTable(descriptor_table) = self {
            descriptor_table.insert_for_blob_file(table_id, fd, Tracked(fx));
        }
    }
//@ END
}

/// C11.6: descriptors of different kinds, trees or files never share a key
proof fn lemma_keys_injective(a: GlobalTableId, b: GlobalTableId)
    ensures table_key(a) != blob_file_key(b), table_key(a) == table_key(b) ==> a == b, blob_file_key(a) == blob_file_key(b) ==> a == b
{}

}
fn main() {}
