//@ UNIT fifo
// fifo::Strategy::choose.  Obligation: C19.1
use vstd::prelude::*;
use vstd::std_specs::iter::*;
verus! {

global size_of usize == 8;

pub type TableId = u64;
#[verifier::external_body] pub struct Error { p: u8 }

//@ INCLUDE prelude/seqiter.rs

// ---------------- prelude: tables, level, version (light, R8) ----------------
#[derive(Copy, Clone)]
pub struct Timestamp(pub u128);
impl From<Timestamp> for u128 { fn from(t: Timestamp) -> (r: u128) { t.0 } }
impl vstd::std_specs::convert::FromSpecImpl<Timestamp> for u128 {
    open spec fn obeys_from_spec() -> bool { true }
    open spec fn from_spec(t: Timestamp) -> u128 { t.0 }
}
pub struct Meta { pub created_at: Timestamp }
pub struct Table { pub metadata: Meta, pub id: u64, pub size: u64, pub blob_bytes: u64 }
impl Table {
    pub fn id(&self) -> (r: u64) ensures r == self.id { self.id }
    pub fn file_size(&self) -> (r: u64) ensures r == self.size { self.size }
    #[verifier::external_body]
    pub fn referenced_blob_bytes(&self) -> (r: Result<u64, Error>) ensures r is Ok ==> r->Ok_0 == self.blob_bytes, r is Err ==> true { Ok(self.blob_bytes) }
    pub open spec fn age(&self) -> u128 { self.metadata.created_at.0 }
}
pub assume_specification<T: Default, E>[ Result::<T, E>::unwrap_or_default ](r: Result<T, E>) -> (v: T)
    ensures r is Ok ==> v == r->Ok_0, r is Err ==> call_ensures(T::default, (), v);

pub struct Run { pub tables: Vec<Table> }
impl Run {
    #[verifier::external_body]
    pub fn iter(&self) -> (r: SeqIter<&Table>)
        ensures r.rest().len() == self.tables@.len(), forall|i: int| 0 <= i < self.tables@.len() ==> *(#[trigger] r.rest()[i]) == self.tables@[i]
    { unimplemented!() }
}
pub open spec fn all_tables(runs: Seq<Run>) -> Seq<Table>
    decreases runs.len()
{ if runs.len() == 0 { Seq::empty() } else { all_tables(runs.drop_last()) + runs.last().tables@ } }
pub open spec fn deref_tables(s: Seq<&Table>) -> Seq<Table> { Seq::new(s.len(), |i: int| *s[i]) }
pub open spec fn deref_runs(s: Seq<&Run>) -> Seq<Run> { Seq::new(s.len(), |i: int| *s[i]) }

pub struct Level { pub runs: Vec<Run> }
impl Level {
    pub open spec fn tables(&self) -> Seq<Table> { all_tables(self.runs@) }
    pub fn is_empty(&self) -> (r: bool) ensures r == (self.runs@.len() == 0) { self.runs.is_empty() }
    pub fn is_disjoint(&self) -> (r: bool) ensures r == (self.runs@.len() == 1) { self.runs.len() == 1 }
    pub uninterp spec fn size_spec(&self) -> u64;
    /// on-disk size of the level (sum of table file sizes; not under contract here)
    #[verifier::external_body]
    pub fn size(&self) -> (r: u64) ensures r == self.size_spec() { 0 }
    #[verifier::external_body]
    pub fn iter(&self) -> (r: SeqIter<&Run>)
        ensures deref_runs(r.rest()) == self.runs@
    { unimplemented!() }
}
impl<'a> SeqIter<&'a Run> {
    /// std `flat_map` at this use: the closure must yield exactly the run's tables
    #[verifier::external_body]
    pub fn flat_map<F: FnMut(&'a Run) -> SeqIter<&'a Table>>(self, f: F) -> (r: SeqIter<&'a Table>)
        requires
            forall|x: &'a Run| call_requires(f, (x,)),
            forall|x: &'a Run, it: SeqIter<&'a Table>| call_ensures(f, (x,), it) ==> it.rest().len() == x.tables@.len() && forall|i: int| 0 <= i < x.tables@.len() ==> *(#[trigger] it.rest()[i]) == x.tables@[i],
        ensures deref_tables(r.rest()) == all_tables(deref_runs(self.rest())),
    { unimplemented!() }
}
pub struct BlobFiles { pub p: u8 }
impl BlobFiles {
    pub uninterp spec fn size_spec(&self) -> u64;
    #[verifier::external_body] pub fn on_disk_size(&self) -> (r: u64) ensures r == self.size_spec() { 0 }
}
pub struct HiddenSet;
pub struct CompactionState;
impl CompactionState { pub fn hidden_set(&self) -> &HiddenSet { &HiddenSet } }
pub struct Version { pub l0: Level, pub blob_files: BlobFiles }
impl Version {
    pub fn l0(&self) -> (r: &Level) ensures r == &self.l0 { &self.l0 }
    pub uninterp spec fn busy_spec(&self) -> bool;
    #[verifier::external_body]
    pub fn level_is_busy(&self, idx: usize, hs: &HiddenSet) -> (r: bool) ensures r == self.busy_spec() { false }
}
pub struct Config;

/// prelude: stands for FxHashSet<TableId>
#[verifier::external_body]
pub struct HashSet { v: Vec<u64> }
impl HashSet {
    pub uninterp spec fn view(&self) -> Set<u64>;
    #[verifier::external_body] pub fn default() -> (r: HashSet) ensures r.view() == Set::<u64>::empty() { unimplemented!() }
    #[verifier::external_body] pub fn insert(&mut self, k: u64) -> (r: bool) ensures final(self).view() == old(self).view().insert(k) { unimplemented!() }
    #[verifier::external_body] pub fn is_empty(&self) -> (r: bool) ensures r == (self.view() =~= Set::<u64>::empty()) { unimplemented!() }
}
pub enum Choice { DoNothing, Drop(HashSet) }

/// prelude: clock (frozen during one call)
pub uninterp spec fn clock_now() -> u128;
pub struct Duration { pub nanos: u128 }
impl Duration { pub fn as_nanos(&self) -> (r: u128) ensures r == self.nanos { self.nanos } }
#[verifier::external_body] pub fn unix_timestamp() -> (r: Duration) ensures r.nanos == clock_now() { Duration { nanos: 0 } }

pub assume_specification<T, F: FnOnce(T) -> bool>[ Option::<T>::is_some_and ](o: Option<T>, f: F) -> (r: bool)
    requires o is Some ==> call_requires(f, (o->0,)),
    ensures o is None ==> !r, o is Some ==> call_ensures(f, (o->0,), r);

/// every element of `a` occurs in `b`
pub open spec fn subset_of(a: Seq<&Table>, b: Seq<&Table>) -> bool { forall|i: int| 0 <= i < a.len() ==> exists|j: int| 0 <= j < b.len() && #[trigger] a[i] == b[j] }

/// prelude: stands for `<[T]>::sort_by_key` at this use (keys: creation times).  TRUSTED: the result holds
/// the same elements and is ordered by key.
#[verifier::external_body]
pub fn sort_by_age<'a>(v: &mut Vec<&'a Table>)
    ensures
        final(v)@.len() == old(v)@.len(),
        subset_of(final(v)@, old(v)@), subset_of(old(v)@, final(v)@),
        forall|i: int, j: int| 0 <= i <= j < final(v)@.len() ==> (#[trigger] final(v)@[i]).age() <= (#[trigger] final(v)@[j]).age(),
{ unimplemented!() }

pub struct Strategy { pub limit: u64, pub ttl_seconds: Option<u64> }

pub open spec fn total_bytes(ts: Seq<Table>) -> int
    decreases ts.len()
{ if ts.len() == 0 { 0 } else { total_bytes(ts.drop_last()) + ts.last().size + ts.last().blob_bytes } }

impl Strategy {
    /// TTL cutoff as the code is required to compute it: disabled for None and 0
    pub open spec fn cutoff(&self) -> Option<u128> {
        match self.ttl_seconds {
            Some(s) if s > 0 => Some(if clock_now() >= s as u128 * 1_000_000_000u128 { (clock_now() - s as u128 * 1_000_000_000u128) as u128 } else { 0u128 }),
            _ => None,
        }
    }
    pub open spec fn expired(&self, t: Table) -> bool { self.cutoff() is Some && t.age() <= self.cutoff()->0 }
    pub open spec fn chosen(r: Choice, id: u64) -> bool { match r { Choice::Drop(ids) => ids.view().contains(id), Choice::DoNothing => false } }
    pub open spec fn dropped(r: Choice, t: Table) -> bool { Self::chosen(r, t.id) }

//@ FROM src/compaction/fifo.rs :: CompactionStrategy for Strategy :: fn choose :: OBL C19.1
//@ SUBST `_ : & Config` ==> `cfg: &Config`
//@ SUBST `alive . sort_by_key ( | t | t . metadata . created_at )` ==> `sort_by_age(&mut alive)`
    /*+*/#[verifier::rlimit(100)]/*-*/
    fn choose(&self, version: &Version, cfg: &Config, state: &CompactionState) -> /*+*/(r: /*-*/Choice/*+*/)
        requires
            version.l0.runs@.len() <= 1,                      // FIFO's own assertions: L0 is one run and not busy
            !version.busy_spec(),
            total_bytes(version.l0.tables()) < 0x7fff_ffff_ffff_ffff,
            version.l0.size_spec() + version.blob_files.size_spec() < 0x7fff_ffff_ffff_ffff,
            // table ids are unique
            forall|i: int, j: int| 0 <= i < j < version.l0.tables().len() ==> (#[trigger] version.l0.tables()[i]).id != (#[trigger] version.l0.tables()[j]).id,
        ensures
            // every chosen id is the id of an L0 table
            forall|id: u64| #[trigger] Self::chosen(r, id) ==> exists|i: int| 0 <= i < version.l0.tables().len() && version.l0.tables()[i].id == id,
            // expired tables are dropped; TTL None / 0 never expires (see `cutoff`)
            forall|i: int| 0 <= i < version.l0.tables().len() && self.expired(#[trigger] version.l0.tables()[i]) ==> Self::dropped(r, version.l0.tables()[i]),
            // nothing is removed while the tree is within its size limit and TTL
            version.l0.size_spec() + version.blob_files.size_spec() <= self.limit ==>
                forall|i: int| 0 <= i < version.l0.tables().len() && Self::dropped(r, #[trigger] version.l0.tables()[i]) ==> self.expired(version.l0.tables()[i]),
            // oldest first: a dropped table that did not exceed the TTL is never newer than a retained one
            forall|i: int, j: int| 0 <= i < version.l0.tables().len() && 0 <= j < version.l0.tables().len()
                && Self::dropped(r, #[trigger] version.l0.tables()[i]) && !self.expired(version.l0.tables()[i])
                && !Self::dropped(r, #[trigger] version.l0.tables()[j])
                ==> version.l0.tables()[i].age() <= version.l0.tables()[j].age(),/*-*/
    {
        let first_level = version.l0();

        if first_level.is_empty() {
            /*+*/proof { assert(version.l0.tables() =~= Seq::<Table>::empty()); }/*-*/
            return Choice::DoNothing;
        }

        assert!(first_level.is_disjoint(), "L0 needs to be disjoint");

        assert!(
            !version.level_is_busy(0, state.hidden_set()),
            "FIFO compaction never compacts",
        );

        let db_size = first_level.size() + version.blob_files.on_disk_size();

        let mut ids_to_drop = HashSet::default();

        let ttl_cutoff = match self.ttl_seconds {
            Some(s) if s > 0 => Some(
                unix_timestamp()
                    .as_nanos()
                    .saturating_sub(u128::from(s) * 1_000_000_000u128),
            ),
            _ => None,
        };
        /*+*/proof { assert(ttl_cutoff == self.cutoff()); }/*-*/

        let mut ttl_dropped_bytes = 0u64;
        let mut alive/*+*/: Vec<&Table>/*-*/ = Vec::new();

        /*+*/let ghost ts = version.l0.tables();
        let ghost mut aidx: Seq<int> = Seq::empty();      // aidx[a] = index in ts of alive[a]
        let ghost mut apos: Seq<int> = Seq::empty();      // apos[j] = position in alive of ts[j] (non-expired j)
        let ghost mut wit: Map<u64, int> = Map::empty();  // wit[id] = index of an expired table with that id
        proof {
            assert(version.l0.runs@.drop_last() =~= Seq::<Run>::empty());
            assert(all_tables(Seq::<Run>::empty()) =~= Seq::<Table>::empty());
            assert(version.l0.runs@.last() == version.l0.runs@[0]);
            assert(all_tables(version.l0.runs@) =~= version.l0.runs@[0].tables@);
            assert(ts.take(0) =~= Seq::<Table>::empty());
        }/*-*/
        for table in /*+*/it: /*-*/first_level.iter().flat_map(|run/*+*/: &Run/*-*/| /*+*/-> (o: SeqIter<&Table>) ensures o.rest().len() == run.tables@.len() && forall|i: int| 0 <= i < run.tables@.len() ==> *(#[trigger] o.rest()[i]) == run.tables@[i] {/*-*/ run.iter() /*+*/}/*-*/)
            /*+*/invariant
                ts == version.l0.tables(), deref_tables(it.seq()) == ts, it.seq().len() == ts.len(),
                ttl_cutoff == self.cutoff(),
                total_bytes(ts) < 0x7fff_ffff_ffff_ffff,
                ttl_dropped_bytes <= total_bytes(ts.take(it.index@ as int)),
                // expired tables seen so far are exactly the marked ids
                forall|j: int| 0 <= j < it.index@ && self.expired(#[trigger] ts[j]) ==> ids_to_drop.view().contains(ts[j].id),
                forall|id: u64| #[trigger] ids_to_drop.view().contains(id) ==> wit.dom().contains(id) && 0 <= wit[id] < it.index@ && self.expired(ts[wit[id]]) && ts[wit[id]].id == id,
                // alive holds exactly the non-expired tables seen so far
                aidx.len() == alive@.len(), apos.len() == it.index@,
                forall|a: int| 0 <= a < alive@.len() ==> 0 <= #[trigger] aidx[a] < it.index@ && !self.expired(ts[aidx[a]]) && *alive@[a] == ts[aidx[a]],
                forall|j: int| 0 <= j < it.index@ && !self.expired(ts[j]) ==> 0 <= #[trigger] apos[j] < alive@.len() && aidx[apos[j]] == j,/*-*/
        {
            /*+*/let ghost k = it.index@ as int;
            proof {
                assert(deref_tables(it.seq())[k] == ts[k]);
                assert(*table == ts[k]);
                assert(ts.take(k + 1).drop_last() =~= ts.take(k));
                assert(ts.take(k + 1).last() == ts[k]);
                lemma_total_mono(ts, k + 1);
            }/*-*/
            let expired =
                ttl_cutoff.is_some_and(|cutoff/*+*/: u128/*-*/| /*+*/-> (b: bool) ensures b == (table.metadata.created_at.0 <= cutoff) {/*-*/ u128::from(table.metadata.created_at) <= cutoff /*+*/}/*-*/);
            /*+*/proof { assert(expired == self.expired(ts[k])); }/*-*/

            if expired {
                ids_to_drop.insert(table.id());
                let linked_blob_file_bytes = table.referenced_blob_bytes().unwrap_or_default();
                ttl_dropped_bytes += table.file_size() + linked_blob_file_bytes;
                /*+*/proof { wit = wit.insert(ts[k].id, k); apos = apos.push(-1); }/*-*/
            } else {
                alive.push(table);
                /*+*/proof { aidx = aidx.push(k); apos = apos.push(alive@.len() - 1); }/*-*/
            }
        }

        let size_after_ttl = db_size.saturating_sub(ttl_dropped_bytes);

        /*+*/let ghost expired_ids = ids_to_drop.view();
        let ghost mut c: int = 0;            // number of tables dropped by size
        let ghost mut sidx: Seq<int> = aidx; // sidx[p] = index in ts of (sorted) alive[p]
        let ghost mut spos: Seq<int> = apos; // spos[j] = position in (sorted) alive of ts[j]
        let ghost mut sorted: Seq<&Table> = alive@;
        let ghost mut is_sorted = false;/*-*/
        if size_after_ttl > self.limit {
            let overshoot = size_after_ttl - self.limit;

            let mut collected_bytes = 0;

            /*+*/let ghost alive0 = alive@;/*-*/
            sort_by_age(&mut alive);
            /*+*/proof {
                sorted = alive@;
                is_sorted = true;
                // re-establish the index maps for the sorted list (witnesses from the sort contract)
                let m = lemma_sorted_maps(*self, ts, alive0, aidx, apos, sorted);
                sidx = m.0;
                spos = m.1;
            }/*-*/

            for table in /*+*/it2: /*-*/alive
                /*+*/invariant_except_break
                    c == it2.index@,
                invariant
                    it2.seq() == sorted,
                    0 <= c <= sorted.len(),
                    overshoot < 0x7fff_ffff_ffff_ffff, total_bytes(ts) < 0x7fff_ffff_ffff_ffff,
                    sidx.len() == sorted.len(),
                    forall|p: int| 0 <= p < sorted.len() ==> 0 <= #[trigger] sidx[p] < ts.len() && *sorted[p] == ts[sidx[p]],
                    forall|p: int| 0 <= p < c ==> ids_to_drop.view().contains((#[trigger] sorted[p]).id),
                    forall|id: u64| #[trigger] ids_to_drop.view().contains(id) ==> expired_ids.contains(id) || exists|p: int| 0 <= p < c && sorted[p].id == id,
                    forall|id: u64| expired_ids.contains(id) ==> #[trigger] ids_to_drop.view().contains(id),/*-*/
            {
                if collected_bytes >= overshoot {
                    break;
                }

                ids_to_drop.insert(table.id());

                let linked_blob_file_bytes = table.referenced_blob_bytes().unwrap_or_default();
                /*+*/proof {
                    assert(*table == ts[sidx[c]]);
                    lemma_total_elem(ts, sidx[c]);
                }/*-*/
                collected_bytes += table.file_size() + linked_blob_file_bytes;
                /*+*/proof { c = c + 1; }/*-*/
            }
        }

        /*+*/proof {
            lemma_fifo_post(*self, ts, ids_to_drop.view(), expired_ids, wit, sorted, sidx, spos, c, is_sorted);
        }/*-*/
        if ids_to_drop.is_empty() {
            Choice::DoNothing
        } else {
            Choice::Drop(ids_to_drop)
        }
    }
//@ END
}

/// the bookkeeping of the two loops implies the three statements of C19.1 about the final id set
pub proof fn lemma_fifo_post(st: Strategy, ts: Seq<Table>, ids: Set<u64>, expired_ids: Set<u64>, wit: Map<u64, int>, sorted: Seq<&Table>, sidx: Seq<int>, spos: Seq<int>, c: int, is_sorted: bool)
    requires
        forall|i: int, j: int| 0 <= i < j < ts.len() ==> (#[trigger] ts[i]).id != (#[trigger] ts[j]).id,
        forall|j: int| 0 <= j < ts.len() && st.expired(#[trigger] ts[j]) ==> expired_ids.contains(ts[j].id),
        forall|id: u64| #[trigger] expired_ids.contains(id) ==> wit.dom().contains(id) && 0 <= wit[id] < ts.len() && st.expired(ts[wit[id]]) && ts[wit[id]].id == id,
        sidx.len() == sorted.len(), spos.len() == ts.len(), 0 <= c <= sorted.len(),
        forall|p: int| 0 <= p < sorted.len() ==> 0 <= #[trigger] sidx[p] < ts.len() && !st.expired(ts[sidx[p]]) && *sorted[p] == ts[sidx[p]],
        forall|j: int| 0 <= j < ts.len() && !st.expired(ts[j]) ==> 0 <= #[trigger] spos[j] < sorted.len() && *sorted[spos[j]] == ts[j],
        forall|p: int| 0 <= p < c ==> ids.contains((#[trigger] sorted[p]).id),
        forall|id: u64| #[trigger] ids.contains(id) ==> expired_ids.contains(id) || exists|p: int| 0 <= p < c && sorted[p].id == id,
        forall|id: u64| expired_ids.contains(id) ==> #[trigger] ids.contains(id),
        c > 0 ==> is_sorted,
        is_sorted ==> forall|i: int, j: int| 0 <= i <= j < sorted.len() ==> (#[trigger] sorted[i]).age() <= (#[trigger] sorted[j]).age(),
    ensures
        forall|id: u64| #[trigger] ids.contains(id) ==> exists|i: int| 0 <= i < ts.len() && ts[i].id == id,
        forall|i: int| 0 <= i < ts.len() && st.expired(#[trigger] ts[i]) ==> ids.contains(ts[i].id),
        c == 0 ==> forall|i: int| 0 <= i < ts.len() && ids.contains((#[trigger] ts[i]).id) ==> st.expired(ts[i]),
        forall|i: int, j: int| 0 <= i < ts.len() && 0 <= j < ts.len() && ids.contains((#[trigger] ts[i]).id) && !st.expired(ts[i]) && !ids.contains((#[trigger] ts[j]).id)
            ==> ts[i].age() <= ts[j].age(),
{
    assert forall|id: u64| #[trigger] ids.contains(id) implies exists|i: int| 0 <= i < ts.len() && ts[i].id == id by {
        if expired_ids.contains(id) { assert(ts[wit[id]].id == id); }
        else { let p = choose|p: int| 0 <= p < c && sorted[p].id == id; assert(ts[sidx[p]].id == id); }
    }
    assert forall|i: int| 0 <= i < ts.len() && ids.contains((#[trigger] ts[i]).id) && !st.expired(ts[i]) implies exists|p: int| 0 <= p < c && sidx[p] == i by {
        let id = ts[i].id;
        if expired_ids.contains(id) {
            // unique ids: the expired witness would be ts[i] itself
            let w = wit[id];
            if w < i { assert(ts[w].id != ts[i].id); } else if i < w { assert(ts[i].id != ts[w].id); }
            assert(false);
        } else {
            let p = choose|p: int| 0 <= p < c && sorted[p].id == id;
            let q = sidx[p];
            if q < i { assert(ts[q].id != ts[i].id); } else if i < q { assert(ts[i].id != ts[q].id); }
            assert(sidx[p] == i);
        }
    }
    assert forall|i: int, j: int| 0 <= i < ts.len() && 0 <= j < ts.len() && ids.contains((#[trigger] ts[i]).id) && !st.expired(ts[i]) && !ids.contains((#[trigger] ts[j]).id)
        implies ts[i].age() <= ts[j].age() by {
        let p = choose|p: int| 0 <= p < c && sidx[p] == i;
        // ts[j] is retained, hence not expired, hence somewhere in the sorted list at or after c
        assert(!st.expired(ts[j]));
        let q = spos[j];
        assert(*sorted[q] == ts[j]);
        if q < c { assert(ids.contains(sorted[q].id)); assert(false); }
        assert(sorted[p].age() <= sorted[q].age());
    }
}

/// after sorting, the list still holds exactly the non-expired tables: rebuild the two index maps
pub proof fn lemma_sorted_maps(st: Strategy, ts: Seq<Table>, alive0: Seq<&Table>, aidx: Seq<int>, apos: Seq<int>, sorted: Seq<&Table>) -> (m: (Seq<int>, Seq<int>))
    requires
        aidx.len() == alive0.len(), apos.len() == ts.len(), sorted.len() == alive0.len(),
        forall|a: int| 0 <= a < alive0.len() ==> 0 <= #[trigger] aidx[a] < ts.len() && !st.expired(ts[aidx[a]]) && *alive0[a] == ts[aidx[a]],
        forall|j: int| 0 <= j < ts.len() && !st.expired(ts[j]) ==> 0 <= #[trigger] apos[j] < alive0.len() && aidx[apos[j]] == j,
        subset_of(sorted, alive0), subset_of(alive0, sorted),
    ensures
        m.0.len() == sorted.len(), m.1.len() == ts.len(),
        forall|p: int| 0 <= p < sorted.len() ==> 0 <= #[trigger] m.0[p] < ts.len() && !st.expired(ts[m.0[p]]) && *sorted[p] == ts[m.0[p]],
        forall|j: int| 0 <= j < ts.len() && !st.expired(ts[j]) ==> 0 <= #[trigger] m.1[j] < sorted.len() && *sorted[m.1[j]] == ts[j],
{
    let sidx = Seq::new(sorted.len(), |p: int| aidx[choose|b: int| 0 <= b < alive0.len() && sorted[p] == alive0[b]]);
    let spos = Seq::new(ts.len(), |j: int| if !st.expired(ts[j]) { choose|p: int| 0 <= p < sorted.len() && sorted[p] == alive0[apos[j]] } else { -1 });
    assert forall|p: int| 0 <= p < sorted.len() implies 0 <= #[trigger] sidx[p] < ts.len() && !st.expired(ts[sidx[p]]) && *sorted[p] == ts[sidx[p]] by {
        let b = choose|b: int| 0 <= b < alive0.len() && sorted[p] == alive0[b];
        assert(0 <= aidx[b] < ts.len());
    }
    assert forall|j: int| 0 <= j < ts.len() && !st.expired(ts[j]) implies 0 <= #[trigger] spos[j] < sorted.len() && *sorted[spos[j]] == ts[j] by {
        assert(0 <= apos[j] < alive0.len());
        let q = choose|p: int| 0 <= p < sorted.len() && sorted[p] == alive0[apos[j]];
        assert(aidx[apos[j]] == j);
    }
    (sidx, spos)
}

pub proof fn lemma_total_elem(ts: Seq<Table>, j: int)
    requires 0 <= j < ts.len(),
    ensures ts[j].size + ts[j].blob_bytes <= total_bytes(ts),
    decreases ts.len()
{
    lemma_total_nonneg(ts.drop_last());
    if j < ts.len() - 1 { lemma_total_elem(ts.drop_last(), j); }
}

pub open spec fn total_bytes_refs(ts: Seq<&Table>) -> int
    decreases ts.len()
{ if ts.len() == 0 { 0 } else { total_bytes_refs(ts.drop_last()) + ts.last().size + ts.last().blob_bytes } }

pub proof fn lemma_total_mono(ts: Seq<Table>, k: int)
    requires 0 <= k <= ts.len(),
    ensures 0 <= total_bytes(ts.take(k)) <= total_bytes(ts),
    decreases ts.len() - k
{
    lemma_total_nonneg(ts.take(k));
    if k < ts.len() {
        lemma_total_mono(ts, k + 1);
        assert(ts.take(k + 1).drop_last() =~= ts.take(k));
    } else {
        assert(ts.take(k) =~= ts);
    }
}
pub proof fn lemma_total_nonneg(ts: Seq<Table>)
    ensures 0 <= total_bytes(ts),
    decreases ts.len()
{ if ts.len() > 0 { lemma_total_nonneg(ts.drop_last()); } }
pub proof fn lemma_total_refs_nonneg(ts: Seq<&Table>)
    ensures 0 <= total_bytes_refs(ts),
    decreases ts.len()
{ if ts.len() > 0 { lemma_total_refs_nonneg(ts.drop_last()); } }
pub proof fn lemma_total_refs_mono(ts: Seq<&Table>, k: int)
    requires 0 <= k <= ts.len(),
    ensures 0 <= total_bytes_refs(ts.take(k)) <= total_bytes_refs(ts),
    decreases ts.len() - k
{
    lemma_total_refs_nonneg(ts.take(k));
    if k < ts.len() {
        lemma_total_refs_mono(ts, k + 1);
        assert(ts.take(k + 1).drop_last() =~= ts.take(k));
    } else {
        assert(ts.take(k) =~= ts);
    }
}

} // verus!
fn main() {}
