//@ UNIT file_drop
// `Drop for table::Inner` and `Drop for vlog::blob_file::Inner`: the last handle of a table / blob file going away unlinks a file only
// if the file was marked deleted, and then only its own path; it evicts only its own descriptor-table entry.  (The marking happens
// only after the version without the file is published: C20.4, C20.5.)  Trait impls are extracted as inherent fns (R6).  Obligation C20.10
use vstd::prelude::*;
verus! {
pub type TreeId = u64;
pub type TableId = u64;
pub type BlobFileId = u64;
#[derive(Clone, Copy, PartialEq, Eq, Structural)]
pub struct GlobalTableId(pub TreeId, pub TableId);
impl GlobalTableId {
//@ FROM src/table/id.rs :: From < ( TreeId , TableId ) > for GlobalTableId :: fn from :: OBL C20.10
//@ SUBST `fn from ( ( tid , sid ) : ( TreeId , TableId ) ) -> Self {` ==> `fn from(t__: (TreeId, TableId)) -> Self { let (tid, sid) = t__;`
    fn from(t__: (TreeId, TableId)) -> /*+*/(r:/*-*/ Self/*+*/) ensures r == GlobalTableId(t__.0, t__.1)/*-*/ { let (tid, sid) = t__;
        Self(tid, sid)
    }
//@ END
}
/// PathBuf / Arc<PathBuf>: the file it names
pub struct PathBuf { pub ghost name: int }
/// effect token (R15): the files unlinked and the descriptor-table entries evicted so far
pub struct Fx { pub ghost unlinked: Seq<int>, pub ghost evicted_tables: Seq<GlobalTableId>, pub ghost evicted_blobs: Seq<GlobalTableId> }
pub struct IoError { pub e: u8 }
/// std::fs::remove_file: unlinks the named file or fails (then nothing is unlinked)
#[verifier::external_body]
fn fs_remove_file(path: &PathBuf, Tracked(fx): Tracked<&mut Fx>) -> (r: Result<(), IoError>)
    ensures r is Ok ==> final(fx).unlinked == old(fx).unlinked.push(path.name), r is Err ==> final(fx).unlinked == old(fx).unlinked,
        final(fx).evicted_tables == old(fx).evicted_tables, final(fx).evicted_blobs == old(fx).evicted_blobs
{ unimplemented!() }
/// AtomicBool
pub struct AtomicBool { pub ghost v: bool }
impl AtomicBool { #[verifier::external_body] fn load_acquire(&self) -> (r: bool) ensures r == self.v { unimplemented!() } }
/// DescriptorTable (unit fd_table, C11.6: remove_for_table / remove_for_blob_file evict exactly the entry of that id and tag)
pub struct DescriptorTable { pub p: u8 }
impl DescriptorTable {
    #[verifier::external_body]
    fn remove_for_table(&self, id: &GlobalTableId, Tracked(fx): Tracked<&mut Fx>)
        ensures final(fx).unlinked == old(fx).unlinked, final(fx).evicted_blobs == old(fx).evicted_blobs, final(fx).evicted_tables == old(fx).evicted_tables.push(*id)
    { unimplemented!() }
    #[verifier::external_body]
    fn remove_for_blob_file(&self, id: &GlobalTableId, Tracked(fx): Tracked<&mut Fx>)
        ensures final(fx).unlinked == old(fx).unlinked, final(fx).evicted_tables == old(fx).evicted_tables, final(fx).evicted_blobs == old(fx).evicted_blobs.push(*id)
    { unimplemented!() }
}
pub struct FdHandle { pub p: u8 }
//@ FROM src/file_accessor.rs :: - :: enum FileAccessor
//@ SUBST `Arc < File >` ==> `FdHandle`
//@ SUBST `Arc < DescriptorTable >` ==> `DescriptorTable`
/*+*/pub/*-*/ enum FileAccessor {
    /// Pre-opened file descriptor
    File(FdHandle),

    /// Access to file descriptor cache
    DescriptorTable(DescriptorTable),
}
//@ END
impl FileAccessor {
//@ FROM src/file_accessor.rs :: impl FileAccessor :: fn as_descriptor_table
    pub fn as_descriptor_table(&self) -> /*+*/(r:/*-*/ Option<&DescriptorTable>/*+*/)
        ensures r is Some <==> *self is DescriptorTable/*-*/
    {
        match self {
            Self::DescriptorTable(d) => Some(d),
            Self::File(_) => None,
        }
    }
//@ END
}
/// nothing beyond `base`, except possibly - and only if `marked` - one unlink of `own`
pub open spec fn unlinks_ok(base: Seq<int>, now: Seq<int>, marked: bool, own: int) -> bool {
    now == base || (marked && now == base.push(own))
}
/// nothing beyond `base`, except possibly - and only if `marked` - one eviction of `own`
pub open spec fn evicts_ok(base: Seq<GlobalTableId>, now: Seq<GlobalTableId>, marked: bool, own: GlobalTableId) -> bool {
    now == base || (marked && now == base.push(own))
}

pub struct TableMeta { pub id: TableId }
/// table::Inner: the fields drop touches (R8)
pub struct TableInner { pub path: PathBuf, pub tree_id: TreeId, pub file_accessor: FileAccessor, pub metadata: TableMeta, pub is_deleted: AtomicBool }
impl TableInner {
//@ FROM src/table/inner.rs :: impl Inner :: fn global_id
//@ SUBST `( self . tree_id , self . metadata . id ) . into ( )` ==> `GlobalTableId::from((self.tree_id, self.metadata.id))`
    fn global_id(&self) -> /*+*/(r:/*-*/ GlobalTableId/*+*/) ensures r == GlobalTableId(self.tree_id, self.metadata.id)/*-*/ {
        GlobalTableId::from((self.tree_id, self.metadata.id))
    }
//@ END
//@ FROM src/table/inner.rs :: impl Drop for Inner :: fn drop :: OBL C20.10
//@ SUBST `self . is_deleted . load ( std :: sync :: atomic :: Ordering :: Acquire )` ==> `self.is_deleted.load_acquire()`
//@ SUBST `std :: fs :: remove_file ( & * self . path )` ==> `fs_remove_file(&self.path, Tracked(fx))`
//@ SUBST `if let Err ( e ) = $1 { }` ==> `let _ = $1;`
//@ SUBST `self . file_accessor . as_descriptor_table ( ) . inspect ( | d | { $1 } ) ;` ==> `match self.file_accessor.as_descriptor_table() { Some(d) => { $1 } None => {} }`
//@ SUBST `d . remove_for_table ( & global_id ) ;` ==> `d.remove_for_table(&global_id, Tracked(fx));`
    fn drop(&mut self/*+*/, Tracked(fx): Tracked<&mut Fx>/*-*/)
        /*+*/ensures
            // a table file is unlinked only when it was marked deleted, and then only the table's own file
            unlinks_ok(old(fx).unlinked, final(fx).unlinked, old(self).is_deleted.v, old(self).path.name),
            evicts_ok(old(fx).evicted_tables, final(fx).evicted_tables, old(self).is_deleted.v, GlobalTableId(old(self).tree_id, old(self).metadata.id)),
            final(fx).evicted_blobs == old(fx).evicted_blobs,
    /*-*/ {
        let global_id = self.global_id();

        if self.is_deleted.load_acquire() {

            let _ = fs_remove_file(&self.path, Tracked(fx));

            match self.file_accessor.as_descriptor_table() { Some(d) => { d.remove_for_table(&global_id, Tracked(fx)); } None => {} }
        }
    }
//@ END
}

/// vlog::blob_file::Inner: the fields drop touches (R8)
pub struct BlobInner { pub id: BlobFileId, pub tree_id: TreeId, pub path: PathBuf, pub is_deleted: AtomicBool, pub file_accessor: FileAccessor }
impl BlobInner {
//@ FROM src/vlog/blob_file/mod.rs :: impl Inner :: fn global_id
    fn global_id(&self) -> /*+*/(r:/*-*/ GlobalTableId/*+*/) ensures r == GlobalTableId(self.tree_id, self.id)/*-*/ {
        GlobalTableId::from((self.tree_id, self.id))
    }
//@ END
//@ FROM src/vlog/blob_file/mod.rs :: impl Drop for Inner :: fn drop :: OBL C20.10
//@ SUBST `self . is_deleted . load ( std :: sync :: atomic :: Ordering :: Acquire )` ==> `self.is_deleted.load_acquire()`
//@ SUBST `std :: fs :: remove_file ( & * self . path )` ==> `fs_remove_file(&self.path, Tracked(fx))`
//@ SUBST `if let Err ( e ) = $1 { }` ==> `let _ = $1;`
//@ SUBST `self . file_accessor . as_descriptor_table ( ) . inspect ( | d | $1 ) ;` ==> `match self.file_accessor.as_descriptor_table() { Some(d) => { $1; } None => {} }`
//@ SUBST `d . remove_for_blob_file ( & self . global_id ( ) )` ==> `d.remove_for_blob_file(&self.global_id(), Tracked(fx))`
    fn drop(&mut self/*+*/, Tracked(fx): Tracked<&mut Fx>/*-*/)
        /*+*/ensures
            // a blob file is unlinked only when it was marked deleted, and then only the blob file's own file
            unlinks_ok(old(fx).unlinked, final(fx).unlinked, old(self).is_deleted.v, old(self).path.name),
            evicts_ok(old(fx).evicted_blobs, final(fx).evicted_blobs, old(self).is_deleted.v, GlobalTableId(old(self).tree_id, old(self).id)),
            final(fx).evicted_tables == old(fx).evicted_tables,
    /*-*/ {
        if self.is_deleted.load_acquire() {

            let _ = fs_remove_file(&self.path, Tracked(fx));

            match self.file_accessor.as_descriptor_table() { Some(d) => { d.remove_for_blob_file(&self.global_id(), Tracked(fx)); } None => {} }
        }
    }
//@ END
}
}
fn main() {}
