//@ UNIT filter_adapter
// Compaction filter adapter (src/compaction/filter.rs): `StreamFilterAdapter::filter_item` tells the merge stream exactly what the
// user filter's verdict says - Keep -> keep, Destroy -> drop, Remove / RemoveWeak -> replace by an (empty) tombstone / weak tombstone,
// ReplaceValue(v) -> replace by what `handle_write` makes of v: inline below the separation threshold (or without key-value
// separation), otherwise v is written to the compaction's blob writer under the entry's own key and seqno and the entry becomes an
// indirection to that blob.  Without a filter everything is kept.  Obligation C17.3
use vstd::prelude::*;
verus! {
global size_of usize == 8;
type SeqNo = u64;
#[verifier::external_body] struct Error { p: u8 }
#[verifier::external_body] pub struct Slice { p: u8 }
impl View for Slice { type V = Seq<u8>; uninterp spec fn view(&self) -> Seq<u8>; }
impl Slice {
    #[verifier::external_body] fn empty() -> (r: Slice) ensures r@ == Seq::<u8>::empty() { unimplemented!() }
    #[verifier::external_body] fn len(&self) -> (r: usize) ensures r == self@.len() { unimplemented!() }
}
type UserValue = Slice; type UserKey = Slice;
#[derive(Copy, Clone, PartialEq, Eq, Structural)]
enum ValueType { Value, Tombstone, WeakTombstone, Indirection = 4 }
struct InternalKey { user_key: UserKey, seqno: SeqNo, value_type: ValueType }
struct InternalValue { key: InternalKey, value: UserValue }

enum Verdict { Keep, Remove, RemoveWeak, ReplaceValue(UserValue), Destroy }
enum StreamFilterVerdict { Keep, Replace((ValueType, UserValue)), Drop }
struct Context { is_last_level: bool }
struct AccessorShared { p: u8 }
struct ItemAccessor<'a> { item: &'a InternalValue, shared: &'a AccessorShared }
/// dyn CompactionFilter: an arbitrary user filter
#[verifier::external_body] struct UserFilter { p: u8 }
impl UserFilter {
    /// the verdict the user filter gives for this item (arbitrary; may depend on the filter's own state)
    uninterp spec fn verdict_of(&self, item: InternalValue) -> Verdict;
    #[verifier::external_body]
    fn filter_item(&mut self, item: ItemAccessor<'_>, ctx: &Context) -> (r: Result<Verdict, Error>)
        ensures r is Ok ==> r->Ok_0 == old(self).verdict_of(*item.item),
            // a Slice (byteview) never exceeds u32::MAX bytes
            r is Ok && r->Ok_0 is ReplaceValue ==> r->Ok_0->ReplaceValue_0@.len() <= u32::MAX
    { unimplemented!() }
}
struct KvSeparationOptions { separation_threshold: u32, file_target_size: u64 }
struct ValueHandle { ghost blob_file_id: u64, ghost offset: u64 }
/// vlog::BlobFileWriter (MultiWriter): the (key, seqno, value) triples written so far
struct BlobFileWriter { ghost log: Seq<(Seq<u8>, SeqNo, Seq<u8>)> }
impl BlobFileWriter {
    #[verifier::external_body]
    fn new_configured(shared: &AccessorShared, blob_opts: &KvSeparationOptions) -> (r: Result<Self, Error>) ensures r is Ok ==> r->Ok_0.log.len() == 0 { unimplemented!() }
    #[verifier::external_body]
    fn write(&mut self, key: &UserKey, seqno: SeqNo, value: &UserValue) -> (r: Result<ValueHandle, Error>)
        ensures r is Ok ==> final(self).log == old(self).log.push((key@, seqno, value@)), r is Err ==> final(self).log == old(self).log
    { unimplemented!() }
}
struct BlobIndirection { vhandle: ValueHandle, size: u32 }
uninterp spec fn indirection_bytes(i: BlobIndirection) -> Seq<u8>;
spec fn ind(vh: ValueHandle, size: u32) -> Seq<u8> { indirection_bytes(BlobIndirection { vhandle: vh, size }) }
impl BlobIndirection {
    #[verifier::external_body]
    fn encode_into_vec_slice(&self) -> (r: UserValue) ensures r@ == indirection_bytes(*self) { unimplemented!() }
}
//@ SUBST `< 'a , 'b : 'a >` ==> `<'a>`
//@ SUBST `StreamFilterAdapter < 'a , 'b >` ==> `StreamFilterAdapter<'a>`
//@ SUBST `( dyn CompactionFilter + 'b )` ==> `UserFilter`
//@ SUBST `AccessorShared < 'a >` ==> `AccessorShared`
//@ SUBST `crate :: Result < $1 >` ==> `Result<$1, Error>`
//@ FROM src/compaction/filter.rs :: - :: struct StreamFilterAdapter
struct StreamFilterAdapter<'a> {
    filter: Option<&'a mut UserFilter>,
    shared: AccessorShared,
    blob_opts: Option<&'a KvSeparationOptions>,
    blob_writer: &'a mut Option<BlobFileWriter>,
    ctx: &'a Context,
}
//@ END
/// what handle_write must do with a replacement value so that it reads back as that value: either it stays inline (type Value, the
/// same bytes, blob writer untouched) or - only with key-value separation - it is appended to the compaction's blob writer under the
/// entry's own key and seqno and the entry becomes an indirection to exactly that blob.  Which of the two happens at which size is
/// tuning (the separation threshold), not part of property C17, and is deliberately left open.
spec fn replaced(blob_opts: Option<&KvSeparationOptions>, w0: Option<BlobFileWriter>, w1: Option<BlobFileWriter>, key: InternalKey, nv: UserValue, out: (ValueType, UserValue)) -> bool {
    (out.0 == ValueType::Value && out.1 == nv && w1 == w0)
    || ({
        &&& blob_opts is Some
        &&& out.0 == ValueType::Indirection
        &&& w1 is Some && w1->Some_0.log == (if w0 is Some { w0->Some_0.log } else { Seq::empty() }).push((key.user_key@, key.seqno, nv@))
        &&& exists|vh: ValueHandle| out.1@ == #[trigger] ind(vh, nv@.len() as u32)
    })
}
impl<'a> StreamFilterAdapter<'a> {
//@ FROM src/compaction/filter.rs :: impl < 'a , 'b : 'a > StreamFilterAdapter < 'a , 'b > :: fn handle_write :: OBL C17.3
//@ SUBST `BlobFileWriter :: new ( $1 ) ? . use_target_size ( $2 ) . use_compression ( $3 )` ==> `BlobFileWriter::new_configured(&self.shared, blob_opts)?` :: FORBID write insert blob_writer
//@ SUBST `indirection . encode_into_vec ( ) . into ( )` ==> `indirection.encode_into_vec_slice()`
    fn handle_write(
        &mut self,
        prev_key: &InternalKey,
        new_value: UserValue,
    ) -> /*+*/(r:/*-*/ Result<(ValueType, UserValue), Error>/*+*/)
        requires new_value@.len() <= u32::MAX
        ensures final(self).blob_opts == old(self).blob_opts, final(self).ctx == old(self).ctx,
            r is Ok ==> replaced(old(self).blob_opts, *old(self).blob_writer, *final(self).blob_writer, *prev_key, new_value, r->Ok_0)/*-*/
    {
        let Some(blob_opts) = self.blob_opts else {
            return Ok((ValueType::Value, new_value));
        };

        let value_size = new_value.len() as u32;

        if value_size < blob_opts.separation_threshold {
            return Ok((ValueType::Value, new_value));
        }

        let writer = if let Some(writer) = self.blob_writer {
            writer
        } else {
            let writer = BlobFileWriter::new_configured(&self.shared, blob_opts)?;

            self.blob_writer.insert(writer)
        };

        let vhandle = writer.write(&prev_key.user_key, prev_key.seqno, &new_value)?;

        let indirection = BlobIndirection {
            vhandle,
            size: value_size,
        };
        /*+*/proof {
            assert(*self.blob_writer is Some);
            let l0 = if *old(self).blob_writer is Some { (*old(self).blob_writer)->Some_0.log } else { Seq::empty() };
            assert((*self.blob_writer)->Some_0.log == l0.push((prev_key.user_key@, prev_key.seqno, new_value@)));
            assert(indirection_bytes(indirection) == ind(vhandle, new_value@.len() as u32));
        }/*-*/

        Ok((ValueType::Indirection, indirection.encode_into_vec_slice()))
    }
//@ END
//@ FROM src/compaction/filter.rs :: impl < 'a , 'b : 'a > StreamFilter for StreamFilterAdapter < 'a , 'b > :: fn filter_item :: OBL C17.3
//@ SUBST `. map ( StreamFilterVerdict :: Replace )` ==> `.map(|v__: (ValueType, UserValue)| StreamFilterVerdict::Replace(v__))`
    fn filter_item(&mut self, item: &InternalValue) -> /*+*/(r:/*-*/ Result<StreamFilterVerdict, Error>/*+*/)
        ensures
            // no filter installed: everything is kept
            old(self).filter is None ==> r is Ok && r->Ok_0 is Keep && *final(self).blob_writer == *old(self).blob_writer,
            // otherwise the stream is told exactly what the user filter's verdict says
            old(self).filter is Some && r is Ok ==> ({
                let v = (*old(self).filter->Some_0).verdict_of(*item);
                match v {
                    Verdict::Keep => r->Ok_0 is Keep,
                    Verdict::Destroy => r->Ok_0 is Drop,
                    Verdict::Remove => r->Ok_0 is Replace && r->Ok_0->Replace_0.0 == ValueType::Tombstone && r->Ok_0->Replace_0.1@.len() == 0,
                    Verdict::RemoveWeak => r->Ok_0 is Replace && r->Ok_0->Replace_0.0 == ValueType::WeakTombstone && r->Ok_0->Replace_0.1@.len() == 0,
                    Verdict::ReplaceValue(nv) => r->Ok_0 is Replace && replaced(old(self).blob_opts, *old(self).blob_writer, *final(self).blob_writer, item.key, nv, r->Ok_0->Replace_0),
                }
            }),
            // only a replacement may touch the blob writer
            old(self).filter is Some && r is Ok && !((*old(self).filter->Some_0).verdict_of(*item) is ReplaceValue) ==> *final(self).blob_writer == *old(self).blob_writer,/*-*/
    {
        let Some(filter) = self.filter.as_mut() else {
            return Ok(StreamFilterVerdict::Keep);
        };

        match filter.filter_item(
            ItemAccessor {
                item,
                shared: &self.shared,
            },
            self.ctx,
        )? {
            Verdict::Destroy => Ok(StreamFilterVerdict::Drop),
            Verdict::Keep => Ok(StreamFilterVerdict::Keep),
            Verdict::Remove => Ok(StreamFilterVerdict::Replace((
                ValueType::Tombstone,
                UserValue::empty(),
            ))),
            Verdict::RemoveWeak => Ok(StreamFilterVerdict::Replace((
                ValueType::WeakTombstone,
                UserValue::empty(),
            ))),
            Verdict::ReplaceValue(new_value) => self
                .handle_write(&item.key, new_value)
                .map(|v__: (ValueType, UserValue)| /*+*/-> (o: StreamFilterVerdict) ensures o == StreamFilterVerdict::Replace(v__) {/*-*/ StreamFilterVerdict::Replace(v__) /*+*/}/*-*/),
        }
    }
//@ END
}
}
fn main() {}
