//@ UNIT filter_writer_part
// Partitioned filter writer (src/table/writer/filter/partitioned.rs).  The keys registered (ascending, by the table writer) are cut into
// consecutive partitions; partition p's filter is built from the hashes of exactly the keys registered since the previous cut - none
// lost at a cut or at `finish` - and is written as one framed filter block into the section "filter"; the top-level index (section
// "filter_tli") gets one handle per partition whose end key is the LAST key of that partition and which addresses that partition's
// block.  So the partition a lookup of key k is sent to (the first whose end key is >= k) is the one that holds k's hash: a partitioned
// filter has no false negatives either (with C01.23).  Obligations C11.12, C01.37
use vstd::prelude::*;
verus! {
global size_of usize == 8;
type SeqNo = u64;

// ---------------- prelude (TRUSTED) ----------------
#[verifier::external_body] struct Error { p: u8 }
#[derive(Copy, Clone, PartialEq, Eq, Structural)] enum BlockType { Data, Index, Filter, Meta }
#[derive(Copy, Clone)] struct CompressionType { p: u8 }
#[derive(Copy, Clone, PartialEq, Eq, Structural)] struct BlockOffset(u64);
struct BlockHandle { offset: BlockOffset, size: u32 }
impl BlockHandle { fn new(offset: BlockOffset, size: u32) -> (r: Self) ensures r.offset == offset, r.size == size { Self { offset, size } } }
/// end key of a handle: its rank in the byte-string order and its length (at most u16::MAX)
#[verifier::external_body] struct UserKey { p: u8 }
impl UserKey {
    uninterp spec fn rank(&self) -> int;
    #[verifier::external_body] fn len(&self) -> (r: usize) ensures r <= 65535 { unimplemented!() }
    #[verifier::external_body] fn clone(&self) -> (r: Self) ensures r.rank() == self.rank() { unimplemented!() }
}
/// KeyedBlockHandle (codec: unit index_codec): what it records
pub ghost struct H { pub end_key: int, pub seqno: SeqNo, pub offset: u64, pub size: u32 }
#[verifier::external_body] struct KeyedBlockHandle { p: u8 }
impl KeyedBlockHandle {
    uninterp spec fn v(&self) -> H;
    #[verifier::external_body]
    fn new(end_key: UserKey, seqno: SeqNo, handle: BlockHandle) -> (r: Self) ensures r.v() == (H { end_key: end_key.rank(), seqno, offset: handle.offset.0, size: handle.size }) { unimplemented!() }
    #[verifier::external_body] fn end_key(&self) -> (r: &UserKey) ensures r.rank() == self.v().end_key { unimplemented!() }
    #[verifier::external_body] fn seqno(&self) -> (r: SeqNo) ensures r == self.v().seqno { unimplemented!() }
    /// `self.inner.offset += delta` (u64 addition; an overflow would panic / wrap - excluded by the caller's precondition)
    #[verifier::external_body]
    fn shift(&mut self, delta: BlockOffset)
        requires old(self).v().offset + delta.0 <= u64::MAX
        ensures final(self).v() == (H { offset: (old(self).v().offset + delta.0) as u64, ..old(self).v() })
    { unimplemented!() }
}
/// `std::mem::size_of::<KeyedBlockHandle>()`
#[verifier::external_body] fn kbh_size() -> (r: usize) ensures 0 < r <= 128 { unimplemented!() }
spec fn views(hs: Seq<KeyedBlockHandle>) -> Seq<H> { Seq::new(hs.len(), |i: int| hs[i].v()) }
/// the payload IndexBlock::encode_into produces for these handles (Encoder::write with restart interval 1 over the index entry codec, C12.20)
uninterp spec fn index_encoded(handles: Seq<H>) -> Seq<u8>;
struct IndexBlock { p: u8 }
impl IndexBlock {
    #[verifier::external_body]
    fn encode_into(writer: &mut Vec<u8>, items: &[KeyedBlockHandle]) -> (r: Result<(), Error>)
        ensures r is Ok ==> final(writer)@ == old(writer)@ + index_encoded(views(items@))
    { unimplemented!() }
}
struct Header { data_length: u32 }
impl Header { #[verifier::external_body] fn serialized_len() -> (r: usize) ensures r == 33 { unimplemented!() } }
/// the bytes Block::write_into appends for a payload (unit block_io, C12.9)
uninterp spec fn frame(data: Seq<u8>, t: BlockType, c: CompressionType) -> Seq<u8>;
/// sfa::Writer<ChecksummedWriter<BufWriter<File>>>: the section started last, the bytes written into it, the absolute file position
struct FileWriter { ghost section: Seq<char>, ghost written: Seq<u8>, ghost pos: u64, ghost closed: Seq<(Seq<char>, Seq<u8>)> }
impl FileWriter {
    /// sfa::Writer::start(name): closes the current section and begins a new named one
    #[verifier::external_body]
    fn start(&mut self, name: &str) -> (r: Result<(), Error>)
        ensures r is Ok ==> final(self).section == name@ && final(self).written == Seq::<u8>::empty() && final(self).pos == old(self).pos
            && final(self).closed == old(self).closed.push((old(self).section, old(self).written))
    { unimplemented!() }
    /// `file_writer.get_mut().stream_position()`
    #[verifier::external_body]
    fn position(&mut self) -> (r: Result<u64, Error>) ensures *final(self) == *old(self), r is Ok ==> r->Ok_0 == old(self).pos { unimplemented!() }
    #[verifier::external_body]
    fn write_all(&mut self, b: &[u8]) -> (r: Result<(), Error>)
        ensures r is Ok ==> final(self).section == old(self).section && final(self).written == old(self).written + b@ && final(self).closed == old(self).closed
    { unimplemented!() }
}
struct Block { p: u8 }
impl Block {
    #[verifier::external_body]
    fn write_into(writer: &mut Vec<u8>, data: &[u8], block_type: BlockType, compression: CompressionType) -> (r: Result<Header, Error>)
        ensures r is Ok ==> final(writer)@ == old(writer)@ + frame(data@, block_type, compression)
            && frame(data@, block_type, compression).len() == 33 + r->Ok_0.data_length && frame(data@, block_type, compression).len() <= u32::MAX
    { unimplemented!() }
}
impl FileWriter {
    /// Block::write_into with the archive writer as the sink (R6': the generic writer parameter is monomorphised)
    #[verifier::external_body]
    fn write_block(&mut self, data: &[u8], block_type: BlockType, compression: CompressionType) -> (r: Result<Header, Error>)
        ensures final(self).section == old(self).section, final(self).closed == old(self).closed,
            r is Ok ==> final(self).written == old(self).written + frame(data@, block_type, compression)
            && frame(data@, block_type, compression).len() == 33 + r->Ok_0.data_length && frame(data@, block_type, compression).len() <= u32::MAX
    { unimplemented!() }
}


// ---------------- filter side of the prelude ----------------
/// Builder::get_hash(key): a function of the key's bytes
uninterp spec fn hash_of(key: int) -> u64;
struct Builder { ghost hs: Seq<u64> }
/// the filter bytes built from these hashes (unit bloom, C01.23 / C01.32: every hash set is found again)
uninterp spec fn filter_image(hs: Seq<u64>) -> Seq<u8>;
impl Builder {
    #[verifier::external_body] fn get_hash(key: &UserKey) -> (r: u64) ensures r == hash_of(key.rank()) { unimplemented!() }
    #[verifier::external_body] fn set_with_hash(&mut self, h: u64) ensures final(self).hs == old(self).hs.push(h) { unimplemented!() }
    #[verifier::external_body] fn build(self) -> (r: Vec<u8>) ensures r@ == filter_image(self.hs) { unimplemented!() }
}
#[derive(Copy, Clone)] struct BloomConstructionPolicy { p: u8 }
impl BloomConstructionPolicy {
    /// sizes the filter for n items (tuning)
    #[verifier::external_body] fn init(&self, n: usize) -> (r: Builder) ensures r.hs == Seq::<u64>::empty() { unimplemented!() }
    #[verifier::external_body] fn estimated_filter_size(&self, n: usize) -> (r: usize) { unimplemented!() }
}
spec fn hashes(keys: Seq<int>) -> Seq<u64> { Seq::new(keys.len(), |i: int| hash_of(keys[i])) }

//@ FROM src/table/writer/filter/partitioned.rs :: - :: struct PartitionedFilterWriter
struct PartitionedFilterWriter {
    final_filter_buffer: Vec<u8>,

    tli_handles: Vec<KeyedBlockHandle>,

    bloom_hash_buffer: Vec<u64>,
    approx_filter_size: usize,

    partition_size: u32,

    bloom_policy: BloomConstructionPolicy,

    relative_file_pos: u64,

    last_key: Option<UserKey>,

    compression: CompressionType,
}
//@ END
/// the framed filter partitions, one after the other
spec fn blocks(parts: Seq<Seq<int>>) -> Seq<u8> decreases parts.len()
{ if parts.len() == 0 { Seq::empty() } else { blocks(parts.drop_last()) + frame(filter_image(hashes(parts.last())), BlockType::Filter, CompressionType::none()) } }
/// all keys of the partitions, in order
spec fn flat(parts: Seq<Seq<int>>) -> Seq<int> decreases parts.len()
{ if parts.len() == 0 { Seq::empty() } else { flat(parts.drop_last()) + parts.last() } }
impl CompressionType { uninterp spec fn none() -> CompressionType; #[verifier::external_body] fn exec_none() -> (r: Self) ensures r == Self::none() { unimplemented!() } }
impl PartitionedFilterWriter {
    /// the partitions cut so far are `parts`, the keys registered since the last cut `pend`; `regs` is everything registered
    spec fn inv(&self, parts: Seq<Seq<int>>, pend: Seq<int>, regs: Seq<int>) -> bool {
        &&& self.core(parts, pend, regs)
        // the last key registered is remembered (it becomes the end key of the partition `finish` cuts)
        &&& (regs.len() > 0 ==> self.last_key is Some && self.last_key->0.rank() == regs.last())
        &&& (regs.len() == 0 ==> self.last_key is None)
    }
    spec fn core(&self, parts: Seq<Seq<int>>, pend: Seq<int>, regs: Seq<int>) -> bool {
        &&& flat(parts) + pend == regs
        &&& self.bloom_hash_buffer@ == hashes(pend)
        &&& self.tli_handles@.len() == parts.len()
        &&& self.final_filter_buffer@ == blocks(parts) && self.relative_file_pos == self.final_filter_buffer@.len()
        &&& forall|p: int| 0 <= p < parts.len() ==> (#[trigger] parts[p]).len() > 0 && ({
                let t = self.tli_handles@[p].v();
                // one top-level handle per partition: its end key is the partition's last key; position and framed size of its block
                &&& t.end_key == parts[p].last() && t.seqno == 0
                &&& t.offset == blocks(parts.take(p)).len()
                &&& t.size == frame(filter_image(hashes(parts[p])), BlockType::Filter, CompressionType::none()).len()
            })
    }
}
proof fn lemma_blocks_push(parts: Seq<Seq<int>>, chunk: Seq<int>)
    ensures blocks(parts.push(chunk)) == blocks(parts) + frame(filter_image(hashes(chunk)), BlockType::Filter, CompressionType::none()),
        flat(parts.push(chunk)) == flat(parts) + chunk,
{ assert(parts.push(chunk).drop_last() =~= parts); }
proof fn lemma_take_push(parts: Seq<Seq<int>>, chunk: Seq<int>, p: int)
    requires 0 <= p <= parts.len()
    ensures parts.push(chunk).take(p) == parts.take(p)
{ assert(parts.push(chunk).take(p) =~= parts.take(p)); }
proof fn lemma_blocks_prefix_len(parts: Seq<Seq<int>>, p: int)
    requires 0 <= p <= parts.len()
    ensures blocks(parts.take(p)).len() <= blocks(parts).len()
    decreases parts.len() - p
{
    if p < parts.len() { lemma_blocks_prefix_len(parts, p + 1); assert(parts.take(p + 1).drop_last() =~= parts.take(p)); } else { assert(parts.take(p) =~= parts); }
}
/// `opt.expect(msg)`: execution continues only with Some (a panic returns nothing)
#[verifier::external_body] fn opt_expect_rt<T>(o: Option<T>) -> (r: T) ensures o == Some(r) { o.expect("") }

//@ SUBST `crate :: Result < $1 >` ==> `Result<$1, Error>`
//@ SUBST `crate :: table :: block :: BlockType ::` ==> `BlockType::`
//@ SUBST `BlockHeader :: serialized_len ( )` ==> `Header::serialized_len()`
//@ SUBST `vec ! [ ]` ==> `Vec::new()`
//@ SUBST `CompressionType :: None` ==> `CompressionType::exec_none()`
impl PartitionedFilterWriter {
//@ FROM src/table/writer/filter/partitioned.rs :: impl PartitionedFilterWriter :: fn spill_filter_partition :: OBL C11.12, C01.37
//@ SUBST `for hash in self . bloom_hash_buffer . drain ( .. ) { builder . set_with_hash ( hash ) ; }` ==> `let mut i__: usize = 0; while i__ < self.bloom_hash_buffer.len() { builder.set_with_hash(self.bloom_hash_buffer[i__]); i__ += 1; } self.bloom_hash_buffer.clear();`
// `for hash in v.drain(..) { .. }` as an index loop followed by clear() (Verus has no Drain)
    fn spill_filter_partition(&mut self, key: &UserKey/*+*/, Ghost(parts): Ghost<Seq<Seq<int>>>, Ghost(pend): Ghost<Seq<int>>, Ghost(regs): Ghost<Seq<int>>/*-*/) -> /*+*/(r:/*-*/ Result<(), Error>/*+*/)
        requires old(self).core(parts, pend, regs), pend.len() > 0, key.rank() == pend.last(), old(self).relative_file_pos <= u64::MAX - u32::MAX,
        ensures final(self).compression == old(self).compression, final(self).partition_size == old(self).partition_size, final(self).last_key == old(self).last_key,
            final(self).relative_file_pos <= old(self).relative_file_pos + u32::MAX,
            // all pending keys - and only they - make up the next partition, whose end key is the key given; nothing pending is left
            r is Ok ==> final(self).core(parts.push(pend), Seq::<int>::empty(), regs),/*-*/
    {
        let filter_bytes = {
            let mut builder = self.bloom_policy.init(self.bloom_hash_buffer.len());

            let mut i__: usize = 0; while i__ < self.bloom_hash_buffer.len()
                /*+*/invariant i__ <= self.bloom_hash_buffer@.len(), self.bloom_hash_buffer@ == old(self).bloom_hash_buffer@, builder.hs == self.bloom_hash_buffer@.take(i__ as int),
                    self.tli_handles == old(self).tli_handles, self.final_filter_buffer == old(self).final_filter_buffer, self.relative_file_pos == old(self).relative_file_pos,
                    self.last_key == old(self).last_key, self.compression == old(self).compression, self.partition_size == old(self).partition_size,
                decreases self.bloom_hash_buffer@.len() - i__/*-*/
            { builder.set_with_hash(self.bloom_hash_buffer[i__]); i__ += 1; /*+*/proof { assert(self.bloom_hash_buffer@.take(i__ as int) =~= self.bloom_hash_buffer@.take(i__ - 1).push(self.bloom_hash_buffer@[i__ - 1])); }/*-*/ } self.bloom_hash_buffer.clear();
            /*+*/proof { assert(builder.hs =~= hashes(pend)); }/*-*/

            builder.build()
        };

        let header = Block::write_into(
            &mut self.final_filter_buffer,
            &filter_bytes,
            BlockType::Filter,
            CompressionType::exec_none(),
        )?;

        let bytes_written = (header.data_length as usize + Header::serialized_len()) as u32;

        self.tli_handles.push(KeyedBlockHandle::new(
            key.clone(),
            0,
            BlockHandle::new(BlockOffset(self.relative_file_pos), bytes_written),
        ));

        self.bloom_hash_buffer.clear();
        self.approx_filter_size = 0;
        self.relative_file_pos += u64::from(bytes_written);

        /*+*/proof {
            let np = parts.push(pend);
            lemma_blocks_push(parts, pend);
            assert(flat(np) + Seq::<int>::empty() =~= regs);
            assert(self.bloom_hash_buffer@ =~= hashes(Seq::<int>::empty()));
            assert(np.take(parts.len() as int) =~= parts);
            assert(self.final_filter_buffer@ =~= blocks(np));
            assert forall|p: int| 0 <= p < np.len() implies (#[trigger] np[p]).len() > 0 && ({
                let t = self.tli_handles@[p].v();
                &&& t.end_key == np[p].last() && t.seqno == 0
                &&& t.offset == blocks(np.take(p)).len()
                &&& t.size == frame(filter_image(hashes(np[p])), BlockType::Filter, CompressionType::none()).len()
            }) by {
                if p < parts.len() { lemma_take_push(parts, pend, p); assert(np[p] == parts[p]); assert(self.tli_handles@[p] == old(self).tli_handles@[p]); }
            }
        }/*-*/
        Ok(())
    }
//@ END

//@ FROM src/table/writer/filter/partitioned.rs :: FilterWriter < W > for PartitionedFilterWriter :: fn register_key :: OBL C11.12, C01.37
    fn register_key(&mut self, key: &UserKey/*+*/, Ghost(parts): Ghost<Seq<Seq<int>>>, Ghost(pend): Ghost<Seq<int>>, Ghost(regs): Ghost<Seq<int>>/*-*/) -> /*+*/(r:/*-*/ Result<(), Error>/*+*/)
        requires old(self).inv(parts, pend, regs), old(self).relative_file_pos <= u64::MAX - u32::MAX,
        ensures final(self).compression == old(self).compression, final(self).partition_size == old(self).partition_size,
            // the key's hash is kept, after everything registered before: either still pending, or in the partition just cut - which then ends with this key
            r is Ok ==> final(self).inv(parts, pend.push(key.rank()), regs.push(key.rank())) || final(self).inv(parts.push(pend.push(key.rank())), Seq::<int>::empty(), regs.push(key.rank())),/*-*/
    {
        self.bloom_hash_buffer.push(Builder::get_hash(key));

        self.approx_filter_size = self
            .bloom_policy
            .estimated_filter_size(self.bloom_hash_buffer.len());

        self.last_key = Some(key.clone());
        /*+*/let ghost npend = pend.push(key.rank()); let ghost nregs = regs.push(key.rank());
        proof { assert(self.bloom_hash_buffer@ =~= hashes(npend)); assert(flat(parts) + npend =~= nregs); assert(self.inv(parts, npend, nregs)); }/*-*/

        if self.approx_filter_size >= self.partition_size as usize {
            self.spill_filter_partition(key/*+*/, Ghost(parts), Ghost(npend), Ghost(nregs)/*-*/)?;
        }

        Ok(())
    }
//@ END
}

/// the top-level handles as written: those of the partitions, moved by the base offset of the section "filter"
spec fn shifted(t: Seq<H>, base: u64) -> Seq<H> { Seq::new(t.len(), |i: int| H { offset: (t[i].offset + base) as u64, ..t[i] }) }
/// what `finish` leaves in the table file (for at least one registered key): section "filter" = the framed filter partitions one after
/// the other, section "filter_tli" = one framed index block of the top-level handles; the partitions are a cut of all registered keys,
/// in order, none empty; the p-th top-level handle's end key is partition p's last key and it addresses partition p's block
spec fn finished(np: Seq<Seq<int>>, tli: Seq<H>, regs: Seq<int>, c: CompressionType, f0: FileWriter, f1: FileWriter, count: usize) -> bool {
    &&& flat(np) == regs && count == np.len() && tli.len() == np.len()
    &&& f1.section == "filter_tli"@ && f1.written == frame(index_encoded(shifted(tli, f0.pos)), BlockType::Index, c)
    &&& f1.closed == f0.closed.push((f0.section, f0.written)).push(("filter"@, blocks(np)))
    &&& forall|p: int| 0 <= p < np.len() ==> (#[trigger] np[p]).len() > 0 && tli[p].end_key == np[p].last() && tli[p].seqno == 0
            && tli[p].offset == blocks(np.take(p)).len() && tli[p].size == frame(filter_image(hashes(np[p])), BlockType::Filter, CompressionType::none()).len()
}
spec fn finished_some(regs: Seq<int>, c: CompressionType, f0: FileWriter, f1: FileWriter, count: usize) -> bool { exists|np: Seq<Seq<int>>, tli: Seq<H>| #[trigger] finished(np, tli, regs, c, f0, f1, count) }
impl PartitionedFilterWriter {
//@ FROM src/table/writer/filter/partitioned.rs :: impl PartitionedFilterWriter :: fn write_top_level_index :: OBL C11.12
//@ SUBST `& mut sfa :: Writer < ChecksummedWriter < BufWriter < File > > >` ==> `&mut FileWriter`
//@ SUBST `Block :: write_into ( file_writer ,` ==> `file_writer.write_block(`
//@ SUBST `debug_assert ! ( $1 ) ;` ==> ``
//@ SUBST `for item in & mut self . tli_handles { item . shift ( index_base_offset ) ; }` ==> `let mut i__: usize = 0; while i__ < self.tli_handles.len() { self.tli_handles[i__].shift(index_base_offset); i__ += 1; }`
// `for item in &mut v { item.shift(d) }` as an index loop (Verus has no iterators over &mut)
    fn write_top_level_index(
        &mut self,
        file_writer: &mut FileWriter,
        index_base_offset: BlockOffset,
    ) -> /*+*/(r:/*-*/ Result<(), Error>/*+*/)
        requires forall|i: int| 0 <= i < old(self).tli_handles@.len() ==> (#[trigger] old(self).tli_handles@[i]).v().offset + index_base_offset.0 <= u64::MAX,
        ensures final(self).compression == old(self).compression, final(self).tli_handles@.len() == old(self).tli_handles@.len(),
            r is Ok ==> final(file_writer).section == "filter_tli"@
            && final(file_writer).closed == old(file_writer).closed.push((old(file_writer).section, old(file_writer).written))
            && final(file_writer).written == frame(index_encoded(shifted(views(old(self).tli_handles@), index_base_offset.0)), BlockType::Index, old(self).compression),/*-*/
    {
        file_writer.start("filter_tli")?;

        let mut i__: usize = 0; while i__ < self.tli_handles.len()
            /*+*/invariant i__ <= self.tli_handles@.len(), self.tli_handles@.len() == old(self).tli_handles@.len(), self.compression == old(self).compression,
                forall|i: int| 0 <= i < i__ ==> (#[trigger] self.tli_handles@[i]).v() == shifted(views(old(self).tli_handles@), index_base_offset.0)[i],
                forall|i: int| i__ <= i < self.tli_handles@.len() ==> (#[trigger] self.tli_handles@[i]) == old(self).tli_handles@[i],
                forall|i: int| 0 <= i < old(self).tli_handles@.len() ==> (#[trigger] old(self).tli_handles@[i]).v().offset + index_base_offset.0 <= u64::MAX,
            decreases self.tli_handles@.len() - i__/*-*/
        { self.tli_handles[i__].shift(index_base_offset); i__ += 1; }

        let mut bytes = Vec::new();
        IndexBlock::encode_into(&mut bytes, &self.tli_handles)?;
        /*+*/proof { assert(views(self.tli_handles@) =~= shifted(views(old(self).tli_handles@), index_base_offset.0)); assert(bytes@ =~= index_encoded(views(self.tli_handles@))); }/*-*/

        let header = file_writer.write_block(
            &bytes,
            BlockType::Index,
            self.compression,
        )?;

        let bytes_written = Header::serialized_len() as u32 + header.data_length;
        /*+*/proof { assert(file_writer.written =~= frame(index_encoded(views(self.tli_handles@)), BlockType::Index, self.compression)); }/*-*/

        Ok(())
    }
//@ END

//@ FROM src/table/writer/filter/partitioned.rs :: FilterWriter < W > for PartitionedFilterWriter :: fn finish :: OBL C11.12, C01.37
//@ SUBST `mut self : Box < Self >` ==> `self`
//@ SUBST `self .` ==> `self_.`
//@ SUBST `& mut sfa :: Writer < ChecksummedWriter < BufWriter < File > > >` ==> `&mut FileWriter`
//@ SUBST `file_writer . get_mut ( ) . stream_position ( ) ?` ==> `file_writer.position()?`
//@ SUBST `self_. last_key . take ( ) . expect ( "last key should exist" )` ==> `opt_expect_rt(self_.last_key.take())`
// (`mut self` is not supported: the body works on a local copy `self_`)
    fn finish(
        self,
        file_writer: &mut FileWriter,/*+*/ Ghost(parts): Ghost<Seq<Seq<int>>>, Ghost(pend): Ghost<Seq<int>>, Ghost(regs): Ghost<Seq<int>>/*-*/
    ) -> /*+*/(r:/*-*/ Result<usize, Error>/*+*/)
        requires self.inv(parts, pend, regs), self.relative_file_pos <= u64::MAX - u32::MAX,
            old(file_writer).pos + self.relative_file_pos + u32::MAX <= u64::MAX,
        ensures
            // nothing registered: no filter is written
            r is Ok && regs.len() == 0 ==> r->Ok_0 == 0 && *final(file_writer) == *old(file_writer),
            r is Ok && regs.len() > 0 ==> finished_some(regs, self.compression, *old(file_writer), *final(file_writer), r->Ok_0),/*-*/
    {
        /*+*/let mut self_ = self; let ghost mut np = parts; let ghost c = self.compression;/*-*/
        if self_.last_key.is_none() {
            return Ok(0);
        }

        if !self_.bloom_hash_buffer.is_empty() {
            let last_key = opt_expect_rt(self_.last_key.take());
            /*+*/proof { assert(pend.len() > 0) by { if pend.len() == 0 { assert(hashes(pend).len() == 0); } } assert(regs.last() == pend.last()); }/*-*/
            self_.spill_filter_partition(&last_key/*+*/, Ghost(parts), Ghost(pend), Ghost(regs)/*-*/)?;
            /*+*/proof { np = parts.push(pend); }/*-*/
        }
        /*+*/proof {
            if pend.len() > 0 { assert(hashes(pend).len() > 0); }
            assert(flat(np) == regs) by { if pend.len() == 0 { assert(flat(parts) + pend =~= flat(parts)); } else { assert(flat(np) + Seq::<int>::empty() =~= flat(np)); } }
            assert(self_.compression == c);
        }/*-*/

        let index_base_offset = BlockOffset(file_writer.position()?);

        file_writer.start("filter")?;
        file_writer.write_all(&self_.final_filter_buffer)?;
        /*+*/let ghost tli = views(self_.tli_handles@);
        proof {
            assert(file_writer.written =~= blocks(np));
            assert forall|p: int| 0 <= p < np.len() implies (#[trigger] np[p]).len() > 0 && tli[p].end_key == np[p].last() && tli[p].seqno == 0
                && tli[p].offset == blocks(np.take(p)).len() && tli[p].size == frame(filter_image(hashes(np[p])), BlockType::Filter, CompressionType::none()).len() by {
                assert(np[p].len() > 0);
                assert(tli[p] == self_.tli_handles@[p].v());
            }
            assert forall|i: int| 0 <= i < self_.tli_handles@.len() implies (#[trigger] self_.tli_handles@[i]).v().offset + index_base_offset.0 <= u64::MAX by {
                lemma_blocks_prefix_len(np, i);
                assert(np[i].len() > 0);
                assert(self_.tli_handles@[i].v().offset == blocks(np.take(i)).len());
            }
        }/*-*/

        let block_count = self_.tli_handles.len();

        self_.write_top_level_index(file_writer, index_base_offset)?;
        /*+*/proof {
            assert(index_base_offset.0 == old(file_writer).pos);
            assert(finished(np, tli, regs, self.compression, *old(file_writer), *file_writer, block_count));
            assert(finished_some(regs, self.compression, *old(file_writer), *file_writer, block_count));
        }/*-*/

        Ok(block_count)
    }
//@ END
}
}
fn main() {}
