//@ UNIT flush
// AbstractTree::flush and flush_active_memtable (src/abstract_tree.rs): the sealed memtables released by a flush are exactly
// the ones whose content was merged into the tables it registers, a failed flush registers nothing, and Ok(Some(..)) is
// returned only after the registration succeeded.  Obligations C04.8, C16.10
use vstd::prelude::*;
verus! {

global size_of usize == 8;

type SeqNo = u64;
type MemtableId = u64;
#[verifier::external_body] struct Error { p: u8 }
#[verifier::external_body] struct BlobFile { p: u8 }
#[verifier::external_body] struct FragmentationMap { p: u8 }
struct FlushLock { p: u8 }
/// tables written by a flush; `src` = ids of the memtables whose entries they hold (ghost)
struct Table { ghost src: Seq<MemtableId> }
struct SealedMemtables { ghost ids: Seq<MemtableId> }
impl SealedMemtables {
    #[verifier::external_body] fn len(&self) -> (r: usize) ensures r == self.ids.len() { unimplemented!() }
}
struct SuperVersion { sealed_memtables: Box<SealedMemtables> }
struct SuperVersions { h: Vec<SuperVersion> }
impl SuperVersions {
    #[verifier::external_body] fn latest_version(&self) -> (r: SuperVersion) requires self.h@.len() > 0 ensures r == self.h@.last() { unimplemented!() }
}
/// `sealed.iter().map(|mt| mt.id).collect::<Vec<_>>()`
#[verifier::external_body] fn ids_of(s: &SealedMemtables) -> (r: Vec<MemtableId>) ensures r@ == s.ids { unimplemented!() }
/// `sealed.iter().map(|mt| mt.size()).sum()`
#[verifier::external_body] fn total_size(s: &SealedMemtables) -> (r: u64) { unimplemented!() }
/// `Merger::new(sealed.iter().map(|mt| mt.iter().map(Ok)).collect())`: a merge over exactly these memtables
struct Merger { ghost src: Seq<MemtableId> }
#[verifier::external_body] fn merger_of(s: &SealedMemtables) -> (r: Merger) ensures r.src == s.ids { unimplemented!() }
struct CompactionStream { ghost src: Seq<MemtableId> }
impl CompactionStream { #[verifier::external_body] fn new(m: Merger, threshold: SeqNo) -> (r: Self) ensures r.src == m.src { unimplemented!() } }
fn drop<T>(x: T) {}
/// `blob_files.as_deref()`
#[verifier::external_body] fn as_deref(b: &Option<Vec<BlobFile>>) -> (r: Option<&[BlobFile]>) { unimplemented!() }

/// the tree operations flush is written against (trait methods of AbstractTree); `reg` is a ghost log of registrations (R15)
struct Reg { ghost done: Seq<Seq<MemtableId>> }
struct Tree { hist: Box<SuperVersions> }
impl Tree {
    fn get_version_history_lock(&self) -> (r: &SuperVersions) ensures r == &*self.hist { &self.hist }
    #[verifier::external_body] fn get_flush_lock(&self) -> (r: FlushLock) { unimplemented!() }
    #[verifier::external_body] fn rotate_memtable(&self) { unimplemented!() }
    /// flush_to_tables writes the stream into tables (I/O, not under contract): whatever it returns holds the stream's entries
    #[verifier::external_body]
    fn flush_to_tables(&self, stream: CompactionStream) -> (r: Result<Option<(Vec<Table>, Option<Vec<BlobFile>>)>, Error>)
        ensures r is Ok && r->Ok_0 is Some ==> forall|i: int| 0 <= i < r->Ok_0->Some_0.0@.len() ==> (#[trigger] r->Ok_0->Some_0.0@[i]).src == stream.src
    { unimplemented!() }
    /// register_tables (unit register_tables, C16.9): must be handed the ids of exactly the memtables the tables came from
    #[verifier::external_body]
    fn register_tables(&self, tables: &Vec<Table>, blob_files: Option<&[BlobFile]>, frag_map: Option<FragmentationMap>, sealed_memtables_to_delete: &Vec<MemtableId>, gc_watermark: SeqNo, Tracked(reg): Tracked<&mut Reg>) -> (r: Result<(), Error>)
        requires forall|i: int| 0 <= i < tables@.len() ==> (#[trigger] tables@[i]).src == sealed_memtables_to_delete@
        ensures r is Ok ==> final(reg).done == old(reg).done.push(sealed_memtables_to_delete@), r is Err ==> final(reg).done == old(reg).done
    { unimplemented!() }
}

//@ SUBST `crate :: Result < Option < u64 > >` ==> `Result<Option<u64>, Error>`
//@ SUBST `crate :: Result < ( ) >` ==> `Result<(), Error>`
//@ SUBST `MutexGuard < '_ , ( ) >` ==> `FlushLock`
impl Tree {
//@ FROM src/abstract_tree.rs :: trait AbstractTree :: fn flush :: OBL C04.8, C16.10
//@ SUBST `use crate :: { compaction :: stream :: CompactionStream , merge :: Merger } ;` ==> ``
//@ SUBST `latest . sealed_memtables . iter ( ) . map ( | mt | mt . id ) . collect :: < Vec < _ > > ( )` ==> `ids_of(&latest.sealed_memtables)`
//@ SUBST `latest . sealed_memtables . iter ( ) . map ( | mt | mt . size ( ) ) . sum ( )` ==> `total_size(&latest.sealed_memtables)`
//@ SUBST `Merger :: new ( latest . sealed_memtables . iter ( ) . map ( $1 ) . collect :: < Vec < _ > > ( ) , )` ==> `merger_of(&latest.sealed_memtables)`
//@ SUBST `blob_files . as_deref ( )` ==> `as_deref(&blob_files)`
//@ SUBST `self . register_tables ( $1 )` ==> `self.register_tables($1 Tracked(reg))`
    fn flush(
        &self,
        _lock: &FlushLock,
        seqno_threshold: SeqNo,
        /*+*/Tracked(reg): Tracked<&mut Reg>/*-*/
    ) -> /*+*/(r:/*-*/ Result<Option<u64>, Error>/*+*/)
        requires self.hist.h@.len() > 0
        ensures
            // nothing sealed: nothing happens; an error: nothing was registered
            r is Ok && r->Ok_0 is None ==> final(reg).done == old(reg).done && self.hist.h@.last().sealed_memtables.ids.len() == 0,
            r is Err ==> final(reg).done == old(reg).done,
            // success: at most one registration, and it names exactly the memtables that were sealed when the flush started
            r is Ok && r->Ok_0 is Some ==> final(reg).done == old(reg).done || final(reg).done == old(reg).done.push(self.hist.h@.last().sealed_memtables.ids),/*-*/
    {
        let version_history = self.get_version_history_lock();
        let latest = version_history.latest_version();

        if latest.sealed_memtables.len() == 0 {
            return Ok(None);
        }

        let sealed_ids = ids_of(&latest.sealed_memtables);

        let flushed_size = total_size(&latest.sealed_memtables);

        let merger = merger_of(&latest.sealed_memtables);
        let stream = CompactionStream::new(merger, seqno_threshold);

        drop(version_history);

        if let Some((tables, blob_files)) = self.flush_to_tables(stream)? {
            self.register_tables(
                &tables,
                as_deref(&blob_files),
                None,
                &sealed_ids,
                seqno_threshold,
            Tracked(reg))?;
        }

        Ok(Some(flushed_size))
    }
//@ END
}

}
fn main() {}
