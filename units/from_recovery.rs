//@ UNIT from_recovery
// Version::from_recovery, Version::from_levels, Level::from_runs, Run::new: the version assembled at reopen has exactly
// the level / run / table structure recorded in the version file, in the recorded order.  Obligations C04.6, C07.7
use vstd::prelude::*;
use std::sync::Arc;
verus! {

global size_of usize == 8;

type VersionId = u64;
type TableId = u64;
type BlobFileId = u64;
type SeqNo = u64;

// ---------------- prelude (TRUSTED) ----------------
enum Error { Io, Unrecoverable }
#[derive(Copy, Clone, PartialEq, Eq, Structural)]
enum TreeType { Standard, Blob }
struct Checksum(u128);
struct FragmentationMap { p: u8 }
/// a recovered table / blob file: an opaque handle with an id; Clone yields the same handle
struct Table { id: TableId, h: u64 }
impl Table { fn id(&self) -> (r: TableId) ensures r == self.id { self.id } }
impl Clone for Table { fn clone(&self) -> (r: Self) ensures r == *self { Table { id: self.id, h: self.h } } }
struct BlobFile { id: BlobFileId, h: u64 }
/// BlobFileList::new(blob_files.iter().cloned().map(|bf| (bf.id(), bf)).collect()): the list keyed by blob file id
struct BlobFileList { ghost m: Map<BlobFileId, BlobFile> }
#[verifier::external_body]
fn blob_file_list_of(blob_files: &[BlobFile]) -> (r: BlobFileList)
    ensures forall|id: BlobFileId| #[trigger] r.m.contains_key(id) <==> exists|i: int| 0 <= i < blob_files@.len() && blob_files@[i].id == id,
        forall|i: int| 0 <= i < blob_files@.len() ==> r.m.contains_key(#[trigger] blob_files@[i].id)
{ unimplemented!() }

/// `xs.iter().map(f).collect::<crate::Result<Vec<_>>>()` (std): element-wise results in order, or the first error
#[verifier::external_body]
fn try_map_collect<T, U, F: Fn(&T) -> Result<U, Error>>(xs: &Vec<T>, f: F) -> (r: Result<Vec<U>, Error>)
    requires forall|i: int| 0 <= i < xs@.len() ==> call_requires(f, (&#[trigger] xs@[i],))
    ensures r is Ok ==> r->Ok_0@.len() == xs@.len() && forall|i: int| 0 <= i < xs@.len() ==> call_ensures(f, (&xs@[i],), Ok::<U, Error>(#[trigger] r->Ok_0@[i]))
{ unimplemented!() }
/// `tables.iter().find(p).cloned()` (std): the first element satisfying p
#[verifier::external_body]
fn find_cloned<F: Fn(&&Table) -> bool>(tables: &[Table], p: F) -> (r: Option<Table>)
    requires forall|i: int| 0 <= i < tables@.len() ==> call_requires(p, (&&#[trigger] tables@[i],))
    ensures match r {
        Some(t) => exists|i: int| 0 <= i < tables@.len() && #[trigger] tables@[i] == t && call_ensures(p, (&&tables@[i],), true),
        None => forall|i: int| 0 <= i < tables@.len() ==> call_ensures(p, (&&#[trigger] tables@[i],), false),
    }
{ unimplemented!() }

//@ SUBST `crate :: Error` ==> `Error`
//@ SUBST `crate :: blob_tree :: FragmentationMap` ==> `FragmentationMap`

//@ FROM src/version/recovery.rs :: - :: struct RecoveredTable
struct RecoveredTable {
    id: TableId,
    checksum: Checksum,
    global_seqno: SeqNo,
}
//@ END

//@ FROM src/version/recovery.rs :: - :: struct Recovery
struct Recovery {
    tree_type: TreeType,
    curr_version_id: VersionId,
    table_ids: Vec<Vec<Vec<RecoveredTable>>>,
    blob_file_ids: Vec<(BlobFileId, Checksum)>,
    gc_stats: FragmentationMap,
}
//@ END

//@ FROM src/version/run.rs :: - :: struct Run
//@ SUBST `< T : Ranged >` ==> `<T>`
struct Run<T>(Vec<T>);
//@ END
impl<T> Run<T> {
//@ FROM src/version/run.rs :: impl < T : Ranged > Run < T > :: fn new :: OBL C04.6, C07.7
    fn new(items: Vec<T>) -> /*+*/(r:/*-*/ Option<Self>/*+*/)
        ensures items@.len() == 0 ==> r is None, items@.len() > 0 ==> r is Some && r->Some_0.0 == items/*-*/
    {
        if items.is_empty() {
            None
        } else {
            Some(Self(items))
        }
    }
//@ END
}

//@ FROM src/version/mod.rs :: - :: struct GenericLevel
//@ SUBST `< T : Ranged >` ==> `<T>`
struct GenericLevel<T> {
    runs: Vec<Arc<Run<T>>>,
}
//@ END

//@ FROM src/version/mod.rs :: - :: struct Level
struct Level(Arc<GenericLevel<Table>>);
//@ END

impl Level {
//@ FROM src/version/mod.rs :: impl Level :: fn from_runs :: OBL C04.6, C07.7
    fn from_runs(runs: Vec<Arc<Run<Table>>>) -> /*+*/(r:/*-*/ Self/*+*/) ensures r.0.runs == runs/*-*/ {
        Self(Arc::new(GenericLevel { runs }))
    }
//@ END
}

//@ FROM src/version/mod.rs :: - :: struct VersionInner
struct VersionInner {
    id: VersionId,

    tree_type: TreeType,

    levels: Vec<Level>,

    blob_files: Arc<BlobFileList>,

    gc_stats: Arc<FragmentationMap>,
}
//@ END

//@ FROM src/version/mod.rs :: - :: struct Version
struct Version {
    inner: Arc<VersionInner>,
}
//@ END

/// the table ids of a version / of a recovery record, level by level, run by run, in order
spec fn level_ids(l: Level) -> Seq<Seq<TableId>> { Seq::new(l.0.runs@.len(), |j: int| Seq::new(l.0.runs@[j].0@.len(), |k: int| l.0.runs@[j].0@[k].id)) }
spec fn levels_ids(ls: Seq<Level>) -> Seq<Seq<Seq<TableId>>> { Seq::new(ls.len(), |i: int| level_ids(ls[i])) }
spec fn version_ids(v: Version) -> Seq<Seq<Seq<TableId>>> { levels_ids(v.inner.levels@) }
spec fn rec_run_ids(r: Vec<RecoveredTable>) -> Seq<TableId> { Seq::new(r@.len(), |k: int| r@[k].id) }
spec fn rec_level_ids(l: Vec<Vec<RecoveredTable>>) -> Seq<Seq<TableId>> { Seq::new(l@.len(), |j: int| rec_run_ids(l@[j])) }
spec fn recs_ids(t: Seq<Vec<Vec<RecoveredTable>>>) -> Seq<Seq<Seq<TableId>>> { Seq::new(t.len(), |i: int| rec_level_ids(t[i])) }
spec fn rec_ids(r: Recovery) -> Seq<Seq<Seq<TableId>>> { recs_ids(r.table_ids@) }
/// every table of the version is one of the recovered tables
spec fn is_from(t: Table, tables: Seq<Table>) -> bool { exists|m: int| 0 <= m < tables.len() && #[trigger] tables[m] == t }
spec fn tables_from(v: Version, tables: Seq<Table>) -> bool { levels_from(v.inner.levels@, tables) }
spec fn levels_from(ls: Seq<Level>, tables: Seq<Table>) -> bool {
    forall|i: int, j: int, k: int| 0 <= i < ls.len() && 0 <= j < ls[i].0.runs@.len() && 0 <= k < ls[i].0.runs@[j].0@.len()
        ==> is_from(#[trigger] ls[i].0.runs@[j].0@[k], tables)
}
spec fn run_built(run: Vec<RecoveredTable>, tables: Seq<Table>, r: Arc<Run<Table>>) -> bool {
    r.0@.len() == run@.len() && forall|k: int| 0 <= k < run@.len() ==> (#[trigger] r.0@[k]).id == run@[k].id && is_from(r.0@[k], tables)
}
spec fn level_built(level: Vec<Vec<RecoveredTable>>, tables: Seq<Table>, l: Level) -> bool {
    l.0.runs@.len() == level@.len() && forall|j: int| 0 <= j < level@.len() ==> run_built(level@[j], tables, #[trigger] l.0.runs@[j])
}

proof fn lemma_built(ls: Seq<Level>, rec: Seq<Vec<Vec<RecoveredTable>>>, tables: Seq<Table>)
    requires ls.len() == rec.len(), forall|i: int| 0 <= i < rec.len() ==> level_built(rec[i], tables, #[trigger] ls[i])
    ensures levels_ids(ls) == recs_ids(rec), levels_from(ls, tables)
{
    assert forall|i: int| 0 <= i < ls.len() implies level_ids(ls[i]) == rec_level_ids(rec[i]) by {
        assert(level_built(rec[i], tables, ls[i]));
        assert forall|j: int| 0 <= j < rec[i]@.len() implies #[trigger] level_ids(ls[i])[j] == rec_run_ids(rec[i]@[j]) by {
            assert(run_built(rec[i]@[j], tables, ls[i].0.runs@[j]));
            assert(level_ids(ls[i])[j] =~= rec_run_ids(rec[i]@[j]));
        }
        assert(level_ids(ls[i]) =~= rec_level_ids(rec[i]));
    }
    assert(levels_ids(ls) =~= recs_ids(rec));
    assert forall|i: int, j: int, k: int| 0 <= i < ls.len() && 0 <= j < ls[i].0.runs@.len() && 0 <= k < ls[i].0.runs@[j].0@.len()
        implies is_from(#[trigger] ls[i].0.runs@[j].0@[k], tables) by {
        assert(level_built(rec[i], tables, ls[i]));
        assert(run_built(rec[i]@[j], tables, ls[i].0.runs@[j]));
    }
}

impl Version {
//@ FROM src/version/mod.rs :: impl Version :: fn from_recovery :: OBL C04.6, C07.7
//@ SUBST `crate :: Result < Self >` ==> `Result<Self, Error>`
//@ SUBST `recovery . table_ids . iter ( ) . map ( $1 ) . collect :: < crate :: Result < Vec < _ > > > ( )` ==> `try_map_collect(&recovery.table_ids, $1)`
//@ SUBST `level . iter ( ) . map ( $1 ) . collect :: < crate :: Result < Vec < _ > > > ( )` ==> `try_map_collect(level, $1)`
//@ SUBST `run . iter ( ) . map ( $1 ) . collect :: < crate :: Result < Vec < _ > > > ( )` ==> `try_map_collect(run, $1)`
//@ SUBST `tables . iter ( ) . find ( $1 ) . cloned ( )` ==> `find_cloned(tables, $1)`
//@ SUBST `BlobFileList :: new ( blob_files . iter ( ) . cloned ( ) . map ( | bf | ( bf . id ( ) , bf ) ) . collect ( ) )` ==> `blob_file_list_of(blob_files)`
    fn from_recovery(
        recovery: Recovery,
        tables: &[Table],
        blob_files: &[BlobFile],
    ) -> /*+*/(r:/*-*/ Result<Self, Error>/*+*/)
        requires forall|i: int, j: int| 0 <= i < recovery.table_ids@.len() && 0 <= j < recovery.table_ids@[i]@.len() ==> (#[trigger] recovery.table_ids@[i]@[j])@.len() > 0
        ensures r is Ok ==> ({ let v = r->Ok_0;
            version_ids(v) == rec_ids(recovery) && tables_from(v, tables@)
            && v.inner.id == recovery.curr_version_id && v.inner.tree_type == recovery.tree_type && *v.inner.gc_stats == recovery.gc_stats
            && forall|i: int| 0 <= i < blob_files@.len() ==> v.inner.blob_files.m.contains_key(#[trigger] blob_files@[i].id) })/*-*/
    {
        let version_levels = try_map_collect(&recovery.table_ids, |level/*+*/: &Vec<Vec<RecoveredTable>>| -> (lr: Result<Level, Error>)
                requires forall|j: int/*-*/| /*+*/0 <= j < level@.len() ==> (#[trigger] level@[j])@.len() > 0
                ensures lr is Ok ==> level_built(*level, tables@, lr->Ok_0)/*-*/
            {
                let level_runs = try_map_collect(level, |run/*+*/: &Vec<RecoveredTable>/*-*/| /*+*/-> (rr: Result<Arc<Run<Table>>, Error>)
                        requires run@.len() > 0
                        ensures rr is Ok ==> run_built(*run, tables@, rr->Ok_0)/*-*/
                    {
                        let run_tables = try_map_collect(run, |table/*+*/: &RecoveredTable/*-*/| /*+*/-> (tr: Result<Table, Error>)
                                ensures tr is Ok ==> tr->Ok_0.id == table.id && is_from(tr->Ok_0, tables@)/*-*/
                            {
                                find_cloned(tables, |x/*+*/: &&Table/*-*/| /*+*/-> (b: bool) ensures b == (x.id == table.id) {/*-*/ x.id() == table.id /*+*/}/*-*/)
                                    .ok_or(Error::Unrecoverable)
                            })?;

                        Ok(Arc::new(
                            Run::new(run_tables).expect("persisted runs should not be empty"),
                        ))
                    })?;

                Ok(Level::from_runs(level_runs))
            })?;

        /*+*/proof { lemma_built(version_levels@, recovery.table_ids@, tables@); }/*-*/
        Ok(Self::from_levels(
            recovery.curr_version_id,
            recovery.tree_type,
            version_levels,
            blob_file_list_of(blob_files),
            recovery.gc_stats,
        ))
    }
//@ END

//@ FROM src/version/mod.rs :: impl Version :: fn from_levels :: OBL C04.6, C07.7
    fn from_levels(
        id: VersionId,
        tree_type: TreeType,
        levels: Vec<Level>,
        blob_files: BlobFileList,
        gc_stats: FragmentationMap,
    ) -> /*+*/(r:/*-*/ Self/*+*/)
        ensures r.inner.id == id, r.inner.tree_type == tree_type, r.inner.levels == levels, *r.inner.blob_files == blob_files, *r.inner.gc_stats == gc_stats/*-*/
    {
        Self {
            inner: Arc::new(VersionInner {
                id,
                tree_type,
                levels,
                blob_files: Arc::new(blob_files),
                gc_stats: Arc::new(gc_stats),
            }),
        }
    }
//@ END
}

}
fn main() {}
