//@ UNIT gcstats
// Blob garbage statistics: FragmentationMap::on_dropped and the gc / value-log statements of
// Version::with_dropped (statement-level extraction, R10).  Obligations: C09.2, C09.4
#![feature(allocator_api)]
use vstd::prelude::*;
use vstd::std_specs::iter::*;
verus! {

global size_of usize == 8;
type BlobFileId = u64;
#[verifier::external_body] struct Error { p: u8 }

//@ SUBST `. entry ( $1 ) . and_modify ( $2 ) . or_insert_with ( $3 )` ==> `.upsert($1, $2, $3)`

//@ FROM src/blob_tree/gc.rs :: - :: struct FragmentationEntry
/*+*/#[derive(Copy, Clone)]/*-*/
struct FragmentationEntry {
    len: usize,
    bytes: u64,
    on_disk_bytes: u64,
}
//@ END
impl FragmentationEntry {
//@ FROM src/blob_tree/gc.rs :: impl FragmentationEntry :: fn new :: OBL C09.4
    fn new(len: usize, bytes: u64, on_disk_bytes: u64) -> /*+*/(r: /*-*/Self/*+*/) ensures r.len == len, r.bytes == bytes, r.on_disk_bytes == on_disk_bytes/*-*/ {
        Self {
            len,
            bytes,
            on_disk_bytes,
        }
    }
//@ END
}

/// TRUSTED prelude: FragmentationMap = newtype over HashMap<BlobFileId, FragmentationEntry>; its view is a finite map.
/// `upsert` stands for the std idiom `.entry(k).and_modify(f1).or_insert_with(f2)` (rule R16).
#[verifier::external_body]
struct FragmentationMap { m: Vec<(u64, u64)> }
impl FragmentationMap {
    uninterp spec fn view(&self) -> Map<u64, FragmentationEntry>;
    #[verifier::external_body]
    fn upsert<F1: FnOnce(&mut FragmentationEntry), F2: FnOnce() -> FragmentationEntry>(&mut self, k: u64, f1: F1, f2: F2)
        requires old(self).view().contains_key(k) ==> (forall|m: &mut FragmentationEntry| *m == old(self).view()[k] ==> call_requires(f1, (m,))),
            call_requires(f2, ()),
        ensures
            old(self).view().contains_key(k) ==> exists|m: &mut FragmentationEntry| *m == old(self).view()[k] && #[trigger] call_ensures(f1, (m,), ()) && final(self).view() == old(self).view().insert(k, *final(m)),
            !old(self).view().contains_key(k) ==> exists|v: FragmentationEntry| #[trigger] call_ensures(f2, (), v) && final(self).view() == old(self).view().insert(k, v),
    { unimplemented!() }
    /// obligation C09.2 (prune): restriction to the files of the value log
    #[verifier::external_body]
    fn prune(&mut self, value_log: &BlobFileList) ensures final(self).view() == old(self).view().restrict(value_log.view().dom()) { }
}
impl Clone for FragmentationMap {
    #[verifier::external_body]
    fn clone(&self) -> (r: Self) ensures r == *self { unimplemented!() }
}

/// what a table records about the blob files it points into (table::writer::LinkedFile)
#[derive(Copy, Clone)]
struct LinkedFile { blob_file_id: BlobFileId, bytes: u64, on_disk_bytes: u64, len: usize }
struct Table { links: Option<Vec<LinkedFile>> }
impl Table {
    #[verifier::external_body]
    fn list_blob_file_references(&self) -> (r: Result<Option<Vec<LinkedFile>>, Error>)
        ensures r is Ok ==> r->Ok_0 == self.links
    { unimplemented!() }
    spec fn refs(&self) -> Seq<LinkedFile> { match self.links { Some(v) => v@, None => Seq::empty() } }
}



/// light BlobFile / value log (R8)
#[derive(Clone, Copy)]
struct BlobMeta { total_uncompressed_bytes: u64 }
#[derive(Clone, Copy)]
struct BlobInner { id: u64, meta: BlobMeta }
#[derive(Clone, Copy)]
struct BlobFile(BlobInner);
spec fn is_dead_spec(bf: BlobFile, gc: Map<u64, FragmentationEntry>) -> bool { gc.contains_key(bf.0.id) && gc[bf.0.id].bytes == bf.0.meta.total_uncompressed_bytes }
impl FragmentationMap {
    /// HashMap::get
    #[verifier::external_body]
    fn get(&self, k: &u64) -> (r: Option<&FragmentationEntry>)
        ensures self.view().contains_key(*k) ==> r is Some && *r->0 == self.view()[*k], !self.view().contains_key(*k) ==> r is None
    { unimplemented!() }
}
pub assume_specification<T, F: FnOnce(T) -> bool>[ Option::<T>::is_some_and ](o: Option<T>, f: F) -> (r: bool)
    requires o is Some ==> call_requires(f, (o->0,)),
    ensures o is None ==> !r, o is Some ==> call_ensures(f, (o->0,), r);
impl BlobFile {
    fn id(&self) -> (r: u64) ensures r == self.0.id { self.0.id }
    /// BlobFile::is_stale compares an f32 ratio with a threshold: floating point is not modelled, so nothing is known about its result
    #[verifier::external_body]
    fn is_stale(&self, frag_map: &FragmentationMap, threshold: f32) -> bool { false }
//@ FROM src/vlog/blob_file/mod.rs :: impl BlobFile :: fn is_dead :: OBL C09.3, C20.8
    fn is_dead(&self, frag_map: &FragmentationMap) -> /*+*/(r: /*-*/bool/*+*/)
        // C09.3: dead <=> an entry exists and its garbage bytes equal the file's total uncompressed bytes (exact, no rounding)
        ensures r == is_dead_spec(*self, frag_map.view())/*-*/
    {
        frag_map.get(&self.id()).is_some_and(|x/*+*/: &FragmentationEntry/*-*/| /*+*/-> (b: bool) ensures b == (x.bytes == self.0.meta.total_uncompressed_bytes)/*-*/ {
            let stale_bytes = x.bytes;
            let all_bytes = self.0.meta.total_uncompressed_bytes;
            stale_bytes == all_bytes
        })
    }
//@ END
}
#[verifier::external_body]
struct BlobFileList { m: Vec<BlobFile> }
impl BlobFileList {
    uninterp spec fn view(&self) -> Map<u64, BlobFile>;
    /// HashMap::extract_if(|_, v| f(v)).map(|(_, v)| v).collect() (R23'): every entry is visited once; the entries the predicate
    /// accepts leave the map and are returned, the others stay untouched
    #[verifier::external_body]
    fn extract_values_if<F: Fn(&BlobFile) -> bool>(&mut self, f: F) -> (r: Vec<BlobFile>)
        requires forall|x: BlobFile| call_requires(f, (&x,)),
        ensures
            forall|id: u64| #[trigger] final(self).view().contains_key(id) ==> old(self).view().contains_key(id) && final(self).view()[id] == old(self).view()[id]
                && call_ensures(f, (&old(self).view()[id],), false),
            forall|i: int| 0 <= i < r@.len() ==> old(self).view().contains_key((#[trigger] r@[i]).0.id) && old(self).view()[r@[i].0.id] == r@[i]
                && call_ensures(f, (&r@[i],), true) && !final(self).view().contains_key(r@[i].0.id),
            forall|id: u64| #[trigger] old(self).view().contains_key(id) ==> final(self).view().contains_key(id) || exists|i: int| 0 <= i < r@.len() && #[trigger] r@[i].0.id == id,
    { unimplemented!() }
//@ FROM src/version/blob_file_list.rs :: impl BlobFileList :: fn prune_dead :: OBL C09.14, C20.9
//@ SUBST `self . 0 . extract_if ( | _ , blob_file | $1 ) . map ( | ( _ , v ) | v ) . collect ( )` ==> `self.extract_values_if(|blob_file: &BlobFile| -> (b: bool) ensures b == is_dead_spec(*blob_file, gc_stats.view()) { $1 })`
// (the closure's contract is part of the rewrite so that it survives any change of the closure body)
    fn prune_dead(&mut self, gc_stats: &FragmentationMap) -> /*+*/(r:/*-*/ Vec<BlobFile>/*+*/)
        // C09.14: exactly the dead files leave the list and are returned; the others stay as they are
        ensures
            forall|id: u64| #[trigger] final(self).view().contains_key(id) <==> old(self).view().contains_key(id) && !is_dead_spec(old(self).view()[id], gc_stats.view()),
            forall|id: u64| final(self).view().contains_key(id) ==> #[trigger] final(self).view()[id] == old(self).view()[id],
            forall|i: int| 0 <= i < r@.len() ==> old(self).view().contains_key((#[trigger] r@[i]).0.id) && is_dead_spec(r@[i], gc_stats.view()) && old(self).view()[r@[i].0.id] == r@[i],
            forall|id: u64| old(self).view().contains_key(id) && is_dead_spec(old(self).view()[id], gc_stats.view()) ==> exists|i: int| 0 <= i < r@.len() && #[trigger] r@[i].0.id == id,
    /*-*/ {
        self.extract_values_if(|blob_file: &BlobFile| -> (b: bool) ensures b == is_dead_spec(*blob_file, gc_stats.view()) { blob_file.is_dead(gc_stats) })
    }
//@ END
}
impl Clone for BlobFileList {
    #[verifier::external_body]
    fn clone(&self) -> (r: Self) ensures r == *self { unimplemented!() }
}
/// stands for Vec::extend(Vec)
#[verifier::external_body]
fn vec_extend(v: &mut Vec<BlobFile>, more: Vec<BlobFile>) ensures final(v)@ == old(v)@ + more@ { }

use std::sync::Arc;
use std::ops::Deref;
//@ INCLUDE prelude/arc.rs

// ---------------- specification: adding a table's references to the statistics ----------------
spec fn add_ref(m: Map<u64, FragmentationEntry>, l: LinkedFile) -> Map<u64, FragmentationEntry> {
    if m.contains_key(l.blob_file_id) {
        let e = m[l.blob_file_id];
        m.insert(l.blob_file_id, FragmentationEntry { len: (e.len + l.len) as usize, bytes: (e.bytes + l.bytes) as u64, on_disk_bytes: (e.on_disk_bytes + l.on_disk_bytes) as u64 })
    } else {
        m.insert(l.blob_file_id, FragmentationEntry { len: l.len, bytes: l.bytes, on_disk_bytes: l.on_disk_bytes })
    }
}
spec fn add_refs(m: Map<u64, FragmentationEntry>, ls: Seq<LinkedFile>) -> Map<u64, FragmentationEntry>
    decreases ls.len()
{ if ls.len() == 0 { m } else { add_ref(add_refs(m, ls.drop_last()), ls.last()) } }
spec fn add_tables(m: Map<u64, FragmentationEntry>, ts: Seq<Table>) -> Map<u64, FragmentationEntry>
    decreases ts.len()
{ if ts.len() == 0 { m } else { add_refs(add_tables(m, ts.drop_last()), ts.last().refs()) } }
/// no counter overflows while the references are added (counters are bounded by the file's real totals)
spec fn partial(m: Map<u64, FragmentationEntry>, ts: Seq<Table>, i: int, j: int) -> Map<u64, FragmentationEntry> { add_refs(add_tables(m, ts.take(i)), ts[i].refs().take(j)) }
spec fn no_overflow(m: Map<u64, FragmentationEntry>, ts: Seq<Table>) -> bool {
    forall|i: int, j: int| 0 <= i < ts.len() && 0 <= j <= ts[i].refs().len() ==> fits(#[trigger] partial(m, ts, i, j))
}
spec fn small(l: LinkedFile) -> bool { l.len < 0x7fff_ffff && l.bytes < 0x7fff_ffff_ffff && l.on_disk_bytes < 0x7fff_ffff_ffff }
spec fn refs_small(ts: Seq<Table>) -> bool { forall|i: int, j: int| 0 <= i < ts.len() && 0 <= j < ts[i].refs().len() ==> small(#[trigger] ts[i].refs()[j]) }
spec fn fits(m: Map<u64, FragmentationEntry>) -> bool { forall|k: u64| m.contains_key(k) ==> (#[trigger] m[k]).len < 0x7fff_ffff_ffff && m[k].bytes < 0x7fff_ffff_ffff_ffff && m[k].on_disk_bytes < 0x7fff_ffff_ffff_ffff }

struct Version { gc_stats: Arc<FragmentationMap>, blob_files: Arc<BlobFileList> }

impl Version {
//@ WRAPPER_BEGIN
    /// wrapper (generated) around the statements `let gc_stats = ..; let value_log = ..;` of Version::with_dropped
    fn with_dropped_gc_part(&self, dropped_tables: Vec<Table>, dropped_blob_files: &mut Vec<BlobFile>) -> (r: Result<(Arc<FragmentationMap>, Arc<BlobFileList>), Error>)
        requires
            refs_small(dropped_tables@),
            no_overflow(self.gc_stats.view(), dropped_tables@),
        ensures
            // C09.4 (a): exactly the dead files (w.r.t. the updated statistics) leave the value log
            r is Ok ==> forall|id: u64| #[trigger] r->Ok_0.1.view().contains_key(id) <==> self.blob_files.view().contains_key(id) && (dropped_tables@.len() == 0 || !is_dead_spec(self.blob_files.view()[id], add_tables(self.gc_stats.view(), dropped_tables@))),   // @OBL C09.4
            // C09.4 (b): for every blob file that stays, the recorded garbage = old garbage + every reference of every dropped table, in all three counters
            r is Ok ==> forall|id: u64| r->Ok_0.1.view().contains_key(id) && #[trigger] add_tables(self.gc_stats.view(), dropped_tables@).contains_key(id) ==> r->Ok_0.0.view().contains_key(id) && r->Ok_0.0.view()[id] == add_tables(self.gc_stats.view(), dropped_tables@)[id],   // @OBL C09.4
    {
//@ FROM src/version/mod.rs :: impl Version :: fn with_dropped :: STMTS `let gc_stats =` .. `let value_log =` :: OBL C09.4
//@ SUBST `in & dropped_tables` ==> `in dropped_tables.iter()`
//@ SUBST `dropped_blob_files . extend ( $1 ) ;` ==> `vec_extend(dropped_blob_files, $1);`
        let gc_stats = if dropped_tables.is_empty() {
            self.gc_stats.clone()
        } else {
            let mut copy = self.gc_stats.deref().clone();
            /*+*/let ghost m0 = self.gc_stats.view();
            proof { assert(dropped_tables@.take(0) =~= Seq::<Table>::empty()); assert(add_tables(m0, Seq::<Table>::empty()) == m0); }/*-*/

            for table in /*+*/it: /*-*/dropped_tables.iter()
                /*+*/invariant
                    m0 == self.gc_stats.view(), it.seq().len() == dropped_tables@.len(), forall|k: int| 0 <= k < dropped_tables@.len() ==> *(#[trigger] it.seq()[k]) == dropped_tables@[k],
                    no_overflow(m0, dropped_tables@), refs_small(dropped_tables@),
                    copy.view() == add_tables(m0, dropped_tables@.take(it.index@ as int)),/*-*/
            {
                let linked_blob_files = table.list_blob_file_references()?.unwrap_or_default();
                /*+*/let ghost i = it.index@ as int;
                let ghost base = add_tables(m0, dropped_tables@.take(i));
                let ghost refs = dropped_tables@[i].refs();
                proof { assert(linked_blob_files@ == refs); assert(refs.take(0) =~= Seq::<LinkedFile>::empty()); assert(add_refs(base, Seq::<LinkedFile>::empty()) == base); }/*-*/

                for blob_file in /*+*/it2: /*-*/linked_blob_files
                    /*+*/invariant
                        it2.seq() == refs, 0 <= i < dropped_tables@.len(), refs == dropped_tables@[i].refs(),
                        base == add_tables(m0, dropped_tables@.take(i)), no_overflow(m0, dropped_tables@), refs_small(dropped_tables@),
                        copy.view() == add_refs(base, refs.take(it2.index@ as int)),/*-*/
                {
                    /*+*/let ghost j = it2.index@ as int;
                    let ghost cur = copy.view();
                    proof {
                        assert(blob_file == refs[j]);
                        assert(cur == partial(m0, dropped_tables@, i, j));
                        assert(fits(cur));
                        assert(small(dropped_tables@[i].refs()[j]));
                        assert(refs.take(j + 1).drop_last() =~= refs.take(j));
                        assert(refs.take(j + 1).last() == refs[j]);
                    }/*-*/
                    copy.upsert(blob_file.blob_file_id, |counter/*+*/: &mut FragmentationEntry/*-*/| /*+*/
                            requires old(counter).bytes + blob_file.bytes <= u64::MAX, old(counter).len + blob_file.len <= usize::MAX, old(counter).on_disk_bytes + blob_file.on_disk_bytes <= u64::MAX,
                            ensures *final(counter) == (FragmentationEntry { len: (old(counter).len + blob_file.len) as usize, bytes: (old(counter).bytes + blob_file.bytes) as u64, on_disk_bytes: (old(counter).on_disk_bytes + blob_file.on_disk_bytes) as u64 })/*-*/
                        {
                            counter.bytes += blob_file.bytes;
                            counter.len += blob_file.len;
                            counter.on_disk_bytes += blob_file.on_disk_bytes;
                        }, || /*+*/-> (v: FragmentationEntry) ensures v == (FragmentationEntry { len: blob_file.len, bytes: blob_file.bytes, on_disk_bytes: blob_file.on_disk_bytes })/*-*/ {
                            FragmentationEntry::new(
                                blob_file.len,
                                blob_file.bytes,
                                blob_file.on_disk_bytes,
                            )
                        });
                    /*+*/proof { assert(copy.view() == add_ref(cur, refs[j])); }/*-*/
                }
                /*+*/proof {
                    assert(refs.take(refs.len() as int) =~= refs);
                    assert(dropped_tables@.take(i + 1).drop_last() =~= dropped_tables@.take(i));
                    assert(dropped_tables@.take(i + 1).last() == dropped_tables@[i]);
                }/*-*/
            }
            /*+*/proof { assert(dropped_tables@.take(dropped_tables@.len() as int) =~= dropped_tables@); }/*-*/

            Arc::new(copy)
        };

        let value_log = if dropped_tables.is_empty() {
            self.blob_files.clone()
        } else {
            let mut copy = self.blob_files.deref().clone();
            vec_extend(dropped_blob_files, copy.prune_dead(&gc_stats));
            Arc::new(copy)
        };
//@ END
        /*+*/proof { if dropped_tables@.len() == 0 { assert(add_tables(self.gc_stats.view(), dropped_tables@) == self.gc_stats.view()); } }/*-*/
        Ok((gc_stats, value_log))
    }
//@ WRAPPER_END
}

// ---------------- C09.6: blob file ids are never reused while statistics for them exist ----------------
//@ INCLUDE prelude/seqiter.rs
impl<'a> SeqIter<&'a u64> {
    /// membership view of an iterator over ids: `has(v)` <=> some yielded reference points to v
    uninterp spec fn has(&self, v: u64) -> bool;
    /// std `Iterator::chain`
    #[verifier::external_body]
    fn chain(self, other: SeqIter<&'a u64>) -> (r: SeqIter<&'a u64>)
        ensures forall|v: u64| #[trigger] self.has(v) ==> r.has(v), forall|v: u64| #[trigger] other.has(v) ==> r.has(v),
            forall|v: u64| #[trigger] r.has(v) ==> self.has(v) || other.has(v),
    { unimplemented!() }
    /// std `Iterator::max` over references to integers
    #[verifier::external_body]
    fn max(self) -> (r: Option<&'a u64>)
        ensures r is None ==> forall|v: u64| !#[trigger] self.has(v),
            r is Some ==> self.has(*r->0) && forall|v: u64| #[trigger] self.has(v) ==> v <= *r->0,
    { unimplemented!() }
}
impl BlobFileList {
    /// BlobFileList::list_ids: the keys of the map, in no particular order
    #[verifier::external_body]
    fn list_ids(&self) -> (r: SeqIter<&u64>)
        ensures forall|id: u64| #[trigger] self.view().contains_key(id) ==> r.has(id), forall|id: u64| #[trigger] r.has(id) ==> self.view().contains_key(id),
    { unimplemented!() }
}
impl FragmentationMap {
    /// HashMap::keys
    #[verifier::external_body]
    fn keys(&self) -> (r: SeqIter<&u64>)
        ensures forall|id: u64| #[trigger] self.view().contains_key(id) ==> r.has(id), forall|id: u64| #[trigger] r.has(id) ==> self.view().contains_key(id),
    { unimplemented!() }
}
impl Version {
    fn gc_stats(&self) -> (r: &FragmentationMap) ensures r == &*self.gc_stats { &self.gc_stats }
    #[verifier::external_body]
    fn blob_file_count(&self) -> (r: usize) ensures r == self.blob_files.view().dom().len() { unimplemented!() }
}
struct Tree { v: Version }
impl Tree { fn current_version(&self) -> (r: &Version) ensures r == &self.v { &self.v } }

//@ WRAPPER_BEGIN
/// wrapper (generated) around the statements of BlobTree::open that choose the first blob file id of the session
fn blob_tree_open_first_id(index: &Tree) -> (r: u64)
    requires
        forall|id: u64| #[trigger] index.v.blob_files.view().contains_key(id) ==> id < u64::MAX,
        forall|id: u64| #[trigger] index.v.gc_stats.view().contains_key(id) ==> id < u64::MAX,
    ensures
        // C09.6: the first id handed out after (re)open is above every live blob file id ...
        forall|id: u64| #[trigger] index.v.blob_files.view().contains_key(id) ==> id < r,
        // ... and above every id that still has garbage statistics recorded (a new blob file never inherits an entry)
        forall|id: u64| #[trigger] index.v.gc_stats.view().contains_key(id) ==> id < r,
{
//@ FROM src/blob_tree/mod.rs :: impl BlobTree :: fn open :: STMTS `>fsync_directory ( & blobs_folder )` .. `let blob_file_id_to_continue_with =` :: OBL C09.6, C04.5, C19.4
    let version = index.current_version();

    let blob_file_id_to_continue_with = version
        .blob_files
        .list_ids()
        .chain(version.gc_stats().keys())
        .max()
        .map(|x/*+*/: &u64/*-*/| /*+*/-> (y: u64) requires *x < u64::MAX ensures y == *x + 1 {/*-*/ x + 1 /*+*/}/*-*/)
        .unwrap_or_default();
//@ END
    blob_file_id_to_continue_with
}
//@ WRAPPER_END

// ---------------- C09.4 / C17.2: Version::with_merge, value-log and statistics statements ----------------
/// stands for HashSet<BlobFileId>
#[verifier::external_body]
struct IdSet { v: Vec<u64> }
impl IdSet {
    uninterp spec fn view(&self) -> Set<u64>;
    #[verifier::external_body]
    fn is_empty(&self) -> (r: bool) ensures r == (self.view() =~= Set::<u64>::empty()) { unimplemented!() }
    /// iteration order is unspecified: the yielded ids are exactly the members
    #[verifier::external_body]
    fn iter(&self) -> (r: SeqIter<&u64>)
        ensures forall|id: u64| #[trigger] self.view().contains(id) ==> exists|i: int| 0 <= i < r.rest().len() && *r.rest()[i] == id,
            forall|i: int| 0 <= i < r.rest().len() ==> self.view().contains(*(#[trigger] r.rest()[i])),
    { unimplemented!() }
}
impl BlobFileList {
    #[verifier::external_body]
    fn insert(&mut self, key: u64, value: BlobFile) ensures final(self).view() == old(self).view().insert(key, value) { }
    #[verifier::external_body]
    fn remove(&mut self, key: u64) -> (r: Option<BlobFile>) ensures final(self).view() == old(self).view().remove(key) { unimplemented!() }
}
/// pointwise sum of two statistics maps (FragmentationMap::merge_into; its own obligation is C09.2)
spec fn merged(a: Map<u64, FragmentationEntry>, d: Map<u64, FragmentationEntry>) -> Map<u64, FragmentationEntry> {
    Map::new(a.dom().union(d.dom()), |k: u64|
        if a.contains_key(k) && d.contains_key(k) { FragmentationEntry { len: (a[k].len + d[k].len) as usize, bytes: (a[k].bytes + d[k].bytes) as u64, on_disk_bytes: (a[k].on_disk_bytes + d[k].on_disk_bytes) as u64 } }
        else if a.contains_key(k) { a[k] } else { d[k] })
}
impl FragmentationMap {
    #[verifier::external_body]
    fn merge_into(self, other: &mut FragmentationMap) ensures final(other).view() == merged(old(other).view(), self.view()) { }
}

//@ WRAPPER_BEGIN
impl Version {
    /// wrapper (generated) around the statements `let has_diff ..; let value_log = ..; let gc_stats = ..;` of Version::with_merge
    fn with_merge_gc_part(&self, diff: Option<FragmentationMap>, new_blob_files: Vec<BlobFile>, blob_files_to_drop: &IdSet) -> (r: (Arc<FragmentationMap>, Arc<BlobFileList>))
        ensures
            // every blob file written by this compaction joins the version (whether or not any statistics changed) ...
            forall|i: int| 0 <= i < new_blob_files@.len() && !blob_files_to_drop.view().contains((#[trigger] new_blob_files@[i]).0.id) ==> r.1.view().contains_key(new_blob_files@[i].0.id),   // @OBL C17.2, C08.5, C09.17
            // ... the rewritten / dead ones leave, every other blob file stays
            forall|id: u64| #[trigger] blob_files_to_drop.view().contains(id) ==> !r.1.view().contains_key(id),   // @OBL C09.4
            forall|id: u64| #[trigger] self.blob_files.view().contains_key(id) && !blob_files_to_drop.view().contains(id) ==> r.1.view().contains_key(id),   // @OBL C09.4
            forall|id: u64| #[trigger] r.1.view().contains_key(id) ==> self.blob_files.view().contains_key(id) || exists|i: int| 0 <= i < new_blob_files@.len() && new_blob_files@[i].0.id == id,   // @OBL C09.4
            // statistics: old + diff for every blob file of the resulting version
            forall|id: u64| #[trigger] r.1.view().contains_key(id) && merged(self.gc_stats.view(), match diff { Some(d) => d.view(), None => Map::empty() }).contains_key(id)
                ==> r.0.view().contains_key(id) && r.0.view()[id] == merged(self.gc_stats.view(), match diff { Some(d) => d.view(), None => Map::empty() })[id],   // @OBL C09.4
    {
//@ FROM src/version/mod.rs :: impl Version :: fn with_merge :: STMTS `>for ( level_idx , level ) in` .. `let gc_stats =` :: OBL C09.4, C17.2, C08.5, C09.17
//@ SUBST `for & id in blob_files_to_drop` ==> `for id in blob_files_to_drop.iter()`
//@ SUBST `copy . remove ( id ) ;` ==> `copy.remove(*id);`
        let has_diff = diff.is_some();

        let value_log = if has_diff || !new_blob_files.is_empty() || !blob_files_to_drop.is_empty()
        {
            let mut copy = self.blob_files.deref().clone();
            /*+*/let ghost v0 = self.blob_files.view();/*-*/

            for blob_file in /*+*/it: /*-*/new_blob_files
                /*+*/invariant
                    it.seq() == new_blob_files@,
                    forall|id: u64| #[trigger] v0.contains_key(id) ==> copy.view().contains_key(id),
                    forall|i: int| 0 <= i < it.index@ ==> copy.view().contains_key((#[trigger] new_blob_files@[i]).0.id),
                    forall|id: u64| #[trigger] copy.view().contains_key(id) ==> v0.contains_key(id) || exists|i: int| 0 <= i < it.index@ && new_blob_files@[i].0.id == id,/*-*/
            {
                copy.insert(blob_file.id(), blob_file);
            }
            /*+*/let ghost v1 = copy.view();/*-*/

            for id in /*+*/it2: /*-*/blob_files_to_drop.iter()
                /*+*/invariant
                    forall|i: int| 0 <= i < it2.seq().len() ==> blob_files_to_drop.view().contains(*(#[trigger] it2.seq()[i])),
                    forall|id: u64| #[trigger] blob_files_to_drop.view().contains(id) ==> exists|i: int| 0 <= i < it2.seq().len() && *it2.seq()[i] == id,
                    forall|i: int| 0 <= i < it2.index@ ==> !copy.view().contains_key(*(#[trigger] it2.seq()[i])),
                    forall|id: u64| #[trigger] copy.view().contains_key(id) ==> v1.contains_key(id),
                    forall|id: u64| #[trigger] v1.contains_key(id) && !blob_files_to_drop.view().contains(id) ==> copy.view().contains_key(id),/*-*/
            {
                copy.remove(*id);
            }

            Arc::new(copy)
        } else {
            self.blob_files.clone()
        };

        let gc_stats = if has_diff || !blob_files_to_drop.is_empty() {
            let mut copy = self.gc_stats.deref().clone();

            if let Some(diff) = diff {
                diff.merge_into(&mut copy);
            }

            copy.prune(&value_log);

            Arc::new(copy)
        } else {
            self.gc_stats.clone()
        };
//@ END
        (gc_stats, value_log)
    }
}
//@ WRAPPER_END

} // verus!
fn main() {}
