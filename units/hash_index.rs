//@ UNIT hash_index
// Data block hash index (src/table/block/hash_index): `Builder::set` keeps, per bucket, FREE while no key hashing to it was set,
// the one restart index all such keys were set with, or CONFLICT once two different restart indexes met; `Reader::get` reads the
// bucket of the key.  Hence FREE => the key was never set (so it is not in the block), and a pointer => every set of that key
// used exactly that restart index - which is what DataBlock::point_read relies on.  Obligations C01.24, C11.8
use vstd::prelude::*;
verus! {
global size_of usize == 8;

const MARKER_FREE: u8 = u8::MAX - 1;
const MARKER_CONFLICT: u8 = u8::MAX;

/// crate::hash::hash64 (xxh3): a fixed function of the key bytes
uninterp spec fn hash64_spec(key: Seq<u8>) -> u64;
#[verifier::external_body]
fn hash64(key: &[u8]) -> (r: u64) ensures r == hash64_spec(key@) { unimplemented!() }
spec fn bucket_of(key: Seq<u8>, n: u32) -> int { (hash64_spec(key) % (n as u64)) as int }

//@ FROM src/table/block/hash_index/mod.rs :: - :: fn calculate_bucket_position :: OBL C01.24, C11.8
//@ SUBST `use crate :: hash :: hash64 ;` ==> ``
fn calculate_bucket_position(key: &[u8], bucket_count: u32) -> /*+*/(r:/*-*/ usize/*+*/)
    requires bucket_count > 0
    ensures r == bucket_of(key@, bucket_count), r < bucket_count/*-*/
{

    let hash = hash64(key);

    (hash % u64::from(bucket_count)) as usize
}
//@ END

/// what the buckets must say after these (key, restart index) pairs were set
spec fn consistent(b: Seq<u8>, sets: Seq<(Seq<u8>, u8)>) -> bool {
    &&& forall|i: int| 0 <= i < sets.len() ==> ({ let m = b[bucket_of((#[trigger] sets[i]).0, b.len() as u32)]; (m == MARKER_CONFLICT || m == sets[i].1) && sets[i].1 <= 253 })
    &&& forall|q: int| 0 <= q < b.len() && #[trigger] b[q] != MARKER_FREE ==> exists|i: int| 0 <= i < sets.len() && bucket_of((#[trigger] sets[i]).0, b.len() as u32) == q
}

//@ FROM src/table/block/hash_index/builder.rs :: - :: struct Builder
struct Builder(Vec<u8>);
//@ END
impl Builder {
//@ FROM src/table/block/hash_index/builder.rs :: impl Builder :: fn bucket_count
    fn bucket_count(&self) -> /*+*/(r: u32)
        requires self.0@.len() <=/*-*/ u32/*+*/::MAX
        ensures r == self.0@.len()/*-*/
    {
        self.0.len() as u32
    }
//@ END

//@ FROM src/table/block/hash_index/builder.rs :: impl Builder :: fn set :: OBL C01.24, C11.8
//@ SUBST `debug_assert ! ( $1 ) ;` ==> ``
//@ SUBST `assert ! ( self . bucket_count ( ) > 0 , "no buckets to insert into" ) ;` ==> ``
//@ SUBST `unsafe { * self . 0 . get_unchecked ( bucket_pos ) }` ==> `self.0[bucket_pos]`
//@ SUBST `unsafe { * self . 0 . get_unchecked_mut ( bucket_pos ) = $1 ; }` ==> `self.0.set(bucket_pos, $1);`
    fn set(&mut self, key: &[u8], binary_index_pos: u8/*+*/, Ghost(sets): Ghost<Seq<(Seq<u8>, u8)>>/*-*/) -> /*+*/(r:/*-*/ bool/*+*/)
        requires 0 < old(self).0@.len() <= u32::MAX, binary_index_pos <= 253, consistent(old(self).0@, sets)
        ensures final(self).0@.len() == old(self).0@.len(), consistent(final(self).0@, sets.push((key@, binary_index_pos)))/*-*/
    {

        let bucket_pos = calculate_bucket_position(key, self.bucket_count());

        // SAFETY: We use modulo in `calculate_bucket_position`
        let curr_marker = self.0[bucket_pos];
        /*+*/let ghost b0 = self.0@; let ghost n = b0.len() as u32; let ghost s1 = sets.push((key@, binary_index_pos));/*-*/

        match curr_marker {
            MARKER_CONFLICT => /*+*/{ proof { lemma_keep(b0, sets, key@, binary_index_pos); }/*-*/ false /*+*/}/*-*/,
            MARKER_FREE => {
                // SAFETY: We previously asserted that the slot exists
                self.0.set(bucket_pos, binary_index_pos);
                /*+*/proof { lemma_update(b0, self.0@, sets, key@, binary_index_pos); }/*-*/

                true
            }
            x if x == binary_index_pos => {
                // If different keys map to the same bucket, we can keep
                // the mapping
                /*+*/proof { lemma_keep(b0, sets, key@, binary_index_pos); }/*-*/
                true
            }
            _ => {
                // Mark as conflicted

                // SAFETY: We previously asserted that the slot exists
                self.0.set(bucket_pos, MARKER_CONFLICT);
                /*+*/proof { lemma_update(b0, self.0@, sets, key@, binary_index_pos); }/*-*/

                false
            }
        }
    }
//@ END
}
/// the bucket already says CONFLICT or the same index: nothing to change
proof fn lemma_keep(b: Seq<u8>, sets: Seq<(Seq<u8>, u8)>, key: Seq<u8>, pos: u8)
    requires consistent(b, sets), 0 < b.len() <= u32::MAX, ({ let m = b[bucket_of(key, b.len() as u32)]; m == MARKER_CONFLICT || m == pos }), pos <= 253
    ensures consistent(b, sets.push((key, pos)))
{
    let s1 = sets.push((key, pos)); let n = b.len() as u32;
    assert forall|i: int| 0 <= i < s1.len() implies ({ let m = b[bucket_of((#[trigger] s1[i]).0, n)]; (m == MARKER_CONFLICT || m == s1[i].1) && s1[i].1 <= 253 }) by {
        if i < sets.len() { assert(s1[i] == sets[i]); }
    }
    assert forall|q: int| 0 <= q < b.len() && #[trigger] b[q] != MARKER_FREE implies exists|i: int| 0 <= i < s1.len() && bucket_of((#[trigger] s1[i]).0, n) == q by {
        let i = choose|i: int| 0 <= i < sets.len() && bucket_of((#[trigger] sets[i]).0, n) == q;
        assert(s1[i] == sets[i]);
    }
}
/// the key's bucket was FREE (now the index) or held another index (now CONFLICT)
proof fn lemma_update(b0: Seq<u8>, b1: Seq<u8>, sets: Seq<(Seq<u8>, u8)>, key: Seq<u8>, pos: u8)
    requires consistent(b0, sets), 0 < b0.len() <= u32::MAX, pos <= 253,
        ({ let q = bucket_of(key, b0.len() as u32); 0 <= q < b0.len() && (b1 == b0.update(q, pos) && b0[q] == MARKER_FREE || b1 == b0.update(q, MARKER_CONFLICT) && b0[q] != MARKER_FREE) }),
    ensures consistent(b1, sets.push((key, pos)))
{
    let s1 = sets.push((key, pos)); let n = b0.len() as u32; let q = bucket_of(key, n);
    assert forall|i: int| 0 <= i < s1.len() implies ({ let m = b1[bucket_of((#[trigger] s1[i]).0, n)]; (m == MARKER_CONFLICT || m == s1[i].1) && s1[i].1 <= 253 }) by {
        if i < sets.len() {
            assert(s1[i] == sets[i]);
            let qi = bucket_of(sets[i].0, n);
            assert(0 <= qi < n) by { assert((hash64_spec(sets[i].0) % (n as u64)) < n as u64); }
            if qi == q { assert(b0[q] != MARKER_FREE); }
        }
    }
    assert forall|p: int| 0 <= p < b1.len() && #[trigger] b1[p] != MARKER_FREE implies exists|i: int| 0 <= i < s1.len() && bucket_of((#[trigger] s1[i]).0, n) == p by {
        if p == q { assert(s1[sets.len() as int].0 == key); }
        else { let i = choose|i: int| 0 <= i < sets.len() && bucket_of((#[trigger] sets[i]).0, n) == p; assert(s1[i] == sets[i]); }
    }
}

//@ FROM src/table/block/hash_index/reader.rs :: - :: struct Reader
struct Reader<'a>(&'a [u8]);
//@ END
impl<'a> Reader<'a> {
//@ FROM src/table/block/hash_index/reader.rs :: impl < 'a > Reader < 'a > :: fn get :: OBL C01.24, C11.8
//@ SUBST `* unsafe { self . 0 . get_unchecked ( bucket_pos ) }` ==> `self.0[bucket_pos]`
    fn get(&self, key: &[u8]/*+*/, Ghost(sets): Ghost<Seq<(Seq<u8>, u8)>>/*-*/) -> /*+*/(r:/*-*/ u8/*+*/)
        requires 0 < self.0@.len() <= u32::MAX, consistent(self.0@, sets)
        ensures
            // FREE: the key was never registered
            r == MARKER_FREE ==> forall|i: int| 0 <= i < sets.len() ==> (#[trigger] sets[i]).0 != key@,
            // a pointer: every registration of the key used exactly this restart index
            r != MARKER_FREE && r != MARKER_CONFLICT ==> forall|i: int| 0 <= i < sets.len() && (#[trigger] sets[i]).0 == key@ ==> sets[i].1 == r,/*-*/
    {
        let bucket_count = self.0.len() as u32;

        let bucket_pos = calculate_bucket_position(key, bucket_count);

        // SAFETY: We use modulo in `calculate_bucket_position`
        // SAFETY: Also we already did a bounds check in the constructor using indexing slicing
        self.0[bucket_pos]
    }
//@ END
}
}
fn main() {}
