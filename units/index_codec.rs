//@ UNIT index_codec
// Index block entries (src/table/index_block/block_handle.rs): `KeyedBlockHandle::encode_full_into` and `parse_full` are inverse -
// what the index writer stores for a block (file offset, size, seqno and key of its last entry) is what the reader gets back, and
// `BlockHandle::encode_into` / `decode_from` are inverse; the encoder also advances the running offset state to the end of the
// block.  Obligations C12.20, C10.11
use vstd::prelude::*;
use vstd::arithmetic::div_mod::*;
use vstd::arithmetic::mul::*;

//@ FROM src/lib.rs :: - :: macro_rules unwrap
macro_rules! unwrap {
    ($x:expr) => {{
        $x.expect("should read")
    }};
}
//@ END

verus! {

global size_of usize == 8;
type SeqNo = u64;

// ---------------- prelude (TRUSTED): byte strings, writer, in-memory cursor, varints ----------------
#[derive(Debug)]
enum Error { Io }
/// Slice (UserKey / UserValue) as a byte string
struct Bytes { v: Vec<u8> }
impl Bytes {
    spec fn view(&self) -> Seq<u8> { self.v@ }
    fn len(&self) -> (r: usize) ensures r == self.view().len() { self.v.len() }
    /// `&*slice` / `&slice` as `&[u8]`
    fn as_bytes(&self) -> (r: &[u8]) ensures r@ == self.view() { self.v.as_slice() }
    /// `slice.get(n..)`
    #[verifier::external_body] fn get_from(&self, n: usize) -> (r: Option<&[u8]>) ensures n <= self.view().len() ==> r is Some && r->Some_0@ == self.view().skip(n as int), n > self.view().len() ==> r is None { unimplemented!() }
}
/// LEB128 varints (varint_rs): prefix-free codes
uninterp spec fn var64(x: u64) -> Seq<u8>;
uninterp spec fn var32(x: u32) -> Seq<u8>;
uninterp spec fn var16(x: u16) -> Seq<u8>;
/// `W: std::io::Write` with byteorder / varint_rs extension methods: `written()` = bytes accepted so far.  Vec<u8> is a writer
/// whose accepted bytes are its content.
trait IoWrite: Sized {
    spec fn written(&self) -> Seq<u8>;
    fn write_u8(&mut self, x: u8) -> (r: Result<(), Error>) ensures r is Ok ==> (*final(self)).written() == (*old(self)).written() + seq![x];
    fn write_u64_varint(&mut self, x: u64) -> (r: Result<(), Error>) ensures r is Ok ==> (*final(self)).written() == (*old(self)).written() + var64(x);
    fn write_u32_varint(&mut self, x: u32) -> (r: Result<(), Error>) ensures r is Ok ==> (*final(self)).written() == (*old(self)).written() + var32(x);
    fn write_u16_varint(&mut self, x: u16) -> (r: Result<(), Error>) ensures r is Ok ==> (*final(self)).written() == (*old(self)).written() + var16(x);
    fn write_all(&mut self, b: &[u8]) -> (r: Result<(), Error>) ensures r is Ok ==> (*final(self)).written() == (*old(self)).written() + b@;
}
impl IoWrite for Vec<u8> {
    spec fn written(&self) -> Seq<u8> { self@ }
    #[verifier::external_body] fn write_u8(&mut self, x: u8) -> (r: Result<(), Error>) { unimplemented!() }
    #[verifier::external_body] fn write_u64_varint(&mut self, x: u64) -> (r: Result<(), Error>) { unimplemented!() }
    #[verifier::external_body] fn write_u32_varint(&mut self, x: u32) -> (r: Result<(), Error>) { unimplemented!() }
    #[verifier::external_body] fn write_u16_varint(&mut self, x: u16) -> (r: Result<(), Error>) { unimplemented!() }
    #[verifier::external_body] fn write_all(&mut self, b: &[u8]) -> (r: Result<(), Error>) { unimplemented!() }
}

const TRAILER_START_MARKER: u8 = 255;
/// std::io::Cursor<&[u8]> with byteorder / varint_rs readers (TRUSTED): an in-memory reader, so a read succeeds exactly when the
/// bytes are there; `seek_relative` moves the position (like std, it may move past the end)
struct Cursor { ghost data: Seq<u8>, ghost pos: int }
impl Cursor {
    spec fn rest(&self) -> Seq<u8> { self.data.skip(self.pos) }
    #[verifier::external_body]
    fn read_u8(&mut self) -> (r: Result<u8, Error>)
        ensures final(self).data == old(self).data, 0 <= old(self).pos < old(self).data.len() ==> r is Ok && r->Ok_0 == old(self).data[old(self).pos] && final(self).pos == old(self).pos + 1
    { unimplemented!() }
    #[verifier::external_body]
    fn read_u64_varint(&mut self) -> (r: Result<u64, Error>)
        ensures final(self).data == old(self).data, forall|x: u64, tail: Seq<u8>| old(self).rest() == var64(x) + tail ==> r is Ok && r->Ok_0 == x && final(self).pos == old(self).pos + var64(x).len()
    { unimplemented!() }
    #[verifier::external_body]
    fn read_u32_varint(&mut self) -> (r: Result<u32, Error>)
        ensures final(self).data == old(self).data, forall|x: u32, tail: Seq<u8>| old(self).rest() == var32(x) + tail ==> r is Ok && r->Ok_0 == x && final(self).pos == old(self).pos + var32(x).len()
    { unimplemented!() }
    #[verifier::external_body]
    fn read_u16_varint(&mut self) -> (r: Result<u16, Error>)
        ensures final(self).data == old(self).data, forall|x: u16, tail: Seq<u8>| old(self).rest() == var16(x) + tail ==> r is Ok && r->Ok_0 == x && final(self).pos == old(self).pos + var16(x).len()
    { unimplemented!() }
    #[verifier::external_body]
    fn position(&self) -> (r: u64) ensures r == self.pos { unimplemented!() }
    #[verifier::external_body]
    fn seek_relative(&mut self, n: i64) -> (r: Result<(), Error>)
        ensures final(self).data == old(self).data, old(self).pos + n >= 0 ==> r is Ok && final(self).pos == old(self).pos + n
    { unimplemented!() }
}

proof fn lemma_advance(d: Seq<u8>, p: int, a: Seq<u8>, b: Seq<u8>)
    requires 0 <= p <= d.len(), d.skip(p) == a + b
    ensures p + a.len() <= d.len(), d.skip(p + a.len()) == b, d.subrange(p, p + a.len()) == a
{
    assert(d.skip(p).len() == d.len() - p);
    assert((a + b).len() == a.len() + b.len());
    assert(d.skip(p + a.len()) =~= (a + b).skip(a.len() as int));
    assert((a + b).skip(a.len() as int) =~= b);
    assert(d.subrange(p, p + a.len()) =~= (a + b).subrange(0, a.len() as int));
    assert((a + b).subrange(0, a.len() as int) =~= a);
}



type BlockOffset = u64;
//@ FROM src/table/util.rs :: - :: struct SliceIndexes
/*+*/#[derive(PartialEq, Eq, Structural)]/*-*/
struct SliceIndexes(usize, usize);
//@ END
//@ SUBST `BlockOffset ( offset )` ==> `offset`
//@ SUBST `* self . offset ( )` ==> `self.offset()`
//@ SUBST `* self . offset` ==> `self.offset`
//@ FROM src/table/index_block/block_handle.rs :: - :: struct BlockHandle
/*+*/#[derive(Copy, Clone, PartialEq, Eq, Structural)]/*-*/
struct BlockHandle {
    offset: BlockOffset,

    size: u32,
}
//@ END
/// std::io::Read with varint_rs readers over the in-memory cursor
spec fn handle_bytes(h: BlockHandle) -> Seq<u8> { var64(h.offset) + var32(h.size) }
//@ SUBST `crate :: Error` ==> `Error`
//@ SUBST `< W : std :: io :: Write >` ==> `<W: IoWrite>`
impl BlockHandle {
//@ FROM src/table/index_block/block_handle.rs :: impl BlockHandle :: fn size
    fn size(&self) -> /*+*/(r:/*-*/ u32/*+*/) ensures r == self.size/*-*/ {
        self.size
    }
//@ END
//@ FROM src/table/index_block/block_handle.rs :: impl BlockHandle :: fn offset
    fn offset(&self) -> /*+*/(r:/*-*/ BlockOffset/*+*/) ensures r == self.offset/*-*/ {
        self.offset
    }
//@ END
//@ FROM src/table/index_block/block_handle.rs :: impl Encode for BlockHandle :: fn encode_into :: OBL C12.20, C10.11
    fn encode_into<W: IoWrite>(&self, writer: &mut W) -> /*+*/(r:/*-*/ Result<(), Error>/*+*/)
        ensures r is Ok ==> (*final(writer)).written() == (*old(writer)).written() + handle_bytes(*self)/*-*/
    {
        /*+*/let ghost w0 = writer.written();/*-*/
        writer.write_u64_varint(self.offset)?;
        writer.write_u32_varint(self.size)?;
        /*+*/proof { assert(writer.written() =~= w0 + handle_bytes(*self)); }/*-*/
        Ok(())
    }
//@ END
//@ FROM src/table/index_block/block_handle.rs :: impl Decode for BlockHandle :: fn decode_from :: OBL C12.20, C10.11
//@ SUBST `< R : std :: io :: Read >` ==> ``
//@ SUBST `reader : & mut R` ==> `reader: &mut Cursor`
//@ SUBST `where Self : Sized ,` ==> ``
    fn decode_from(reader: &mut Cursor/*+*/, Ghost(h): Ghost<BlockHandle>, Ghost(tail): Ghost<Seq<u8>>/*-*/) -> /*+*/(r:/*-*/ Result<Self, Error>/*+*/)
        requires 0 <= old(reader).pos <= old(reader).data.len(), old(reader).rest() == handle_bytes(h) + tail
        ensures final(reader).data == old(reader).data, r is Ok && r->Ok_0 == h && final(reader).pos == old(reader).pos + handle_bytes(h).len()/*-*/
    {
        /*+*/proof { assert(handle_bytes(h) + tail =~= var64(h.offset) + (var32(h.size) + tail)); lemma_advance(reader.data, reader.pos, var64(h.offset), var32(h.size) + tail); }/*-*/
        let offset = reader.read_u64_varint()?;
        let size = reader.read_u32_varint()?;

        Ok(Self {
            offset: offset,
            size,
        })
    }
//@ END
}

//@ FROM src/table/index_block/block_handle.rs :: - :: struct KeyedBlockHandle
//@ SUBST `UserKey` ==> `Bytes`
struct KeyedBlockHandle {
    end_key: Bytes,

    seqno: SeqNo,

    inner: BlockHandle,
}
//@ END
/// [marker=0] [offset] [size] [seqno] [key len] [end key]
spec fn index_entry_bytes(h: KeyedBlockHandle) -> Seq<u8> {
    seq![0u8] + handle_bytes(h.inner) + var64(h.seqno) + var16(h.end_key.view().len() as u16) + h.end_key.view()
}
//@ FROM src/table/index_block/mod.rs :: - :: struct IndexBlockParsedItem
struct IndexBlockParsedItem {
    offset: BlockOffset,
    size: u32,
    prefix: Option<SliceIndexes>,
    end_key: SliceIndexes,
    seqno: SeqNo,
}
//@ END

//@ SUBST `crate :: Result < ( ) >` ==> `Result<(), Error>`
impl KeyedBlockHandle {
//@ FROM src/table/index_block/block_handle.rs :: impl KeyedBlockHandle :: fn size
    fn size(&self) -> /*+*/(r:/*-*/ u32/*+*/) ensures r == self.inner.size/*-*/ {
        self.inner.size()
    }
//@ END
//@ FROM src/table/index_block/block_handle.rs :: impl KeyedBlockHandle :: fn offset
    fn offset(&self) -> /*+*/(r:/*-*/ BlockOffset/*+*/) ensures r == self.inner.offset/*-*/ {
        self.inner.offset()
    }
//@ END
//@ FROM src/table/index_block/block_handle.rs :: impl Encodable < BlockOffset > for KeyedBlockHandle :: fn encode_full_into :: OBL C12.20, C10.11
//@ SUBST `unwrap ! ( writer . write_u64_varint ( self . seqno ) ) ;` ==> `writer.write_u64_varint(self.seqno)?;`
//@ SUBST `& self . end_key` ==> `self.end_key.as_bytes()`
//@ SUBST `BlockOffset ( self . offset ( ) + u64 :: from ( self . size ( ) ) )` ==> `self.offset() + u64::from(self.size())`
    fn encode_full_into<W: IoWrite>(
        &self,
        writer: &mut W,
        state: &mut BlockOffset,
    ) -> /*+*/(r:/*-*/ Result<(), Error>/*+*/)
        requires self.end_key.view().len() <= u16::MAX, self.inner.offset + self.inner.size <= u64::MAX
        ensures r is Ok ==> (*final(writer)).written() == (*old(writer)).written() + index_entry_bytes(*self)
            // the running state ends where this block ends
            && *final(state) == self.inner.offset + self.inner.size/*-*/
    {
        /*+*/let ghost w0 = writer.written();/*-*/
        // We encode restart markers as:
        // [marker=0] [offset] [size] [seqno] [key len] [end key]
        // 1          2        3      4       5         6

        writer.write_u8(0)?; // 1

        self.inner.encode_into(writer)?; // 2, 3

        writer.write_u64_varint(self.seqno)?; // 4

        writer.write_u16_varint(self.end_key.len() as u16)?; // 5
        writer.write_all(self.end_key.as_bytes())?; // 6

        *state = self.offset() + u64::from(self.size());
        /*+*/proof { assert(writer.written() =~= w0 + index_entry_bytes(*self)); }/*-*/

        Ok(())
    }
//@ END

//@ FROM src/table/index_block/block_handle.rs :: impl Decodable < IndexBlockParsedItem > for KeyedBlockHandle :: fn parse_full :: OBL C12.20, C10.11
//@ SUBST `& mut Cursor < & [ u8 ] >` ==> `&mut Cursor`
//@ SUBST `BlockHandle :: decode_from ( reader )` ==> `BlockHandle::decode_from(reader, g1__, g2__)`
    fn parse_full(reader: &mut Cursor, offset: usize/*+*/, Ghost(oe): Ghost<Option<KeyedBlockHandle>>, Ghost(tail): Ghost<Seq<u8>>/*-*/) -> /*+*/(r:/*-*/ Option<IndexBlockParsedItem>/*+*/)
        requires 0 <= old(reader).pos <= old(reader).data.len(), offset + old(reader).data.len() <= usize::MAX / 2,
            oe is Some ==> oe->Some_0.end_key.view().len() <= u16::MAX && old(reader).rest() == index_entry_bytes(oe->Some_0) + tail,
            oe is None ==> old(reader).pos < old(reader).data.len() && old(reader).data[old(reader).pos] == TRAILER_START_MARKER,
        ensures final(reader).data == old(reader).data,
            oe is None ==> r is None,
            oe is Some ==> final(reader).pos == old(reader).pos + index_entry_bytes(oe->Some_0).len() && r is Some && ({
                let it = r->Some_0; let e = oe->Some_0;
                // the handle, the seqno and exactly the key bytes come back
                it.offset == e.inner.offset && it.size == e.inner.size && it.seqno == e.seqno && it.prefix is None
                && offset <= it.end_key.0 <= it.end_key.1 && it.end_key.1 - offset <= old(reader).data.len()
                && old(reader).data.subrange(it.end_key.0 - offset, it.end_key.1 - offset) == e.end_key.view() }),/*-*/
    {
        /*+*/let ghost e = oe->Some_0; let ghost d = reader.data; let ghost p0 = reader.pos;
        let ghost k = e.end_key.view(); let ghost hb = handle_bytes(e.inner); let ghost s64 = var64(e.seqno); let ghost kl = var16(k.len() as u16);
        let ghost t2 = s64 + (kl + (k + tail));
        proof {
            if oe is Some {
                assert(index_entry_bytes(e) + tail =~= seq![0u8] + (hb + (s64 + (kl + (k + tail)))));
                lemma_advance(d, p0, seq![0u8], hb + (s64 + (kl + (k + tail))));
                assert(d[p0] == d.subrange(p0, p0 + 1)[0]);
            }
        }/*-*/
        let marker = unwrap!(reader.read_u8());

        if marker == TRAILER_START_MARKER {
            return None;
        }

        /*+*/let g1__: Ghost<BlockHandle> = Ghost(e.inner); let g2__: Ghost<Seq<u8>> = Ghost(t2);/*-*/
        let handle = unwrap!(BlockHandle::decode_from(reader, g1__, g2__));
        /*+*/proof { lemma_advance(d, p0 + 1, hb, s64 + (kl + (k + tail))); }/*-*/
        let seqno = unwrap!(reader.read_u64_varint());
        /*+*/proof { lemma_advance(d, p0 + 1 + hb.len(), s64, kl + (k + tail)); }/*-*/

        let key_len: usize = unwrap!(reader.read_u16_varint()).into();
        /*+*/proof { lemma_advance(d, p0 + 1 + hb.len() + s64.len(), kl, k + tail); }/*-*/
        let key_start = offset + reader.position() as usize;

        let offset_i64 = key_len as i64;
        /*+*/let ghost pk = reader.pos;/*-*/
        unwrap!(reader.seek_relative(offset_i64));
        /*+*/proof { lemma_advance(d, pk, k, tail); assert(index_entry_bytes(e).len() == 1 + hb.len() + s64.len() + kl.len() + k.len()); }/*-*/

        Some(IndexBlockParsedItem {
            prefix: None,
            end_key: SliceIndexes(key_start, key_start + key_len),
            offset: handle.offset(),
            size: handle.size(),
            seqno,
        })
    }
//@ END
}

}
fn main() {}
