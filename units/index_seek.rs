//@ UNIT index_seek
// Block index seeks (src/table/index_block/iter.rs, src/table/block_index/full.rs): `Iter::seek(needle, seqno)` positions the
// index cursor on the FIRST block handle whose (end key, seqno) is not before the sought (key, seqno) - the only block that can
// hold the first candidate version - and reports false exactly when every block ends before it; `seek_upper(needle)` cuts the
// cursor after the first block whose end key is above the needle.  FullBlockIndex::forward_reader returns that cursor.
// Obligations C01.25, C12.18, C03.14
use vstd::prelude::*;
use core::cmp::Ordering;
verus! {
global size_of usize == 8;
type SeqNo = u64;

// ---------------- prelude (TRUSTED) ----------------
pub open spec fn lex_cmp(a: Seq<u8>, b: Seq<u8>) -> Ordering decreases a.len()
{
    if a.len() == 0 { if b.len() == 0 { Ordering::Equal } else { Ordering::Less } }
    else if b.len() == 0 { Ordering::Greater }
    else if a[0] < b[0] { Ordering::Less }
    else if a[0] > b[0] { Ordering::Greater }
    else { lex_cmp(a.skip(1), b.skip(1)) }
}
/// `a.cmp(b)` / `a <= b` on byte slices
#[verifier::external_body]
fn slice_cmp(a: &[u8], b: &[u8]) -> (r: Ordering) ensures r == lex_cmp(a@, b@) { a.cmp(b) }
#[verifier::external_body]
fn slice_le(a: &[u8], b: &[u8]) -> (r: bool) ensures r == (lex_cmp(a@, b@) != Ordering::Greater) { a <= b }
#[verifier::external_body]
fn slice_lt(a: &[u8], b: &[u8]) -> (r: bool) ensures r == (lex_cmp(a@, b@) == Ordering::Less) { a < b }

/// a block handle as the index stores it: the block's last key and that entry's seqno
pub ghost struct Handle { pub end_key: Seq<u8>, pub seqno: SeqNo }
/// the handles an index block encodes, in storage order; index blocks use restart interval 1 (every entry is a restart head)
uninterp spec fn handles(bytes: Seq<u8>) -> Seq<Handle>;
/// the block ends before the sought (key, seqno): its last key is smaller, or equal with a seqno still too new to be visible
spec fn ends_before(h: Handle, needle: Seq<u8>, seqno: SeqNo) -> bool {
    lex_cmp(h.end_key, needle) == Ordering::Less || (lex_cmp(h.end_key, needle) == Ordering::Equal && h.seqno >= seqno)
}
/// the predicate holds on exactly the first c handles
spec fn first_c(bytes: Seq<u8>, p: spec_fn(Seq<u8>, SeqNo) -> bool, c: int) -> bool {
    let hs = handles(bytes);
    0 <= c <= hs.len() && (forall|i: int| 0 <= i < c ==> p((#[trigger] hs[i]).end_key, hs[i].seqno)) && (forall|i: int| c <= i < hs.len() ==> !p((#[trigger] hs[i]).end_key, hs[i].seqno))
}
spec fn pred_is<F: Fn(&[u8], SeqNo) -> bool>(pred: F, p: spec_fn(Seq<u8>, SeqNo) -> bool) -> bool {
    (forall|k: &[u8], s: SeqNo| #[trigger] pred.requires((k, s)))
    && (forall|k: &[u8], s: SeqNo, b: bool| #[trigger] pred.ensures((k, s), b) ==> b == p(k@, s))
}
/// DoubleEndedPeekable<IndexBlockParsedItem, Decoder<KeyedBlockHandle, IndexBlockParsedItem>>: a double-ended cursor [lo, hi) over the
/// handles.  Seeks with the SECOND partition point (contract proved for Decoder::seek / seek_upper in unit block_decoder, C12.16,
/// restated over entry indexes for restart interval 1): the front scanner restarts at the first handle NOT satisfying the predicate;
/// if every handle satisfies it both scanners are exhausted and the result is false.  The back scanner is cut after that handle.
struct PeekDecoder { ghost bytes: Seq<u8>, ghost lo: int, ghost hi: int, ghost fresh_lo: bool, ghost fresh_hi: bool }
impl PeekDecoder {
    spec fn n(&self) -> int { handles(self.bytes).len() as int }
    spec fn wf(&self) -> bool { 0 <= self.lo <= self.n() && 0 <= self.hi <= self.n() && (self.fresh_lo ==> self.lo == 0) && (self.fresh_hi ==> self.hi == self.n()) }
    #[verifier::external_body]
    fn inner_seek<F: Fn(&[u8], SeqNo) -> bool>(&mut self, pred: F, second_partition: bool, Ghost(p): Ghost<spec_fn(Seq<u8>, SeqNo) -> bool>) -> (r: bool)
        requires old(self).wf(), old(self).fresh_lo, second_partition, pred_is(pred, p)
        ensures final(self).wf(), final(self).bytes == old(self).bytes, !final(self).fresh_lo,
            old(self).n() == 0 ==> !r,
            forall|c: int| first_c(old(self).bytes, p, c) && old(self).n() > 0 ==>
                (if c == old(self).n() { !r && final(self).lo == old(self).n() && final(self).hi == old(self).n() }
                 else { r && final(self).lo == c && final(self).hi == old(self).hi && final(self).fresh_hi == old(self).fresh_hi }),
    { unimplemented!() }
    #[verifier::external_body]
    fn inner_seek_upper<F: Fn(&[u8], SeqNo) -> bool>(&mut self, pred: F, second_partition: bool, Ghost(p): Ghost<spec_fn(Seq<u8>, SeqNo) -> bool>) -> (r: bool)
        requires old(self).wf(), old(self).fresh_hi, second_partition, pred_is(pred, p)
        ensures final(self).wf(), final(self).bytes == old(self).bytes, final(self).lo == old(self).lo, final(self).fresh_lo == old(self).fresh_lo, !final(self).fresh_hi,
            r == (old(self).n() > 0), !r ==> final(self).hi == old(self).hi,
            forall|c: int| first_c(old(self).bytes, p, c) && old(self).n() > 0 ==> final(self).hi == (if c < old(self).n() { c + 1 } else { old(self).n() }),
    { unimplemented!() }
}
/// lex_cmp is a total order (std)
#[verifier::external_body]
proof fn axiom_lex_total(a: Seq<u8>, b: Seq<u8>, c: Seq<u8>)
    ensures lex_cmp(a, a) == Ordering::Equal,
        (lex_cmp(a, b) == Ordering::Equal) == (a == b),
        (lex_cmp(a, b) == Ordering::Less) == (lex_cmp(b, a) == Ordering::Greater),
        lex_cmp(a, b) != Ordering::Greater && lex_cmp(b, c) != Ordering::Greater ==> lex_cmp(a, c) != Ordering::Greater,
        lex_cmp(a, b) == Ordering::Less && lex_cmp(b, c) != Ordering::Greater ==> lex_cmp(a, c) == Ordering::Less,
        lex_cmp(a, b) != Ordering::Greater && lex_cmp(b, c) == Ordering::Less ==> lex_cmp(a, c) == Ordering::Less,
{}
/// what the index writer guarantees: handles ascend by (end key asc, seqno desc) - the order of the entries they summarize
spec fn index_wf(bytes: Seq<u8>) -> bool {
    let hs = handles(bytes);
    forall|i: int, j: int| 0 <= i <= j < hs.len() ==> lex_cmp(#[trigger] hs[i].end_key, #[trigger] hs[j].end_key) == Ordering::Less
        || (hs[i].end_key == hs[j].end_key && hs[i].seqno >= hs[j].seqno)
}
spec fn count_upto(bytes: Seq<u8>, p: spec_fn(Seq<u8>, SeqNo) -> bool, k: int) -> int decreases k
{ if k <= 0 { 0 } else if p(handles(bytes)[k - 1].end_key, handles(bytes)[k - 1].seqno) { k } else { count_upto(bytes, p, k - 1) } }
/// p is downward closed along the handle order
spec fn down_closed(bytes: Seq<u8>, p: spec_fn(Seq<u8>, SeqNo) -> bool) -> bool {
    let hs = handles(bytes);
    forall|i: int, j: int| 0 <= i <= j < hs.len() && p((#[trigger] hs[j]).end_key, hs[j].seqno) ==> p((#[trigger] hs[i]).end_key, hs[i].seqno)
}
proof fn lemma_count(bytes: Seq<u8>, p: spec_fn(Seq<u8>, SeqNo) -> bool, k: int)
    requires down_closed(bytes, p), 0 <= k <= handles(bytes).len()
    ensures ({ let c = count_upto(bytes, p, k); let hs = handles(bytes); 0 <= c <= k
        && (forall|i: int| 0 <= i < c ==> p((#[trigger] hs[i]).end_key, hs[i].seqno))
        && (forall|i: int| c <= i < k ==> !p((#[trigger] hs[i]).end_key, hs[i].seqno)) })
    decreases k
{
    let hs = handles(bytes);
    if k > 0 {
        if p(hs[k - 1].end_key, hs[k - 1].seqno) {
            assert forall|i: int| 0 <= i < k implies p((#[trigger] hs[i]).end_key, hs[i].seqno) by { assert(p(hs[k - 1].end_key, hs[k - 1].seqno)); }
        } else { lemma_count(bytes, p, k - 1); }
    }
}
proof fn lemma_first_c(bytes: Seq<u8>, p: spec_fn(Seq<u8>, SeqNo) -> bool) -> (c: int)
    requires down_closed(bytes, p)
    ensures first_c(bytes, p, c)
{ lemma_count(bytes, p, handles(bytes).len() as int); count_upto(bytes, p, handles(bytes).len() as int) }

//@ FROM src/table/index_block/iter.rs :: - :: struct Iter
//@ SUBST `DoubleEndedPeekable < IndexBlockParsedItem , Decoder < 'a , KeyedBlockHandle , IndexBlockParsedItem > , >` ==> `PeekDecoder`
struct Iter<'a> {
    decoder: PeekDecoder/*+*/,
    g: Ghost<&'a u8>/*-*/,
}
//@ END
//@ SUBST `std :: cmp :: Ordering` ==> `Ordering`
//@ SUBST `. inner_mut ( ) . seek (` ==> `.inner_seek(`
//@ SUBST `. inner_mut ( ) . seek_upper (` ==> `.inner_seek_upper(`
//@ SUBST `end_key . cmp ( needle )` ==> `slice_cmp(end_key, needle)`
//@ SUBST `end_key <= needle` ==> `slice_le(end_key, needle)`
//@ SUBST `end_key < needle` ==> `slice_lt(end_key, needle)`
impl<'a> Iter<'a> {
    spec fn hs(&self) -> Seq<Handle> { handles(self.decoder.bytes) }
//@ FROM src/table/index_block/iter.rs :: impl < 'a > Iter < 'a > :: fn seek :: OBL C01.25, C12.18, C03.14
    fn seek(&mut self, needle: &[u8], seqno: SeqNo) -> /*+*/(r:/*-*/ bool/*+*/)
        requires old(self).decoder.wf(), old(self).decoder.fresh_lo, index_wf(old(self).decoder.bytes)
        ensures final(self).decoder.wf(), final(self).decoder.bytes == old(self).decoder.bytes,
            // every block skipped ends before the sought (key, seqno)
            forall|i: int| 0 <= i < final(self).decoder.lo ==> ends_before(#[trigger] old(self).hs()[i], needle@, seqno),
            // true: the cursor stands on the first block that does not (the back end is untouched)
            r ==> final(self).decoder.lo < old(self).decoder.n() && !ends_before(old(self).hs()[final(self).decoder.lo], needle@, seqno) && final(self).decoder.hi == old(self).decoder.hi,
            // false: every block of the index ends before it
            !r ==> final(self).decoder.lo == old(self).decoder.n(),/*-*/
    {
        /*+*/let ghost p = |k: Seq<u8>, s: SeqNo| ends_before(Handle { end_key: k, seqno: s }, needle@, seqno);
        proof {
            let hs = self.hs();
            assert(down_closed(self.decoder.bytes, p)) by {
                assert forall|i: int, j: int| 0 <= i <= j < hs.len() && p((#[trigger] hs[j]).end_key, hs[j].seqno) implies p((#[trigger] hs[i]).end_key, hs[i].seqno) by {
                    axiom_lex_total(hs[i].end_key, hs[j].end_key, needle@);
                }
            }
            let c = lemma_first_c(self.decoder.bytes, p);
        }/*-*/
        self.decoder.inner_seek(
            |end_key/*+*/: &[u8]/*-*/, s/*+*/: SeqNo/*-*/| /*+*/-> (b: bool) ensures b == ends_before(Handle { end_key: end_key@, seqno: s }, needle@, seqno) {/*-*/ match slice_cmp(end_key, needle) {
                Ordering::Greater => false,
                Ordering::Less => true,
                Ordering::Equal => s >= seqno,
            /*+*/}/*-*/ },
            true/*+*/,
            Ghost(p)/*-*/,
        )
    }
//@ END

//@ FROM src/table/index_block/iter.rs :: impl < 'a > Iter < 'a > :: fn seek_upper :: OBL C03.14, C12.18
    fn seek_upper(&mut self, needle: &[u8], _seqno: SeqNo) -> /*+*/(r:/*-*/ bool/*+*/)
        requires old(self).decoder.wf(), old(self).decoder.fresh_hi, index_wf(old(self).decoder.bytes)
        ensures final(self).decoder.wf(), final(self).decoder.bytes == old(self).decoder.bytes, final(self).decoder.lo == old(self).decoder.lo,
            r == (old(self).decoder.n() > 0),
            // every block cut off comes after a block that already ends above the needle (so it holds no key at or below the needle)
            forall|i: int| final(self).decoder.hi <= i < old(self).decoder.n() ==> i >= 1 && lex_cmp((#[trigger] old(self).hs()[i - 1]).end_key, needle@) == Ordering::Greater,/*-*/
    {
        /*+*/let ghost p = |k: Seq<u8>, s: SeqNo| lex_cmp(k, needle@) != Ordering::Greater;
        proof {
            let hs = self.hs();
            assert(down_closed(self.decoder.bytes, p)) by {
                assert forall|i: int, j: int| 0 <= i <= j < hs.len() && p((#[trigger] hs[j]).end_key, hs[j].seqno) implies p((#[trigger] hs[i]).end_key, hs[i].seqno) by {
                    axiom_lex_total(hs[i].end_key, hs[j].end_key, needle@);
                }
            }
            let c = lemma_first_c(self.decoder.bytes, p);
            assert forall|i: int| (if c < hs.len() { c + 1 } else { hs.len() as int }) <= i < hs.len() implies i >= 1 && lex_cmp((#[trigger] hs[i - 1]).end_key, needle@) == Ordering::Greater by {
                assert(!p(hs[i - 1].end_key, hs[i - 1].seqno));
            }
        }/*-*/
        self.decoder
            .inner_seek_upper(|end_key/*+*/: &[u8]/*-*/, _s/*+*/: SeqNo/*-*/| /*+*/-> (b: bool) ensures b == (lex_cmp(end_key@, needle@) != Ordering::Greater) {/*-*/ slice_le(end_key, needle) /*+*/}/*-*/, true/*+*/, Ghost(p)/*-*/)
    }
//@ END
}
}
fn main() {}
