//@ UNIT index_writer
// Full block index writer (src/table/writer/index/full.rs): every handle the table writer registers (spill_block, C12.19) is kept,
// in order, and `finish` writes exactly these handles as ONE index block, framed as type Index, into the section "tli" of the table
// file.  Obligations C12.30, C01.33
use vstd::prelude::*;
verus! {
global size_of usize == 8;
type SeqNo = u64;

// ---------------- prelude (TRUSTED) ----------------
#[verifier::external_body] struct Error { p: u8 }
#[derive(Copy, Clone, PartialEq, Eq, Structural)] enum BlockType { Data, Index, Filter, Meta }
#[derive(Copy, Clone)] struct CompressionType { p: u8 }
/// KeyedBlockHandle: opaque here (codec: unit index_codec)
#[verifier::external_body] struct KeyedBlockHandle { p: u8 }
/// the payload IndexBlock::encode_into produces for these handles (Encoder::write with restart interval 1 over the index entry codec, C12.20)
uninterp spec fn index_encoded(handles: Seq<KeyedBlockHandle>) -> Seq<u8>;
struct IndexBlock { p: u8 }
impl IndexBlock {
    #[verifier::external_body]
    fn encode_into(writer: &mut Vec<u8>, items: &[KeyedBlockHandle]) -> (r: Result<(), Error>)
        ensures r is Ok ==> final(writer)@ == old(writer)@ + index_encoded(items@)
    { unimplemented!() }
}
struct Header { data_length: u32 }
impl Header { #[verifier::external_body] fn serialized_len() -> (r: usize) ensures r == 33 { unimplemented!() } }
/// the bytes Block::write_into appends for a payload (unit block_io, C12.9)
uninterp spec fn frame(data: Seq<u8>, t: BlockType, c: CompressionType) -> Seq<u8>;
/// sfa::Writer<ChecksummedWriter<BufWriter<File>>>: the sections started and the bytes written into the current one
struct FileWriter { ghost section: Seq<char>, ghost written: Seq<u8> }
impl FileWriter {
    /// sfa::Writer::start(name): begins a new named section of the archive
    #[verifier::external_body]
    fn start(&mut self, name: &str) -> (r: Result<(), Error>) ensures r is Ok ==> final(self).section == name@ && final(self).written == Seq::<u8>::empty() { unimplemented!() }
}
struct Block { p: u8 }
impl Block {
    #[verifier::external_body]
    fn write_into(writer: &mut FileWriter, data: &[u8], block_type: BlockType, compression: CompressionType) -> (r: Result<Header, Error>)
        ensures final(writer).section == old(writer).section, r is Ok ==> final(writer).written == old(writer).written + frame(data@, block_type, compression)
            && frame(data@, block_type, compression).len() == 33 + r->Ok_0.data_length && frame(data@, block_type, compression).len() <= u32::MAX
    { unimplemented!() }
}

//@ FROM src/table/writer/index/full.rs :: - :: struct FullIndexWriter
struct FullIndexWriter {
    compression: CompressionType,
    block_handles: Vec<KeyedBlockHandle>,
}
//@ END
//@ SUBST `crate :: Result < $1 >` ==> `Result<$1, Error>`
//@ SUBST `crate :: table :: block :: BlockType :: Index` ==> `BlockType::Index`
//@ SUBST `BlockHeader :: serialized_len ( )` ==> `Header::serialized_len()`
//@ SUBST `debug_assert ! ( $1 ) ;` ==> ``
impl FullIndexWriter {
//@ FROM src/table/writer/index/full.rs :: BlockIndexWriter < W > for FullIndexWriter :: fn register_data_block :: OBL C12.30, C01.33
    fn register_data_block(&mut self, block_handle: KeyedBlockHandle) -> /*+*/(r:/*-*/ Result<(), Error>/*+*/)
        ensures r is Ok, final(self).block_handles@ == old(self).block_handles@.push(block_handle)/*-*/
    {

        self.block_handles.push(block_handle);

        Ok(())
    }
//@ END
//@ FROM src/table/writer/index/full.rs :: BlockIndexWriter < W > for FullIndexWriter :: fn finish :: OBL C12.30, C01.33
//@ SUBST `self : Box < Self >` ==> `self`
//@ SUBST `& mut sfa :: Writer < ChecksummedWriter < BufWriter < File > > >` ==> `&mut FileWriter`
//@ SUBST `vec ! [ ]` ==> `Vec::new()`
    fn finish(
        self,
        file_writer: &mut FileWriter,
    ) -> /*+*/(r:/*-*/ Result<usize, Error>/*+*/)
        ensures r is Ok ==> r->Ok_0 == 1 && final(file_writer).section == "tli"@
            // the section holds exactly one framed index block made of all registered handles, in registration order
            && final(file_writer).written == frame(index_encoded(self.block_handles@), BlockType::Index, self.compression)/*-*/
    {
        file_writer.start("tli")?;

        let mut bytes = Vec::new();
        IndexBlock::encode_into(&mut bytes, &self.block_handles)?;
        /*+*/proof { assert(bytes@ =~= index_encoded(self.block_handles@)); }/*-*/

        let header = Block::write_into(
            file_writer,
            &bytes,
            BlockType::Index,
            self.compression,
        )?;

        let bytes_written = Header::serialized_len() as u32 + header.data_length;
        /*+*/proof { assert(file_writer.written =~= frame(index_encoded(self.block_handles@), BlockType::Index, self.compression)); }/*-*/

        Ok(1)
    }
//@ END
}
}
fn main() {}
