//@ UNIT index_writer_part
// Partitioned block index writer (src/table/writer/index/partitioned.rs).  Every handle the table writer registers ends up in exactly one
// index partition, in registration order (nothing is lost at a partition cut or at `finish`); each partition is written as one framed index
// block into the section "index"; the top-level index (section "tli") gets one handle per partition carrying the (end key, seqno) of the
// partition's last handle and addressing that partition's block (base offset + position inside the section, size = the framed length).
// This is the writer side of the precondition `tli_ok` of the reader (unit two_level_index, C11.10).  Obligations C11.11, C12.31, C01.36
use vstd::prelude::*;
verus! {
global size_of usize == 8;
type SeqNo = u64;

// ---------------- prelude (TRUSTED) ----------------
#[verifier::external_body] struct Error { p: u8 }
#[derive(Copy, Clone, PartialEq, Eq, Structural)] enum BlockType { Data, Index, Filter, Meta }
#[derive(Copy, Clone)] struct CompressionType { p: u8 }
#[derive(Copy, Clone, PartialEq, Eq, Structural)] struct BlockOffset(u64);
struct BlockHandle { offset: BlockOffset, size: u32 }
impl BlockHandle { fn new(offset: BlockOffset, size: u32) -> (r: Self) ensures r.offset == offset, r.size == size { Self { offset, size } } }
/// end key of a handle: its rank in the byte-string order and its length (at most u16::MAX)
#[verifier::external_body] struct UserKey { p: u8 }
impl UserKey {
    uninterp spec fn rank(&self) -> int;
    #[verifier::external_body] fn len(&self) -> (r: usize) ensures r <= 65535 { unimplemented!() }
    #[verifier::external_body] fn clone(&self) -> (r: Self) ensures r.rank() == self.rank() { unimplemented!() }
}
/// KeyedBlockHandle (codec: unit index_codec): what it records
pub ghost struct H { pub end_key: int, pub seqno: SeqNo, pub offset: u64, pub size: u32 }
#[verifier::external_body] struct KeyedBlockHandle { p: u8 }
impl KeyedBlockHandle {
    uninterp spec fn v(&self) -> H;
    #[verifier::external_body]
    fn new(end_key: UserKey, seqno: SeqNo, handle: BlockHandle) -> (r: Self) ensures r.v() == (H { end_key: end_key.rank(), seqno, offset: handle.offset.0, size: handle.size }) { unimplemented!() }
    #[verifier::external_body] fn end_key(&self) -> (r: &UserKey) ensures r.rank() == self.v().end_key { unimplemented!() }
    #[verifier::external_body] fn seqno(&self) -> (r: SeqNo) ensures r == self.v().seqno { unimplemented!() }
    /// `self.inner.offset += delta` (u64 addition; an overflow would panic / wrap - excluded by the caller's precondition)
    #[verifier::external_body]
    fn shift(&mut self, delta: BlockOffset)
        requires old(self).v().offset + delta.0 <= u64::MAX
        ensures final(self).v() == (H { offset: (old(self).v().offset + delta.0) as u64, ..old(self).v() })
    { unimplemented!() }
}
/// `std::mem::size_of::<KeyedBlockHandle>()`
#[verifier::external_body] fn kbh_size() -> (r: usize) ensures 0 < r <= 128 { unimplemented!() }
spec fn views(hs: Seq<KeyedBlockHandle>) -> Seq<H> { Seq::new(hs.len(), |i: int| hs[i].v()) }
/// the payload IndexBlock::encode_into produces for these handles (Encoder::write with restart interval 1 over the index entry codec, C12.20)
uninterp spec fn index_encoded(handles: Seq<H>) -> Seq<u8>;
struct IndexBlock { p: u8 }
impl IndexBlock {
    #[verifier::external_body]
    fn encode_into(writer: &mut Vec<u8>, items: &[KeyedBlockHandle]) -> (r: Result<(), Error>)
        ensures r is Ok ==> final(writer)@ == old(writer)@ + index_encoded(views(items@))
    { unimplemented!() }
}
struct Header { data_length: u32 }
impl Header { #[verifier::external_body] fn serialized_len() -> (r: usize) ensures r == 33 { unimplemented!() } }
/// the bytes Block::write_into appends for a payload (unit block_io, C12.9)
uninterp spec fn frame(data: Seq<u8>, t: BlockType, c: CompressionType) -> Seq<u8>;
/// sfa::Writer<ChecksummedWriter<BufWriter<File>>>: the section started last, the bytes written into it, the absolute file position
struct FileWriter { ghost section: Seq<char>, ghost written: Seq<u8>, ghost pos: u64, ghost closed: Seq<(Seq<char>, Seq<u8>)> }
impl FileWriter {
    /// sfa::Writer::start(name): closes the current section and begins a new named one
    #[verifier::external_body]
    fn start(&mut self, name: &str) -> (r: Result<(), Error>)
        ensures r is Ok ==> final(self).section == name@ && final(self).written == Seq::<u8>::empty() && final(self).pos == old(self).pos
            && final(self).closed == old(self).closed.push((old(self).section, old(self).written))
    { unimplemented!() }
    /// `file_writer.get_mut().stream_position()`
    #[verifier::external_body]
    fn position(&mut self) -> (r: Result<u64, Error>) ensures *final(self) == *old(self), r is Ok ==> r->Ok_0 == old(self).pos { unimplemented!() }
    #[verifier::external_body]
    fn write_all(&mut self, b: &[u8]) -> (r: Result<(), Error>)
        ensures r is Ok ==> final(self).section == old(self).section && final(self).written == old(self).written + b@ && final(self).closed == old(self).closed
    { unimplemented!() }
}
struct Block { p: u8 }
impl Block {
    #[verifier::external_body]
    fn write_into(writer: &mut Vec<u8>, data: &[u8], block_type: BlockType, compression: CompressionType) -> (r: Result<Header, Error>)
        ensures r is Ok ==> final(writer)@ == old(writer)@ + frame(data@, block_type, compression)
            && frame(data@, block_type, compression).len() == 33 + r->Ok_0.data_length && frame(data@, block_type, compression).len() <= u32::MAX
    { unimplemented!() }
}
impl FileWriter {
    /// Block::write_into with the archive writer as the sink (R6': the generic writer parameter is monomorphised)
    #[verifier::external_body]
    fn write_block(&mut self, data: &[u8], block_type: BlockType, compression: CompressionType) -> (r: Result<Header, Error>)
        ensures final(self).section == old(self).section, final(self).closed == old(self).closed,
            r is Ok ==> final(self).written == old(self).written + frame(data@, block_type, compression)
            && frame(data@, block_type, compression).len() == 33 + r->Ok_0.data_length && frame(data@, block_type, compression).len() <= u32::MAX
    { unimplemented!() }
}

// ---------------- the writer's state as a partition of what was registered ----------------
//@ FROM src/table/writer/index/partitioned.rs :: - :: struct PartitionedIndexWriter
struct PartitionedIndexWriter {
    relative_file_pos: u64,

    compression: CompressionType,

    tli_handles: Vec<KeyedBlockHandle>,
    data_block_handles: Vec<KeyedBlockHandle>,

    buffer_size: u32,
    partition_size: u32,

    index_block_count: usize,

    block_buffer: Vec<u8>,

    final_write_buffer: Vec<u8>,
}
//@ END
/// the framed partitions, one after the other
spec fn blocks(parts: Seq<Seq<H>>, c: CompressionType) -> Seq<u8> decreases parts.len()
{ if parts.len() == 0 { Seq::empty() } else { blocks(parts.drop_last(), c) + frame(index_encoded(parts.last()), BlockType::Index, c) } }
/// all handles of the partitions, in order
spec fn flat(parts: Seq<Seq<H>>) -> Seq<H> decreases parts.len()
{ if parts.len() == 0 { Seq::empty() } else { flat(parts.drop_last()) + parts.last() } }
impl PartitionedIndexWriter {
    /// the partitions cut so far are `parts`; `regs` is everything registered
    spec fn inv(&self, parts: Seq<Seq<H>>, regs: Seq<H>) -> bool {
        &&& flat(parts) + views(self.data_block_handles@) == regs
        &&& self.tli_handles@.len() == parts.len() && self.index_block_count == parts.len()
        &&& self.final_write_buffer@ == blocks(parts, self.compression) && self.relative_file_pos == self.final_write_buffer@.len()
        &&& self.block_buffer@.len() == 0
        // a non-empty pending chunk is always accounted for in buffer_size (so `finish` cannot forget it)
        &&& (self.data_block_handles@.len() > 0 <==> self.buffer_size > 0)
        &&& forall|p: int| 0 <= p < parts.len() ==> (#[trigger] parts[p]).len() > 0 && ({
                let t = self.tli_handles@[p].v();
                // one top-level handle per partition: key / seqno of the partition's last handle, position and framed size of its block
                &&& t.end_key == parts[p].last().end_key && t.seqno == parts[p].last().seqno
                &&& t.offset == blocks(parts.take(p), self.compression).len()
                &&& t.size == frame(index_encoded(parts[p]), BlockType::Index, self.compression).len()
            })
    }
}

proof fn lemma_blocks_push(parts: Seq<Seq<H>>, chunk: Seq<H>, c: CompressionType)
    ensures blocks(parts.push(chunk), c) == blocks(parts, c) + frame(index_encoded(chunk), BlockType::Index, c),
        flat(parts.push(chunk)) == flat(parts) + chunk,
{
    assert(parts.push(chunk).drop_last() =~= parts);
}
/// positions of earlier partitions do not move when a partition is appended
proof fn lemma_take_push(parts: Seq<Seq<H>>, chunk: Seq<H>, p: int)
    requires 0 <= p <= parts.len()
    ensures parts.push(chunk).take(p) == parts.take(p)
{ assert(parts.push(chunk).take(p) =~= parts.take(p)); }

//@ SUBST `crate :: Result < $1 >` ==> `Result<$1, Error>`
//@ SUBST `crate :: table :: block :: BlockType :: Index` ==> `BlockType::Index`
//@ SUBST `BlockHeader :: serialized_len ( )` ==> `Header::serialized_len()`
//@ SUBST `vec ! [ ]` ==> `Vec::new()`
impl PartitionedIndexWriter {
//@ FROM src/table/writer/index/partitioned.rs :: impl PartitionedIndexWriter :: fn cut_index_block :: OBL C11.11, C12.31, C01.36
//@ SUBST `self . data_block_handles . pop ( ) . expect ( "Chunk should not be empty" )` ==> `opt_expect_rt(self.data_block_handles.pop())`
    fn cut_index_block(&mut self/*+*/, Ghost(parts): Ghost<Seq<Seq<H>>>, Ghost(regs): Ghost<Seq<H>>/*-*/) -> /*+*/(r:/*-*/ Result<(), Error>/*+*/)
        requires old(self).inv(parts, regs), old(self).data_block_handles@.len() > 0,
            old(self).relative_file_pos <= u64::MAX - u32::MAX, old(self).index_block_count < usize::MAX,
        ensures final(self).compression == old(self).compression, final(self).partition_size == old(self).partition_size,
            final(self).relative_file_pos <= old(self).relative_file_pos + u32::MAX,
            // the pending chunk - all of it - becomes the next partition; nothing pending is left
            r is Ok ==> final(self).inv(parts.push(views(old(self).data_block_handles@)), regs) && final(self).data_block_handles@.len() == 0,/*-*/
    {
        /*+*/let ghost chunk = views(self.data_block_handles@); let ghost c = self.compression;/*-*/
        let mut bytes = Vec::new();
        IndexBlock::encode_into(&mut bytes, &self.data_block_handles)?;
        /*+*/proof { assert(bytes@ =~= index_encoded(chunk)); }/*-*/

        let header = Block::write_into(
            &mut self.block_buffer,
            &bytes,
            BlockType::Index,
            self.compression,
        )?;
        /*+*/proof { assert(self.block_buffer@ =~= frame(index_encoded(chunk), BlockType::Index, c)); }/*-*/

        let bytes_written = Header::serialized_len() as u32 + header.data_length;

        let last = opt_expect_rt(self.data_block_handles.pop());

        let index_block_handle = KeyedBlockHandle::new(
            last.end_key().clone(),
            last.seqno(),
            BlockHandle::new(BlockOffset(self.relative_file_pos), bytes_written),
        );

        self.tli_handles.push(index_block_handle);
        self.final_write_buffer.append(&mut self.block_buffer);

        self.index_block_count += 1;
        self.relative_file_pos += u64::from(bytes_written);

        self.data_block_handles.clear();
        self.buffer_size = 0;

        /*+*/proof {
            let np = parts.push(chunk);
            lemma_blocks_push(parts, chunk, c);
            assert(last.v() == chunk.last());
            assert(views(self.data_block_handles@) =~= Seq::<H>::empty());
            assert(flat(np) + views(self.data_block_handles@) =~= regs);
            assert(np.take(parts.len() as int) =~= parts);
            assert forall|p: int| 0 <= p < np.len() implies (#[trigger] np[p]).len() > 0 && ({
                let t = self.tli_handles@[p].v();
                &&& t.end_key == np[p].last().end_key && t.seqno == np[p].last().seqno
                &&& t.offset == blocks(np.take(p), self.compression).len()
                &&& t.size == frame(index_encoded(np[p]), BlockType::Index, self.compression).len()
            }) by {
                if p < parts.len() { lemma_take_push(parts, chunk, p); assert(np[p] == parts[p]); assert(self.tli_handles@[p] == old(self).tli_handles@[p]); }
            }
        }/*-*/
        Ok(())
    }
//@ END

//@ FROM src/table/writer/index/partitioned.rs :: BlockIndexWriter < W > for PartitionedIndexWriter :: fn register_data_block :: OBL C11.11, C12.31, C01.36
//@ SUBST `std :: mem :: size_of :: < KeyedBlockHandle > ( )` ==> `kbh_size()`
    fn register_data_block(&mut self, block_handle: KeyedBlockHandle/*+*/, Ghost(parts): Ghost<Seq<Seq<H>>>, Ghost(regs): Ghost<Seq<H>>/*-*/) -> /*+*/(r:/*-*/ Result<(), Error>/*+*/)
        requires old(self).inv(parts, regs), old(self).partition_size <= u32::MAX - 70000,
            old(self).buffer_size <= old(self).partition_size,
            old(self).relative_file_pos <= u64::MAX - u32::MAX, old(self).index_block_count < usize::MAX,
        ensures final(self).compression == old(self).compression, final(self).partition_size == old(self).partition_size,
            // the handle is kept, after everything registered before: either still pending, or in the partition just cut
            r is Ok ==> exists|np: Seq<Seq<H>>| #[trigger] final(self).inv(np, regs.push(block_handle.v())) && (np == parts || np == parts.push(views(old(self).data_block_handles@).push(block_handle.v())))
                && final(self).buffer_size <= final(self).partition_size,/*-*/
    {

        let block_handle_size =
            (block_handle.end_key().len() + kbh_size()) as u32;

        self.buffer_size += block_handle_size;

        self.data_block_handles.push(block_handle);
        /*+*/let ghost nregs = regs.push(block_handle.v());
        proof {
            assert(views(self.data_block_handles@) =~= views(old(self).data_block_handles@).push(block_handle.v()));
            assert(flat(parts) + views(self.data_block_handles@) =~= nregs);
            assert(self.inv(parts, nregs));
        }/*-*/

        if self.buffer_size >= self.partition_size {
            self.cut_index_block(/*+*/Ghost(parts), Ghost(nregs)/*-*/)?;
            /*+*/proof { assert(self.inv(parts.push(views(old(self).data_block_handles@).push(block_handle.v())), nregs)); }/*-*/
        }

        Ok(())
    }
//@ END
}

/// the top-level handles as written: those of the partitions, moved by the base offset of the section "index"
spec fn shifted(t: Seq<H>, base: u64) -> Seq<H> { Seq::new(t.len(), |i: int| H { offset: (t[i].offset + base) as u64, ..t[i] }) }
impl PartitionedIndexWriter {
//@ FROM src/table/writer/index/partitioned.rs :: impl PartitionedIndexWriter :: fn write_top_level_index :: OBL C11.11, C12.31
//@ SUBST `& mut sfa :: Writer < ChecksummedWriter < BufWriter < File > > >` ==> `&mut FileWriter`
//@ SUBST `Block :: write_into ( file_writer ,` ==> `file_writer.write_block(`
//@ SUBST `debug_assert ! ( $1 ) ;` ==> ``
//@ SUBST `for item in & mut self . tli_handles { item . shift ( index_base_offset ) ; }` ==> `let mut i__: usize = 0; while i__ < self.tli_handles.len() { self.tli_handles[i__].shift(index_base_offset); i__ += 1; }`
// `for item in &mut v { item.shift(d) }` as an index loop (Verus has no iterators over &mut)
    fn write_top_level_index(
        &mut self,
        file_writer: &mut FileWriter,
        index_base_offset: BlockOffset,
    ) -> /*+*/(r:/*-*/ Result<(), Error>/*+*/)
        requires forall|i: int| 0 <= i < old(self).tli_handles@.len() ==> (#[trigger] old(self).tli_handles@[i]).v().offset + index_base_offset.0 <= u64::MAX,
        ensures final(self).index_block_count == old(self).index_block_count, final(self).compression == old(self).compression,
            r is Ok ==> final(file_writer).section == "tli"@
            && final(file_writer).closed == old(file_writer).closed.push((old(file_writer).section, old(file_writer).written))
            // the section holds exactly one framed index block: the top-level handles, each moved by the base offset
            && final(file_writer).written == frame(index_encoded(shifted(views(old(self).tli_handles@), index_base_offset.0)), BlockType::Index, old(self).compression),/*-*/
    {
        file_writer.start("tli")?;

        let mut i__: usize = 0; while i__ < self.tli_handles.len()
            /*+*/invariant i__ <= self.tli_handles@.len(), self.tli_handles@.len() == old(self).tli_handles@.len(), self.compression == old(self).compression, self.index_block_count == old(self).index_block_count,
                forall|i: int| 0 <= i < i__ ==> (#[trigger] self.tli_handles@[i]).v() == shifted(views(old(self).tli_handles@), index_base_offset.0)[i],
                forall|i: int| i__ <= i < self.tli_handles@.len() ==> (#[trigger] self.tli_handles@[i]) == old(self).tli_handles@[i],
                forall|i: int| 0 <= i < old(self).tli_handles@.len() ==> (#[trigger] old(self).tli_handles@[i]).v().offset + index_base_offset.0 <= u64::MAX,
            decreases self.tli_handles@.len() - i__/*-*/
        { self.tli_handles[i__].shift(index_base_offset); i__ += 1; }

        let mut bytes = Vec::new();
        IndexBlock::encode_into(&mut bytes, &self.tli_handles)?;
        /*+*/proof { assert(views(self.tli_handles@) =~= shifted(views(old(self).tli_handles@), index_base_offset.0)); assert(bytes@ =~= index_encoded(views(self.tli_handles@))); }/*-*/

        let header = file_writer.write_block(
            &bytes,
            BlockType::Index,
            self.compression,
        )?;

        let bytes_written = Header::serialized_len() as u32 + header.data_length;
        /*+*/proof { assert(file_writer.written =~= frame(index_encoded(views(self.tli_handles@)), BlockType::Index, self.compression)); }/*-*/

        Ok(())
    }
//@ END

//@ FROM src/table/writer/index/partitioned.rs :: BlockIndexWriter < W > for PartitionedIndexWriter :: fn finish :: OBL C11.11, C12.31, C01.36
//@ SUBST `mut self : Box < Self >` ==> `self`
//@ SUBST `self .` ==> `self_.`
//@ SUBST `& mut sfa :: Writer < ChecksummedWriter < BufWriter < File > > >` ==> `&mut FileWriter`
//@ SUBST `file_writer . get_mut ( ) . stream_position ( ) ?` ==> `file_writer.position()?`
// (`mut self` is not supported: the body works on a local copy `self_`)
    fn finish(
        self,
        file_writer: &mut FileWriter,/*+*/ Ghost(parts): Ghost<Seq<Seq<H>>>, Ghost(regs): Ghost<Seq<H>>/*-*/
    ) -> /*+*/(r:/*-*/ Result<usize, Error>/*+*/)
        requires self.inv(parts, regs), self.relative_file_pos <= u64::MAX - u32::MAX, self.index_block_count < usize::MAX,
            old(file_writer).pos + self.relative_file_pos + u32::MAX <= u64::MAX,
        ensures r is Ok ==> finished_some(regs, self.compression, *old(file_writer), *final(file_writer), r->Ok_0),/*-*/
    {
        /*+*/let mut self_ = self; let ghost mut np = parts; let ghost c = self.compression;/*-*/
        if self_.buffer_size > 0 {
            self_.cut_index_block(/*+*/Ghost(parts), Ghost(regs)/*-*/)?;
            /*+*/proof { np = parts.push(views(self.data_block_handles@)); }/*-*/
        }
        /*+*/proof {
            assert(self_.inv(np, regs)); assert(self_.compression == c);
            assert(self_.data_block_handles@.len() == 0);
            assert(views(self_.data_block_handles@) =~= Seq::<H>::empty()); assert(flat(np) + Seq::<H>::empty() =~= flat(np));
            assert(flat(np) == regs);
        }/*-*/

        let index_base_offset = BlockOffset(file_writer.position()?);

        file_writer.start("index")?;
        file_writer.write_all(&self_.final_write_buffer)?;
        /*+*/let ghost tli = views(self_.tli_handles@); let ghost mid = *file_writer;
        proof {
            assert(file_writer.written =~= blocks(np, c));
            assert forall|p: int| 0 <= p < np.len() implies (#[trigger] np[p]).len() > 0 && tli[p].end_key == np[p].last().end_key && tli[p].seqno == np[p].last().seqno
                && tli[p].offset == blocks(np.take(p), c).len() && tli[p].size == frame(index_encoded(np[p]), BlockType::Index, c).len() by {
                assert(np[p].len() > 0);
                assert(tli[p] == self_.tli_handles@[p].v());
            }
            assert forall|i: int| 0 <= i < self_.tli_handles@.len() implies (#[trigger] self_.tli_handles@[i]).v().offset + index_base_offset.0 <= u64::MAX by {
                lemma_blocks_prefix_len(np, i, c);
                assert(np[i].len() > 0);
                assert(self_.tli_handles@[i].v().offset == blocks(np.take(i), c).len());
            }
        }/*-*/

        self_.write_top_level_index(file_writer, index_base_offset)?;
        /*+*/proof {
            assert(tli.len() == np.len());
            assert(file_writer.closed == old(file_writer).closed.push((old(file_writer).section, old(file_writer).written)).push(("index"@, blocks(np, c))));
            assert(self_.index_block_count == np.len());
            assert(file_writer.section == "tli"@);
            assert(index_base_offset.0 == old(file_writer).pos);
            assert(file_writer.written == frame(index_encoded(shifted(tli, old(file_writer).pos)), BlockType::Index, c));
            assert(finished(np, tli, regs, self.compression, *old(file_writer), *file_writer, self_.index_block_count));
            assert(finished_some(regs, self.compression, *old(file_writer), *file_writer, self_.index_block_count));
        }/*-*/

        Ok(self_.index_block_count)
    }
//@ END
}
/// what `finish` leaves in the table file: section "index" = the framed partitions one after the other, section "tli" = one framed
/// index block of the top-level handles; the partitions are a cut of everything registered, in order, none empty; the p-th top-level
/// handle carries (end key, seqno) of partition p's last handle and addresses partition p's block
spec fn finished(np: Seq<Seq<H>>, tli: Seq<H>, regs: Seq<H>, c: CompressionType, f0: FileWriter, f1: FileWriter, count: usize) -> bool {
    &&& flat(np) == regs && count == np.len() && tli.len() == np.len()
    &&& f1.section == "tli"@ && f1.written == frame(index_encoded(shifted(tli, f0.pos)), BlockType::Index, c)
    &&& f1.closed == f0.closed.push((f0.section, f0.written)).push(("index"@, blocks(np, c)))
    &&& forall|p: int| 0 <= p < np.len() ==> (#[trigger] np[p]).len() > 0 && tli[p].end_key == np[p].last().end_key && tli[p].seqno == np[p].last().seqno
            && tli[p].offset == blocks(np.take(p), c).len() && tli[p].size == frame(index_encoded(np[p]), BlockType::Index, c).len()
}
spec fn finished_some(regs: Seq<H>, c: CompressionType, f0: FileWriter, f1: FileWriter, count: usize) -> bool { exists|np: Seq<Seq<H>>, tli: Seq<H>| #[trigger] finished(np, tli, regs, c, f0, f1, count) }
proof fn lemma_blocks_prefix_len(parts: Seq<Seq<H>>, p: int, c: CompressionType)
    requires 0 <= p <= parts.len()
    ensures blocks(parts.take(p), c).len() <= blocks(parts, c).len()
    decreases parts.len() - p
{
    if p < parts.len() {
        lemma_blocks_prefix_len(parts, p + 1, c);
        assert(parts.take(p + 1).drop_last() =~= parts.take(p));
    } else { assert(parts.take(p) =~= parts); }
}
/// `opt.expect(msg)`: execution continues only with Some (a panic returns nothing)
#[verifier::external_body] fn opt_expect_rt<T>(o: Option<T>) -> (r: T) ensures o == Some(r) { o.expect("") }
}
fn main() {}
