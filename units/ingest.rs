//@ UNIT ingest
// Bulk ingestion, critical section of Ingestion::finish (tree/ingest.rs) and BlobIngestion::finish (blob_tree/ingest.rs):
// under the flush lock the active memtable is rotated and ALL sealed memtables are flushed - unconditionally - before the
// ingested tables are finished and registered; otherwise older sealed data would shadow the ingested entries on point reads.
// Obligations C14.4
use vstd::prelude::*;
verus! {

#[verifier::external_body] pub struct Error { p: u8 }
pub enum Ev { Lock, Rotate, Flush }
/// effect token (R15)
pub struct Fx { pub ghost log: Seq<Ev> }
pub struct FlushLock { pub p: u8 }
pub struct Memtable { pub p: u8 }
pub struct Tree { pub p: u8 }
impl Tree {
    #[verifier::external_body] pub fn get_flush_lock(&self, Tracked(fx): Tracked<&mut Fx>) -> (r: FlushLock) ensures final(fx).log == old(fx).log.push(Ev::Lock) { unimplemented!() }
    /// rotate_memtable: None iff the active memtable is empty (then nothing is sealed by this call)
    #[verifier::external_body] pub fn rotate_memtable(&self, Tracked(fx): Tracked<&mut Fx>) -> (r: Option<Memtable>) ensures final(fx).log == old(fx).log.push(Ev::Rotate) { unimplemented!() }
    /// flush(lock, watermark): flushes every sealed memtable
    #[verifier::external_body] pub fn flush(&self, lock: &FlushLock, wm: u64, Tracked(fx): Tracked<&mut Fx>) -> (r: Result<Option<u64>, Error>) ensures final(fx).log == old(fx).log.push(Ev::Flush) { unimplemented!() }
    #[verifier::external_body] pub fn clone(&self) -> (r: Tree) { unimplemented!() }
}
pub open spec fn critical(log: Seq<Ev>) -> bool { log =~= seq![Ev::Lock, Ev::Rotate, Ev::Flush] }

//@ SUBST `. get_flush_lock ( )` ==> `.get_flush_lock(Tracked(fx))`
//@ SUBST `. rotate_memtable ( )` ==> `.rotate_memtable(Tracked(fx))`
//@ SUBST `. flush ( & flush_lock , 0 )` ==> `.flush(&flush_lock, 0, Tracked(fx))`

pub struct Ingestion { pub tree: Tree }
//@ WRAPPER_BEGIN
impl Ingestion {
    /// wrapper (generated) around the statements `let flush_lock = ..; self.tree.rotate_memtable(); self.tree.flush(..)?;` of Ingestion::finish
    fn finish_critical_prefix(&self, Tracked(fx): Tracked<&mut Fx>) -> (r: Result<FlushLock, Error>)
        requires old(fx).log.len() == 0,
        ensures
            // C14.4: the lock is taken first, then the active memtable is rotated, then - always - the sealed memtables are flushed;
            // the lock is still held (returned) when the ingested tables are finished and registered
            critical(final(fx).log),
    {
//@ FROM src/tree/ingest.rs :: impl < 'a > Ingestion < 'a > :: fn finish :: STMTS `let flush_lock =` .. `<let results =` :: OBL C14.4
        let flush_lock = self.tree.get_flush_lock(Tracked(fx));

        self.tree.rotate_memtable(Tracked(fx));
        self.tree.flush(&flush_lock, 0, Tracked(fx))?;
//@ END
        Ok(flush_lock)
    }
}
//@ WRAPPER_END

//@ WRAPPER_BEGIN
/// wrapper (generated) around the same statements of BlobIngestion::finish (`index` is the index tree)
fn blob_finish_critical_prefix(index: &Tree, Tracked(fx): Tracked<&mut Fx>) -> (r: Result<FlushLock, Error>)
    requires old(fx).log.len() == 0,
    ensures critical(final(fx).log),
{
//@ FROM src/blob_tree/ingest.rs :: impl < 'a > BlobIngestion < 'a > :: fn finish :: STMTS `let flush_lock =` .. `<let blob_files =` :: OBL C14.4
    let flush_lock = index.get_flush_lock(Tracked(fx));

    index.rotate_memtable(Tracked(fx));
    index.flush(&flush_lock, 0, Tracked(fx))?;
//@ END
    Ok(flush_lock)
}
//@ WRAPPER_END

} // verus!
fn main() {}
