//@ UNIT ingest_publish
// Ingestion::finish (tree/ingest.rs) and BlobIngestion::finish (blob_tree/ingest.rs), publication part: one sequence number is
// drawn under the version write lock; every ingested table is recovered with exactly that global seqno, and the version that
// adds them as one L0 run is stamped with the same seqno - so the ingested entries become visible together, to snapshots taken
// afterwards only.  Obligations C14.9
use vstd::prelude::*;
verus! {

global size_of usize == 8;

type SeqNo = u64;
type TableId = u64;
type TreeId = u64;
#[verifier::external_body] struct Error { p: u8 }
#[verifier::external_body] struct Path { p: u8 }
#[verifier::external_body] struct PathBuf { p: u8 }
#[verifier::external_body] struct Cache { p: u8 }
#[verifier::external_body] struct DescriptorTable { p: u8 }
#[verifier::external_body] struct Checksum { p: u8 }
#[verifier::external_body] struct BlobFile { p: u8 }
#[verifier::external_body] struct FragmentationMap { p: u8 }
struct ArcCache { p: u8 }
impl ArcCache { fn clone(&self) -> (r: ArcCache) { ArcCache { p: self.p } } }
struct OptDt { p: u8 }
impl OptDt { fn clone(&self) -> (r: OptDt) { OptDt { p: self.p } } }
/// SequenceNumberCounter: next() draws a fresh number (ghost: which one)
struct SequenceNumberCounter { p: u8 }
impl SequenceNumberCounter { #[verifier::external_body] fn next(&self) -> (r: SeqNo) { unimplemented!() } }
/// a table handle as Table::recover builds it (unit table_recover, C14.7): it carries the global seqno and tree id it was given
struct Table { ghost global_seqno: SeqNo, ghost tree_id: TreeId }
impl Table {
    #[verifier::external_body]
    fn recover(path: PathBuf, checksum: Checksum, global_seqno: SeqNo, tree_id: TreeId, cache: ArcCache, descriptor_table: OptDt, pin_filter: bool, pin_index: bool) -> (r: Result<Table, Error>)
        ensures r is Ok ==> r->Ok_0.global_seqno == global_seqno && r->Ok_0.tree_id == tree_id
    { unimplemented!() }
}
#[verifier::external_body] struct IdString { p: u8 }
/// `table_id.to_string()` (R12)
#[verifier::external_body] fn id_string(id: TableId) -> (r: IdString) { unimplemented!() }
impl Path { #[verifier::external_body] fn join(&self, name: IdString) -> (r: PathBuf) { unimplemented!() } }
impl PathBuf { #[verifier::external_body] fn join(&self, name: IdString) -> (r: PathBuf) { unimplemented!() } }

/// Version::with_new_l0_run as an uninterpreted function (level part: unit new_l0_run, C14.8)
struct Version { ghost v: int }
uninterp spec fn with_run(v: int, tables: Seq<Table>, blob_files: Option<Seq<BlobFile>>) -> int;
impl Version {
    #[verifier::external_body]
    fn with_new_l0_run(&self, run: &Vec<Table>, blob_files: Option<&Vec<BlobFile>>, diff: Option<FragmentationMap>) -> (r: Version)
        ensures r.v == with_run(self.v, run@, match blob_files { Some(b) => Some(b@), None => None })
    { unimplemented!() }
}
struct SuperVersion { version: Version, seqno: SeqNo, ghost rest: int }
impl Clone for SuperVersion { #[verifier::external_body] fn clone(&self) -> (r: Self) ensures r == *self { unimplemented!() } }
/// contract of SuperVersions::upgrade_version_with_seqno as proved in unit `super_versions` (C02.4 / C14.1): Ok appends the edited
/// super version stamped with exactly the given seqno, Err leaves the history alone
struct SuperVersions { h: Vec<SuperVersion> }
impl SuperVersions {
    #[verifier::external_body]
    fn upgrade_version_with_seqno<F: FnOnce(&SuperVersion) -> Result<SuperVersion, Error>>(&mut self, tree_path: &Path, f: F, seqno: SeqNo, visible_seqno: &SequenceNumberCounter) -> (r: Result<(), Error>)
        requires old(self).h@.len() > 0, call_requires(f, (&old(self).h@.last(),)),
        ensures
            r is Err ==> final(self).h@ == old(self).h@,
            r is Ok ==> final(self).h@.len() == old(self).h@.len() + 1 && final(self).h@.drop_last() == old(self).h@ && final(self).h@.last().seqno == seqno
                && (exists|sv: SuperVersion| #[trigger] call_ensures(f, (&old(self).h@.last(),), Ok::<SuperVersion, Error>(sv)) && final(self).h@.last().version == sv.version && final(self).h@.last().rest == sv.rest),
    { unimplemented!() }
    #[verifier::external_body]
    fn maintenance(&mut self, path: &Path, watermark: SeqNo) -> (r: Result<(), Error>)
        ensures final(self).h@.len() > 0, final(self).h@.last() == old(self).h@.last()
    { unimplemented!() }
}
struct Config { path: Box<Path>, seqno: SequenceNumberCounter, visible_seqno: SequenceNumberCounter, cache: ArcCache, descriptor_table: OptDt }
struct Tree { id: TreeId, config: Box<Config> }
struct Ingestion { tree: Box<Tree>, folder: Box<PathBuf> }
/// `results.into_iter().map(f).collect::<crate::Result<Vec<_>>>()` (std): element-wise results in order, or the first error
#[verifier::external_body]
fn try_map_owned<F: Fn((TableId, Checksum)) -> Result<Table, Error>>(xs: Vec<(TableId, Checksum)>, f: F) -> (r: Result<Vec<Table>, Error>)
    requires forall|x: (TableId, Checksum)| call_requires(f, (x,))
    ensures r is Ok ==> r->Ok_0@.len() == xs@.len() && forall|i: int| 0 <= i < xs@.len() ==> call_ensures(f, (xs@[i],), Ok::<Table, Error>(#[trigger] r->Ok_0@[i]))
{ unimplemented!() }

/// what a successful ingestion appends: one version = old + the run, stamped g, all of whose tables carry g
spec fn published(new: SuperVersion, old: SuperVersion, tables: Seq<Table>, blob_files: Option<Seq<BlobFile>>, g: SeqNo, tree_id: TreeId) -> bool {
    new.seqno == g && new.version.v == with_run(old.version.v, tables, blob_files) && new.rest == old.rest
    && forall|i: int| 0 <= i < tables.len() ==> (#[trigger] tables[i]).global_seqno == g && tables[i].tree_id == tree_id
}

//@ SUBST `crate :: Error` ==> `Error`
//@ SUBST `table_id . to_string ( )` ==> `id_string(table_id)`
//@ SUBST `results . into_iter ( ) . map ( $1 ) . collect :: < crate :: Result < Vec < _ > > > ( )` ==> `try_map_owned(results, $1)`
//@ SUBST `| ( table_id , checksum ) | -> crate :: Result < Table > {` ==> `|p__: (TableId, Checksum)| -> Result<Table, Error> { let (table_id, checksum) = p__;`

//@ WRAPPER_BEGIN
impl Ingestion {
    /// wrapper (generated) around the statements of Ingestion::finish from the seqno allocation on; `version_lock` is what the
    /// write guard taken just before derefs to, `results` what the ingestion writer returned
    fn finish_publish(&self, results: Vec<(TableId, Checksum)>, version_lock: &mut SuperVersions) -> (r: Result<(), Error>)
        requires old(version_lock).h@.len() > 0
        ensures
            r is Err ==> final(version_lock).h@ == old(version_lock).h@,
            r is Ok ==> final(version_lock).h@.len() > 0 && exists|tables: Seq<Table>, g: SeqNo| tables.len() == results@.len()
                && #[trigger] published(final(version_lock).h@.last(), old(version_lock).h@.last(), tables, None, g, self.tree.id),
    {
//@ FROM src/tree/ingest.rs :: impl < 'a > Ingestion < 'a > :: fn finish :: STMTS `let global_seqno =` .. `Ok ( ( ) )` :: OBL C14.9
        let global_seqno = self.tree.config.seqno.next();

        let created_tables = try_map_owned(results, |p__: (TableId, Checksum)| -> /*+*/(tr:/*-*/ Result<Table, Error>/*+*/)
                ensures tr is Ok ==> tr->Ok_0.global_seqno == global_seqno && tr->Ok_0.tree_id == self.tree.id/*-*/
            { let (table_id, checksum) = p__;
                Table::recover(
                    self.folder.join(id_string(table_id)),
                    checksum,
                    global_seqno,
                    self.tree.id,
                    self.tree.config.cache.clone(),
                    self.tree.config.descriptor_table.clone(),
                    false,
                    false,
                )
            })?;

        /*+*/let ghost o = version_lock.h@.last();/*-*/
        version_lock.upgrade_version_with_seqno(
            &self.tree.config.path,
            |current/*+*/: &SuperVersion/*-*/| /*+*/-> (o2: Result<SuperVersion, Error>)
                ensures o2 is Ok && o2->Ok_0.version.v == with_run(current.version.v, created_tables@, None) && o2->Ok_0.rest == current.rest/*-*/
            {
                let mut copy = current.clone();
                copy.version = copy.version.with_new_l0_run(&created_tables, None, None);
                Ok(copy)
            },
            global_seqno,
            &self.tree.config.visible_seqno,
        )?;
        /*+*/proof { assert(published(version_lock.h@.last(), o, created_tables@, None, global_seqno, self.tree.id)); }/*-*/

        if let Err(e) = version_lock.maintenance(&self.tree.config.path, 0) {
        }

        Ok(())
//@ END
    }
}
//@ WRAPPER_END

struct BlobTreeHandle { index: Box<Tree> }
struct BlobIngestion { tree: Box<BlobTreeHandle> }
/// `crate::file::TABLES_FOLDER` as a path component
#[verifier::external_body] fn tables_folder() -> (r: IdString) { unimplemented!() }

//@ WRAPPER_BEGIN
impl BlobIngestion {
    /// wrapper (generated) around the same statements of BlobIngestion::finish (`index` is the index tree, `blob_files` what the
    /// blob writer returned)
    fn finish_publish(&self, index: &Tree, results: Vec<(TableId, Checksum)>, blob_files: Vec<BlobFile>, version_lock: &mut SuperVersions) -> (r: Result<(), Error>)
        requires old(version_lock).h@.len() > 0
        ensures
            r is Err ==> final(version_lock).h@ == old(version_lock).h@,
            r is Ok ==> final(version_lock).h@.len() > 0 && exists|tables: Seq<Table>, g: SeqNo| tables.len() == results@.len()
                && #[trigger] published(final(version_lock).h@.last(), old(version_lock).h@.last(), tables, Some(blob_files@), g, index.id),
    {
//@ FROM src/blob_tree/ingest.rs :: impl < 'a > BlobIngestion < 'a > :: fn finish :: STMTS `let global_seqno =` .. `Ok ( ( ) )` :: OBL C14.9
//@ SUBST `crate :: file :: TABLES_FOLDER` ==> `tables_folder()`
        let global_seqno = index.config.seqno.next();

        let created_tables = try_map_owned(results, |p__: (TableId, Checksum)| -> /*+*/(tr:/*-*/ Result<Table, Error>/*+*/)
                ensures tr is Ok ==> tr->Ok_0.global_seqno == global_seqno && tr->Ok_0.tree_id == index.id/*-*/
            { let (table_id, checksum) = p__;
                Table::recover(
                    index
                        .config
                        .path
                        .join(tables_folder())
                        .join(id_string(table_id)),
                    checksum,
                    global_seqno,
                    index.id,
                    index.config.cache.clone(),
                    index.config.descriptor_table.clone(),
                    false,
                    false,
                )
            })?;

        /*+*/let ghost o = version_lock.h@.last();/*-*/
        version_lock.upgrade_version_with_seqno(
            &index.config.path,
            |current/*+*/: &SuperVersion/*-*/| /*+*/-> (o2: Result<SuperVersion, Error>)
                ensures o2 is Ok && o2->Ok_0.version.v == with_run(current.version.v, created_tables@, Some(blob_files@)) && o2->Ok_0.rest == current.rest/*-*/
            {
                let mut copy = current.clone();
                copy.version =
                    copy.version
                        .with_new_l0_run(&created_tables, Some(&blob_files), None);
                Ok(copy)
            },
            global_seqno,
            &self.tree.index.config.visible_seqno,
        )?;
        /*+*/proof { assert(published(version_lock.h@.last(), o, created_tables@, Some(blob_files@), global_seqno, index.id)); }/*-*/

        if let Err(e) = version_lock.maintenance(&index.config.path, 0) {
        }

        Ok(())
//@ END
    }
}
//@ WRAPPER_END

}
fn main() {}
