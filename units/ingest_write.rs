//@ UNIT ingest_write
// The write side of bulk ingestion: `Ingestion::{write, write_tombstone, write_weak_tombstone, write_indirection}` (src/tree/ingest.rs)
// and `BlobIngestion::{write, write_tombstone, write_weak_tombstone}` (src/blob_tree/ingest.rs).  Every call appends exactly one entry for
// the key given - the value as given (or, in a key-value-separated tree, possibly a pointer to a blob that holds exactly the value, written
// under the same key and seqno), a tombstone of the kind asked for - with the ingestion's sequence number (0; shifted by the global seqno
// at publish: C14.4 / C14.9), and only for a key strictly greater than every key written before.  Obligations C14.11, C08.19
use vstd::prelude::*;
use vstd::std_specs::cmp::*;
verus! {
//@ INCLUDE prelude/key.rs
pub type SeqNo = u64;
#[verifier::external_body] pub struct Error { p: u8 }
#[derive(Copy, Clone, PartialEq, Eq, Structural)]
pub enum ValueType { Value, Tombstone, WeakTombstone, Indirection }
/// lsm_tree::Slice used as a value: an opaque byte string
#[verifier::external_body] pub struct UserValue { p: Vec<u8> }
impl View for UserValue { type V = Seq<u8>; uninterp spec fn view(&self) -> Seq<u8>; }
impl UserValue {
    #[verifier::external_body] pub fn empty() -> (r: Self) ensures r@.len() == 0 { unimplemented!() }
    #[verifier::external_body] pub fn len(&self) -> (r: usize) ensures r == self@.len() { unimplemented!() }
}
pub struct InternalKey { pub user_key: Key, pub seqno: SeqNo, pub value_type: ValueType }
pub struct InternalValue { pub key: InternalKey, pub value: UserValue }
impl InternalValue {
    /// InternalValue::from_components (length assertions: unit write_api)
    #[verifier::external_body]
    pub fn from_components(key: Key, value: UserValue, seqno: SeqNo, value_type: ValueType) -> (r: InternalValue)
        ensures r.key.user_key.rank() == key.rank(), r.key.seqno == seqno, r.key.value_type == value_type, r.value@ == value@
    { unimplemented!() }
}
#[derive(Copy, Clone, PartialEq, Eq, Structural)]
pub struct ValueHandle { pub blob_file_id: u64, pub offset: u64, pub on_disk_size: u32 }
#[derive(Copy, Clone, PartialEq, Eq, Structural)]
pub struct BlobIndirection { pub vhandle: ValueHandle, pub size: u32 }
pub uninterp spec fn ind_bytes(i: BlobIndirection) -> Seq<u8>;
impl BlobIndirection { #[verifier::external_body] pub fn encode_into_vec(&self) -> (r: UserValue) ensures r@ == ind_bytes(*self) { unimplemented!() } }
/// table::MultiWriter: the entries written and the blob links registered, in order; which table each went to (as in unit blob_links)
pub struct MultiWriter { pub ghost items: Seq<InternalValue>, pub ghost links: Seq<BlobIndirection>, pub ghost cur: int, pub ghost item_tables: Seq<int>, pub ghost link_tables: Seq<int> }
impl MultiWriter {
    #[verifier::external_body]
    pub fn write(&mut self, item: InternalValue) -> (r: Result<(), Error>)
        ensures final(self).links == old(self).links, r is Ok ==> final(self).items == old(self).items.push(item), r is Err ==> final(self).items == old(self).items,
            final(self).link_tables == old(self).link_tables, final(self).cur >= old(self).cur,
            r is Ok ==> final(self).item_tables == old(self).item_tables.push(final(self).cur), r is Err ==> final(self).item_tables == old(self).item_tables,
    { unimplemented!() }
    #[verifier::external_body]
    pub fn register_blob(&mut self, indirection: BlobIndirection)
        ensures final(self).items == old(self).items, final(self).links == old(self).links.push(indirection),
            final(self).cur == old(self).cur, final(self).item_tables == old(self).item_tables, final(self).link_tables == old(self).link_tables.push(old(self).cur),
    { unimplemented!() }
}
pub ghost struct Rec { pub key: int, pub seqno: SeqNo, pub value: Seq<u8> }
/// vlog BlobFileWriter (unit blob_multi_writer, C08.16): the handle returned names where the record went
pub struct BlobFileWriter { pub ghost recs: Seq<(ValueHandle, Rec)> }
impl BlobFileWriter {
    #[verifier::external_body]
    pub fn write(&mut self, key: &Key, seqno: SeqNo, value: &UserValue) -> (r: Result<ValueHandle, Error>)
        ensures r is Ok ==> final(self).recs == old(self).recs.push((r->Ok_0, Rec { key: key.rank(), seqno, value: value@ })), r is Err ==> final(self).recs == old(self).recs
    { unimplemented!() }
}
/// `assert!(c, ..)`: execution continues only if the condition holds (a panic returns nothing)
#[verifier::external_body] fn rt_check(c: bool) ensures c { assert!(c); }

/// exactly one entry (key, seqno, vt) was appended, holding `value`
pub open spec fn appended(w0: MultiWriter, w1: MultiWriter, key: int, seqno: SeqNo, vt: ValueType, value: Seq<u8>) -> bool {
    w1.items.len() == w0.items.len() + 1 && w1.items.drop_last() == w0.items
    && w1.items.last().key.user_key.rank() == key && w1.items.last().key.seqno == seqno && w1.items.last().key.value_type == vt && w1.items.last().value@ =~= value
}
/// the key order the ingestion enforces: strictly above the last key written
pub open spec fn above_last(last: Option<Key>, key: int) -> bool { last is Some ==> key > last->0.rank() }

//@ SUBST `crate :: Result < ( ) >` ==> `Result<(), Error>`
//@ SUBST `crate :: InternalValue ::` ==> `InternalValue::`
//@ SUBST `crate :: ValueType ::` ==> `ValueType::`
//@ SUBST `crate :: UserValue ::` ==> `UserValue::`
//@ SUBST `UserKey` ==> `Key`
//@ SUBST `assert ! ( key > * prev , "next key in ingestion must be greater than last key" ) ;` ==> `rt_check(key > *prev);`

/// tree::ingest::Ingestion: the fields the write functions touch (R8)
pub struct Ingestion { pub writer: MultiWriter, pub seqno: SeqNo, pub last_key: Option<Key> }
impl Ingestion {
//@ FROM src/tree/ingest.rs :: impl < 'a > Ingestion < 'a > :: fn write_indirection :: OBL C14.11, C08.19
//@ SUBST `use crate :: coding :: Encode ;` ==> ``
    fn write_indirection(
        &mut self,
        key: Key,
        indirection: BlobIndirection,
    ) -> /*+*/(r: /*-*/Result<(), Error>/*+*/)
        ensures final(self).seqno == old(self).seqno,
            above_last(old(self).last_key, key.rank()),
            r is Ok ==> appended(old(self).writer, final(self).writer, key.rank(), old(self).seqno, ValueType::Indirection, ind_bytes(indirection))
                && final(self).writer.links == old(self).writer.links.push(indirection)
                && final(self).last_key is Some && final(self).last_key->0.rank() == key.rank(),
            r is Err ==> final(self).writer.items == old(self).writer.items && final(self).last_key == old(self).last_key,/*-*/
    {
        if let Some(prev) = &self.last_key {
            rt_check(key > *prev);
        }

        let cloned_key = key.clone();
        self.writer.write(InternalValue::from_components(
            key,
            indirection.encode_into_vec(),
            self.seqno,
            ValueType::Indirection,
        ))?;
        /*+*/proof { assert(self.writer.items.drop_last() =~= old(self).writer.items); }/*-*/

        self.writer.register_blob(indirection);

        self.last_key = Some(cloned_key);

        Ok(())
    }
//@ END
//@ FROM src/tree/ingest.rs :: impl < 'a > Ingestion < 'a > :: fn write :: OBL C14.11
    fn write(&mut self, key: Key, value: UserValue) -> /*+*/(r: /*-*/Result<(), Error>/*+*/)
        ensures final(self).seqno == old(self).seqno,
            above_last(old(self).last_key, key.rank()),
            r is Ok ==> appended(old(self).writer, final(self).writer, key.rank(), old(self).seqno, ValueType::Value, value@)
                && final(self).writer.links == old(self).writer.links
                && final(self).last_key is Some && final(self).last_key->0.rank() == key.rank(),
            r is Err ==> final(self).writer.items == old(self).writer.items && final(self).last_key == old(self).last_key,/*-*/
    {
        if let Some(prev) = &self.last_key {
            rt_check(key > *prev);
        }

        self.writer.write(InternalValue::from_components(
            key.clone(),
            value,
            self.seqno,
            ValueType::Value,
        ))?;
        /*+*/proof { assert(self.writer.items.drop_last() =~= old(self).writer.items); }/*-*/

        self.last_key = Some(key);

        Ok(())
    }
//@ END
//@ FROM src/tree/ingest.rs :: impl < 'a > Ingestion < 'a > :: fn write_tombstone :: OBL C14.11
    fn write_tombstone(&mut self, key: Key) -> /*+*/(r: /*-*/Result<(), Error>/*+*/)
        ensures final(self).seqno == old(self).seqno,
            above_last(old(self).last_key, key.rank()),
            r is Ok ==> appended(old(self).writer, final(self).writer, key.rank(), old(self).seqno, ValueType::Tombstone, Seq::<u8>::empty())
                && final(self).writer.links == old(self).writer.links
                && final(self).last_key is Some && final(self).last_key->0.rank() == key.rank(),
            r is Err ==> final(self).writer.items == old(self).writer.items && final(self).last_key == old(self).last_key,/*-*/
    {
        if let Some(prev) = &self.last_key {
            rt_check(key > *prev);
        }

        self.writer.write(InternalValue::from_components(
            key.clone(),
            UserValue::empty(),
            self.seqno,
            ValueType::Tombstone,
        ))?;
        /*+*/proof { assert(self.writer.items.drop_last() =~= old(self).writer.items); }/*-*/

        self.last_key = Some(key);

        Ok(())
    }
//@ END
//@ FROM src/tree/ingest.rs :: impl < 'a > Ingestion < 'a > :: fn write_weak_tombstone :: OBL C14.11
    fn write_weak_tombstone(&mut self, key: Key) -> /*+*/(r: /*-*/Result<(), Error>/*+*/)
        ensures final(self).seqno == old(self).seqno,
            above_last(old(self).last_key, key.rank()),
            r is Ok ==> appended(old(self).writer, final(self).writer, key.rank(), old(self).seqno, ValueType::WeakTombstone, Seq::<u8>::empty())
                && final(self).writer.links == old(self).writer.links
                && final(self).last_key is Some && final(self).last_key->0.rank() == key.rank(),
            r is Err ==> final(self).writer.items == old(self).writer.items && final(self).last_key == old(self).last_key,/*-*/
    {
        if let Some(prev) = &self.last_key {
            rt_check(key > *prev);
        }

        self.writer.write(InternalValue::from_components(
            key.clone(),
            UserValue::empty(),
            self.seqno,
            ValueType::WeakTombstone,
        ))?;
        /*+*/proof { assert(self.writer.items.drop_last() =~= old(self).writer.items); }/*-*/

        self.last_key = Some(key);

        Ok(())
    }
//@ END
}

/// blob_tree::ingest::BlobIngestion: the fields the write functions touch (R8); `table` is the TableIngestion above
pub struct BlobIngestion { pub table: Ingestion, pub blob: BlobFileWriter, pub seqno: SeqNo, pub separation_threshold: u32, pub last_key: Option<Key> }
/// the table entry stands for (key, value): inline, or a pointer to a blob written under the same key and seqno holding exactly the
/// value (which of the two: the separation threshold, tuning - not pinned)
pub open spec fn stands_for(o: BlobIngestion, f: BlobIngestion, key: int, value: Seq<u8>) -> bool {
    let w0 = o.table.writer; let w1 = f.table.writer;
    (appended(w0, w1, key, o.table.seqno, ValueType::Value, value) && f.blob.recs == o.blob.recs && w1.links == w0.links)
    || (exists|h: ValueHandle| #[trigger] ptr_ok(o, f, key, value, h))
}
pub open spec fn ptr_ok(o: BlobIngestion, f: BlobIngestion, key: int, value: Seq<u8>, h: ValueHandle) -> bool {
    let ind = BlobIndirection { vhandle: h, size: value.len() as u32 };
    f.blob.recs == o.blob.recs.push((h, Rec { key, seqno: o.seqno, value }))
    && appended(o.table.writer, f.table.writer, key, o.table.seqno, ValueType::Indirection, ind_bytes(ind))
    && f.table.writer.links == o.table.writer.links.push(ind)
}
impl BlobIngestion {
//@ FROM src/blob_tree/ingest.rs :: impl < 'a > BlobIngestion < 'a > :: fn write :: OBL C08.19, C14.11
    fn write(&mut self, key: Key, value: UserValue) -> /*+*/(r: /*-*/Result<(), Error>/*+*/)
        requires old(self).seqno == old(self).table.seqno, value@.len() <= u32::MAX,
            // the two order guards agree (BlobIngestion mirrors the table ingestion's last key)
            old(self).last_key is Some ==> old(self).table.last_key is Some && old(self).table.last_key->0.rank() == old(self).last_key->0.rank(),
        ensures final(self).seqno == old(self).seqno, final(self).table.seqno == old(self).table.seqno,
            above_last(old(self).last_key, key.rank()),
            r is Ok ==> stands_for(*old(self), *final(self), key.rank(), value@)
                && final(self).last_key is Some && final(self).last_key->0.rank() == key.rank()
                && final(self).table.last_key is Some && final(self).table.last_key->0.rank() == key.rank(),
            r is Err ==> final(self).table.writer.items == old(self).table.writer.items && final(self).last_key == old(self).last_key,/*-*/
    {
        if let Some(prev) = &self.last_key {
            rt_check(key > *prev);
        }

        let value_size = value.len() as u32;

        if value_size >= self.separation_threshold {
            let vhandle = self.blob.write(&key, self.seqno, &value)?;

            let indirection = BlobIndirection {
                vhandle,
                size: value_size,
            };

            let cloned_key = key.clone();
            let res = self.table.write_indirection(key, indirection);
            if res.is_ok() {
                self.last_key = Some(cloned_key);
            }
            /*+*/proof { if res is Ok { assert(ptr_ok(*old(self), *self, key.rank(), value@, vhandle)); } }/*-*/
            res
        } else {
            let cloned_key = key.clone();
            let res = self.table.write(key, value);
            if res.is_ok() {
                self.last_key = Some(cloned_key);
            }
            res
        }
    }
//@ END
//@ FROM src/blob_tree/ingest.rs :: impl < 'a > BlobIngestion < 'a > :: fn write_tombstone :: OBL C14.11
    fn write_tombstone(&mut self, key: Key) -> /*+*/(r: /*-*/Result<(), Error>/*+*/)
        ensures final(self).seqno == old(self).seqno, final(self).table.seqno == old(self).table.seqno, final(self).blob == old(self).blob,
            above_last(old(self).last_key, key.rank()),
            r is Ok ==> appended(old(self).table.writer, final(self).table.writer, key.rank(), old(self).table.seqno, ValueType::Tombstone, Seq::<u8>::empty())
                && final(self).table.writer.links == old(self).table.writer.links
                && final(self).last_key is Some && final(self).last_key->0.rank() == key.rank(),
            r is Err ==> final(self).table.writer.items == old(self).table.writer.items && final(self).last_key == old(self).last_key,/*-*/
    {
        if let Some(prev) = &self.last_key {
            rt_check(key > *prev);
        }

        let cloned_key = key.clone();
        let res = self.table.write_tombstone(key);
        if res.is_ok() {
            self.last_key = Some(cloned_key);
        }
        res
    }
//@ END
//@ FROM src/blob_tree/ingest.rs :: impl < 'a > BlobIngestion < 'a > :: fn write_weak_tombstone :: OBL C14.11
    fn write_weak_tombstone(&mut self, key: Key) -> /*+*/(r: /*-*/Result<(), Error>/*+*/)
        ensures final(self).seqno == old(self).seqno, final(self).table.seqno == old(self).table.seqno, final(self).blob == old(self).blob,
            above_last(old(self).last_key, key.rank()),
            r is Ok ==> appended(old(self).table.writer, final(self).table.writer, key.rank(), old(self).table.seqno, ValueType::WeakTombstone, Seq::<u8>::empty())
                && final(self).table.writer.links == old(self).table.writer.links
                && final(self).last_key is Some && final(self).last_key->0.rank() == key.rank(),
            r is Err ==> final(self).table.writer.items == old(self).table.writer.items && final(self).last_key == old(self).last_key,/*-*/
    {
        if let Some(prev) = &self.last_key {
            rt_check(key > *prev);
        }

        let cloned_key = key.clone();
        let res = self.table.write_weak_tombstone(key);
        if res.is_ok() {
            self.last_key = Some(cloned_key);
        }
        res
    }
//@ END
}
}
fn main() {}
