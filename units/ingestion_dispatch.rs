//@ UNIT ingestion_dispatch
// `AnyIngestion` (src/ingestion.rs): the unified ingestion handle over a standard or a key-value separated tree hands every operation
// to the same operation of the ingestion it holds, with the key and value it was given (write -> write, write_tombstone ->
// write_tombstone, write_weak_tombstone -> write_weak_tombstone, finish -> finish); what those do is C14.11 / C14.4 / C14.9.
// Obligation C14.12
use vstd::prelude::*;
verus! {
#[derive(Copy, Clone, PartialEq, Eq, Structural)] struct Error { e: u8 }
/// UserKey / UserValue (`key.into()`: the conversion keeps the bytes): rank of the key bytes, identity of the value bytes
#[derive(Copy, Clone, PartialEq, Eq, Structural)] struct UserKey { rank: int }
#[derive(Copy, Clone, PartialEq, Eq, Structural)] struct UserValue { v: int }
impl UserKey { fn into(self) -> (r: UserKey) ensures r == self { self } }
impl UserValue { fn into(self) -> (r: UserValue) ensures r == self { self } }

// ---------------- prelude (TRUSTED): the two ingestions as state machines with uninterpreted transitions per operation ----------------
#[derive(PartialEq, Eq, Structural, Clone, Copy)] enum Kind { Standard, Blob }
#[derive(PartialEq, Eq, Structural, Clone, Copy)] enum Op { Write(UserKey, UserValue), Tombstone(UserKey), WeakTombstone(UserKey) }
uninterp spec fn step(k: Kind, st: int, op: Op) -> (Result<(), Error>, int);
uninterp spec fn finish_of(k: Kind, st: int) -> Result<(), Error>;
macro_rules! ingestion_variant {
    ($name:ident, $kind:expr) => {
        verus! {
        struct $name { ghost st: int }
        impl $name {
            #[verifier::external_body] fn write(&mut self, key: UserKey, value: UserValue) -> (r: Result<(), Error>) ensures (r, final(self).st) == step($kind, old(self).st, Op::Write(key, value)) { unimplemented!() }
            #[verifier::external_body] fn write_tombstone(&mut self, key: UserKey) -> (r: Result<(), Error>) ensures (r, final(self).st) == step($kind, old(self).st, Op::Tombstone(key)) { unimplemented!() }
            #[verifier::external_body] fn write_weak_tombstone(&mut self, key: UserKey) -> (r: Result<(), Error>) ensures (r, final(self).st) == step($kind, old(self).st, Op::WeakTombstone(key)) { unimplemented!() }
            #[verifier::external_body] fn finish(self) -> (r: Result<(), Error>) ensures r == finish_of($kind, self.st) { unimplemented!() }
        }
        }
    };
}
ingestion_variant!(Ingestion, Kind::Standard);
ingestion_variant!(BlobIngestion, Kind::Blob);

//@ FROM src/ingestion.rs :: - :: enum AnyIngestion
//@ SUBST `AnyIngestion < 'a >` ==> `AnyIngestion`
//@ SUBST `Ingestion < 'a >` ==> `Ingestion`
//@ SUBST `BlobIngestion < 'a >` ==> `BlobIngestion`
enum AnyIngestion {
    /// Ingestion for a standard LSM-tree
    Standard(Ingestion),

    /// Ingestion for a [`BlobTree`] with KV separation
    Blob(BlobIngestion),
}
//@ END
impl AnyIngestion {
    spec fn kind(&self) -> Kind { match self { Self::Standard(_) => Kind::Standard, Self::Blob(_) => Kind::Blob } }
    spec fn st(&self) -> int { match self { Self::Standard(i) => i.st, Self::Blob(b) => b.st } }
}
//@ SUBST `crate :: Result < ( ) >` ==> `Result<(), Error>`
impl AnyIngestion {
//@ FROM src/ingestion.rs :: impl AnyIngestion < '_ > :: fn write :: OBL C14.12
//@ SUBST `fn write < K : Into < UserKey > , V : Into < UserValue > > ( & mut self , key : K , value : V , )` ==> `fn write(&mut self, key: UserKey, value: UserValue,)`
// R6': the generic key / value parameters are monomorphised to UserKey / UserValue (`into()` keeps the bytes)
    fn write(
        &mut self,
        key: UserKey,
        value: UserValue,
    ) -> /*+*/(r:/*-*/ Result<(), Error>/*+*/)
        ensures final(self).kind() == old(self).kind(), (r, final(self).st()) == step(old(self).kind(), old(self).st(), Op::Write(key, value))/*-*/ {
        match self {
            Self::Standard(i) => i.write(key.into(), value.into()),
            Self::Blob(b) => b.write(key.into(), value.into()),
        }
    }
//@ END
//@ FROM src/ingestion.rs :: impl AnyIngestion < '_ > :: fn write_tombstone :: OBL C14.12
//@ SUBST `fn write_tombstone < K : Into < UserKey > > ( & mut self , key : K )` ==> `fn write_tombstone(&mut self, key: UserKey)`
    fn write_tombstone(&mut self, key: UserKey) -> /*+*/(r:/*-*/ Result<(), Error>/*+*/)
        ensures final(self).kind() == old(self).kind(), (r, final(self).st()) == step(old(self).kind(), old(self).st(), Op::Tombstone(key))/*-*/ {
        match self {
            Self::Standard(i) => i.write_tombstone(key.into()),
            Self::Blob(b) => b.write_tombstone(key.into()),
        }
    }
//@ END
//@ FROM src/ingestion.rs :: impl AnyIngestion < '_ > :: fn write_weak_tombstone :: OBL C14.12
//@ SUBST `fn write_weak_tombstone < K : Into < UserKey > > ( & mut self , key : K )` ==> `fn write_weak_tombstone(&mut self, key: UserKey)`
    fn write_weak_tombstone(&mut self, key: UserKey) -> /*+*/(r:/*-*/ Result<(), Error>/*+*/)
        ensures final(self).kind() == old(self).kind(), (r, final(self).st()) == step(old(self).kind(), old(self).st(), Op::WeakTombstone(key))/*-*/ {
        match self {
            Self::Standard(i) => i.write_weak_tombstone(key.into()),
            Self::Blob(b) => b.write_weak_tombstone(key.into()),
        }
    }
//@ END
//@ FROM src/ingestion.rs :: impl AnyIngestion < '_ > :: fn finish :: OBL C14.12
    fn finish(self) -> /*+*/(r:/*-*/ Result<(), Error>/*+*/) ensures r == finish_of(self.kind(), self.st())/*-*/ {
        match self {
            Self::Standard(i) => i.finish(),
            Self::Blob(b) => b.finish(),
        }
    }
//@ END
}
}
fn main() {}
