//@ UNIT kv_separation
// Key-value separation at flush (src/blob_tree/mod.rs `BlobTree::flush_to_tables`, the loop over the flushed stream): every entry of
// the stream is written to the index table exactly once, in order, under its own key and seqno - a tombstone as a tombstone with an
// empty value; a value either inline, or (large values) as a pointer to a blob that was written under the same key and seqno and
// holds exactly the value's bytes, with the value's length as the pointer's size; every pointer written is linked to its table.
// Obligations C08.18, C12.27
use vstd::prelude::*;
use vstd::std_specs::iter::*;
verus! {
global size_of usize == 8;
type SeqNo = u64; type BlobFileId = u64;

//@ INCLUDE prelude/seqiter.rs

// ---------------- prelude (TRUSTED) ----------------
#[verifier::external_body] struct Error { p: u8 }
#[verifier::external_body] pub struct Slice { p: u8 }
impl View for Slice { type V = Seq<u8>; uninterp spec fn view(&self) -> Seq<u8>; }
impl Slice {
    #[verifier::external_body] fn empty() -> (r: Slice) ensures r@ == Seq::<u8>::empty() { unimplemented!() }
    #[verifier::external_body] fn len(&self) -> (r: usize) ensures r == self@.len() { unimplemented!() }
    #[verifier::external_body] fn clone(&self) -> (r: Slice) ensures r@ == self@ { unimplemented!() }
}
type UserKey = Slice; type UserValue = Slice;
#[derive(Copy, Clone, PartialEq, Eq, Structural)]
enum ValueType { Value, Tombstone, WeakTombstone, Indirection = 4 }
struct InternalKey { user_key: UserKey, seqno: SeqNo, value_type: ValueType }
impl InternalKey { #[verifier::external_body] fn clone(&self) -> (r: Self) ensures r.user_key@ == self.user_key@, r.seqno == self.seqno, r.value_type == self.value_type { unimplemented!() } }
struct InternalValue { key: InternalKey, value: UserValue }
impl InternalValue {
    fn is_tombstone(&self) -> (r: bool) ensures r == (self.key.value_type == ValueType::Tombstone || self.key.value_type == ValueType::WeakTombstone) { self.key.value_type == ValueType::Tombstone || self.key.value_type == ValueType::WeakTombstone }
    /// InternalValue::new (length assertions: unit write_api)
    #[verifier::external_body] fn new(key: InternalKey, value: UserValue) -> (r: Self) ensures r.key == key, r.value@ == value@ { unimplemented!() }
}
#[derive(Copy, Clone, PartialEq, Eq, Structural)]
struct ValueHandle { blob_file_id: BlobFileId, offset: u64, on_disk_size: u32 }
#[derive(Copy, Clone, PartialEq, Eq, Structural)]
struct BlobIndirection { vhandle: ValueHandle, size: u32 }
uninterp spec fn ind_bytes(i: BlobIndirection) -> Seq<u8>;
impl BlobIndirection { #[verifier::external_body] fn encode_into_vec(&self) -> (r: UserValue) ensures r@ == ind_bytes(*self) { unimplemented!() } }
/// table::MultiWriter of the flush: the entries written and the blob links registered, in order; which output table is current, which
/// table each written entry went to and which table each link was attached to (same model as unit blob_links)
struct TableWriter { ghost items: Seq<InternalValue>, ghost links: Seq<BlobIndirection>, ghost cur: int, ghost item_tables: Seq<int>, ghost link_tables: Seq<int> }
impl TableWriter {
    /// write may first rotate to a fresh table (src/table/multi_writer.rs: write; the links registered so far stay with the finished one: unit table_rotate)
    #[verifier::external_body]
    fn write(&mut self, item: InternalValue) -> (r: Result<(), Error>)
        ensures final(self).links == old(self).links, r is Ok ==> final(self).items == old(self).items.push(item), r is Err ==> final(self).items == old(self).items,
            final(self).link_tables == old(self).link_tables, final(self).cur >= old(self).cur,
            r is Ok ==> final(self).item_tables == old(self).item_tables.push(final(self).cur), r is Err ==> final(self).item_tables == old(self).item_tables,
    { unimplemented!() }
    #[verifier::external_body]
    fn register_blob(&mut self, indirection: BlobIndirection)
        ensures final(self).items == old(self).items, final(self).links == old(self).links.push(indirection),
            final(self).cur == old(self).cur, final(self).item_tables == old(self).item_tables, final(self).link_tables == old(self).link_tables.push(old(self).cur),
    { unimplemented!() }
}
/// the tables the pointer entries among `items` went to, in order
spec fn ptr_tables(items: Seq<InternalValue>, tabs: Seq<int>) -> Seq<int>
    decreases items.len()
{
    if items.len() == 0 || tabs.len() != items.len() { Seq::empty() } else {
        let p = ptr_tables(items.drop_last(), tabs.drop_last());
        if items.last().key.value_type == ValueType::Indirection { p.push(tabs.last()) } else { p }
    }
}
/// every pointer entry written has exactly one link, attached to the table the entry went to (so each finished table's
/// linked_blob_files describe exactly the pointers it holds)
spec fn no_ptrs(s: Seq<Result<InternalValue, Error>>) -> bool { forall|i: int| 0 <= i < s.len() && (#[trigger] s[i]) is Ok ==> s[i]->Ok_0.key.value_type != ValueType::Indirection }
proof fn lemma_links_step(w0: TableWriter, w1: TableWriter, x: InternalValue)
    requires links_follow_items(w0), w1.items == w0.items.push(x), w1.item_tables == w0.item_tables.push(w1.cur),
        x.key.value_type == ValueType::Indirection ==> w1.link_tables == w0.link_tables.push(w1.cur),
        x.key.value_type != ValueType::Indirection ==> w1.link_tables == w0.link_tables,
    ensures links_follow_items(w1)
{
    assert(w1.items.drop_last() =~= w0.items);
    assert(w1.item_tables.drop_last() =~= w0.item_tables);
}
spec fn links_follow_items(w: TableWriter) -> bool { w.item_tables.len() == w.items.len() && ptr_tables(w.items, w.item_tables) == w.link_tables }
pub ghost struct Rec { pub key: Seq<u8>, pub seqno: SeqNo, pub value: Seq<u8> }
/// vlog BlobFileWriter (unit blob_multi_writer, C08.16): the handle returned names where the record went
struct BlobFileWriter { ghost recs: Seq<(ValueHandle, Rec)> }
impl BlobFileWriter {
    #[verifier::external_body]
    fn write(&mut self, key: &UserKey, seqno: SeqNo, value: &UserValue) -> (r: Result<ValueHandle, Error>)
        ensures r is Ok ==> final(self).recs == old(self).recs.push((r->Ok_0, Rec { key: key@, seqno, value: value@ })), r is Err ==> final(self).recs == old(self).recs
    { unimplemented!() }
}

/// the table entry `out` stands for the stream entry `inp` (given the blobs written)
spec fn represents(out: InternalValue, inp: InternalValue, recs: Seq<(ValueHandle, Rec)>) -> bool {
    out.key.user_key@ == inp.key.user_key@ && out.key.seqno == inp.key.seqno && (
        if inp.key.value_type == ValueType::Tombstone || inp.key.value_type == ValueType::WeakTombstone {
            out.key.value_type == inp.key.value_type && out.value@.len() == 0
        } else {
            // inline ...
            (out.key.value_type == inp.key.value_type && out.value@ == inp.value@)
            // ... or a pointer to a blob written under the same key and seqno that holds exactly the value (which of the two: the
            // separation threshold, tuning - not pinned)
            || (out.key.value_type == ValueType::Indirection && exists|k: int| #![trigger recs[k]] 0 <= k < recs.len()
                    && recs[k].1 == (Rec { key: inp.key.user_key@, seqno: inp.key.seqno, value: inp.value@ })
                    && out.value@ == ind_bytes(BlobIndirection { vhandle: recs[k].0, size: inp.value@.len() as u32 }))
        })
}
proof fn lemma_repr_mono(out: InternalValue, inp: InternalValue, a: Seq<(ValueHandle, Rec)>, b: Seq<(ValueHandle, Rec)>)
    requires represents(out, inp, a), a.len() <= b.len(), forall|k: int| 0 <= k < a.len() ==> a[k] == b[k]
    ensures represents(out, inp, b)
{
    if out.key.value_type == ValueType::Indirection && !(inp.key.value_type == ValueType::Tombstone || inp.key.value_type == ValueType::WeakTombstone) && !(out.key.value_type == inp.key.value_type && out.value@ == inp.value@) {
        let k = choose|k: int| #![trigger a[k]] 0 <= k < a.len() && a[k].1 == (Rec { key: inp.key.user_key@, seqno: inp.key.seqno, value: inp.value@ }) && out.value@ == ind_bytes(BlobIndirection { vhandle: a[k].0, size: inp.value@.len() as u32 });
        assert(b[k] == a[k]);
    }
}

//@ WRAPPER_BEGIN
/// wrapper (generated) around the loop of BlobTree::flush_to_tables over the flushed stream
fn separate(stream: SeqIter<Result<InternalValue, Error>>, table_writer: &mut TableWriter, blob_writer: &mut BlobFileWriter, separation_threshold: u32) -> (r: Result<(), Error>)
    requires forall|i: int| 0 <= i < stream.rest().len() && (#[trigger] stream.rest()[i]) is Ok ==> stream.rest()[i]->Ok_0.value@.len() <= u32::MAX
    ensures r is Ok ==> ({
        let n = stream.rest().len() as int; let t0 = old(table_writer).items; let t1 = final(table_writer).items;
        // every stream entry is an Ok entry and was written exactly once, in order
        &&& t1.len() == t0.len() + n && t1.subrange(0, t0.len() as int) == t0
        &&& forall|i: int| 0 <= i < n ==> (#[trigger] stream.rest()[i]) is Ok && represents(t1[t0.len() + i], stream.rest()[i]->Ok_0, final(blob_writer).recs)
        // nothing written to the blob side is lost
        &&& old(blob_writer).recs.len() <= final(blob_writer).recs.len() && forall|k: int| 0 <= k < old(blob_writer).recs.len() ==> (#[trigger] final(blob_writer).recs[k]) == old(blob_writer).recs[k]
    }),
        // C09.11: each blob link is registered with the table that holds its pointer entry, whenever the table writer rotates
        // (memtables never hold pointer entries: the flushed stream has none)
        r is Ok && links_follow_items(*old(table_writer)) && no_ptrs(stream.rest()) ==> links_follow_items(*final(table_writer)),   // @OBL C09.11
{
    let mut stream = stream;
//@ FROM src/blob_tree/mod.rs :: impl AbstractTree for BlobTree :: fn flush_to_tables :: STMTS `for item in stream {` .. `for item in stream {` :: OBL C08.18, C12.27, C09.11
//@ SUBST `for item in stream {` ==> `loop { let Some(item) = stream.next() else { break; };`
//@ SUBST `UserValue :: empty ( )` ==> `Slice::empty()`
//@ SUBST `crate :: ValueType ::` ==> `ValueType::`
    /*+*/let ghost s0 = stream.rest(); let ghost t0 = table_writer.items; let ghost b0 = blob_writer.recs; let ghost mut c: int = 0;
    proof { assert(s0.skip(0) =~= s0); assert(t0.subrange(0, t0.len() as int) =~= t0); }/*-*/
    loop
        /*+*/invariant 0 <= c <= s0.len(), stream.rest() == s0.skip(c),
            forall|i: int| 0 <= i < s0.len() && (#[trigger] s0[i]) is Ok ==> s0[i]->Ok_0.value@.len() <= u32::MAX,
            table_writer.items.len() == t0.len() + c, table_writer.items.subrange(0, t0.len() as int) == t0,
            forall|i: int| 0 <= i < c ==> (#[trigger] s0[i]) is Ok && represents(table_writer.items[t0.len() + i], s0[i]->Ok_0, blob_writer.recs),
            b0.len() <= blob_writer.recs.len(), forall|k: int| 0 <= k < b0.len() ==> (#[trigger] blob_writer.recs[k]) == b0[k],
            links_follow_items(*old(table_writer)) && no_ptrs(s0) ==> links_follow_items(*table_writer),
        ensures c == s0.len(),
        decreases s0.len() - c/*-*/
    { let Some(item) = stream.next() else { break; };
        /*+*/proof { assert(s0.skip(c)[0] == s0[c]); assert(s0.skip(c).skip(1) =~= s0.skip(c + 1)); }
        let ghost ti = table_writer.items; let ghost bi = blob_writer.recs; let ghost wi = *table_writer;/*-*/
        let item = item?;
        /*+*/let ghost inp = item;/*-*/

        if item.is_tombstone() {
            // NOTE: Still need to add tombstone to index tree
            // But no blob to blob writer
            table_writer.write(InternalValue::new(item.key, Slice::empty()))?;
            /*+*/proof { assert(table_writer.items.drop_last() =~= ti); lemma_step(t0, ti, table_writer.items, s0, c, bi, blob_writer.recs);
                if links_follow_items(*old(table_writer)) && no_ptrs(s0) { lemma_links_step(wi, *table_writer, table_writer.items.last()); } c = c + 1; }/*-*/
            continue;
        }

        let value = item.value;

        let value_size = value.len() as u32;

        if value_size >= separation_threshold {
            let vhandle = blob_writer.write(&item.key.user_key, item.key.seqno, &value)?;

            let indirection = BlobIndirection {
                vhandle,
                size: value_size,
            };

            table_writer.write({
                let mut vptr =
                    InternalValue::new(item.key.clone(), indirection.encode_into_vec());
                vptr.key.value_type = ValueType::Indirection;
                vptr
            })?;

            table_writer.register_blob(indirection);
            /*+*/proof { assert(blob_writer.recs[bi.len() as int].1 == (Rec { key: inp.key.user_key@, seqno: inp.key.seqno, value: inp.value@ })); }/*-*/
        } else {
            table_writer.write(InternalValue::new(item.key, value))?;
        }
        /*+*/proof { assert(table_writer.items.drop_last() =~= ti); lemma_step(t0, ti, table_writer.items, s0, c, bi, blob_writer.recs);
            if links_follow_items(*old(table_writer)) && no_ptrs(s0) { lemma_links_step(wi, *table_writer, table_writer.items.last()); } c = c + 1; }/*-*/
    }
//@ END
    Ok(())
}
//@ WRAPPER_END
//@ WRAPPER_BEGIN
/// wrapper (generated) around the loop of Tree::flush_to_tables (the standard tree writes the flushed stream as it is)
fn write_all(stream: SeqIter<Result<InternalValue, Error>>, table_writer: &mut TableWriter) -> (r: Result<(), Error>)
    ensures r is Ok ==> ({
        let n = stream.rest().len() as int; let t0 = old(table_writer).items; let t1 = final(table_writer).items;
        // every stream entry is an Ok entry and was written exactly once, unchanged, in order; a stream error aborts the flush
        &&& t1.len() == t0.len() + n && t1.subrange(0, t0.len() as int) == t0
        &&& forall|i: int| 0 <= i < n ==> (#[trigger] stream.rest()[i]) is Ok && t1[t0.len() + i] == stream.rest()[i]->Ok_0
    }),
{
    let mut stream = stream;
//@ FROM src/tree/mod.rs :: impl AbstractTree for Tree :: fn flush_to_tables :: STMTS `for item in stream {` .. `for item in stream {` :: OBL C12.27, C01.31
//@ SUBST `for item in stream {` ==> `loop { let Some(item) = stream.next() else { break; };`
    /*+*/let ghost s0 = stream.rest(); let ghost t0 = table_writer.items; let ghost mut c: int = 0;
    proof { assert(s0.skip(0) =~= s0); assert(t0.subrange(0, t0.len() as int) =~= t0); }/*-*/
    loop
        /*+*/invariant 0 <= c <= s0.len(), stream.rest() == s0.skip(c),
            table_writer.items.len() == t0.len() + c, table_writer.items.subrange(0, t0.len() as int) == t0,
            forall|i: int| 0 <= i < c ==> (#[trigger] s0[i]) is Ok && table_writer.items[t0.len() + i] == s0[i]->Ok_0,
        ensures c == s0.len(),
        decreases s0.len() - c/*-*/
    { let Some(item) = stream.next() else { break; };
        /*+*/proof { assert(s0.skip(c)[0] == s0[c]); assert(s0.skip(c).skip(1) =~= s0.skip(c + 1)); }
        let ghost ti = table_writer.items;/*-*/
        table_writer.write(item?)?;
        /*+*/proof {
            assert(table_writer.items.subrange(0, t0.len() as int) =~= ti.subrange(0, t0.len() as int));
            assert forall|i: int| 0 <= i < c implies (#[trigger] s0[i]) is Ok && table_writer.items[t0.len() + i] == s0[i]->Ok_0 by { assert(table_writer.items[t0.len() + i] == ti[t0.len() + i]); }
            c = c + 1;
        }/*-*/
    }
//@ END
    Ok(())
}
//@ WRAPPER_END
/// the compaction flavour (StandardCompaction / RelocatingCompaction, units blob_links, relocate): what was handed to it, in order
struct Compactor { ghost got: Seq<InternalValue> }
impl Compactor {
    #[verifier::external_body]
    fn write(&mut self, item: InternalValue) -> (r: Result<(), Error>) ensures r is Ok ==> final(self).got == old(self).got.push(item), r is Err ==> final(self).got == old(self).got { unimplemented!() }
}
/// StopSignal: set only by `Drop for TreeInner` (src/tree/inner.rs), i.e. when no handle to the tree is left
struct StopSignal { ghost stopped: bool }
impl StopSignal { #[verifier::external_body] fn is_stopped(&self) -> (r: bool) ensures r == self.stopped { unimplemented!() } }
struct Options { stop_signal: StopSignal }
/// `merge_iter.enumerate()`
struct Enumerated { ghost rest: Seq<Result<InternalValue, Error>>, ghost idx: usize }
impl Enumerated {
    #[verifier::external_body]
    fn next(&mut self) -> (r: Option<(usize, Result<InternalValue, Error>)>)
        ensures old(self).rest.len() == 0 ==> r is None && *final(self) == *old(self),
            old(self).rest.len() > 0 ==> r == Some((old(self).idx, old(self).rest[0])) && final(self).rest == old(self).rest.skip(1) && final(self).idx == old(self).idx + 1
    { unimplemented!() }
}
#[verifier::external_body]
fn enumerate(it: SeqIter<Result<InternalValue, Error>>) -> (r: Enumerated) ensures r.rest == it.rest(), r.idx == 0 { unimplemented!() }

//@ WRAPPER_BEGIN
/// wrapper (generated) around the body of the closure merge_tables hands to hidden_guard: the merge loop
fn merge_loop(merge_iter: SeqIter<Result<InternalValue, Error>>, compactor: &mut Compactor, opts: &Options) -> (r: Result<(), Error>)
    requires merge_iter.rest().len() < usize::MAX
    ensures
        // unless the tree is being dropped (stop signal), a merge that reports success has handed EVERY entry of the merge stream to
        // the compactor, unchanged and in order; a stream or write error aborts the merge
        r is Ok && !opts.stop_signal.stopped ==> ({
            let n = merge_iter.rest().len() as int; let g0 = old(compactor).got; let g1 = final(compactor).got;
            g1.len() == g0.len() + n && g1.subrange(0, g0.len() as int) == g0
            && forall|i: int| 0 <= i < n ==> (#[trigger] merge_iter.rest()[i]) is Ok && g1[g0.len() + i] == merge_iter.rest()[i]->Ok_0 }),
{
//@ FROM src/compaction/worker.rs :: - :: fn merge_tables :: CLOSURE 1 `|| {` :: STMTS `for ( idx , item ) in` .. `Ok ( ( ) )` :: OBL C09.9, C12.28
//@ SUBST `for ( idx , item ) in merge_iter . enumerate ( ) {` ==> `let mut iter__ = enumerate(merge_iter); loop { let Some((idx, item)) = iter__.next() else { break; };`
    /*+*/let ghost s0 = merge_iter.rest(); let ghost g0 = compactor.got; let ghost mut c: int = 0;
    proof { assert(s0.skip(0) =~= s0); assert(g0.subrange(0, g0.len() as int) =~= g0); }/*-*/
    let mut iter__ = enumerate(merge_iter); loop
        /*+*/invariant 0 <= c <= s0.len(), iter__.rest == s0.skip(c), iter__.idx == c, s0.len() < usize::MAX,
            compactor.got.len() == g0.len() + c, compactor.got.subrange(0, g0.len() as int) == g0,
            forall|i: int| 0 <= i < c ==> (#[trigger] s0[i]) is Ok && compactor.got[g0.len() + i] == s0[i]->Ok_0,
        ensures c == s0.len(),
        decreases s0.len() - c/*-*/
    { let Some((idx, item)) = iter__.next() else { break; };
        /*+*/proof { assert(s0.skip(c)[0] == s0[c]); assert(s0.skip(c).skip(1) =~= s0.skip(c + 1)); }
        let ghost gi = compactor.got;/*-*/
        let item = item?;

        compactor.write(item)?;
        /*+*/proof {
            assert(compactor.got.subrange(0, g0.len() as int) =~= gi.subrange(0, g0.len() as int));
            assert forall|i: int| 0 <= i < c implies (#[trigger] s0[i]) is Ok && compactor.got[g0.len() + i] == s0[i]->Ok_0 by { assert(compactor.got[g0.len() + i] == gi[g0.len() + i]); }
            c = c + 1;
        }/*-*/

        if idx % 1_000_000 == 0 && opts.stop_signal.is_stopped() {
            return Ok(());
        }
    }

    Ok(())
//@ END
}
//@ WRAPPER_END
/// one more entry written: what was established for the earlier ones still holds
proof fn lemma_step(t0: Seq<InternalValue>, ti: Seq<InternalValue>, tn: Seq<InternalValue>, s0: Seq<Result<InternalValue, Error>>, c: int, bi: Seq<(ValueHandle, Rec)>, bn: Seq<(ValueHandle, Rec)>)
    requires 0 <= c < s0.len(), ti.len() == t0.len() + c, ti.subrange(0, t0.len() as int) == t0, tn.len() == ti.len() + 1, tn.drop_last() == ti,
        forall|i: int| 0 <= i < c ==> (#[trigger] s0[i]) is Ok && represents(ti[t0.len() + i], s0[i]->Ok_0, bi),
        bi.len() <= bn.len(), forall|k: int| 0 <= k < bi.len() ==> bi[k] == bn[k],
    ensures tn.subrange(0, t0.len() as int) == t0,
        forall|i: int| 0 <= i < c ==> (#[trigger] s0[i]) is Ok && represents(tn[t0.len() + i], s0[i]->Ok_0, bn),
{
    assert(tn.subrange(0, t0.len() as int) =~= ti.subrange(0, t0.len() as int));
    assert forall|i: int| 0 <= i < c implies (#[trigger] s0[i]) is Ok && represents(tn[t0.len() + i], s0[i]->Ok_0, bn) by {
        assert(tn[t0.len() + i] == ti[t0.len() + i]);
        lemma_repr_mono(ti[t0.len() + i], s0[i]->Ok_0, bi, bn);
    }
}
}
fn main() {}
