//@ UNIT leveled_pick
// leveled::pick_minimal_compaction (src/compaction/leveled/mod.rs, whole function with its five closures) and the statements of
// leveled::Strategy::choose that turn its answer into a Choice.  What C01 / C07 need from it: a merge of level i into level i + 1
// contains, for every table it takes from level i, EVERY table of level i + 1 that shares a key with it - otherwise a tombstone
// evicted at the last level would uncover an older version in a table that was left out - and the destination is the adjacent level.
// Obligations C01.40, C07.16
use vstd::prelude::*;
verus! {
global size_of usize == 8;

type TableId = u64;
/// a table: id, file size and key range (ranks of min / max key in the byte-string order)
struct Table { id: u64, size: u64, ghost lo: int, ghost hi: int }
impl Table {
    fn id(&self) -> (r: u64) ensures r == self.id { self.id }
    fn file_size(&self) -> (r: u64) ensures r == self.size { self.size }
}
struct KeyRange { ghost lo: int, ghost hi: int }
struct Run(Vec<Table>);
/// a run is never empty, every table's range is well formed, tables are sorted and pairwise disjoint (C07.1)
spec fn run_wf(s: Seq<Table>) -> bool {
    s.len() > 0 && (forall|i: int| 0 <= i < s.len() ==> (#[trigger] s[i]).lo <= s[i].hi) && (forall|i: int, j: int| 0 <= i < j < s.len() ==> (#[trigger] s[i]).hi < (#[trigger] s[j]).lo)
}
spec fn piece_at(s: Seq<Table>, r: Seq<Table>, a: int) -> bool { 0 <= a && a + r.len() <= s.len() && r == s.subrange(a, a + r.len()) }
spec fn is_window(s: Seq<Table>, w: Seq<Table>) -> bool { w.len() > 0 && exists|a: int| #[trigger] piece_at(s, w, a) }
spec fn ids_of(w: Seq<Table>) -> Set<u64> { w.map_values(|t: Table| t.id).to_set() }
spec fn shares_key(t: Table, u: Table) -> bool { t.lo <= u.hi && u.lo <= t.hi }

/// table::util::aggregate_run_key_range: first min .. last max (contract proved in unit run_select, C01.30)
#[verifier::external_body]
fn aggregate_run_key_range(tables: &[Table]) -> (r: KeyRange) requires tables@.len() > 0 ensures r.lo == tables@[0].lo, r.hi == tables@.last().hi { unimplemented!() }
impl Run {
    /// contract proved in unit run_select (C01.30), restated for ranks
    #[verifier::external_body]
    fn get_overlapping<'a>(&'a self, key_range: &KeyRange) -> (r: &'a [Table])
        requires run_wf(self.0@), key_range.lo <= key_range.hi
        ensures exists|lo: int| #[trigger] piece_at(self.0@, r@, lo) && forall|i: int| 0 <= i < self.0@.len() && (#[trigger] self.0@[i]).lo <= key_range.hi && key_range.lo <= self.0@[i].hi ==> lo <= i < lo + r@.len()
    { unimplemented!() }
    /// contract proved in unit run_select (C07.12)
    #[verifier::external_body]
    fn get_contained<'a>(&'a self, key_range: &KeyRange) -> (r: &'a [Table])
        requires run_wf(self.0@), key_range.lo <= key_range.hi
        ensures forall|i: int| 0 <= i < r@.len() ==> key_range.lo <= (#[trigger] r@[i]).lo && r@[i].hi <= key_range.hi, exists|a: int| #[trigger] piece_at(self.0@, r@, a)
    { unimplemented!() }
}
#[verifier::external_body] struct HiddenSet { p: u8 }
impl HiddenSet {
    uninterp spec fn view(&self) -> Set<u64>;
    /// `hidden_set.is_blocked(w.iter().map(Table::id))` (src/compaction/state/hidden_set.rs: any id hidden)
    #[verifier::external_body]
    fn is_blocked_tables(&self, w: &[Table]) -> (r: bool) ensures r == exists|i: int| 0 <= i < w@.len() && self.view().contains((#[trigger] w@[i]).id) { unimplemented!() }
}
#[verifier::external_body] struct IdSet { p: u8 }
impl IdSet {
    uninterp spec fn view(&self) -> Set<u64>;
    /// `ids.extend(w.iter().map(Table::id))`
    #[verifier::external_body]
    fn extend_ids(&mut self, w: &[Table]) ensures final(self).view() == old(self).view().union(ids_of(w@)) { unimplemented!() }
}
/// `w.iter().map(Table::id).collect()`
#[verifier::external_body]
fn collect_ids(w: &[Table]) -> (r: IdSet) ensures r.view() == ids_of(w@) { unimplemented!() }
/// `w.iter().map(Table::file_size).sum::<u64>()`; TRUSTED: the file sizes of one run add up to less than 2^63 bytes
#[verifier::external_body]
fn sum_sizes(w: &[Table]) -> (r: u64) ensures r < 0x8000_0000_0000_0000 { unimplemented!() }
#[verifier::external_body]
fn slice_is_empty(w: &[Table]) -> (r: bool) ensures r == (w@.len() == 0) { unimplemented!() }
/// `(a as f32) / (b as f32)` - only used for ranking
#[verifier::external_body] struct Waf { p: u8 }
#[verifier::external_body]
fn write_amp(a: u64, b: u64) -> Waf { unimplemented!() }

/// `run.shrinking_windows().find(pred)` (src/slice_windows.rs: every yielded item is a non-empty contiguous window of the run;
/// std Iterator::find returns an item its predicate accepted).  Which window is found first is not part of the contract.
#[verifier::external_body]
fn find_shrinking_window<'a, P: FnMut(&&'a [Table]) -> bool>(run: &'a Run, pred: P) -> (r: Option<&'a [Table]>)
    requires forall|w: &'a [Table]| is_window(run.0@, w@) ==> call_requires(pred, (&w,)),
    ensures r is Some ==> is_window(run.0@, r->Some_0@) && call_ensures(pred, (&r->Some_0,), true),
{ unimplemented!() }
type Cand<'a> = (&'a [Table], &'a [Table], Waf, u64);
/// `run.growing_windows().take_while(c1).filter_map(c2).min_by_key(c3).map(c4)`: the result, if any, is c4 applied to a candidate
/// that c2 produced for some non-empty contiguous window of the run (take_while / min_by_key only select among them)
#[verifier::external_body]
fn pick_growing_window<'a, C1: FnMut(&&'a [Table]) -> bool, C2: FnMut(&'a [Table]) -> Option<Cand<'a>>, C4: FnOnce(Cand<'a>) -> (IdSet, bool)>(run: &'a Run, c1: C1, c2: C2, c4: C4) -> (r: Option<(IdSet, bool)>)
    requires forall|w: &'a [Table]| is_window(run.0@, w@) ==> call_requires(c1, (&w,)) && call_requires(c2, (w,)),
        forall|w: &'a [Table], c: Cand<'a>| is_window(run.0@, w@) && call_ensures(c2, (w,), Some(c)) ==> call_requires(c4, (c,)),
    ensures r is Some ==> exists|w: &'a [Table], c: Cand<'a>| is_window(run.0@, w@) && #[trigger] call_ensures(c2, (w,), Some(c)) && call_ensures(c4, (c,), r->Some_0),
{ unimplemented!() }

/// what a merge chosen by pick_minimal_compaction must contain (C01.40)
spec fn merge_closed(curr: Seq<Table>, next: Seq<Table>, ids: Set<u64>) -> bool {
    exists|wn: Seq<Table>, p: Seq<Table>, a: int, b: int| #[trigger] piece_at(next, wn, a) && #[trigger] piece_at(curr, p, b) && ids == ids_of(wn).union(ids_of(p))
        // every table of the next level that shares a key with a table taken from the current level is part of the merge
        && forall|i: int, j: int| 0 <= i < p.len() && 0 <= j < next.len() && shares_key(#[trigger] p[i], #[trigger] next[j]) ==> a <= j < a + wn.len()
}

/// what the candidate closure promises: the candidate is the window itself plus a piece of the current run lying inside its range
spec fn cand_ok(cu: Seq<Table>, w: &[Table], c: Cand) -> bool {
    c.0 == w && (exists|b: int| #[trigger] piece_at(cu, c.1@, b))
        && forall|i: int| 0 <= i < c.1@.len() ==> w@[0].lo <= (#[trigger] c.1@[i]).lo && c.1@[i].hi <= w@.last().hi
}
proof fn lemma_merge_closed(cu: Seq<Table>, nx: Seq<Table>, ids: Set<u64>)
    requires run_wf(cu), run_wf(nx), exists|w: &[Table], c: Cand| is_window(nx, w@) && #[trigger] cand_ok(cu, w, c) && ids == ids_of(c.0@).union(ids_of(c.1@)),
    ensures merge_closed(cu, nx, ids),
{
    let (w, c) = choose|w: &[Table], c: Cand| is_window(nx, w@) && #[trigger] cand_ok(cu, w, c) && ids == ids_of(c.0@).union(ids_of(c.1@));
    let a = choose|a: int| #[trigger] piece_at(nx, w@, a);
    let b = choose|b: int| #[trigger] piece_at(cu, c.1@, b);
    let wn = w@; let p = c.1@;
    assert(wn[0] == nx[a]); assert(wn.last() == nx[a + wn.len() - 1]);
    assert forall|i: int, j: int| 0 <= i < p.len() && 0 <= j < nx.len() && shares_key(#[trigger] p[i], #[trigger] nx[j]) implies a <= j < a + wn.len() by {
        if j < a { assert(nx[j].hi < nx[a].lo); }
        if j >= a + wn.len() { assert(nx[a + wn.len() - 1].hi < nx[j].lo); }
    }
    assert(piece_at(nx, wn, a) && piece_at(cu, p, b));
}

//@ FROM src/compaction/leveled/mod.rs :: - :: fn pick_minimal_compaction :: OBL C01.40, C07.16
//@ SUBST `HashSet < TableId >` ==> `IdSet`
//@ SUBST `Run < Table >` ==> `Run`
//@ SUBST `curr_run . shrinking_windows ( ) . find ( $1 )` ==> `find_shrinking_window(curr_run, $1)`
//@ SUBST `hidden_set . is_blocked ( $1 . iter ( ) . map ( Table :: id ) )` ==> `hidden_set.is_blocked_tables($1)`
//@ SUBST `let ids = window . iter ( ) . map ( Table :: id ) . collect ( ) ;` ==> `let ids = collect_ids(window);`
//@ SUBST `let mut ids : HashSet < _ > = window . iter ( ) . map ( Table :: id ) . collect ( ) ;` ==> `let mut ids = collect_ids(window);`
//@ SUBST `ids . extend ( curr_level_pull_in . iter ( ) . map ( Table :: id ) ) ;` ==> `ids.extend_ids(curr_level_pull_in);`
//@ SUBST `window . iter ( ) . map ( Table :: file_size ) . sum :: < u64 > ( )` ==> `sum_sizes(window)`
//@ SUBST `curr_level_pull_in . iter ( ) . map ( Table :: file_size ) . sum :: < u64 > ( )` ==> `sum_sizes(curr_level_pull_in)`
//@ SUBST `next_run . get_overlapping ( & key_range ) . is_empty ( )` ==> `slice_is_empty(next_run.get_overlapping(&key_range))`
//@ SUBST `( next_level_size as f32 ) / ( curr_level_size as f32 )` ==> `write_amp(next_level_size, curr_level_size)`
//@ SUBST `next_run . growing_windows ( ) . take_while ( $1 ) . filter_map ( $2 ) . min_by_key ( | ( _ , _ , _waf , bytes ) | * bytes ) . map ( | ( window , curr_level_pull_in , _ , _ ) | { $3 } )` ==> `pick_growing_window(next_run, $1, $2, |cand| { let (window, curr_level_pull_in, _, _) = cand; $3 })`
fn pick_minimal_compaction(
    curr_run: &Run,
    next_run: Option<&Run>,
    hidden_set: &HiddenSet,
    _overshoot: u64,
    table_base_size: u64,
) -> /*+*/(r:/*-*/ Option<(IdSet, bool)>/*+*/)
    requires run_wf(curr_run.0@), next_run is Some ==> run_wf(next_run->Some_0.0@),
        // the configured table target size is below 2^64 / 50 bytes (`50 * table_base_size` must not wrap)
        table_base_size <= u64::MAX / 50,
    ensures
        // a trivial move takes a window of the current level's run and nothing else
        r is Some && r->Some_0.1 ==> exists|w: Seq<Table>| #[trigger] is_window(curr_run.0@, w) && r->Some_0.0.view() == ids_of(w),
        // a merge is closed under "shares a key with" towards the next level   // @OBL C01.40, C07.16
        r is Some && !r->Some_0.1 ==> next_run is Some && merge_closed(curr_run.0@, next_run->Some_0.0@, r->Some_0.0.view()),/*-*/
{
    /*+*/let ghost cu0 = curr_run.0@;/*-*/
    // NOTE: Find largest trivial move (if it exists)
    if let Some(window) = find_shrinking_window(curr_run, |window/*+*/: &&[Table]/*-*/| /*+*/-> (b: bool) requires is_window(cu0, window@) {/*-*/ {
        if hidden_set.is_blocked_tables(window) {
            // IMPORTANT: Compaction is blocked because of other
            // on-going compaction
            return false;
        }

        let Some(next_run) = &next_run else {
            // No run in next level, so we can trivially move
            return true;
        };

        let key_range = aggregate_run_key_range(window);
        /*+*/proof { let a = choose|a: int| #[trigger] piece_at(cu0, window@, a); assert(window@[0] == cu0[a]); assert(window@.last() == cu0[a + window@.len() - 1]); }/*-*/

        slice_is_empty(next_run.get_overlapping(&key_range))
    }/*+*/ }/*-*/) {
        let ids = collect_ids(window);
        return Some((ids, true));
    }

    // NOTE: Look for merges
    if let Some(next_run) = &next_run {
        /*+*/let ghost nx = next_run.0@; let ghost cu = curr_run.0@;
        let r =/*-*/ pick_growing_window(next_run, |window/*+*/: &&[Table]/*-*/| /*+*/-> (b: bool) {/*-*/ {
                // Cap at 50x tables per compaction for now
                //
                // At this point, all compactions are too large anyway
                // so we can escape early
                let next_level_size = sum_sizes(window);
                next_level_size <= (50 * table_base_size)
            }/*+*/ }/*-*/, |window/*+*/: &[Table]/*-*/| /*+*/-> (o: Option<Cand>)
                requires is_window(nx, window@)
                ensures o is Some ==> cand_ok(cu, window, o->Some_0)
            {/*-*/ {
                if hidden_set.is_blocked_tables(window) {
                    // IMPORTANT: Compaction is blocked because of other
                    // on-going compaction
                    return None;
                }

                let key_range = aggregate_run_key_range(window);
                /*+*/proof { let a = choose|a: int| #[trigger] piece_at(nx, window@, a); assert(window@[0] == nx[a]); assert(window@.last() == nx[a + window@.len() - 1]); }/*-*/

                // Pull in all contained tables in current level into compaction
                let curr_level_pull_in = curr_run.get_contained(&key_range);

                let curr_level_size = sum_sizes(curr_level_pull_in);

                if curr_level_size == 0 {
                    return None;
                }

                // TODO: toggling this statement can deadlock compactions because if there are only larger-than-overshoot
                //  compactions, they would not be chosen
                // if curr_level_size < overshoot {
                //     return None;
                // }

                if hidden_set.is_blocked_tables(curr_level_pull_in) {
                    // IMPORTANT: Compaction is blocked because of other
                    // on-going compaction
                    return None;
                }

                let next_level_size = sum_sizes(window);

                let compaction_bytes = curr_level_size + next_level_size;

                let write_amp = write_amp(next_level_size, curr_level_size);

                /*+*/proof {
                    assert(exists|b: int| #[trigger] piece_at(cu, curr_level_pull_in@, b));
                    assert(forall|i: int| 0 <= i < curr_level_pull_in@.len() ==> window@[0].lo <= (#[trigger] curr_level_pull_in@[i]).lo && curr_level_pull_in@[i].hi <= window@.last().hi);
                }/*-*/
                Some((window, curr_level_pull_in, write_amp, compaction_bytes))
            }/*+*/ }/*-*/, |cand/*+*/: Cand/*-*/| /*+*/-> (q: (IdSet, bool)) ensures q.0.view() == ids_of(cand.0@).union(ids_of(cand.1@)), !q.1/*-*/ { let (window, curr_level_pull_in, _, _) = cand;
                let mut ids = collect_ids(window);
                ids.extend_ids(curr_level_pull_in);
                (ids, false)
            })/*+*/;
        proof { if r is Some { lemma_merge_closed(cu, nx, r->Some_0.0.view()); } }
        r/*-*/
    } else {
        None
    }
}
//@ END

// ---- leveled::Strategy::choose: the statements that build the L0 -> L1 compaction and the L1+ compaction ----
struct Level { runs: Vec<Run> }
/// every table of every run of the level
spec fn in_level(l: Level, t: Table) -> bool { exists|i: int, j: int| 0 <= i < l.runs@.len() && 0 <= j < l.runs@[i].0@.len() && #[trigger] l.runs@[i].0@[j] == t }
spec fn level_wf(l: Level) -> bool { forall|i: int| 0 <= i < l.runs@.len() ==> run_wf((#[trigger] l.runs@[i]).0@) }
impl Level {
    /// Level::list_ids: the ids of all tables of the level (src/version/mod.rs)
    #[verifier::external_body]
    fn list_ids(&self) -> (r: IdSet) ensures forall|t: Table| in_level(*self, t) ==> r.view().contains(#[trigger] t.id) { unimplemented!() }
    /// Level::aggregate_key_range covers every table of the level (KeyRange::aggregate, C01.10; Run::aggregate_key_range, C01.30)
    #[verifier::external_body]
    fn aggregate_key_range(&self) -> (r: KeyRange) ensures r.lo <= r.hi, forall|t: Table| #[trigger] in_level(*self, t) ==> r.lo <= t.lo && t.hi <= r.hi { unimplemented!() }
    #[verifier::external_body]
    fn is_disjoint(&self) -> (r: bool) ensures r == (self.runs@.len() == 1) { unimplemented!() }
    fn first_run(&self) -> (r: Option<&Run>) ensures self.runs@.len() > 0 ==> r == Some(&self.runs@[0]), self.runs@.len() == 0 ==> r is None
    { if self.runs.len() > 0 { Some(&self.runs[0]) } else { None } }
}
#[verifier::external_body] struct IdVec { p: u8 }
impl IdVec {
    uninterp spec fn view(&self) -> Set<u64>;
    #[verifier::external_body]
    fn is_empty(&self) -> (r: bool) ensures r == (self.view() =~= Set::<u64>::empty()) { unimplemented!() }
}
impl IdSet {
    /// `ids.extend(&vec_of_ids)`
    #[verifier::external_body]
    fn extend_vec(&mut self, v: &IdVec) ensures final(self).view() == old(self).view().union(v.view()) { unimplemented!() }
}
spec fn all_ids_in(s: Seq<Table>, ids: Set<u64>) -> bool { forall|j: int| 0 <= j < s.len() ==> ids.contains((#[trigger] s[j]).id) }
spec fn called_and_collected<'a, F: FnMut(&'a Run) -> &'a [Table]>(f: F, run: Run, ids: Set<u64>) -> bool { exists|s: &'a [Table]| #[trigger] call_ensures(f, (&run,), s) && all_ids_in(s@, ids) }
/// `level.iter().flat_map(f).map(Table::id).collect::<Vec<_>>()`: the ids of every table f yields for some run of the level
#[verifier::external_body]
fn flat_map_ids<'a, F: FnMut(&'a Run) -> &'a [Table]>(level: &'a Level, f: F) -> (r: IdVec)
    requires forall|i: int| 0 <= i < level.runs@.len() ==> call_requires(f, (&#[trigger] level.runs@[i],)),
    ensures forall|i: int| 0 <= i < level.runs@.len() ==> called_and_collected(f, #[trigger] level.runs@[i], r.view()),
{ unimplemented!() }

//@ FROM src/compaction/mod.rs :: - :: struct Input
//@ SUBST `HashSet < TableId >` ==> `IdSet`
struct Input {
    table_ids: IdSet,

    dest_level: u8,

    canonical_level: u8,

    target_size: u64,
}
//@ END
type CompactionInput = Input;
enum Choice { DoNothing, Move(CompactionInput), Merge(CompactionInput), Drop(IdSet) }
struct Strategy { target_size: u64 }
/// the chosen ids contain every table of `target` that shares a key with a table of `src`
spec fn pulls_in_overlapping(src: Level, target: Level, ids: Set<u64>) -> bool {
    forall|t: Table, u: Table| #[trigger] in_level(src, t) && #[trigger] in_level(target, u) && shares_key(t, u) ==> ids.contains(u.id)
}

//@ WRAPPER_BEGIN
impl Strategy {
    /// wrapper (generated, R10) around the statements of choose that build the L0 -> L1 compaction
    fn l0_into_l1(&self, first_level: &Level, target_level: &Level, canonical_l1_idx: usize) -> (r: Choice)
        requires level_wf(*first_level), level_wf(*target_level), canonical_l1_idx < 7,
        ensures (r is Move || r is Merge) && ({ let inp = if r is Move { r->Move_0 } else { r->Merge_0 };
            inp.dest_level == canonical_l1_idx
            // all of L0 is taken, together with EVERY table of the target level that shares a key with an L0 table   // @OBL C01.41, C07.17
            && (forall|t: Table| in_level(*first_level, t) ==> inp.table_ids.view().contains(#[trigger] t.id))
            && pulls_in_overlapping(*first_level, *target_level, inp.table_ids.view()) }),
    {
//@ FROM src/compaction/leveled/mod.rs :: CompactionStrategy for Strategy :: fn choose :: BLOCK 1 `if level_idx_with_highest_score == 0 {` :: STMTS `let mut table_ids =` .. `return Choice` :: OBL C01.41, C07.17
//@ SUBST `target_level . iter ( ) . flat_map ( $1 ) . map ( Table :: id ) . collect ( )` ==> `flat_map_ids(target_level, $1)`
//@ SUBST `let target_level_overlapping_table_ids : Vec < _ > =` ==> `let target_level_overlapping_table_ids =`
//@ SUBST `table_ids . extend ( & target_level_overlapping_table_ids ) ;` ==> `table_ids.extend_vec(&target_level_overlapping_table_ids);`
            let mut table_ids = first_level.list_ids();

            let key_range = first_level.aggregate_key_range();

            // Get overlapping tables in next level
            let target_level_overlapping_table_ids = flat_map_ids(target_level, |run/*+*/: &Run/*-*/| /*+*/-> (s: &[Table]) requires run_wf(run.0@)
                ensures exists|lo: int| #[trigger] piece_at(run.0@, s@, lo) && forall|i: int| 0 <= i < run.0@.len() && (#[trigger] run.0@[i]).lo <= key_range.hi && key_range.lo <= run.0@[i].hi ==> lo <= i < lo + s@.len() {/*-*/ run.get_overlapping(&key_range) /*+*/}/*-*/);

            table_ids.extend_vec(&target_level_overlapping_table_ids);

            let choice = CompactionInput {
                table_ids,
                dest_level: canonical_l1_idx as u8,
                canonical_level: 1,
                target_size: self.target_size,
            };
            /*+*/proof {
                assert forall|t: Table, u: Table| #[trigger] in_level(*first_level, t) && #[trigger] in_level(*target_level, u) && shares_key(t, u) implies choice.table_ids.view().contains(u.id) by {
                    let (i, j) = choose|i: int, j: int| 0 <= i < target_level.runs@.len() && 0 <= j < target_level.runs@[i].0@.len() && #[trigger] target_level.runs@[i].0@[j] == u;
                    let run = target_level.runs@[i];
                    assert(run_wf(run.0@));
                    let ghost_ids = target_level_overlapping_table_ids.view();
                    // the closure was called on this run and everything it returned was collected
                    assert(exists|s: &[Table]| #[trigger] all_ids_in(s@, ghost_ids) && (exists|lo: int| #[trigger] piece_at(run.0@, s@, lo) && forall|k: int| 0 <= k < run.0@.len() && (#[trigger] run.0@[k]).lo <= key_range.hi && key_range.lo <= run.0@[k].hi ==> lo <= k < lo + s@.len()));
                    let s = choose|s: &[Table]| #[trigger] all_ids_in(s@, ghost_ids) && (exists|lo: int| #[trigger] piece_at(run.0@, s@, lo) && forall|k: int| 0 <= k < run.0@.len() && (#[trigger] run.0@[k]).lo <= key_range.hi && key_range.lo <= run.0@[k].hi ==> lo <= k < lo + s@.len());
                    let lo = choose|lo: int| #[trigger] piece_at(run.0@, s@, lo) && forall|k: int| 0 <= k < run.0@.len() && (#[trigger] run.0@[k]).lo <= key_range.hi && key_range.lo <= run.0@[k].hi ==> lo <= k < lo + s@.len();
                    assert(run.0@[j] == u);
                    assert(lo <= j < lo + s@.len());
                    assert(s@[j - lo] == u);
                }
            }/*-*/

            if target_level_overlapping_table_ids.is_empty() && first_level.is_disjoint() {
                return Choice::Move(choice);
            }
            return Choice::Merge(choice);
//@ END
    }
}
//@ WRAPPER_END

struct Version { levels: Vec<Level> }
impl Version {
    fn level(&self, n: usize) -> (r: Option<&Level>) ensures n < self.levels@.len() ==> r == Some(&self.levels@[n as int]), n >= self.levels@.len() ==> r is None
    { if n < self.levels.len() { Some(&self.levels[n]) } else { None } }
}
struct CompactionState { hidden_set: HiddenSet }
impl CompactionState { fn hidden_set(&self) -> (r: &HiddenSet) ensures r == &self.hidden_set { &self.hidden_set } }

//@ WRAPPER_BEGIN
impl Strategy {
    /// wrapper (generated, R10) around the statements of choose that build an L1+ compaction from pick_minimal_compaction's answer
    fn l1_plus(&self, version: &Version, state: &CompactionState, level_idx_with_highest_score: usize, level_shift: usize, overshoot_bytes: u64) -> (r: Choice)
        requires forall|k: int| 0 <= k < version.levels@.len() ==> level_wf(#[trigger] version.levels@[k]),
            self.target_size <= u64::MAX / 50,
            // from the scoring part of choose (floats, not under contract): the index comes from a 7-element array, the scored level
            // is not empty, and the level shift does not exceed it
            level_idx_with_highest_score < 7, level_idx_with_highest_score < version.levels@.len() ==> version.levels@[level_idx_with_highest_score as int].runs@.len() > 0,
            level_shift <= level_idx_with_highest_score,
        ensures r is DoNothing || r is Move || r is Merge,
            // the destination is the ADJACENT level (no level is skipped), the ids are pick_minimal_compaction's   // @OBL C01.43, C07.20
            r is Move ==> r->Move_0.dest_level == level_idx_with_highest_score + 1,
            r is Merge ==> r->Merge_0.dest_level == level_idx_with_highest_score + 1 && level_idx_with_highest_score + 1 < version.levels@.len()
                && (merge_closed(version.levels@[level_idx_with_highest_score as int].runs@[0].0@, version.levels@[level_idx_with_highest_score + 1].runs@[0].0@, r->Merge_0.table_ids.view())
                    // or it is a trivial move that was turned into a merge because the level is not one run
                    || exists|w: Seq<Table>| #[trigger] is_window(version.levels@[level_idx_with_highest_score as int].runs@[0].0@, w) && r->Merge_0.table_ids.view() == ids_of(w)),
    {
//@ FROM src/compaction/leveled/mod.rs :: CompactionStrategy for Strategy :: fn choose :: STMTS `let curr_level_index =` .. `Choice` :: OBL C01.43, C07.20
//@ SUBST `debug_assert ! ( $1 ) ;` ==> ``
//@ SUBST `. map ( std :: ops :: Deref :: deref )` ==> ``
        let curr_level_index = level_idx_with_highest_score as u8;

        let next_level_index = curr_level_index + 1;

        let Some(level) = version.level(level_idx_with_highest_score) else {
            return Choice::DoNothing;
        };

        let Some(next_level) = version.level(next_level_index as usize) else {
            return Choice::DoNothing;
        };

        let Some((table_ids, can_trivial_move)) = pick_minimal_compaction(
            level.first_run().expect("should have exactly one run"),
            next_level.first_run(),
            state.hidden_set(),
            overshoot_bytes,
            self.target_size,
        ) else {
            return Choice::DoNothing;
        };

        let choice = CompactionInput {
            table_ids,
            dest_level: next_level_index,
            canonical_level: next_level_index - (level_shift as u8),
            target_size: self.target_size,
        };

        if can_trivial_move && level.is_disjoint() {
            return Choice::Move(choice);
        }
        Choice::Merge(choice)
//@ END
    }
}
//@ WRAPPER_END

impl Level {
    #[verifier::external_body]
    fn run_count(&self) -> (r: usize) ensures r == self.runs@.len() { unimplemented!() }
}
impl Version {
    /// Version::l0 = level 0 (src/version/mod.rs; the version always has its 7 levels)
    #[verifier::external_body]
    fn l0(&self) -> (r: &Level) requires self.levels@.len() > 0 ensures r == &self.levels@[0] { unimplemented!() }
    /// Version::level_is_busy: some table of that level is hidden (not needed by the contract below)
    #[verifier::external_body]
    fn level_is_busy(&self, idx: usize, hidden_set: &HiddenSet) -> (r: bool) { unimplemented!() }
}
/// `level.iter().flat_map(f).map(Table::id).next()`: the id of the first table f yields, if any (only its emptiness is used)
#[verifier::external_body]
fn first_flat_map_id<'a, F: FnMut(&'a Run) -> &'a [Table]>(level: &'a Level, f: F) -> (r: Option<u64>)
    requires forall|i: int| 0 <= i < level.runs@.len() ==> call_requires(f, (&#[trigger] level.runs@[i],)),
{ unimplemented!() }
/// `a.min(b)` on usize (std)
#[verifier::external_body]
fn usize_min(a: usize, b: usize) -> (r: usize) ensures r == if a <= b { a } else { b } { unimplemented!() }

//@ WRAPPER_BEGIN
impl Strategy {
    /// wrapper (generated, R24) around the labeled block `'trivial: { .. }` of choose (trivial move of L0 into the canonical L1)
    fn trivial_l1(&self, version: &Version, state: &CompactionState, first_non_empty_level: usize, canonical_l1_idx: usize) -> (r: Option<Choice>)
        requires version.levels@.len() == 7, forall|k: int| 0 <= k < 7 ==> level_wf(#[trigger] version.levels@[k]), first_non_empty_level < 7,
        ensures r is Some ==> r->Some_0 is Move && ({ let inp = r->Some_0->Move_0;
            // all of L0 moves (it is a single run), and never below the first non-empty level: it lands on top of it or above it   // @OBL C01.44, C07.21
            version.levels@[0].runs@.len() == 1 && inp.dest_level <= first_non_empty_level && inp.dest_level <= canonical_l1_idx
            && (forall|t: Table| in_level(version.levels@[0], t) ==> inp.table_ids.view().contains(#[trigger] t.id)) }),
    {
//@ FROM src/compaction/leveled/mod.rs :: CompactionStrategy for Strategy :: fn choose :: STMTS `'trivial : {` .. `'trivial : {` :: OBL C01.44, C07.21
//@ SUBST `'trivial : {` ==> `{`
//@ SUBST `break 'trivial ;` ==> `return None;`
//@ SUBST `return Choice :: Move ( $1 ) ;` ==> `return Some(Choice::Move($1));`
//@ SUBST `first_non_empty_level . min ( canonical_l1_idx )` ==> `usize_min(first_non_empty_level, canonical_l1_idx)`
//@ SUBST `target_level . iter ( ) . flat_map ( $1 ) . map ( Table :: id ) . next ( )` ==> `first_flat_map_id(target_level, $1)`
        {
            let first_level = version.l0();
            let target_level_idx = usize_min(first_non_empty_level, canonical_l1_idx);

            if first_level.run_count() == 1 {
                if version.level_is_busy(0, state.hidden_set())
                    || version.level_is_busy(target_level_idx, state.hidden_set())
                {
                    return None;
                }

                let Some(target_level) = &version.level(target_level_idx) else {
                    return None;
                };

                if target_level.run_count() != 1 {
                    return None;
                }

                let key_range = first_level.aggregate_key_range();

                // Get overlapping tables in next level
                let get_overlapping = first_flat_map_id(target_level, |run/*+*/: &Run/*-*/| /*+*/-> (s: &[Table]) requires run_wf(run.0@) {/*-*/ run.get_overlapping(&key_range) /*+*/}/*-*/);

                if get_overlapping.is_none() && first_level.is_disjoint() {
                    return Some(Choice::Move(CompactionInput {
                        table_ids: first_level.list_ids(),
                        dest_level: target_level_idx as u8,
                        canonical_level: 1,
                        target_size: self.target_size,
                    }));
                }
            }
        }
        /*+*/None/*-*/
//@ END
    }
}
//@ WRAPPER_END

} // verus!
fn main() {}
