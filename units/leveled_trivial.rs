//@ UNIT leveled_trivial
// leveled::Strategy::choose, the `'trivial_lmax` block (src/compaction/leveled/mod.rs): a disjoint L0 is moved straight into the
// last level only if *every* level in between is empty and the last level's key range does not overlap L0's - otherwise newer
// data would end up beneath older data of the same keys.  Obligations C07.10, C01.18
use vstd::prelude::*;
verus! {

global size_of usize == 8;

type TableId = u64;
#[verifier::external_body] struct KeyRange { p: u8 }
#[verifier::external_body] struct IdSet { p: u8 }
/// a level: its number of runs / tables, aggregate key range and table ids are ghost functions of it
struct Level { ghost runs: int, ghost tables: int, ghost range: int, ghost ids: Set<TableId> }
uninterp spec fn ranges_overlap(a: int, b: int) -> bool;
impl KeyRange {
    uninterp spec fn id(&self) -> int;
    #[verifier::external_body] fn overlaps_with_key_range(&self, other: &KeyRange) -> (r: bool) ensures r == ranges_overlap(self.id(), other.id()) { unimplemented!() }
}
impl IdSet { uninterp spec fn view(&self) -> Set<TableId>; }
impl Level {
    /// Level::is_empty / is_disjoint (= run_count() == 1) / aggregate_key_range / list_ids (src/version/mod.rs)
    #[verifier::external_body] fn is_empty(&self) -> (r: bool) ensures r == (self.runs == 0) { unimplemented!() }
    #[verifier::external_body] fn is_disjoint(&self) -> (r: bool) ensures r == (self.runs == 1) { unimplemented!() }
    #[verifier::external_body] fn aggregate_key_range(&self) -> (r: KeyRange) ensures r.id() == self.range { unimplemented!() }
    #[verifier::external_body] fn list_ids(&self) -> (r: IdSet) ensures r.view() == self.ids { unimplemented!() }
}
struct Version { levels: Vec<Level> }
impl Version {
    fn level(&self, n: usize) -> (r: Option<&Level>) ensures n < self.levels@.len() ==> r == Some(&self.levels@[n as int]), n >= self.levels@.len() ==> r is None
    { if n < self.levels.len() { Some(&self.levels[n]) } else { None } }
    fn level_count(&self) -> (r: usize) ensures r == self.levels@.len() { self.levels.len() }
}
spec fn in_range(lo: usize, hi: usize, i: usize) -> bool { lo <= i < hi }
/// `(lo..hi).any(f)` (std)
#[verifier::external_body]
fn range_any<F: Fn(usize) -> bool>(lo: usize, hi: usize, f: F) -> (r: bool)
    requires forall|i: usize| lo <= i < hi ==> call_requires(f, (i,))
    ensures r ==> exists|i: usize| lo <= i < hi && call_ensures(f, (i,), true), !r ==> forall|i: usize| #[trigger] in_range(lo, hi, i) ==> call_ensures(f, (i,), false)
{ unimplemented!() }

//@ FROM src/compaction/mod.rs :: - :: struct Input
//@ SUBST `HashSet < TableId >` ==> `IdSet`
struct Input {
    table_ids: IdSet,

    dest_level: u8,

    canonical_level: u8,

    target_size: u64,
}
//@ END
type CompactionInput = Input;
enum Choice { DoNothing, Move(CompactionInput), Merge(CompactionInput), Drop(IdSet) }
struct Strategy { target_size: u64 }

//@ WRAPPER_BEGIN
impl Strategy {
    /// wrapper (generated, rule R24) around the labeled block `'trivial_lmax: { .. }` of choose: `break 'trivial_lmax` becomes
    /// `return None` (fall through to the rest of choose), `return X` becomes `return Some(X)`
    fn trivial_lmax(&self, version: &Version) -> (r: Option<Choice>)
        requires version.levels@.len() == 7    // asserted at the top of choose
        ensures r is Some ==> r->Some_0 is Move && ({ let inp = r->Some_0->Move_0; let l0 = version.levels@[0]; let lmax = version.levels@[6];
            // L0 is one non-empty run, *all* of L1..L5 are empty, Lmax does not overlap L0, and exactly L0's tables move to Lmax
            l0.runs == 1 && (forall|i: int| 1 <= i < 6 ==> (#[trigger] version.levels@[i]).runs == 0)
            && !ranges_overlap(lmax.range, l0.range) && inp.table_ids.view() == l0.ids && inp.dest_level == 6 })
    {
//@ FROM src/compaction/leveled/mod.rs :: CompactionStrategy for Strategy :: fn choose :: STMTS `'trivial_lmax : {` .. `'trivial_lmax : {` :: OBL C07.10, C01.18
//@ SUBST `'trivial_lmax : {` ==> `{`
//@ SUBST `break 'trivial_lmax ;` ==> `return None;`
//@ SUBST `return Choice :: Move ( $1 ) ;` ==> `return Some(Choice::Move($1));`
//@ SUBST `( 1 .. lmax_index ) . any ( $1 )` ==> `range_any(1, lmax_index, $1)`
        {
            let l0 = version.level(0).expect("first level should exist");

            if !l0.is_empty() && l0.is_disjoint() {
                let lmax_index = version.level_count() - 1;

                if range_any(1, lmax_index, |idx/*+*/: usize/*-*/| /*+*/-> (b: bool) requires idx < 7 ensures b == (version.levels@[idx as int].runs != 0) {/*-*/ !version.level(idx).expect("level should exist").is_empty() /*+*/}/*-*/)
                {
                    // There are intermediary levels with data, cannot trivially move to Lmax
                    return None;
                }
                /*+*/proof { assert forall|i: int| 1 <= i < 6 implies (#[trigger] version.levels@[i]).runs == 0 by { assert(in_range(1, lmax_index, i as usize)); } }/*-*/

                let lmax = version.level(lmax_index).expect("last level should exist");

                if !lmax
                    .aggregate_key_range()
                    .overlaps_with_key_range(&l0.aggregate_key_range())
                {
                    return Some(Choice::Move(CompactionInput {
                        table_ids: l0.list_ids(),
                        dest_level: lmax_index as u8,
                        canonical_level: 1,
                        target_size: self.target_size,
                    }));
                }
            }
        }
        /*+*/None/*-*/
//@ END
    }
}
//@ WRAPPER_END

}
fn main() {}
